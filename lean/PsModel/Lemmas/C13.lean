import PsModel.Model.C13
import PsModel.Spec.C13
/-! helper lemmas for C13 (core Lean only): the invariant and its preservation by every atomic step -/
namespace PsModel.C13

set_option linter.unusedSectionVars false
variable {κ : Type} [DecidableEq κ]

@[simp] theorem upd_same {ι α : Type} [DecidableEq ι] (f : ι → α) (k : ι) (v : α) : upd f k v k = v := by
  simp [upd]
theorem upd_other {ι α : Type} [DecidableEq ι] (f : ι → α) (k x : ι) (v : α) (h : x ≠ k) :
    upd f k v x = f x := by simp [upd, h]
theorem upd_apply {ι α : Type} [DecidableEq ι] (f : ι → α) (k x : ι) (v : α) :
    upd f k v x = if x = k then v else f x := rfl

/-- the invariant of every reachable state -/
structure Inv (s : St κ) : Prop where
  own_names : ∀ k t, s.owner k = some t → k ∈ s.names t ∧ s.live t = true ∧ s.ours t = true ∧ s.entry t = true
  names_own : ∀ k t, k ∈ s.names t → s.owner k = some t
  nodup : ∀ t, (s.names t).Nodup
  displaced : ∀ k t, s.claimed k t = true → s.live t = true → s.owner k ≠ some t → Pending s t
  ours_iff : ∀ t, s.ours t = true ↔ (s.live t = true ∧ s.foreign t = false)
  live_started : ∀ t, s.live t = true → s.started t = true
  entry_live : ∀ t, s.entry t = true → s.live t = true
  parked_pending : ∀ t, s.parked t = true → s.live t = true ∧ Pending s t
  foreign_q : ∀ t, s.foreign t = true → Pending s t → s.selfEnq t = true
  pending_started : ∀ t, Pending s t → s.started t = true
  claimed_started : ∀ k t, s.claimed k t = true → s.started t = true
  no_keyerr : s.keyErr = false

/-- the part of the invariant that only concerns the two maps (it also survives an aborted `finally`, see C14) -/
structure MapsInv (s : St κ) : Prop where
  own : ∀ k t, s.owner k = some t → k ∈ s.names t ∧ s.entry t = true
  names_own : ∀ k t, k ∈ s.names t → s.owner k = some t
  nodup : ∀ t, (s.names t).Nodup

theorem Inv.maps {s : St κ} (h : Inv s) : MapsInv s :=
  ⟨fun k t e => ⟨(h.own_names k t e).1, (h.own_names k t e).2.2.2⟩, h.names_own, h.nodup⟩

theorem inv_init : Inv (init : St κ) := by
  constructor <;> simp [init, Pending]

theorem not_true_false {b : Bool} (h : ¬ b = true) : b = false := by cases b <;> simp_all

/-! ### spawn -/

theorem inv_spawn (s : St κ) (t : Task) (fg : Bool) (h : Inv s) : Inv (spawnStep s t fg) := by
  unfold spawnStep
  by_cases hs : s.started t = true
  · simp only [hs, if_true]; exact h
  · simp only [hs, Bool.false_eq_true, if_false]
    obtain ⟨h1, h2, h3, h4, h5, h6, h7, h8, h9, h10, h11, h12⟩ := h
    have hnl : ¬ s.live t = true := fun hl => hs (h6 t hl)
    have hne : ∀ u, s.live u = true → u ≠ t := fun u hu e => hnl (e ▸ hu)
    refine ⟨?_, h2, h3, ?_, ?_, ?_, ?_, ?_, ?_, ?_, ?_, h12⟩
    · intro k u hu
      obtain ⟨a, b, c, d⟩ := h1 k u hu
      have hut := hne u b
      simp only [upd_other _ _ _ _ hut]
      exact ⟨a, b, c, d⟩
    · intro k u hc hl ho
      by_cases hut : u = t
      · subst hut; exact absurd (h11 k u hc) hs
      · simp only [upd_other _ _ _ _ hut] at hl
        exact h4 k u hc hl ho
    · intro u
      by_cases hut : u = t
      · subst hut; simp only [upd_same]; cases fg <;> simp
      · simp only [upd_other _ _ _ _ hut]; exact h5 u
    · intro u hl
      by_cases hut : u = t
      · subst hut; simp
      · simp only [upd_other _ _ _ _ hut] at hl ⊢; exact h6 u hl
    · intro u he
      have hut := hne u (h7 u he)
      simp only [upd_other _ _ _ _ hut]; exact h7 u he
    · intro u hp
      have := h8 u hp
      have hut := hne u this.1
      simp only [upd_other _ _ _ _ hut]; exact this
    · intro u hf hp
      by_cases hut : u = t
      · subst hut; exact absurd (h10 u hp) hs
      · simp only [upd_other _ _ _ _ hut] at hf; exact h9 u hf hp
    · intro u hp
      by_cases hut : u = t
      · subst hut; simp
      · simp only [upd_other _ _ _ _ hut]; exact h10 u hp
    · intro k u hc
      by_cases hut : u = t
      · subst hut; simp
      · simp only [upd_other _ _ _ _ hut]; exact h11 k u hc

/-! ### reaper queue -/

theorem pending_enqueue (s : St κ) (o u : Task) : Pending (enqueue s o) u ↔ Pending s u ∨ u = o := by
  simp only [Pending, enqueue, List.mem_append, List.mem_singleton]
  constructor
  · rintro ((h | h) | h)
    · exact Or.inl (Or.inl h)
    · exact Or.inr h
    · exact Or.inl (Or.inr h)
  · rintro ((h | h) | h)
    · exact Or.inl (Or.inl h)
    · exact Or.inr h
    · exact Or.inl (Or.inr h)

theorem inv_enqueue (s : St κ) (o : Task) (h : Inv s) (hst : s.started o = true)
    (hf : s.foreign o = true → s.selfEnq o = true) : Inv (enqueue s o) := by
  obtain ⟨h1, h2, h3, h4, h5, h6, h7, h8, h9, h10, h11, h12⟩ := h
  refine ⟨h1, h2, h3, ?_, h5, h6, h7, ?_, ?_, ?_, h11, h12⟩
  · intro k u hc hl ho
    exact (pending_enqueue s o u).2 (Or.inl (h4 k u hc hl ho))
  · intro u hp
    exact ⟨(h8 u hp).1, (pending_enqueue s o u).2 (Or.inl (h8 u hp).2)⟩
  · intro u hfu hp
    rcases (pending_enqueue s o u).1 hp with hp | rfl
    · exact h9 u hfu hp
    · exact hf hfu
  · intro u hp
    rcases (pending_enqueue s o u).1 hp with hp | rfl
    · exact h10 u hp
    · exact hst

theorem pending_park (s : St κ) (t u : Task) : Pending (park s t) u ↔ Pending s u ∨ u = t :=
  pending_enqueue s t u

theorem inv_park (s : St κ) (t : Task) (h : Inv s) (hl : s.live t = true) : Inv (park s t) := by
  obtain ⟨h1, h2, h3, h4, h5, h6, h7, h8, h9, h10, h11, h12⟩ := h
  refine ⟨h1, h2, h3, ?_, h5, h6, h7, ?_, ?_, ?_, h11, h12⟩
  · intro k u hc hlu ho
    exact (pending_park s t u).2 (Or.inl (h4 k u hc hlu ho))
  · intro u hp
    by_cases hut : u = t
    · subst hut; exact ⟨hl, (pending_park s u u).2 (Or.inr rfl)⟩
    · have hp' : s.parked u = true := by simpa [park, enqueue, upd_other _ _ _ _ hut] using hp
      exact ⟨(h8 u hp').1, (pending_park s t u).2 (Or.inl (h8 u hp').2)⟩
  · intro u hfu hp
    by_cases hut : u = t
    · subst hut; simp [park]
    · have : (park s t).selfEnq u = s.selfEnq u := by simp [park, upd_other _ _ _ _ hut]
      rw [this]
      rcases (pending_park s t u).1 hp with hp | e
      · exact h9 u hfu hp
      · exact absurd e hut
  · intro u hp
    rcases (pending_park s t u).1 hp with hp | rfl
    · exact h10 u hp
    · exact h6 u hl

theorem inv_killPrev (s : St κ) (t o : Task) (k : κ) (h : Inv s) (hown : s.owner k = some o) :
    Inv (killPrev s t o) := by
  unfold killPrev
  split
  · rename_i hc
    obtain ⟨_, _, ho, _⟩ := h.own_names k o hown
    apply inv_enqueue s o h (h.live_started o ((h.ours_iff o).1 ho).1)
    intro hf; have := ((h.ours_iff o).1 ho).2; simp [hf] at this
  · exact h

theorem pending_killPrev (s : St κ) (t o u : Task) (h : Pending s u) : Pending (killPrev s t o) u := by
  unfold killPrev; split
  · exact (pending_enqueue s o u).2 (Or.inl h)
  · exact h

/-! ### the claim block -/

/-- `unique_task2name` after the optional `discard` of the previous owner -/
def names1 (s : St κ) (k : κ) : Task → List κ :=
  match s.owner k with
  | some o => (discard s o k).names
  | none => s.names

theorem claim_eq (s : St κ) (t : Task) (k : κ) (ho : s.ours t = true) :
    claim s t k = { s with owner := upd s.owner k (some t), entry := upd s.entry t true,
                           names := upd (names1 s k) t (if k ∈ names1 s k t then names1 s k t else k :: names1 s k t),
                           claimed := upd s.claimed k (upd (s.claimed k) t true) } := by
  unfold claim names1
  simp only [ho, if_true]
  cases hk : s.owner k with
  | none => simp [setOwner]
  | some o =>
    simp only [setOwner, discard]
    split <;> rfl

theorem claim_not_ours (s : St κ) (t : Task) (k : κ) (ho : ¬ s.ours t = true) : claim s t k = s := by
  unfold claim; simp [ho]

theorem mem_names1 (s : St κ) (k x : κ) (u : Task) (h : MapsInv s) :
    x ∈ names1 s k u ↔ x ≠ k ∧ x ∈ s.names u := by
  unfold names1
  cases hk : s.owner k with
  | none =>
    simp only []
    constructor
    · intro hx
      refine ⟨?_, hx⟩
      intro e; subst e
      have := h.names_own x u hx
      rw [hk] at this; cases this
    · exact fun hx => hx.2
  | some o =>
    obtain ⟨_, he⟩ := h.own k o hk
    simp only [discard, he, if_true]
    by_cases huo : u = o
    · subst huo
      simp only [upd_same, List.mem_filter, decide_eq_true_eq, ne_eq]
      exact ⟨fun ⟨a, b⟩ => ⟨b, a⟩, fun ⟨a, b⟩ => ⟨b, a⟩⟩
    · simp only [upd_other _ _ _ _ huo]
      constructor
      · intro hx
        refine ⟨?_, hx⟩
        intro e; subst e
        have := h.names_own x u hx
        rw [hk] at this; cases this; exact huo rfl
      · exact fun hx => hx.2

theorem nodup_names1 (s : St κ) (k : κ) (u : Task) (h : MapsInv s) : (names1 s k u).Nodup := by
  unfold names1
  cases hk : s.owner k with
  | none => exact h.nodup u
  | some o =>
    simp only [discard]
    split
    · by_cases huo : u = o
      · subst huo; simp only [upd_same]
        exact (h.nodup u).sublist List.filter_sublist
      · simp only [upd_other _ _ _ _ huo]; exact h.nodup u
    · exact h.nodup u

theorem mem_claim_names (s : St κ) (t u : Task) (k x : κ) (h : MapsInv s) (ho : s.ours t = true) :
    x ∈ (claim s t k).names u ↔ (x = k ∧ u = t) ∨ (x ≠ k ∧ x ∈ s.names u) := by
  rw [claim_eq s t k ho]
  simp only []
  by_cases hut : u = t
  · subst hut
    simp only [upd_same]
    have hm := mem_names1 s k x u h
    split
    · rename_i hk
      rw [hm]
      constructor
      · exact fun hx => Or.inr hx
      · rintro (⟨e, _⟩ | hx)
        · subst e; exact (mem_names1 s x x u h).1 hk
        · exact hx
    · simp only [List.mem_cons, hm]
      constructor
      · rintro (e | hx)
        · exact Or.inl ⟨e, trivial⟩
        · exact Or.inr hx
      · rintro (⟨e, _⟩ | hx)
        · exact Or.inl e
        · exact Or.inr hx
  · simp only [upd_other _ _ _ _ hut, mem_names1 s k x u h]
    constructor
    · exact fun hx => Or.inr hx
    · rintro (⟨_, e⟩ | hx)
      · exact absurd e hut
      · exact hx

theorem nodup_claim_names (s : St κ) (t u : Task) (k : κ) (h : MapsInv s) (ho : s.ours t = true) :
    ((claim s t k).names u).Nodup := by
  rw [claim_eq s t k ho]
  simp only []
  by_cases hut : u = t
  · subst hut
    simp only [upd_same]
    split
    · exact nodup_names1 s k u h
    · rename_i hk
      exact List.nodup_cons.2 ⟨hk, nodup_names1 s k u h⟩
  · simp only [upd_other _ _ _ _ hut]; exact nodup_names1 s k u h

/-- claiming `k` when the previous owner (if it is another task) already has a cancel pending -/
theorem inv_claim (s : St κ) (t : Task) (k : κ) (h : Inv s) (hl : s.live t = true)
    (hprev : ∀ o, s.owner k = some o → o ≠ t → Pending s o) : Inv (claim s t k) := by
  by_cases hno : ¬ s.ours t = true
  · rw [claim_not_ours s t k hno]; exact h
  have ho : s.ours t = true := Classical.not_not.1 hno
  have hmem := fun u x => mem_claim_names s t u k x h.maps ho
  have hnd := fun u => nodup_claim_names s t u k h.maps ho
  have hfields := claim_eq s t k ho
  obtain ⟨h1, h2, h3, h4, h5, h6, h7, h8, h9, h10, h11, h12⟩ := h
  have hpend : ∀ u, Pending (claim s t k) u ↔ Pending s u := by
    intro u; rw [hfields]; exact Iff.rfl
  have hown : (claim s t k).owner = upd s.owner k (some t) := by rw [hfields]
  have hent : (claim s t k).entry = upd s.entry t true := by rw [hfields]
  have hcl : (claim s t k).claimed = upd s.claimed k (upd (s.claimed k) t true) := by rw [hfields]
  have hlive : (claim s t k).live = s.live := by rw [hfields]
  have hours : (claim s t k).ours = s.ours := by rw [hfields]
  have hstart : (claim s t k).started = s.started := by rw [hfields]
  have hfor : (claim s t k).foreign = s.foreign := by rw [hfields]
  have hpark : (claim s t k).parked = s.parked := by rw [hfields]
  have hself : (claim s t k).selfEnq = s.selfEnq := by rw [hfields]
  have hke : (claim s t k).keyErr = s.keyErr := by rw [hfields]
  constructor
  · intro m u hu
    rw [hown] at hu
    rw [hmem, hlive, hours, hent]
    by_cases hm : m = k
    · subst hm
      simp only [upd_same, Option.some.injEq] at hu
      subst hu
      simp [hl, ho]
    · simp only [upd_other _ _ _ _ hm] at hu
      obtain ⟨a, b, c, d⟩ := h1 m u hu
      refine ⟨Or.inr ⟨hm, a⟩, b, c, ?_⟩
      simp only [upd_apply]; split <;> simp [d]
  · intro m u hu
    rw [hmem] at hu
    rw [hown]
    rcases hu with ⟨e1, e2⟩ | ⟨hm, hx⟩
    · subst e1; subst e2; simp
    · simp only [upd_other _ _ _ _ hm]; exact h2 m u hx
  · exact hnd
  · intro m u hc hlu hou
    rw [hpend]
    rw [hcl] at hc
    rw [hlive] at hlu
    rw [hown] at hou
    by_cases hm : m = k
    · subst hm
      simp only [upd_same] at hc hou
      by_cases hut : u = t
      · subst hut; exact absurd rfl hou
      · simp only [upd_other _ _ _ _ hut] at hc
        by_cases hprevown : s.owner m = some u
        · exact hprev u hprevown hut
        · exact h4 m u hc hlu hprevown
    · simp only [upd_other _ _ _ _ hm] at hc hou
      exact h4 m u hc hlu hou
  · intro u; rw [hours, hlive, hfor]; exact h5 u
  · intro u; rw [hlive, hstart]; exact h6 u
  · intro u; rw [hent, hlive]
    simp only [upd_apply]
    split
    · rename_i e; subst e; exact fun _ => hl
    · exact h7 u
  · intro u; rw [hpark, hlive, hpend]; exact h8 u
  · intro u; rw [hfor, hpend, hself]; exact h9 u
  · intro u; rw [hpend, hstart]; exact h10 u
  · intro m u; rw [hcl, hstart]
    by_cases hm : m = k
    · subst hm
      simp only [upd_same]
      by_cases hut : u = t
      · subst hut; exact fun _ => h6 u hl
      · simp only [upd_other _ _ _ _ hut]; exact h11 m u
    · simp only [upd_other _ _ _ _ hm]; exact h11 m u
  · rw [hke]; exact h12

/-! ### `task_unique` -/

theorem canStep_live (s : St κ) (t : Task) (h : canStep s t = true) : s.live t = true ∧ s.parked t = false := by
  unfold canStep at h
  cases hl : s.live t <;> cases hp : s.parked t <;> simp_all

theorem inv_unique (s : St κ) (t : Task) (k : κ) (km : Bool) (h : Inv s) : Inv (uniqueStep s t k km) := by
  unfold uniqueStep
  by_cases hc : canStep s t = true
  · obtain ⟨hl, _⟩ := canStep_live s t hc
    simp only [hc, Bool.not_true, Bool.false_eq_true, if_false]
    cases hown : s.owner k with
    | none =>
      simp only []
      exact inv_claim s t k h hl (by intro o h'; rw [hown] at h'; cases h')
    | some o =>
      simp only []
      cases km
      · simp only [Bool.false_eq_true, if_false]
        have hk := inv_killPrev s t o k h hown
        have hl' : (killPrev s t o).live t = true := by unfold killPrev; split <;> exact hl
        apply inv_claim _ t k hk hl'
        intro o' ho' hne
        have hoo : (killPrev s t o).owner = s.owner := by unfold killPrev; split <;> rfl
        rw [hoo, hown] at ho'
        cases ho'
        obtain ⟨_, _, hours, _⟩ := h.own_names k o hown
        unfold killPrev
        simp only [ne_eq, hne, not_false_eq_true, hours, and_self, if_true]
        exact (pending_enqueue s o o).2 (Or.inr rfl)
      · simp only [if_true]
        by_cases hot : o = t
        · subst hot
          simp only [ne_eq, not_true_eq_false, if_false]
          exact inv_claim s o k h hl (by intro o' h' hne; rw [hown] at h'; cases h'; exact absurd rfl hne)
        · simp only [ne_eq, hot, not_false_eq_true, if_true]
          exact inv_park s t h hl
  · have : canStep s t = false := not_true_false hc
    simp only [this, Bool.not_false, if_true]; exact h

/-! ### the reaper -/

theorem pending_reapCfg_of (aw : Bool) (s : St κ) (u : Task) (h : Pending (reapStepCfg aw s) u) : Pending s u := by
  unfold reapStepCfg at h
  split at h
  · exact h
  · split at h
    · exact h
    · rename_i hd q hq
      split at h
      · rcases h with h | h
        · exact Or.inl (by rw [hq]; exact List.mem_cons_of_mem _ h)
        · simp only [upd_apply] at h
          split at h
          · rename_i e; subst e; exact Or.inl (by rw [hq]; exact List.mem_cons_self)
          · exact Or.inr h
      · rcases h with h | h
        · exact Or.inl (by rw [hq]; exact List.mem_cons_of_mem _ h)
        · exact Or.inr h

theorem pending_reapCfg (aw : Bool) (s : St κ) (u : Task) (h : Pending s u) (hl : s.live u = true) :
    Pending (reapStepCfg aw s) u := by
  unfold reapStepCfg
  split
  · exact h
  · split
    · exact h
    · rename_i hd q hq
      rcases h with h | h
      · rw [hq] at h
        rcases List.mem_cons.1 h with e | h
        · subst e
          simp only [hl, if_true]
          exact Or.inr (by simp)
        · split
          · exact Or.inl h
          · exact Or.inl h
      · split
        · refine Or.inr ?_
          simp only [upd_apply]; split <;> simp [h]
        · exact Or.inr h

theorem reapCfg_fields (aw : Bool) (s : St κ) :
    (reapStepCfg aw s).owner = s.owner ∧ (reapStepCfg aw s).names = s.names ∧ (reapStepCfg aw s).entry = s.entry ∧
    (reapStepCfg aw s).ours = s.ours ∧ (reapStepCfg aw s).live = s.live ∧ (reapStepCfg aw s).started = s.started ∧
    (reapStepCfg aw s).foreign = s.foreign ∧ (reapStepCfg aw s).parked = s.parked ∧ (reapStepCfg aw s).keyErr = s.keyErr ∧
    (reapStepCfg aw s).claimed = s.claimed ∧ (reapStepCfg aw s).selfEnq = s.selfEnq := by
  unfold reapStepCfg
  split
  · simp
  · split
    · simp
    · split <;> simp

theorem inv_reapCfg (aw : Bool) (s : St κ) (h : Inv s) : Inv (reapStepCfg aw s) := by
  obtain ⟨e1, e2, e3, e4, e5, e6, e7, e8, e9, e10, e11⟩ := reapCfg_fields aw s
  obtain ⟨h1, h2, h3, h4, h5, h6, h7, h8, h9, h10, h11, h12⟩ := h
  constructor
  · intro k t; rw [e1, e2, e5, e4, e3]; exact h1 k t
  · intro k t; rw [e1, e2]; exact h2 k t
  · intro t; rw [e2]; exact h3 t
  · intro k t; rw [e10, e5, e1]
    intro hc hl ho
    exact pending_reapCfg aw s t (h4 k t hc hl ho) hl
  · intro t; rw [e4, e5, e7]; exact h5 t
  · intro t; rw [e5, e6]; exact h6 t
  · intro t; rw [e3, e5]; exact h7 t
  · intro t; rw [e8, e5]
    intro hp
    exact ⟨(h8 t hp).1, pending_reapCfg aw s t (h8 t hp).2 (h8 t hp).1⟩
  · intro t; rw [e7, e11]
    intro hf hp
    exact h9 t hf (pending_reapCfg_of aw s t hp)
  · intro t; rw [e6]
    intro hp
    exact h10 t (pending_reapCfg_of aw s t hp)
  · intro k t; rw [e10, e6]; exact h11 k t
  · rw [e9]; exact h12

theorem pending_reap_of (s : St κ) (u : Task) (h : Pending (reapStep s) u) : Pending s u :=
  pending_reapCfg_of _ s u h

theorem pending_reap (s : St κ) (u : Task) (h : Pending s u) (hl : s.live u = true) : Pending (reapStep s) u :=
  pending_reapCfg _ s u h hl

theorem reap_fields (s : St κ) :
    (reapStep s).owner = s.owner ∧ (reapStep s).names = s.names ∧ (reapStep s).entry = s.entry ∧
    (reapStep s).ours = s.ours ∧ (reapStep s).live = s.live ∧ (reapStep s).started = s.started ∧
    (reapStep s).foreign = s.foreign ∧ (reapStep s).parked = s.parked ∧ (reapStep s).keyErr = s.keyErr ∧
    (reapStep s).claimed = s.claimed ∧ (reapStep s).selfEnq = s.selfEnq :=
  reapCfg_fields _ s

theorem inv_reap (s : St κ) (h : Inv s) : Inv (reapStep s) := inv_reapCfg _ s h

/-! ### exit: the `finally` of `run_coro` -/

theorem delStop_spec (ks : List κ) : ∀ (owner : κ → Option Task), ks.Nodup → (∀ k ∈ ks, owner k ≠ none) →
    delErr owner ks = false ∧ delStop owner ks = fun x => if x ∈ ks then none else owner x := by
  induction ks with
  | nil => intro owner _ _; simp [delErr, delStop]
  | cons k ks ih =>
    intro owner hnd hall
    obtain ⟨hk, hnd'⟩ := List.nodup_cons.1 hnd
    have hok : (owner k).isNone = false := by
      have := hall k List.mem_cons_self
      cases h : owner k <;> simp_all
    have hall' : ∀ k' ∈ ks, upd owner k none k' ≠ none := by
      intro k' hk'
      have : k' ≠ k := by intro e; subst e; exact hk hk'
      rw [upd_other _ _ _ _ this]
      exact hall k' (List.mem_cons_of_mem _ hk')
    obtain ⟨a, b⟩ := ih (upd owner k none) hnd' hall'
    refine ⟨by simp [delErr, hok, a], ?_⟩
    simp only [delStop, hok, Bool.false_eq_true, if_false, b]
    funext x
    simp only [List.mem_cons, upd_apply]
    by_cases hx : x = k
    · simp [hx]
    · simp [hx]

theorem exit_ok (s : St κ) (t : Task) (h : MapsInv s) :
    delErr s.owner (s.names t) = false ∧
    delStop s.owner (s.names t) = fun x => if x ∈ s.names t then none else s.owner x :=
  delStop_spec (s.names t) s.owner (h.nodup t) (by
    intro k hk e
    have := h.names_own k t hk
    rw [this] at e; cases e)

/-- closed form of the exit step in reachable states -/
theorem exit_eq (s : St κ) (t : Task) (h : MapsInv s) (hl : s.live t = true) :
    exitStep s t = { s with owner := fun x => if x ∈ s.names t then none else s.owner x,
                            names := upd s.names t [], entry := upd s.entry t false,
                            ours := upd s.ours t false, live := upd s.live t false,
                            parked := upd s.parked t false } := by
  obtain ⟨a, b⟩ := exit_ok s t h
  unfold exitStep
  simp only [hl, Bool.not_true, Bool.false_eq_true, if_false, a, b]
  split
  · rfl
  · rename_i he
    have hnil : s.names t = [] := by
      cases hn : s.names t with
      | nil => rfl
      | cons k ks =>
        have hk : k ∈ s.names t := by rw [hn]; exact List.mem_cons_self
        exact absurd (h.own k t (h.names_own k t hk)).2 he
    have he' : s.entry t = false := not_true_false he
    have e1 : (fun x => if x ∈ s.names t then none else s.owner x) = s.owner := by
      funext x; simp [hnil]
    have e2 : upd s.names t [] = s.names := by
      funext u; simp only [upd_apply]; split
      · rename_i e; subst e; exact hnil.symm
      · rfl
    have e3 : upd s.entry t false = s.entry := by
      funext u; simp only [upd_apply]; split
      · rename_i e; subst e; exact he'.symm
      · rfl
    rw [e1, e2, e3]

theorem exit_dead (s : St κ) (t : Task) (hl : ¬ s.live t = true) : exitStep s t = s := by
  unfold exitStep; simp [not_true_false hl]

theorem inv_exit (s : St κ) (t : Task) (h : Inv s) : Inv (exitStep s t) := by
  by_cases hnl : ¬ s.live t = true
  · rw [exit_dead s t hnl]; exact h
  have hl : s.live t = true := Classical.not_not.1 hnl
  rw [exit_eq s t h.maps hl]
  obtain ⟨h1, h2, h3, h4, h5, h6, h7, h8, h9, h10, h11, h12⟩ := h
  constructor
  · intro k u hu
    simp only [] at hu ⊢
    split at hu
    · cases hu
    · rename_i hk
      obtain ⟨a, b, c, d⟩ := h1 k u hu
      have hut : u ≠ t := by intro e; subst e; exact hk a
      simp only [upd_other _ _ _ _ hut]
      exact ⟨a, b, c, d⟩
  · intro k u hu
    simp only [] at hu ⊢
    by_cases hut : u = t
    · subst hut; simp at hu
    · simp only [upd_other _ _ _ _ hut] at hu
      have hk : k ∉ s.names t := by
        intro hk
        have e1 := h2 k t hk
        have e2 := h2 k u hu
        rw [e1] at e2; cases e2; exact hut rfl
      simp only [hk, if_false]
      exact h2 k u hu
  · intro u
    simp only [upd_apply]; split
    · exact List.nodup_nil
    · exact h3 u
  · intro k u hc hlu ho
    simp only [] at hc hlu ho
    have hut : u ≠ t := by intro e; subst e; simp at hlu
    simp only [upd_other _ _ _ _ hut] at hlu
    refine (h4 k u hc hlu ?_)
    intro e
    apply ho
    have hk : k ∉ s.names t := by
      intro hk
      have e1 := h2 k t hk
      rw [e1] at e; cases e; exact hut rfl
    simp only [hk, if_false]; exact e
  · intro u
    simp only [upd_apply]
    split
    · simp
    · exact h5 u
  · intro u hlu
    simp only [upd_apply] at hlu
    split at hlu
    · cases hlu
    · exact h6 u hlu
  · intro u he
    simp only [upd_apply] at he ⊢
    split at he
    · cases he
    · rename_i hut; simp only [hut, if_false]; exact h7 u he
  · intro u hp
    simp only [upd_apply] at hp ⊢
    split at hp
    · cases hp
    · rename_i hut; simp only [hut, if_false]; exact h8 u hp
  · exact h9
  · exact h10
  · exact h11
  · exact h12

theorem inv_decoNew (s : St κ) (t : Task) (k : κ) (km : Bool) (h : Inv s) : Inv (decoNewStep s t k km) := by
  unfold decoNewStep; split
  · exact inv_unique s t k false h
  · exact h

/-- the end of a task's body releases nothing and cancels nobody: it only ends the kill-me halt -/
theorem endBody_fields (s : St κ) (t : Task) :
    (endBodyStep s t).owner = s.owner ∧ (endBodyStep s t).names = s.names ∧ (endBodyStep s t).entry = s.entry ∧
    (endBodyStep s t).ours = s.ours ∧ (endBodyStep s t).live = s.live ∧ (endBodyStep s t).started = s.started ∧
    (endBodyStep s t).foreign = s.foreign ∧ (endBodyStep s t).reaperQ = s.reaperQ ∧
    (endBodyStep s t).cancelReq = s.cancelReq ∧ (endBodyStep s t).keyErr = s.keyErr ∧
    (endBodyStep s t).claimed = s.claimed ∧ (endBodyStep s t).selfEnq = s.selfEnq ∧
    (∀ u, (endBodyStep s t).parked u = true → s.parked u = true) := by
  unfold endBodyStep
  split
  · refine ⟨rfl, rfl, rfl, rfl, rfl, rfl, rfl, rfl, rfl, rfl, rfl, rfl, ?_⟩
    intro u hu
    simp only [upd_apply] at hu
    split at hu
    · cases hu
    · exact hu
  · exact ⟨rfl, rfl, rfl, rfl, rfl, rfl, rfl, rfl, rfl, rfl, rfl, rfl, fun _ h => h⟩

theorem inv_endBody (s : St κ) (t : Task) (h : Inv s) : Inv (endBodyStep s t) := by
  obtain ⟨e1, e2, e3, e4, e5, e6, e7, e8, e9, e10, e11, e12, e13⟩ := endBody_fields s t
  have hp : ∀ u, Pending (endBodyStep s t) u ↔ Pending s u := by
    intro u; unfold Pending; rw [e8, e9]
  obtain ⟨h1, h2, h3, h4, h5, h6, h7, h8, h9, h10, h11, h12⟩ := h
  refine ⟨?_, ?_, ?_, ?_, ?_, ?_, ?_, ?_, ?_, ?_, ?_, ?_⟩
  · intro k u e; rw [e1] at e; rw [e2, e5, e4, e3]; exact h1 k u e
  · intro k u hk; rw [e2] at hk; rw [e1]; exact h2 k u hk
  · intro u; rw [e2]; exact h3 u
  · intro k u hc hl ho; rw [e11] at hc; rw [e5] at hl; rw [e1] at ho; exact (hp u).2 (h4 k u hc hl ho)
  · intro u; rw [e4, e5, e7]; exact h5 u
  · intro u hl; rw [e5] at hl; rw [e6]; exact h6 u hl
  · intro u he; rw [e3] at he; rw [e5]; exact h7 u he
  · intro u hu
    have := h8 u (e13 u hu)
    rw [e5]; exact ⟨this.1, (hp u).2 this.2⟩
  · intro u hf hpu; rw [e7] at hf; rw [e12]; exact h9 u hf ((hp u).1 hpu)
  · intro u hpu; rw [e6]; exact h10 u ((hp u).1 hpu)
  · intro k u hc; rw [e11] at hc; rw [e6]; exact h11 k u hc
  · rw [e10]; exact h12

theorem inv_step (s : St κ) (op : Op κ) (h : Inv s) : Inv (step s op) := by
  cases op with
  | endBody t => exact inv_endBody s t h
  | spawn t fg => exact inv_spawn s t fg h
  | unique t k km => exact inv_unique s t k km h
  | reap => exact inv_reap s h
  | exit t => exact inv_exit s t h
  | decoNew t k km => exact inv_decoNew s t k km h

theorem inv_foldl (ops : List (Op κ)) : ∀ s : St κ, Inv s → Inv (ops.foldl step s) := by
  induction ops with
  | nil => intro s h; exact h
  | cons op ops ih => intro s h; exact ih _ (inv_step s op h)

theorem inv_run (ops : List (Op κ)) : Inv (run ops) := inv_foldl ops _ inv_init

theorem run_append (ops : List (Op κ)) (op : Op κ) : run (ops ++ [op]) = step (run ops) op := by
  simp [run, List.foldl_append]

/-! ### refinement of the single-map spec -/

structure Sim (m : St κ) (sp : Sp κ) : Prop where
  owner : m.owner = sp.owner
  live : m.live = sp.alive
  started : m.started = sp.started
  parked : m.parked = sp.halted
  ours : ∀ t, m.ours t = (sp.alive t && sp.pys t)

theorem sim_init : Sim (init : St κ) (Sp.init : Sp κ) := by
  constructor <;> simp [init, Sp.init]

theorem sim_claim (m : St κ) (sp : Sp κ) (t : Task) (k : κ) (h : Sim m sp) (hl : m.live t = true) :
    Sim (claim m t k) (sp.take t k) := by
  obtain ⟨a, b, c, d, e⟩ := h
  have hop : m.ours t = sp.pys t := by
    rw [e t, ← b, hl]; simp
  unfold Sp.take
  by_cases ho : m.ours t = true
  · rw [claim_eq m t k ho]
    have : sp.pys t = true := by rw [← hop]; exact ho
    simp only [this, if_true]
    exact ⟨by simp only [a], b, c, d, e⟩
  · rw [claim_not_ours m t k ho]
    have : sp.pys t = false := by rw [← hop]; exact not_true_false ho
    simp only [this, Bool.false_eq_true, if_false]
    exact ⟨a, b, c, d, e⟩

theorem sim_killPrev (m : St κ) (sp : Sp κ) (t o : Task) (h : Sim m sp) : Sim (killPrev m t o) sp := by
  obtain ⟨a, b, c, d, e⟩ := h
  unfold killPrev; split
  · exact ⟨a, b, c, d, e⟩
  · exact ⟨a, b, c, d, e⟩

theorem sim_unique (m : St κ) (sp : Sp κ) (t : Task) (k : κ) (km : Bool) (h : Sim m sp) :
    Sim (uniqueStep m t k km) (sp.unique t k km) := by
  have hcan : canStep m t = (sp.alive t && !sp.halted t) := by
    unfold canStep; rw [h.live, h.parked]
  unfold uniqueStep Sp.unique
  rw [← hcan, show sp.owner k = m.owner k from by rw [h.owner]]
  by_cases hc : canStep m t = true
  · obtain ⟨hl, _⟩ := canStep_live m t hc
    simp only [hc, Bool.not_true, Bool.false_eq_true, if_false]
    cases hown : m.owner k with
    | none => exact sim_claim m sp t k h hl
    | some o =>
      simp only []
      cases km
      · simp only [Bool.false_eq_true, false_and, if_false]
        have hl' : (killPrev m t o).live t = true := by unfold killPrev; split <;> exact hl
        exact sim_claim _ sp t k (sim_killPrev m sp t o h) hl'
      · simp only [if_true, true_and]
        by_cases hot : o = t
        · simp only [hot, ne_eq, not_true_eq_false, if_false]
          exact sim_claim m sp t k h hl
        · simp only [ne_eq, hot, not_false_eq_true, if_true]
          obtain ⟨a, b, c, d, e⟩ := h
          exact ⟨a, b, c, by simp only [park, enqueue, d], e⟩
  · have : canStep m t = false := not_true_false hc
    simp only [this, Bool.not_false, if_true]; exact h

theorem sim_step (m : St κ) (sp : Sp κ) (op : Op κ) (hi : Inv m) (h : Sim m sp) :
    Sim (step m op) (sp.step op) := by
  cases op with
  | spawn t fg =>
    simp only [step, Sp.step, spawnStep]
    rw [← h.started]
    split
    · exact h
    · obtain ⟨a, b, c, d, e⟩ := h
      refine ⟨a, by simp only [b], by simp only [c], d, ?_⟩
      intro u
      simp only [upd_apply]
      split
      · simp
      · exact e u
  | unique t k km => exact sim_unique m sp t k km h
  | reap =>
    show Sim (reapStep m) sp
    obtain ⟨e1, _, _, e4, e5, e6, _, e8, _, _, _⟩ := reap_fields m
    obtain ⟨a, b, c, d, e⟩ := h
    exact ⟨by rw [e1]; exact a, by rw [e5]; exact b, by rw [e6]; exact c, by rw [e8]; exact d,
           by intro u; rw [e4]; exact e u⟩
  | exit t =>
    simp only [step, Sp.step]
    rw [show sp.alive t = m.live t from by rw [h.live]]
    by_cases hnl : ¬ m.live t = true
    · rw [exit_dead m t hnl]; simp only [not_true_false hnl, Bool.not_false, if_true]; exact h
    have hl : m.live t = true := Classical.not_not.1 hnl
    rw [exit_eq m t hi.maps hl]
    simp only [hl, Bool.not_true, Bool.false_eq_true, if_false]
    obtain ⟨a, b, c, d, e⟩ := h
    refine ⟨?_, by simp only [b], c, by simp only [d], ?_⟩
    · funext x
      simp only [← a]
      by_cases hx : x ∈ m.names t
      · simp [hx, hi.names_own x t hx]
      · have : m.owner x ≠ some t := fun e' => hx (hi.own_names x t e').1
        simp [hx, this]
    · intro u
      simp only [upd_apply]
      split
      · simp
      · exact e u
  | endBody t =>
    simp only [step, Sp.step, endBodyStep]
    rw [show sp.alive t = m.live t from by rw [h.live]]
    obtain ⟨a, b, c, d, e⟩ := h
    split
    · exact ⟨a, b, c, by simp only [d], e⟩
    · exact ⟨a, b, c, d, e⟩
  | decoNew t k km =>
    simp only [step, Sp.step, decoNewStep, decoRuns, nameUsed]
    rw [show sp.owner k = m.owner k from by rw [h.owner]]
    by_cases hh : (km && (m.owner k).isSome) = true
    · simp only [hh, Bool.not_true, Bool.false_eq_true, if_false, if_true]; exact h
    · simp only [not_true_false hh, Bool.not_false, if_true, Bool.false_eq_true, if_false]
      exact sim_unique m sp t k false h

theorem sim_foldl (ops : List (Op κ)) : ∀ (m : St κ) (sp : Sp κ), Inv m → Sim m sp →
    Sim (ops.foldl step m) (ops.foldl Sp.step sp) := by
  induction ops with
  | nil => intro m sp _ h; exact h
  | cons op ops ih => intro m sp hi h; exact ih _ _ (inv_step m op hi) (sim_step m sp op hi h)

theorem sim_run (ops : List (Op κ)) : Sim (run ops) (Sp.run ops) := sim_foldl ops _ _ inv_init sim_init

/-! ### what a step may put on the reaper queue -/

theorem claim_queue (s : St κ) (t : Task) (k : κ) :
    (claim s t k).reaperQ = s.reaperQ ∧ (claim s t k).cancelReq = s.cancelReq ∧
    (claim s t k).foreign = s.foreign ∧ (claim s t k).selfEnq = s.selfEnq ∧ (claim s t k).parked = s.parked ∧
    (claim s t k).live = s.live := by
  by_cases ho : s.ours t = true
  · rw [claim_eq s t k ho]; simp
  · rw [claim_not_ours s t k ho]; simp

theorem exit_queue (s : St κ) (t : Task) :
    (exitStep s t).reaperQ = s.reaperQ ∧ (exitStep s t).reaping = s.reaping ∧
    (exitStep s t).cancelReq = s.cancelReq ∧ (exitStep s t).selfEnq = s.selfEnq ∧
    (exitStep s t).foreign = s.foreign := by
  unfold exitStep
  split
  · simp
  · split
    · split <;> simp
    · simp

theorem exit_live (s : St κ) (t u : Task) : (exitStep s t).live u = if u = t then false else s.live u := by
  unfold exitStep
  by_cases hl : s.live t = true
  · simp only [hl, Bool.not_true, Bool.false_eq_true, if_false]
    split
    · split <;> simp only [upd_apply]
    · simp only [upd_apply]
  · have := not_true_false hl
    simp only [this, Bool.not_false, if_true]
    split
    · rename_i e; subst e; exact this
    · rfl

theorem unique_new_in_queue (s : St κ) (t : Task) (k : κ) (km : Bool) (x : Task) (hi : Inv s)
    (hx : x ∈ (uniqueStep s t k km).reaperQ) (hn : x ∉ s.reaperQ) :
    (x = t ∧ km = true) ∨ s.foreign x = false := by
  unfold uniqueStep at hx
  split at hx
  · exact absurd hx hn
  · split at hx
    · rename_i o hown
      cases km
      · simp only [Bool.false_eq_true, if_false] at hx
        rw [(claim_queue _ t k).1] at hx
        unfold killPrev at hx
        split at hx
        · rename_i hc
          simp only [enqueue, List.mem_append, List.mem_singleton] at hx
          rcases hx with hx | rfl
          · exact absurd hx hn
          · exact Or.inr ((hi.ours_iff x).1 hc.2).2
        · exact absurd hx hn
      · simp only [if_true] at hx
        split at hx
        · simp only [park, enqueue, List.mem_append, List.mem_singleton] at hx
          rcases hx with hx | rfl
          · exact absurd hx hn
          · exact Or.inl ⟨rfl, rfl⟩
        · rw [(claim_queue _ t k).1] at hx; exact absurd hx hn
    · rw [(claim_queue _ t k).1] at hx; exact absurd hx hn

/-! ### the reaper really ends every task it was handed (runtime assumption: a cancelled task ends) -/

theorem reapStep_eq (s : St κ) : reapStep s = match s.reaperQ with
    | [] => s
    | h :: q => if s.live h then { s with reaperQ := q, cancelReq := upd s.cancelReq h true, reaping := none }
                else { s with reaperQ := q, reaping := none } := by
  unfold reapStep reapStepCfg
  simp only [current_eq, Bool.not_true, Bool.false_and, Bool.false_eq_true, if_false]
  cases s.reaperQ <;> rfl

theorem reapCycle_spec (s : St κ) (hd : Task) (q : List Task) (hq : s.reaperQ = hd :: q) :
    (reapCycle s).reaperQ = q ∧ (reapCycle s).live hd = false ∧
    (∀ u, (reapCycle s).live u = true → s.live u = true) := by
  unfold reapCycle
  simp only [hq]
  have hr := reapStep_eq s
  rw [hq] at hr
  simp only [] at hr
  refine ⟨?_, by rw [exit_live]; simp, ?_⟩
  · rw [(exit_queue _ hd).1, hr]; split <;> rfl
  · intro u hu
    rw [exit_live] at hu
    split at hu
    · cases hu
    · rw [hr] at hu; split at hu <;> exact hu

theorem reapCycle_inv (s : St κ) (h : Inv s) : Inv (reapCycle s) := by
  unfold reapCycle
  split
  · exact h
  · exact inv_exit _ _ (inv_reap s h)

theorem drain_spec : ∀ (n : Nat) (s : St κ), s.reaperQ.length = n →
    (drain n s).reaperQ = [] ∧ (∀ t ∈ s.reaperQ, (drain n s).live t = false) ∧
    (∀ u, (drain n s).live u = true → s.live u = true) := by
  intro n
  induction n with
  | zero =>
    intro s hlen
    have : s.reaperQ = [] := List.length_eq_zero_iff.1 hlen
    simp [drain, this]
  | succ n ih =>
    intro s hlen
    cases hq : s.reaperQ with
    | nil => rw [hq] at hlen; cases hlen
    | cons hd q =>
      obtain ⟨a, c, d⟩ := reapCycle_spec s hd q hq
      have hlen' : (reapCycle s).reaperQ.length = n := by rw [a]; rw [hq] at hlen; simpa using hlen
      obtain ⟨a', c', d'⟩ := ih (reapCycle s) hlen'
      simp only [drain]
      refine ⟨a', ?_, fun u hu => d u (d' u hu)⟩
      intro t ht
      rcases List.mem_cons.1 ht with e | ht
      · subst e
        cases hlt : (drain n (reapCycle s)).live t with
        | false => rfl
        | true => have := d' t hlt; rw [c] at this; cases this
      · exact c' t (by rw [a]; exact ht)

/-! ### keys and the prefix view -/

theorem mkKey_eq (c n : Str) : mkKey c n = (c ++ ['.']) ++ n := by simp [mkKey]

theorem mkKey_ne_of_sep (c c' n n' : Str) (h : Sep c c') : mkKey c n ≠ mkKey c' n' := by
  intro e
  have p1 : (c ++ ['.']) <+: mkKey c n := by rw [mkKey_eq]; exact List.prefix_append _ _
  have p2 : (c' ++ ['.']) <+: mkKey c n := by rw [e, mkKey_eq]; exact List.prefix_append _ _
  rcases List.prefix_or_prefix_of_prefix p1 p2 with p | p
  · exact h.1 p
  · exact h.2 p

theorem mkKey_inj_name (c n n' : Str) (h : mkKey c n = mkKey c n') : n = n' := by
  rw [mkKey_eq, mkKey_eq] at h
  exact List.append_cancel_left h

theorem viewName_own (c n : Str) : viewName c (mkKey c n) = some n := by
  unfold viewName
  have : (c ++ ['.']).isPrefixOf (mkKey c n) = true := by
    rw [List.isPrefixOf_iff_prefix, mkKey_eq]; exact List.prefix_append _ _
  simp only [this, if_true]
  rw [mkKey_eq]
  have : c.length + 1 = (c ++ ['.']).length := by simp
  rw [this, List.drop_left]

theorem viewName_other (c c' n' : Str) (h : Sep c c') : viewName c (mkKey c' n') = none := by
  unfold viewName
  split
  · rename_i hp
    rw [List.isPrefixOf_iff_prefix] at hp
    have p2 : (c' ++ ['.']) <+: mkKey c' n' := by rw [mkKey_eq]; exact List.prefix_append _ _
    rcases List.prefix_or_prefix_of_prefix hp p2 with p | p
    · exact absurd p h.1
    · exact absurd p h.2
  · rfl

/-- tuple keys separate any two different contexts, whatever dots the names contain -/
theorem keyOf_tuple_ne (c c' n n' : Str) (h : c ≠ c') : keyOf true c n ≠ keyOf true c' n' := by
  simp only [keyOf, if_true, ne_eq, Prod.mk.injEq, not_and]
  intro e; exact absurd e h

theorem viewOf_tuple (c c' n : Str) : viewOf true c (keyOf true c' n) = if c' = c then some n else none := by
  simp [viewOf, keyOf]

end PsModel.C13
