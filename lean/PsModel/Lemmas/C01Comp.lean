import PsModel.Model.C01Comp
/-! helper lemmas for the comprehension-scope theorems: dictionary algebra, the three phases save / loops / restore -/
namespace PsModel.C01Comp

theorem get_del_eq (t : List (String × Slot)) (x : String) : get (del t x) x = none := by
  induction t with
  | nil => rfl
  | cons p r ih =>
    obtain ⟨k, s⟩ := p
    by_cases h : k = x
    · simp [del, List.filter, h] at ih ⊢; simpa [del] using ih
    · simp only [del, List.filter, ne_eq, h, not_false_eq_true, decide_true, get, if_false]
      simpa [del] using ih

theorem get_del_ne (t : List (String × Slot)) (x y : String) (h : y ≠ x) : get (del t x) y = get t y := by
  induction t with
  | nil => rfl
  | cons p r ih =>
    obtain ⟨k, s⟩ := p
    by_cases hk : k = x
    · subst hk
      have hky : ¬ k = y := fun e => h e.symm
      simp only [del, List.filter, ne_eq, not_true_eq_false, decide_false, get, hky, if_false]
      simpa [del] using ih
    · simp only [del, List.filter, ne_eq, hk, not_false_eq_true, decide_true, get]
      by_cases hy : k = y
      · simp [hy]
      · simp only [hy, if_false]; simpa [del] using ih

theorem get_put_eq (t : List (String × Slot)) (x : String) (s : Slot) : get (put t x s) x = some s := by
  simp [put, get]

theorem get_put_ne (t : List (String × Slot)) (x y : String) (s : Slot) (h : y ≠ x) : get (put t x s) y = get t y := by
  have hxy : ¬ x = y := fun e => h e.symm
  simp only [put, get, hxy, if_false]
  exact get_del_ne t x y h

/-- no loop variable has a cell entry -/
def NoCell (t : List (String × Slot)) (lv : List String) : Prop := ∀ x ∈ lv, ∀ i, get t x ≠ some (.cell i)

/-! ### save -/

theorem get_savedOf (t : List (String × Slot)) (lv : List String) (x : String) :
    get (savedOf t lv) x = if x ∈ lv then get t x else none := by
  induction lv with
  | nil => simp [savedOf, get]
  | cons y r ih =>
    simp only [savedOf]
    cases hy : get t y with
    | none =>
      rw [ih]
      by_cases hx : x = y
      · subst hx; simp [hy]
      · simp [hx]
    | some s =>
      simp only [get]
      by_cases hx : y = x
      · subst hx; simp [hy]
      · have hx' : ¬ x = y := fun e => hx e.symm
        simp [hx, hx', ih]

theorem hide_get_notin (cells : List (Option Nat)) (saved : List (String × Slot)) :
    ∀ (t : List (String × Slot)) (y : String), y ∉ saved.map (·.1) → get (hideCells cells t saved) y = get t y := by
  induction saved with
  | nil => intro t y _; rfl
  | cons p r ih =>
    intro t y hy
    obtain ⟨x, s⟩ := p
    simp only [List.map_cons, List.mem_cons, not_or] at hy
    cases s with
    | plain v => simpa [hideCells] using ih t y hy.2
    | cell i =>
      simp only [hideCells]
      rw [ih _ y hy.2]
      cases (cells[i]?).join with
      | some v => exact get_put_ne t x y _ hy.1
      | none => exact get_del_ne t x y hy.1

theorem hide_nocell (cells : List (Option Nat)) (saved : List (String × Slot)) :
    ∀ (t : List (String × Slot)), (saved.map (·.1)).Nodup → (∀ p ∈ saved, get t p.1 = some p.2) →
      ∀ x ∈ saved.map (·.1), ∀ i, get (hideCells cells t saved) x ≠ some (.cell i) := by
  induction saved with
  | nil => intro t _ _ x hx; simp at hx
  | cons p r ih =>
    intro t hnd hget x hx j
    obtain ⟨k, s⟩ := p
    simp only [List.map_cons, List.nodup_cons] at hnd
    simp only [List.map_cons, List.mem_cons] at hx
    have hk : get t k = some s := hget (k, s) (by simp)
    cases s with
    | plain v =>
      simp only [hideCells]
      rcases hx with rfl | hx
      · rw [hide_get_notin cells r t x hnd.1, hk]; simp
      · exact ih t hnd.2 (fun p hp => hget p (by simp [hp])) x hx j
    | cell i =>
      simp only [hideCells]
      rcases hx with rfl | hx
      · rw [hide_get_notin cells r _ x hnd.1]
        cases (cells[i]?).join with
        | some v => rw [get_put_eq]; simp
        | none => rw [get_del_eq]; simp
      · refine ih _ hnd.2 (fun p hp => ?_) x hx j
        have hne : p.1 ≠ k := by
          intro e
          apply hnd.1
          rw [← e]
          exact List.mem_map.mpr ⟨p, hp, rfl⟩
        have := hget p (by simp [hp])
        cases (cells[i]?).join with
        | some v => rw [get_put_ne t k p.1 _ hne]; exact this
        | none => rw [get_del_ne t k p.1 hne]; exact this

theorem savedOf_keys_sub (t : List (String × Slot)) (lv : List String) : ∀ x ∈ (savedOf t lv).map (·.1), x ∈ lv := by
  induction lv with
  | nil => simp [savedOf]
  | cons y r ih =>
    intro x hx
    simp only [savedOf] at hx
    cases hy : get t y with
    | none => rw [hy] at hx; exact List.mem_cons_of_mem _ (ih x hx)
    | some s =>
      rw [hy] at hx
      simp only [List.map_cons, List.mem_cons] at hx
      rcases hx with rfl | hx
      · simp
      · exact List.mem_cons_of_mem _ (ih x hx)

theorem savedOf_nodup (t : List (String × Slot)) (lv : List String) (h : lv.Nodup) : ((savedOf t lv).map (·.1)).Nodup := by
  induction lv with
  | nil => simp [savedOf]
  | cons y r ih =>
    simp only [List.nodup_cons] at h
    simp only [savedOf]
    cases hy : get t y with
    | none => exact ih h.2
    | some s =>
      simp only [List.map_cons, List.nodup_cons]
      exact ⟨fun hm => h.1 (savedOf_keys_sub t r y hm), ih h.2⟩

theorem savedOf_get (t : List (String × Slot)) (lv : List String) : ∀ p ∈ savedOf t lv, get t p.1 = some p.2 := by
  induction lv with
  | nil => simp [savedOf]
  | cons y r ih =>
    intro p hp
    simp only [savedOf] at hp
    cases hy : get t y with
    | none => rw [hy] at hp; exact ih p hp
    | some s =>
      rw [hy] at hp
      simp only [List.mem_cons] at hp
      rcases hp with rfl | hp
      · exact hy
      · exact ih p hp

/-- after `loopvar_scope_save` no loop variable writes through to a cell any more; everything else is untouched -/
theorem save_spec (f : Frame) (lv : List String) (h : lv.Nodup) :
    NoCell (save true f lv).1.tbl lv ∧ (save true f lv).1.cells = f.cells ∧
    (∀ y, y ∉ lv → get (save true f lv).1.tbl y = get f.tbl y) := by
  refine ⟨?_, rfl, ?_⟩
  · intro x hx i
    simp only [save, if_true]
    by_cases hs : x ∈ (savedOf f.tbl lv).map (·.1)
    · exact hide_nocell f.cells _ f.tbl (savedOf_nodup f.tbl lv h) (savedOf_get f.tbl lv) x hs i
    · rw [hide_get_notin f.cells _ f.tbl x hs]
      -- not saved: the name had no entry
      have : get (savedOf f.tbl lv) x = get f.tbl x := by rw [get_savedOf]; simp [hx]
      cases hg : get f.tbl x with
      | none => simp
      | some s =>
        exfalso
        apply hs
        rw [hg] at this
        clear hg
        -- an entry found by `get` is a member
        have mem_of_get : ∀ (l : List (String × Slot)), get l x = some s → x ∈ l.map (·.1) := by
          intro l
          induction l with
          | nil => simp [get]
          | cons q r ih =>
            obtain ⟨k, s'⟩ := q
            simp only [get]
            by_cases hk : k = x
            · simp [hk]
            · simp only [hk, if_false, List.map_cons, List.mem_cons]
              intro hh; exact Or.inr (ih hh)
        exact mem_of_get _ this
  · intro y hy
    simp only [save, if_true]
    exact hide_get_notin f.cells _ f.tbl y (fun hm => hy (savedOf_keys_sub f.tbl lv y hm))

/-! ### the loops -/

theorem assign_spec (f : Frame) (lv : List String) (x : String) (v : Nat) (hx : x ∈ lv) (hn : NoCell f.tbl lv) :
    NoCell (assign f x v).tbl lv ∧ (assign f x v).cells = f.cells ∧ (∀ y, y ∉ lv → get (assign f x v).tbl y = get f.tbl y) := by
  have hnc : ∀ i, get f.tbl x ≠ some (.cell i) := hn x hx
  have hshape : assign f x v = { f with tbl := put f.tbl x (.plain v) } := by
    unfold assign
    cases hg : get f.tbl x with
    | none => rfl
    | some s => cases s with
      | plain w => rfl
      | cell i => exact absurd hg (hnc i)
  rw [hshape]
  refine ⟨?_, rfl, ?_⟩
  · intro z hz i
    by_cases hzx : z = x
    · subst hzx; simp [get_put_eq]
    · simp only; rw [get_put_ne f.tbl x z _ hzx]; exact hn z hz i
  · intro y hy
    have : y ≠ x := fun e => hy (e ▸ hx)
    exact get_put_ne f.tbl x y _ this

theorem bindIter_spec (lv : List String) : ∀ (xs : List String) (vs : List Nat) (f : Frame), (∀ x ∈ xs, x ∈ lv) → NoCell f.tbl lv →
    NoCell (bindIter f xs vs).tbl lv ∧ (bindIter f xs vs).cells = f.cells ∧
    (∀ y, y ∉ lv → get (bindIter f xs vs).tbl y = get f.tbl y) := by
  intro xs
  induction xs with
  | nil => intro vs f _ hn; exact ⟨hn, rfl, fun _ _ => rfl⟩
  | cons x r ih =>
    intro vs f hsub hn
    cases vs with
    | nil => exact ⟨hn, rfl, fun _ _ => rfl⟩
    | cons v vr =>
      simp only [bindIter]
      obtain ⟨h1, h2, h3⟩ := assign_spec f lv x v (hsub x (by simp)) hn
      obtain ⟨g1, g2, g3⟩ := ih vr (assign f x v) (fun z hz => hsub z (by simp [hz])) h1
      exact ⟨g1, g2.trans h2, fun y hy => (g3 y hy).trans (h3 y hy)⟩

theorem loops_spec (lv : List String) : ∀ (iters : List (List Nat)) (f : Frame), NoCell f.tbl lv →
    NoCell (loops f lv iters).tbl lv ∧ (loops f lv iters).cells = f.cells ∧
    (∀ y, y ∉ lv → get (loops f lv iters).tbl y = get f.tbl y) := by
  intro iters
  induction iters with
  | nil => intro f hn; exact ⟨hn, rfl, fun _ _ => rfl⟩
  | cons vals r ih =>
    intro f hn
    simp only [loops]
    obtain ⟨h1, h2, h3⟩ := bindIter_spec lv lv vals f (fun _ h => h) hn
    obtain ⟨g1, g2, g3⟩ := ih (bindIter f lv vals) h1
    exact ⟨g1, g2.trans h2, fun y hy => (g3 y hy).trans (h3 y hy)⟩

/-! ### restore -/

theorem restore_notin (saved : List (String × Slot)) : ∀ (xs : List String) (t : List (String × Slot)) (y : String),
    y ∉ xs → get (restore t saved xs) y = get t y := by
  intro xs
  induction xs with
  | nil => intro t y _; rfl
  | cons x r ih =>
    intro t y hy
    simp only [List.mem_cons, not_or] at hy
    simp only [restore]
    rw [ih _ y hy.2]
    cases get saved x with
    | some s => exact get_put_ne t x y s hy.1
    | none => exact get_del_ne t x y hy.1

theorem restore_in (saved : List (String × Slot)) : ∀ (xs : List String) (t : List (String × Slot)) (x : String),
    xs.Nodup → x ∈ xs → get (restore t saved xs) x = get saved x := by
  intro xs
  induction xs with
  | nil => intro t x _ hx; simp at hx
  | cons y r ih =>
    intro t x hnd hx
    simp only [List.nodup_cons] at hnd
    simp only [List.mem_cons] at hx
    simp only [restore]
    rcases hx with rfl | hx
    · rw [restore_notin saved r _ x hnd.1]
      cases hg : get saved x with
      | some s => exact get_put_eq t x s
      | none => exact get_del_eq t x
    · exact ih _ x hnd.2 hx

end PsModel.C01Comp
