import PsModel.Model.C20
import PsModel.Spec.C20
/-!
# C20 helper lemmas

A. table algebra (`find`/`upsert`/`modify`) and the per-package projection of `merge1` (`stepV`)
B. the fold invariant `IsBest` (order-free characterisation of the recorded version of one package)
C. connection with the reference selection `Selected`;  D. ignored lines
E. the decision loop as filter/any over the table (`decideLoop_spec`), `decidePkg` vs the reference predicates
F. lookups in the record after the run;  G. well-formedness of the merged table;  H. the second run
-/
namespace PsModel.C20
variable {V : Type}

/-! ## A. table algebra -/

theorem find_upsert (t : Table) (e : Entry) (p : Str) :
    find (upsert t e) p = if e.name = p then some e else find t p := by
  induction t with
  | nil => simp [upsert, find]
  | cons x xs ih =>
    simp only [upsert]
    by_cases h : x.name = e.name
    · simp only [h, if_true, find]
      by_cases h2 : e.name = p <;> simp [h2]
    · simp only [h, if_false, find, ih]
      by_cases h2 : x.name = p
      · have : e.name ≠ p := fun h3 => h (h2.trans h3.symm)
        simp [h2, this]
      · simp [h2]

theorem find_modify (t : Table) (n : Str) (f : Entry → Entry) (hf : ∀ e, (f e).name = e.name) (p : Str) :
    find (modify t n f) p = if p = n then (find t p).map f else find t p := by
  induction t with
  | nil => simp [modify, find]
  | cons x xs ih =>
    simp only [modify, List.map_cons, find] at ih ⊢
    by_cases hx : x.name = n
    · simp only [hx, if_true, hf]
      by_cases hp : n = p
      · subst hp; simp
      · have hp' : ¬ p = n := fun h => hp h.symm
        simp only [hp, if_false, hp']
        rw [ih]; simp [hp']
    · simp only [hx, if_false]
      by_cases hp : x.name = p
      · have : ¬ p = n := fun h => hx (hp.trans h)
        simp [hp, this]
      · simp only [hp, if_false]; rw [ih]

/-- **the generated case split is the five-way split the lemmas below reason about** – re-proved against
`Gen.REQ_MERGE_ROWS` (read off requirements.py) on every run -/
theorem branch_eq_ref (ver : Ver V) (cur : Option Str) (new : Str) : branch ver cur new = branchRef ver cur new := by
  unfold branch branchRef
  simp only [Gen.REQ_MERGE_ROWS, branchRows, condHolds]
  cases cur with
  | none => simp
  | some c =>
    by_cases hc : c = []
    · subst hc; simp
    · by_cases hn : new = UNP <;> by_cases hu : c = UNP
      · subst hn; subst hu; simp [hc]
      · subst hn; simp [hc, hu]
      · subst hu; simp [hc, hn]
      · cases hpc : ver.parse c <;> cases hpn : ver.parse new <;> simp [hc, hn, hu, verCmp, hpc, hpn]
        rename_i a b
        cases h1 : ver.le a b <;> cases h2 : ver.le b a <;> simp

/-- what one accepted line does to the recorded version string of package `name` -/
def stepV (ver : Ver V) (cur : Option Str) (name new : Str) : Option Str :=
  match branch ver cur new with
  | .record => if name = [] then cur else some new
  | .bump => some new
  | .addSource => cur
  | .keep => cur

theorem branch_bump_some (ver : Ver V) (cur : Option Str) (new : Str) (h : branch ver cur new = .bump) :
    ∃ c, cur = some c := by
  cases cur with
  | none => simp [branch_eq_ref, branchRef] at h
  | some c => exact ⟨c, rfl⟩

theorem versionOf_merge1 (ver : Ver V) (site : Str → Option Str) (t : Table) (src : Nat) (name new p : Str) :
    versionOf (merge1 ver site t src name new) p =
      if p = name then stepV ver (versionOf t name) name new else versionOf t p := by
  unfold merge1 stepV
  cases hb : branch ver (versionOf t name) new with
  | record =>
    simp only [getInstalled]
    by_cases hn : name = []
    · subst hn; simp only [if_true]; split
      · next h => rw [h]
      · rfl
    · simp only [hn, if_false, versionOf, find_upsert]
      by_cases hp : p = name
      · subst hp; simp
      · have : ¬ name = p := fun h => hp h.symm
        simp [hp, this]
  | keep => split <;> simp_all
  | addSource =>
    simp only [versionOf]
    rw [find_modify t name (addSrc src) (fun _ => rfl) p]
    by_cases hp : p = name
    · subst hp; simp only [if_true]; cases find t p <;> simp [addSrc]
    · simp [hp]
  | bump =>
    obtain ⟨c, hc⟩ := branch_bump_some ver _ _ hb
    simp only [versionOf]
    rw [find_modify t name (setVer src new) (fun _ => rfl) p]
    by_cases hp : p = name
    · subst hp
      simp only [if_true]
      simp only [versionOf] at hc
      cases hf : find t p with
      | none => simp [hf] at hc
      | some e => simp [setVer]
    · simp [hp]

/-- per-package view of one raw line -/
def stepLine (cfg : Cfg) (ver : Ver V) (p : Str) (cur : Option Str) (l : Nat × Str) : Option Str :=
  match meaning cfg ver l.2 with
  | none => cur
  | some (key, pin) => if key = p then stepV ver cur p (newVersion pin) else cur

theorem versionOf_processLine (cfg : Cfg) (ver : Ver V) (site : Str → Option Str) (t : Table) (l : Nat × Str) (p : Str) :
    versionOf (processLine cfg ver site t l) p = stepLine cfg ver p (versionOf t p) l := by
  unfold processLine stepLine
  cases hpl : meaning cfg ver l.2 with
  | none => rfl
  | some np =>
    obtain ⟨name, pin⟩ := np
    simp only [versionOf_merge1]
    by_cases hp : p = name
    · subst hp; simp
    · have : ¬ name = p := fun h => hp h.symm
      simp [hp, this]

theorem versionOf_foldl (cfg : Cfg) (ver : Ver V) (site : Str → Option Str) (ls : List (Nat × Str)) (t : Table) (p : Str) :
    versionOf (ls.foldl (processLine cfg ver site) t) p = ls.foldl (stepLine cfg ver p) (versionOf t p) := by
  induction ls generalizing t with
  | nil => rfl
  | cons l ls ih => simp only [List.foldl_cons, ih, versionOf_processLine]

/-- the new-version strings that lines contribute to package `p` (after parsing, the optional fix and the key map) -/
def newsFor (cfg : Cfg) (ver : Ver V) (p : Str) (ls : List (Nat × Str)) : List Str :=
  ls.filterMap (fun l => match meaning cfg ver l.2 with
    | none => none
    | some (key, pin) => if key = p then some (newVersion pin) else none)

theorem foldl_stepLine (cfg : Cfg) (ver : Ver V) (p : Str) (ls : List (Nat × Str)) (cur : Option Str) :
    ls.foldl (stepLine cfg ver p) cur = (newsFor cfg ver p ls).foldl (fun c n => stepV ver c p n) cur := by
  induction ls generalizing cur with
  | nil => rfl
  | cons l ls ih =>
    simp only [List.foldl_cons, newsFor, List.filterMap_cons]
    unfold stepLine
    cases hpl : meaning cfg ver l.2 with
    | none => simp only; exact ih cur
    | some np =>
      obtain ⟨name, pin⟩ := np
      simp only
      by_cases hn : name = p
      · simp only [hn, if_true, List.foldl_cons]; exact ih _
      · simp only [hn, if_false]; exact ih cur

theorem mem_newsFor (cfg : Cfg) (ver : Ver V) (p : Str) (ls : List (Nat × Str)) (n : Str) :
    n ∈ newsFor cfg ver p ls ↔ ∃ l ∈ ls, ∃ pin, meaning cfg ver l.2 = some (p, pin) ∧ n = newVersion pin := by
  simp only [newsFor, List.mem_filterMap]
  constructor
  · rintro ⟨l, hl, h⟩
    refine ⟨l, hl, ?_⟩
    cases hpl : meaning cfg ver l.2 with
    | none => simp [hpl] at h
    | some np =>
      obtain ⟨name, pin⟩ := np
      simp only [hpl] at h
      by_cases hn : name = p
      · subst hn
        simp only [if_true, Option.some.injEq] at h
        exact ⟨pin, rfl, h.symm⟩
      · simp [hn] at h
  · rintro ⟨l, hl, pin, hpl, hn⟩
    exact ⟨l, hl, by simp [hpl, hn]⟩

/-- what `meaning = some` says about the parsed line -/
theorem meaning_some (cfg : Cfg) (ver : Ver V) (raw k : Str) (pin : Option Str) (h : meaning cfg ver raw = some (k, pin)) :
    ∃ n, parseLine cfg raw = some (n, pin) ∧ rejectedByFix cfg ver pin = false ∧ k = keyOf cfg n := by
  unfold meaning at h
  cases hpl : parseLine cfg raw with
  | none => simp [hpl] at h
  | some np =>
    obtain ⟨n, q⟩ := np
    simp only [hpl] at h
    by_cases hr : rejectedByFix cfg ver q = true
    · simp [hr] at h
    · simp only [hr, Bool.false_eq_true, if_false, Option.some.injEq, Prod.mk.injEq] at h
      obtain ⟨h1, h2⟩ := h
      subst h2
      exact ⟨n, rfl, by simpa using hr, h1.symm⟩

theorem versionOf_mergeAll (cfg : Cfg) (ver : Ver V) (site : Str → Option Str) (ls : List (Nat × Str)) (p : Str) :
    versionOf (mergeAll cfg ver site ls) p = (newsFor cfg ver p ls).foldl (fun c n => stepV ver c p n) none := by
  unfold mergeAll
  rw [versionOf_foldl, foldl_stepLine]
  rfl

/-! ## B. the fold invariant -/

/-- a new-version string of the well-formed fragment: the sentinel or something `Version()` accepts -/
def GoodNew (ver : Ver V) (n : Str) : Prop := n = UNP ∨ ∃ a, ver.parse n = some a

def LeS (ver : Ver V) (u v : Str) : Prop :=
  ∀ a b, ver.parse u = some a → ver.parse v = some b → ver.le a b = true

/-- order-free characterisation of the recorded version of one package given the strings `ns` seen so far -/
def IsBest (ver : Ver V) (ns : List Str) (r : Option Str) : Prop :=
  match r with
  | none => ns = []
  | some v => if v = UNP then ns ≠ [] ∧ ∀ x ∈ ns, x = UNP
              else v ∈ ns ∧ ∀ u ∈ ns, u ≠ UNP → LeS ver u v

theorem UNP_ne_nil : UNP ≠ [] := by decide

theorem branch_none (ver : Ver V) (n : Str) : branch ver none n = .record := by rw [branch_eq_ref]; rfl

theorem isBest_step (ver : Ver V) (ok : VerOk ver) (p : Str) (hp : p ≠ []) (pre : List Str) (cur : Option Str)
    (n : Str) (hpre : ∀ x ∈ pre, GoodNew ver x) (hn : GoodNew ver n) (h : IsBest ver pre cur) :
    IsBest ver (pre ++ [n]) (stepV ver cur p n) := by
  cases cur with
  | none =>
    simp only [IsBest] at h
    subst h
    simp only [stepV, branch_none, hp, if_false, IsBest, List.nil_append]
    by_cases hu : n = UNP
    · simp [hu]
    · simp only [hu, if_false, List.mem_singleton, true_and]
      intro u hu' _ a b ha hb
      subst hu'
      rw [ha] at hb; cases hb; exact ok.refl a
  | some c =>
    simp only [IsBest] at h
    by_cases hc : c = UNP
    · -- the sentinel is recorded: everything so far was unpinned
      subst hc
      simp only [if_true] at h
      by_cases hu : n = UNP
      · subst hu
        have : branch ver (some UNP) UNP = .addSource := by simp [branch_eq_ref, branchRef, UNP_ne_nil]
        simp only [stepV, this, IsBest, if_true]
        refine ⟨by simp, ?_⟩
        intro x hx
        rcases List.mem_append.1 hx with hx | hx
        · exact h.2 x hx
        · simpa using hx
      · have : branch ver (some UNP) n = .record := by simp [branch_eq_ref, branchRef, UNP_ne_nil, hu]
        simp only [stepV, this, hp, if_false, IsBest, hu]
        refine ⟨by simp, ?_⟩
        intro u hu' hne
        rcases List.mem_append.1 hu' with hu' | hu'
        · exact absurd (h.2 u hu') hne
        · have : u = n := by simpa using hu'
          subst this
          intro a b ha hb; rw [ha] at hb; cases hb; exact ok.refl a
    · -- a pin `c` is recorded; it is one of the strings seen, hence a version
      simp only [hc, if_false] at h
      obtain ⟨hcm, hcb⟩ := h
      obtain ⟨a, ha⟩ : ∃ a, ver.parse c = some a := by
        rcases hpre c hcm with h1 | h1
        · exact absurd h1 hc
        · exact h1
      have hcne : c ≠ [] := by
        intro h0; rw [h0, ok.empty] at ha; cases ha
      by_cases hu : n = UNP
      · subst hu
        have : branch ver (some c) UNP = .keep := by simp [branch_eq_ref, branchRef, hcne, hc]
        simp only [stepV, this, IsBest, hc, if_false]
        refine ⟨by simp [hcm], ?_⟩
        intro u hu' hne
        rcases List.mem_append.1 hu' with hu' | hu'
        · exact hcb u hu' hne
        · have : u = UNP := by simpa using hu'
          exact absurd this hne
      · obtain ⟨b, hb⟩ : ∃ b, ver.parse n = some b := by
          rcases hn with h1 | h1
          · exact absurd h1 hu
          · exact h1
        have hbr : branch ver (some c) n =
            if ver.le a b && ver.le b a then .addSource else if ver.le a b then .bump else .keep := by
          simp [branch_eq_ref, branchRef, hcne, hc, hu, ha, hb]
        by_cases h1 : ver.le a b = true
        · by_cases h2 : ver.le b a = true
          · have : branch ver (some c) n = .addSource := by simp [hbr, h1, h2]
            simp only [stepV, this, IsBest, hc, if_false]
            refine ⟨by simp [hcm], ?_⟩
            intro u hu' hne
            rcases List.mem_append.1 hu' with hu' | hu'
            · exact hcb u hu' hne
            · have : u = n := by simpa using hu'
              subst this
              intro x y hx hy
              rw [hb] at hx; rw [ha] at hy; cases hx; cases hy; exact h2
          · have : branch ver (some c) n = .bump := by simp [hbr, h1, h2]
            simp only [stepV, this, IsBest, hu, if_false]
            refine ⟨by simp, ?_⟩
            intro u hu' hne
            rcases List.mem_append.1 hu' with hu' | hu'
            · intro x y hx hy
              rw [hb] at hy; cases hy
              exact ok.trans _ _ _ (hcb u hu' hne x a hx ha) h1
            · have : u = n := by simpa using hu'
              subst this
              intro x y hx hy; rw [hx] at hy; cases hy; exact ok.refl x
        · have h2 : ver.le b a = true := by
            rcases ok.total a b with t | t
            · exact absurd t h1
            · exact t
          have : branch ver (some c) n = .keep := by simp [hbr, h1]
          simp only [stepV, this, IsBest, hc, if_false]
          refine ⟨by simp [hcm], ?_⟩
          intro u hu' hne
          rcases List.mem_append.1 hu' with hu' | hu'
          · exact hcb u hu' hne
          · have : u = n := by simpa using hu'
            subst this
            intro x y hx hy
            rw [hb] at hx; rw [ha] at hy; cases hx; cases hy; exact h2

theorem isBest_foldl (ver : Ver V) (ok : VerOk ver) (p : Str) (hp : p ≠ []) (pre ns : List Str) (cur : Option Str)
    (hpre : ∀ x ∈ pre, GoodNew ver x) (hns : ∀ x ∈ ns, GoodNew ver x) (h : IsBest ver pre cur) :
    IsBest ver (pre ++ ns) (ns.foldl (fun c n => stepV ver c p n) cur) := by
  induction ns generalizing pre cur with
  | nil => simpa using h
  | cons n ns ih =>
    have step := isBest_step ver ok p hp pre cur n hpre (hns n (by simp)) h
    have hpre' : ∀ x ∈ pre ++ [n], GoodNew ver x := by
      intro x hx
      rcases List.mem_append.1 hx with hx | hx
      · exact hpre x hx
      · have : x = n := by simpa using hx
        subst this; exact hns x (by simp)
    have := ih (pre ++ [n]) (stepV ver cur p n) hpre' (fun x hx => hns x (by simp [hx])) step
    simpa [List.append_assoc] using this

/-- with an empty package name nothing is ever recorded (`get_installed_version("")` raises) -/
theorem foldl_stepV_nil (ver : Ver V) (ns : List Str) :
    ns.foldl (fun c n => stepV ver c [] n) none = none := by
  induction ns with
  | nil => rfl
  | cons n ns ih => simpa [stepV, branch_none] using ih

/-- two `IsBest` results over lists with the same members agree up to version equality -/
theorem isBest_unique (ver : Ver V) (ns ns' : List Str) (r r' : Option Str)
    (hgood : ∀ x ∈ ns, GoodNew ver x) (hmem : ∀ x, x ∈ ns ↔ x ∈ ns')
    (h : IsBest ver ns r) (h' : IsBest ver ns' r') : VEquiv ver r r' := by
  have hnil : ns = [] ↔ ns' = [] := by
    constructor
    · intro e; subst e
      cases ns' with
      | nil => rfl
      | cons y ys => exact absurd ((hmem y).2 (by simp)) (by simp)
    · intro e; subst e
      cases ns with
      | nil => rfl
      | cons y ys => exact absurd ((hmem y).1 (by simp)) (by simp)
  cases r with
  | none =>
    simp only [IsBest] at h
    cases r' with
    | none => simp [VEquiv]
    | some v' =>
      simp only [IsBest] at h'
      have e' := hnil.1 h
      by_cases hv : v' = UNP
      · simp only [hv, if_true] at h'; exact absurd e' h'.1
      · simp only [hv, if_false] at h'; rw [e'] at h'; simp at h'
  | some v =>
    simp only [IsBest] at h
    cases r' with
    | none =>
      simp only [IsBest] at h'
      have e := hnil.2 h'
      by_cases hv : v = UNP
      · simp only [hv, if_true] at h; exact absurd e h.1
      · simp only [hv, if_false] at h; rw [e] at h; simp at h
    | some v' =>
      simp only [IsBest] at h'
      simp only [VEquiv]
      by_cases hv : v = UNP
      · simp only [hv, if_true] at h
        by_cases hv' : v' = UNP
        · left; rw [hv, hv']
        · simp only [hv', if_false] at h'
          exact absurd (h.2 v' ((hmem v').2 h'.1)) hv'
      · simp only [hv, if_false] at h
        by_cases hv' : v' = UNP
        · simp only [hv', if_true] at h'
          exact absurd (h'.2 v ((hmem v).1 h.1)) hv
        · simp only [hv', if_false] at h'
          right
          obtain ⟨a, ha⟩ : ∃ a, ver.parse v = some a := by
            rcases hgood v h.1 with h1 | h1
            · exact absurd h1 hv
            · exact h1
          obtain ⟨b, hb⟩ : ∃ b, ver.parse v' = some b := by
            rcases hgood v' ((hmem v').2 h'.1) with h1 | h1
            · exact absurd h1 hv'
            · exact h1
          exact ⟨a, b, ha, hb, h'.2 v ((hmem v).1 h.1) hv a b ha hb, h.2 v' ((hmem v').2 h'.1) hv' b a hb ha⟩

theorem news_good_of_lines (cfg : Cfg) (ver : Ver V) (p : Str) (ls : List (Nat × Str))
    (h : ∀ l ∈ ls, GoodLine cfg ver l.2) : ∀ x ∈ newsFor cfg ver p ls, GoodNew ver x := by
  intro x hx
  obtain ⟨l, hl, pin, hpl, rfl⟩ := (mem_newsFor cfg ver p ls x).1 hx
  obtain ⟨n, hn, _, _⟩ := meaning_some cfg ver l.2 p pin hpl
  cases pin with
  | none => left; rfl
  | some v => exact h l hl n v hn

/-- with the repair every string that reaches the merge is good, whatever the lines are -/
theorem news_good_of_fix (cfg : Cfg) (ver : Ver V) (hfix : cfg.validateFirstPin = true) (p : Str)
    (ls : List (Nat × Str)) : ∀ x ∈ newsFor cfg ver p ls, GoodNew ver x := by
  intro x hx
  obtain ⟨l, _, pin, hpl, rfl⟩ := (mem_newsFor cfg ver p ls x).1 hx
  obtain ⟨n, _, hr, _⟩ := meaning_some cfg ver l.2 p pin hpl
  cases pin with
  | none => left; rfl
  | some v =>
    right
    simp only [rejectedByFix, hfix, Bool.true_and] at hr
    cases hv : ver.parse v with
    | none => simp [hv] at hr
    | some a => exact ⟨a, hv⟩

theorem best_mergeAll (cfg : Cfg) (ver : Ver V) (ok : VerOk ver) (site : Str → Option Str) (ls : List (Nat × Str))
    (p : Str) (hp : p ≠ []) (hg : ∀ x ∈ newsFor cfg ver p ls, GoodNew ver x) :
    IsBest ver (newsFor cfg ver p ls) (versionOf (mergeAll cfg ver site ls) p) := by
  rw [versionOf_mergeAll]
  have := isBest_foldl ver ok p hp [] (newsFor cfg ver p ls) none (by simp) hg (by simp [IsBest])
  simpa using this

theorem order_of_good (cfg : Cfg) (ver : Ver V) (ok : VerOk ver) (site site' : Str → Option Str)
    (ls ls' : List (Nat × Str)) (hperm : ls.Perm ls') (p : Str)
    (hg : ∀ x ∈ newsFor cfg ver p ls, GoodNew ver x) :
    VEquiv ver (versionOf (mergeAll cfg ver site ls) p) (versionOf (mergeAll cfg ver site' ls') p) := by
  by_cases hp : p = []
  · subst hp
    rw [versionOf_mergeAll, versionOf_mergeAll, foldl_stepV_nil, foldl_stepV_nil]; simp [VEquiv]
  · have hmem : ∀ x, x ∈ newsFor cfg ver p ls ↔ x ∈ newsFor cfg ver p ls' := by
      intro x
      rw [mem_newsFor, mem_newsFor]
      constructor
      · rintro ⟨l, hl, h⟩; exact ⟨l, hperm.mem_iff.1 hl, h⟩
      · rintro ⟨l, hl, h⟩; exact ⟨l, hperm.mem_iff.2 hl, h⟩
    have hg' : ∀ x ∈ newsFor cfg ver p ls', GoodNew ver x := fun x hx => hg x ((hmem x).2 hx)
    exact isBest_unique ver _ _ _ _ hg hmem (best_mergeAll cfg ver ok site ls p hp hg)
      (best_mergeAll cfg ver ok site' ls' p hp hg')

/-! ## C. connection with the reference selection -/

theorem specLine_some (ver : Ver V) (raw n : Str) (pin : Option Str) (h : specLine ver raw = some (n, pin)) :
    (∃ m, parseLineWith SPEC_PATS false raw = some (m, pin) ∧ n = normName m ∧ plainName m = true) ∧
      ∀ v, pin = some v → ∃ a, ver.parse v = some a := by
  unfold specLine at h
  cases hpl : parseLineWith SPEC_PATS false raw with
  | none => simp [hpl] at h
  | some np =>
    obtain ⟨m, q⟩ := np
    cases q with
    | none =>
      simp only [hpl] at h
      by_cases hm : plainName m = true
      · simp only [hm, if_true, Option.some.injEq, Prod.mk.injEq] at h
        obtain ⟨rfl, rfl⟩ := h
        exact ⟨⟨m, rfl, rfl, hm⟩, by simp⟩
      · simp [hm] at h
    | some v =>
      simp only [hpl] at h
      by_cases hm : (plainName m && (ver.parse v).isSome) = true
      · simp only [hm, if_true, Option.some.injEq, Prod.mk.injEq] at h
        obtain ⟨rfl, rfl⟩ := h
        simp only [Bool.and_eq_true] at hm
        refine ⟨⟨m, rfl, rfl, hm.1⟩, ?_⟩
        intro w hw
        cases hw
        cases hv : ver.parse v with
        | none => simp [hv] at hm
        | some a => exact ⟨a, rfl⟩
      · simp [hm] at h

theorem plainName_ne_nil (n : Str) (h : plainName n = true) : n ≠ [] := by
  intro e; subst e; simp [plainName] at h

theorem normName_ne_nil (n : Str) (h : n ≠ []) : normName n ≠ [] := by
  cases n with
  | nil => exact absurd rfl h
  | cons c cs =>
    unfold normName
    split
    · split <;> simp
    · simp

theorem selected_mergeAll (cfg : Cfg) (ver : Ver V) (ok : VerOk ver) (site : Str → Option Str)
    (ls : List (Nat × Str)) (hspec : ∀ l ∈ ls, meaning cfg ver l.2 = specLine ver l.2) (p : Str) :
    Selected ver (ls.filterMap (fun l => specLine ver l.2)) p (versionOf (mergeAll cfg ver site ls) p) := by
  -- membership in the meanings
  have hms : ∀ q pin, (q, pin) ∈ ls.filterMap (fun l => specLine ver l.2) ↔
      ∃ l ∈ ls, meaning cfg ver l.2 = some (q, pin) := by
    intro q pin
    simp only [List.mem_filterMap]
    constructor
    · rintro ⟨l, hl, h⟩; exact ⟨l, hl, by rw [hspec l hl]; exact h⟩
    · rintro ⟨l, hl, h⟩; exact ⟨l, hl, by rw [← hspec l hl]; exact h⟩
  have hvalid : ∀ q pin, (q, pin) ∈ ls.filterMap (fun l => specLine ver l.2) →
      q ≠ [] ∧ ∀ v, pin = some v → ∃ a, ver.parse v = some a := by
    intro q pin h
    obtain ⟨l, _, hl⟩ := List.mem_filterMap.1 h
    obtain ⟨⟨m, _, hq, hm⟩, hv⟩ := specLine_some ver l.2 q pin hl
    exact ⟨by rw [hq]; exact normName_ne_nil m (plainName_ne_nil m hm), hv⟩
  have hnews : ∀ n, n ∈ newsFor cfg ver p ls ↔
      ∃ pin, (p, pin) ∈ ls.filterMap (fun l => specLine ver l.2) ∧ n = newVersion pin := by
    intro n
    rw [mem_newsFor]
    constructor
    · rintro ⟨l, hl, pin, hpl, hn⟩; exact ⟨pin, (hms p pin).2 ⟨l, hl, hpl⟩, hn⟩
    · rintro ⟨pin, hm, hn⟩
      obtain ⟨l, hl, hpl⟩ := (hms p pin).1 hm
      exact ⟨l, hl, pin, hpl, hn⟩
  by_cases hp : p = []
  · subst hp
    rw [versionOf_mergeAll, foldl_stepV_nil]
    simp only [Selected]
    intro m hm
    exact (hvalid m.1 m.2 hm).1
  · have hg : ∀ x ∈ newsFor cfg ver p ls, GoodNew ver x := by
      intro x hx
      obtain ⟨pin, hm, rfl⟩ := (hnews x).1 hx
      cases pin with
      | none => left; rfl
      | some v => right; exact (hvalid p _ hm).2 v rfl
    have hb := best_mergeAll cfg ver ok site ls p hp hg
    have notunp : ∀ u, (p, some u) ∈ ls.filterMap (fun l => specLine ver l.2) → u ≠ UNP := by
      intro u hu e
      obtain ⟨a, ha⟩ := (hvalid p _ hu).2 u rfl
      rw [e, ok.unp] at ha; cases ha
    cases hr : versionOf (mergeAll cfg ver site ls) p with
    | none =>
      rw [hr] at hb
      simp only [IsBest] at hb
      simp only [Selected]
      intro m hm e
      have : newVersion m.2 ∈ newsFor cfg ver p ls := (hnews _).2 ⟨m.2, by rw [← e]; exact hm, rfl⟩
      rw [hb] at this; cases this
    | some v =>
      rw [hr] at hb
      simp only [IsBest] at hb
      simp only [Selected]
      by_cases hv : v = UNP
      · simp only [hv, if_true] at hb ⊢
        obtain ⟨hne, hall⟩ := hb
        have nopin : ∀ u, (p, some u) ∉ ls.filterMap (fun l => specLine ver l.2) := by
          intro u hu
          have : u ∈ newsFor cfg ver p ls := (hnews u).2 ⟨some u, hu, rfl⟩
          exact notunp u hu (hall u this)
        refine ⟨?_, nopin⟩
        cases hnl : newsFor cfg ver p ls with
        | nil => exact absurd hnl hne
        | cons x xs =>
          have hx : x ∈ newsFor cfg ver p ls := by rw [hnl]; simp
          obtain ⟨pin, hm, _⟩ := (hnews x).1 hx
          cases pin with
          | none => exact hm
          | some u => exact absurd hm (nopin u)
      · simp only [hv, if_false] at hb ⊢
        obtain ⟨hmem, hle⟩ := hb
        constructor
        · obtain ⟨pin, hm, e⟩ := (hnews v).1 hmem
          cases pin with
          | none => exact absurd e hv
          | some u => simp only [newVersion] at e; rw [e]; exact hm
        · intro u hu a b ha hb'
          exact hle u ((hnews u).2 ⟨some u, hu, rfl⟩) (notunp u hu) a b ha hb'

/-! ## D. ignored lines -/

theorem dropWhile_all {α} (q : α → Bool) (s : List α) (h : ∀ c ∈ s, q c = true) : s.dropWhile q = [] := by
  induction s with
  | nil => rfl
  | cons c cs ih =>
    rw [List.dropWhile_cons]
    simp only [h c (by simp), if_true]
    exact ih (fun d hd => h d (by simp [hd]))

theorem strip_allWs (s : Str) (h : ∀ c ∈ s, isWs c = true) : strip s = [] := by
  have h1 : lstrip s = [] := dropWhile_all isWs s h
  unfold strip
  rw [h1]
  rfl

/-! the shape parameters read off the source, in the form the lemmas use them; every `rfl` here is re-checked against
`Gen/ReqTbl.lean` on every run -/
theorem mark_eq : Gen.REQ_COMMENT_MARK = '#' := rfl
theorem skipBlank_eq : Gen.REQ_SKIP_BLANK = true := rfl
theorem maxParts_eq : Gen.REQ_MAX_PARTS = 2 := rfl
theorem pinSep_eq : Gen.REQ_PIN_SEP = ('=', '=') := rfl
theorem optinGuard_eq : Gen.REQ_OPTIN_GUARD = true := rfl
theorem body_eq (raw : Str) : body raw = strip (cutComment raw) := rfl

theorem parseLine_of_body_nil (cfg : Cfg) (raw : Str) (h : body raw = []) : parseLine cfg raw = none := by
  simp [parseLine, parseLineWith, h, skipBlank_eq]

theorem parseLine_of_specPat (cfg : Cfg) (raw : Str) (h : hasSpecPat cfg.specPats (body raw) = true) :
    parseLine cfg raw = none := by
  unfold parseLine parseLineWith
  split
  · rfl
  · simp [parseParts, h]

/-- `hasSub` is the substring relation: `pat` occurs in `pre ++ pat ++ post` -/
theorem hasSub_append (pat pre post : Str) : hasSub pat (pre ++ pat ++ post) = true := by
  induction pre with
  | nil =>
    show hasSub pat (pat ++ post) = true
    cases hp : pat ++ post with
    | nil =>
      have : pat = [] := by
        cases pat with
        | nil => rfl
        | cons _ _ => simp at hp
      simp [hasSub, this]
    | cons c cs =>
      simp only [hasSub, Bool.or_eq_true]
      left
      rw [← hp, List.isPrefixOf_iff_prefix]
      exact List.prefix_append pat post
  | cons c cs ih =>
    simp only [List.cons_append, hasSub, Bool.or_eq_true]
    right
    simpa using ih

/-- a body that contains a pattern of the rejection set is rejected -/
theorem hasSpecPat_of_sub (pats : List Str) (pat pre post : Str) (hp : pat ∈ pats) :
    hasSpecPat pats (pre ++ pat ++ post) = true := by
  simp only [hasSpecPat, List.any_eq_true]
  exact ⟨pat, hp, hasSub_append pat pre post⟩

theorem parseLine_of_many_parts (cfg : Cfg) (raw : Str) (h : 2 < (splitEq (body raw) []).length) :
    parseLine cfg raw = none := by
  unfold parseLine parseLineWith
  split
  · rfl
  · unfold parseParts
    split
    · rfl
    · split
      · rfl
      · next h1 => rw [h1] at h; simp at h
      · next h1 =>
        rw [h1] at h
        simp only [List.length_cons] at h
        rw [maxParts_eq, if_pos (by omega)]

theorem cutComment_append_hash (raw tail : Str) (h : '#' ∉ raw) : cutComment (raw ++ '#' :: tail) = raw := by
  induction raw with
  | nil => simp [cutComment, mark_eq]
  | cons c cs ih =>
    have hc : c ≠ '#' := fun e => h (by simp [e])
    have hcs : '#' ∉ cs := fun e => h (by simp [e])
    simp only [cutComment, List.cons_append, mark_eq] at ih ⊢
    rw [List.takeWhile_cons]
    simp only [bne_iff_ne, ne_eq, hc, not_false_eq_true, if_true]
    rw [ih hcs]

theorem cutComment_no_hash (raw : Str) (h : '#' ∉ raw) : cutComment raw = raw := by
  induction raw with
  | nil => rfl
  | cons c cs ih =>
    have hc : c ≠ '#' := fun e => h (by simp [e])
    have hcs : '#' ∉ cs := fun e => h (by simp [e])
    simp only [cutComment, mark_eq] at ih ⊢
    rw [List.takeWhile_cons]
    simp only [bne_iff_ne, ne_eq, hc, not_false_eq_true, if_true]
    rw [ih hcs]

theorem foldl_filter_irrelevant {α β} (f : β → α → β) (P : α → Bool) (h : ∀ b a, P a = false → f b a = b)
    (ls : List α) (b : β) : ls.foldl f b = (ls.filter P).foldl f b := by
  induction ls generalizing b with
  | nil => rfl
  | cons a as ih =>
    simp only [List.foldl_cons, List.filter_cons]
    by_cases hp : P a = true
    · simp only [hp, if_true, List.foldl_cons]; exact ih _
    · have hp' : P a = false := by simpa using hp
      simp only [hp', Bool.false_eq_true, if_false]; rw [h b a hp']; exact ih _

/-! ## E. the install decision -/

theorem rget_rpop (r : Rec) (n m : Str) : rget (rpop r n) m = if m = n then none else rget r m := by
  induction r with
  | nil => simp [rpop, rget]
  | cons kv rs ih =>
    obtain ⟨k, v⟩ := kv
    simp only [rpop, List.filter_cons] at ih ⊢
    by_cases hk : k = n
    · subst hk
      simp only [ne_eq, not_true_eq_false, decide_false, Bool.false_eq_true, if_false, ih, rget]
      by_cases hm : m = k
      · simp [hm]
      · have : ¬ k = m := fun e => hm e.symm
        simp [hm, this]
    · simp only [ne_eq, hk, not_false_eq_true, decide_true, if_true, rget, ih]
      by_cases hm : k = m
      · have : ¬ m = n := fun e => hk (hm.trans e)
        simp [hm, this]
      · simp [hm]

theorem rget_rset (r : Rec) (n v m : Str) : rget (rset r n v) m = if n = m then some v else rget r m := by
  induction r with
  | nil => simp [rset, rget]
  | cons kv rs ih =>
    obtain ⟨k, w⟩ := kv
    simp only [rset]
    by_cases hk : k = n
    · subst hk
      simp only [if_true, rget]
      by_cases hm : k = m <;> simp [hm]
    · simp only [hk, if_false, rget, ih]
      by_cases hm : k = m
      · have : ¬ n = m := fun e => hk (hm.trans e.symm)
        simp [hm, this]
      · simp [hm]

/-- entries the loop passes to the installer, and names it drops from the record, as functions of the record
at loop entry (valid when package names are unique) -/
def installs (cfg : Cfg) (ver : Ver V) (r : Rec) (t : Table) : List Entry :=
  t.filter (fun e => decidePkg cfg ver (rget r e.name) e == .install)

def popped (cfg : Cfg) (ver : Ver V) (r : Rec) (t : Table) (n : Str) : Bool :=
  t.any (fun e => e.name == n && decidePkg cfg ver (rget r e.name) e == .pop)

def raises (cfg : Cfg) (ver : Ver V) (r : Rec) (t : Table) : Bool :=
  t.any (fun e => decidePkg cfg ver (rget r e.name) e == .raise)

theorem raises_cons (cfg : Cfg) (ver : Ver V) (r : Rec) (e : Entry) (es : Table) :
    raises cfg ver r (e :: es) = (decidePkg cfg ver (rget r e.name) e == .raise || raises cfg ver r es) := by
  simp [raises]

theorem popped_cons (cfg : Cfg) (ver : Ver V) (r : Rec) (e : Entry) (es : Table) (n : Str) :
    popped cfg ver r (e :: es) n = ((e.name == n && decidePkg cfg ver (rget r e.name) e == .pop) || popped cfg ver r es n) := by
  simp [popped]

theorem installs_cons (cfg : Cfg) (ver : Ver V) (r : Rec) (e : Entry) (es : Table) :
    installs cfg ver r (e :: es) =
      if decidePkg cfg ver (rget r e.name) e == .install then e :: installs cfg ver r es else installs cfg ver r es := by
  simp only [installs, List.filter_cons]

theorem loop_congr (cfg : Cfg) (ver : Ver V) (r r' : Rec) (es : Table) (h : ∀ x ∈ es, rget r' x.name = rget r x.name) :
    raises cfg ver r' es = raises cfg ver r es ∧ installs cfg ver r' es = installs cfg ver r es ∧
    ∀ n, popped cfg ver r' es n = popped cfg ver r es n := by
  induction es with
  | nil => simp [raises, installs, popped]
  | cons x xs ih =>
    have hx := h x (by simp)
    obtain ⟨i1, i2, i3⟩ := ih (fun y hy => h y (by simp [hy]))
    refine ⟨?_, ?_, ?_⟩
    · rw [raises_cons, raises_cons, hx, i1]
    · rw [installs_cons, installs_cons, hx, i2]
    · intro n; rw [popped_cons, popped_cons, hx, i3]

theorem decideLoop_spec (cfg : Cfg) (ver : Ver V) (t : Table) (hnd : (t.map (·.name)).Nodup) (st : LoopSt) :
    decideLoop cfg ver t st =
      if raises cfg ver st.recd t then none
      else some { recd := st.recd.filter (fun kv => !popped cfg ver st.recd t kv.1),
                  toInstall := st.toInstall ++ installs cfg ver st.recd t } := by
  induction t generalizing st with
  | nil =>
    cases st
    simp only [decideLoop, raises, popped, installs, List.any_nil, Bool.false_eq_true, if_false, Bool.not_false,
      List.filter_nil, List.append_nil, Option.some.injEq, LoopSt.mk.injEq, and_true]
    exact (List.filter_eq_self.2 (fun _ _ => rfl)).symm
  | cons e es ih =>
    simp only [List.map_cons, List.nodup_cons] at hnd
    obtain ⟨hne, hnd'⟩ := hnd
    have hne' : ∀ x ∈ es, x.name ≠ e.name := by
      intro x hx h; exact hne (List.mem_map.2 ⟨x, hx, h⟩)
    have d1 : (PkgDec.install == PkgDec.pop) = false := by decide
    have d2 : (PkgDec.install == PkgDec.raise) = false := by decide
    have d3 : (PkgDec.nothing == PkgDec.pop) = false := by decide
    have d4 : (PkgDec.nothing == PkgDec.raise) = false := by decide
    have d5 : (PkgDec.nothing == PkgDec.install) = false := by decide
    have d6 : (PkgDec.pop == PkgDec.raise) = false := by decide
    have d7 : (PkgDec.pop == PkgDec.install) = false := by decide
    simp only [decideLoop, raises_cons, popped_cons, installs_cons]
    cases hd : decidePkg cfg ver (rget st.recd e.name) e with
    | raise => simp [applyDec]
    | install =>
      simp only [applyDec]
      rw [ih hnd']
      simp [d1, d2, List.append_assoc]
    | nothing =>
      simp only [applyDec]
      rw [ih hnd']
      simp [d3, d4, d5]
    | pop =>
      simp only [applyDec]
      rw [ih hnd']
      have hcongr : ∀ x ∈ es, rget (rpop st.recd e.name) x.name = rget st.recd x.name := by
        intro x hx; rw [rget_rpop]; simp [hne' x hx]
      obtain ⟨c1, c2, c3⟩ := loop_congr cfg ver st.recd (rpop st.recd e.name) es hcongr
      have hf : List.filter (fun kv => !popped cfg ver st.recd es kv.1) (rpop st.recd e.name)
          = List.filter (fun kv => !(e.name == kv.1 || popped cfg ver st.recd es kv.1)) st.recd := by
        simp only [rpop, List.filter_filter]
        apply List.filter_congr
        intro kv _
        by_cases hk : e.name = kv.1
        · simp [hk]
        · have : ¬ kv.1 = e.name := fun h => hk h.symm
          simp [hk, this]
      simp only [c1, c2, c3, d6, d7, Bool.false_or, Bool.false_eq_true, if_false, beq_self_eq_true, Bool.and_true, hf]

theorem find_some_mem (t : Table) (m : Str) (e : Entry) (h : find t m = some e) : e ∈ t ∧ e.name = m := by
  induction t with
  | nil => simp [find] at h
  | cons x xs ih =>
    simp only [find] at h
    by_cases hx : x.name = m
    · simp only [hx, if_true, Option.some.injEq] at h
      subst h; exact ⟨by simp, hx⟩
    · simp only [hx, if_false] at h
      exact ⟨by simp [(ih h).1], (ih h).2⟩

theorem find_none_iff (t : Table) (m : Str) : find t m = none ↔ ∀ e ∈ t, e.name ≠ m := by
  induction t with
  | nil => simp [find]
  | cons x xs ih =>
    simp only [find]
    by_cases hx : x.name = m
    · simp [hx]
    · simp [hx, ih]

theorem find_of_mem_nodup (t : Table) (hnd : (t.map (·.name)).Nodup) (e : Entry) (he : e ∈ t) :
    find t e.name = some e := by
  induction t with
  | nil => cases he
  | cons x xs ih =>
    simp only [List.map_cons, List.nodup_cons] at hnd
    simp only [find]
    rcases List.mem_cons.1 he with rfl | he'
    · simp
    · have : x.name ≠ e.name := fun h => hnd.1 (List.mem_map.2 ⟨e, he', h.symm⟩)
      simp only [this, if_false]
      exact ih hnd.2 he'

theorem mem_installs (cfg : Cfg) (ver : Ver V) (r : Rec) (t : Table) (e : Entry) :
    e ∈ installs cfg ver r t ↔ e ∈ t ∧ decidePkg cfg ver (rget r e.name) e = .install := by
  simp [installs, List.mem_filter]

theorem popped_eq (cfg : Cfg) (ver : Ver V) (r : Rec) (t : Table) (hnd : (t.map (·.name)).Nodup) (m : Str) :
    popped cfg ver r t m = match find t m with
      | some e => decidePkg cfg ver (rget r m) e == .pop
      | none => false := by
  cases hf : find t m with
  | none =>
    simp only [popped, List.any_eq_false, Bool.and_eq_true, beq_iff_eq, not_and]
    intro e he hn
    exact absurd hn ((find_none_iff t m).1 hf e he)
  | some e =>
    obtain ⟨he, hn⟩ := find_some_mem t m e hf
    subst hn
    simp only
    cases hd : (decidePkg cfg ver (rget r e.name) e == PkgDec.pop) with
    | true =>
      simp only [popped, List.any_eq_true, Bool.and_eq_true, beq_iff_eq]
      exact ⟨e, he, rfl, by simpa using hd⟩
    | false =>
      simp only [popped, List.any_eq_false, Bool.and_eq_true, beq_iff_eq, not_and]
      intro x hx hxn
      have : find t x.name = some x := find_of_mem_nodup t hnd x hx
      rw [hxn, hf] at this
      cases this
      simpa using hd

theorem rget_filter_key (r : Rec) (f : Str → Bool) (m : Str) :
    rget (r.filter (fun kv => f kv.1)) m = if f m then rget r m else none := by
  induction r with
  | nil => simp [rget]
  | cons kv rs ih =>
    obtain ⟨k, v⟩ := kv
    simp only [List.filter_cons]
    by_cases hk : f k = true
    · simp only [hk, if_true, rget, ih]
      by_cases hm : k = m
      · subst hm; simp [hk]
      · simp [hm]
    · simp only [hk, Bool.false_eq_true, if_false, ih, rget]
      by_cases hm : k = m
      · subst hm; simp [hk]
      · simp [hm]

theorem phase1_go (cfg : Cfg) (ver : Ver V) (allow : Bool) (t : Table) (hnd : (t.map (·.name)).Nodup) (r r1 : Rec)
    (ti : List Entry) (h : phase1 cfg ver allow t r = .go r1 ti) :
    (t = [] ∨ allow = true) ∧ raises cfg ver r t = false ∧
    r1 = r.filter (fun kv => !popped cfg ver r t kv.1) ∧ ti = installs cfg ver r t := by
  unfold phase1 at h
  rw [optinGuard_eq, Bool.true_and] at h
  by_cases hb : (!t.isEmpty && !allow) = true
  · simp [hb] at h
  · simp only [hb, Bool.false_eq_true, if_false] at h
    rw [decideLoop_spec cfg ver t hnd] at h
    by_cases hr : raises cfg ver r t = true
    · simp [hr] at h
    · simp only [hr, Bool.false_eq_true, if_false, List.nil_append] at h
      cases h
      refine ⟨?_, by simpa using hr, rfl, rfl⟩
      cases t with
      | nil => left; rfl
      | cons x xs => right; simpa using hb

/-- **the generated per-package decision is the hand-written nested one** – re-proved against `Gen.REQ_DECIDE_ROWS`
(read off requirements.py) on every run -/
theorem decidePkg_eq_ref (cfg : Cfg) (ver : Ver V) (recd : Option Str) (e : Entry) :
    decidePkg cfg ver recd e = decidePkgRef cfg ver recd e := by
  unfold decidePkg decidePkgRef
  cases truthy e.installed with
  | none => simp [Gen.REQ_DECIDE_ROWS, notInstalledAct, hostAct]
  | some inst =>
    simp only [Gen.REQ_DECIDE_ROWS, hostRows, hostHolds, hostAct]
    by_cases hu : e.version = UNP
    · cases recd with
      | none => simp [hu]
      | some r => by_cases hr : r = inst <;> simp [hu, hr]
    · cases recd with
      | none => simp [hu]
      | some r =>
        simp only [hu, decide_false, Bool.false_and]
        cases differs cfg ver r inst with
        | none => rfl
        | some d1 =>
          cases d1 with
          | true => rfl
          | false =>
            simp only
            cases differs cfg ver e.version inst with
            | none => rfl
            | some d2 => cases d2 <;> rfl

theorem sameV_iff (ver : Ver V) (a b : Str) : sameV ver a b = true ↔ SameV ver a b := by
  unfold sameV SameV
  by_cases hab : a = b
  · simp [hab]
  · simp only [beq_iff_eq, hab, Bool.false_or, false_or]
    cases ha : ver.parse a <;> cases hb : ver.parse b <;> simp [hab]

/-- when the comparison does not raise it decides `SameV` (for the direct `Version(a) != Version(b)` this needs
reflexivity of `<=`: equal texts are equal versions) -/
theorem differs_some (cfg : Cfg) (ver : Ver V) (ok : VerOk ver) (a b : Str) (d : Bool) (h : differs cfg ver a b = some d) :
    d = true ↔ ¬ SameV ver a b := by
  unfold differs at h
  by_cases ht : cfg.tolerantCmp = true
  · simp only [ht, if_true, Option.some.injEq] at h
    rw [← h, ← sameV_iff]; simp
  · simp only [ht, Bool.false_eq_true, if_false] at h
    cases ha : ver.parse a with
    | none => simp [ha] at h
    | some x =>
      cases hb : ver.parse b with
      | none => simp [ha, hb] at h
      | some y =>
        simp only [ha, hb, Option.some.injEq] at h
        rw [← h]
        unfold SameV
        simp only [ha, hb, Option.some.injEq, Bool.not_eq_true', not_or, not_exists, not_and]
        constructor
        · intro hv
          refine ⟨?_, ?_⟩
          · intro e; subst e
            rw [ha] at hb; cases hb
            simp [veq, ok.refl] at hv
          · intro x' y' hx hy; subst hx; subst hy; simpa using hv
        · intro hv
          simpa using hv.2 x y rfl rfl

theorem differs_tolerant (cfg : Cfg) (ver : Ver V) (ht : cfg.tolerantCmp = true) (a b : Str) :
    differs cfg ver a b = some (!sameV ver a b) := by simp [differs, ht]

/-- with the tolerant comparison nothing in the per-package decision can raise -/
theorem decidePkg_ne_raise (cfg : Cfg) (ver : Ver V) (ht : cfg.tolerantCmp = true) (recd : Option Str) (e : Entry) :
    decidePkg cfg ver recd e ≠ .raise := by
  rw [decidePkg_eq_ref]
  unfold decidePkgRef
  cases truthy e.installed with
  | none => simp
  | some inst =>
    simp only
    by_cases hu : e.version = UNP
    · simp only [hu, if_true]
      cases recd with
      | none => simp
      | some r => by_cases hr : r ≠ inst <;> simp [hr]
    · simp only [hu, if_false]
      cases recd with
      | none => simp
      | some r =>
        simp only [differs_tolerant cfg ver ht]
        cases sameV ver r inst <;> cases sameV ver e.version inst <;> simp

theorem decidePkg_install_iff (cfg : Cfg) (ver : Ver V) (ok : VerOk ver) (recd : Option Str) (e : Entry)
    (hnr : decidePkg cfg ver recd e ≠ .raise) :
    decidePkg cfg ver recd e = .install ↔ ShouldInstall ver recd e := by
  rw [decidePkg_eq_ref] at hnr ⊢
  unfold decidePkgRef at hnr ⊢
  unfold ShouldInstall
  cases hi : truthy e.installed with
  | none => simp
  | some inst =>
    simp only [hi] at hnr
    simp only [reduceCtorEq, false_or, Option.some.injEq]
    by_cases hu : e.version = UNP
    · simp only [hu, if_true]
      constructor
      · intro h; cases recd with
        | none => cases h
        | some r => by_cases hr : r ≠ inst <;> simp [hr] at h
      · rintro ⟨_, _, _, _, hne, _⟩; exact absurd rfl hne
    · simp only [hu, if_false] at hnr ⊢
      cases recd with
      | none =>
        simp only [reduceCtorEq, false_iff]
        rintro ⟨_, _, _, h, _⟩; cases h
      | some r =>
        simp only at hnr ⊢
        cases hd1 : differs cfg ver r inst with
        | none => simp [hd1] at hnr
        | some d1 =>
          have e1 := differs_some cfg ver ok r inst d1 hd1
          cases d1 with
          | true =>
            simp only [reduceCtorEq, false_iff]
            rintro ⟨i', r', h0, h1, _, h2, _⟩
            cases h0; cases h1
            exact (e1.1 rfl) h2
          | false =>
            have hs : SameV ver r inst :=
              Classical.byContradiction (fun hc => absurd (e1.2 hc) (by simp))
            simp only [hd1] at hnr
            simp only
            cases hd2 : differs cfg ver e.version inst with
            | none => simp [hd2] at hnr
            | some d2 =>
              have e2 := differs_some cfg ver ok e.version inst d2 hd2
              cases d2 with
              | true =>
                simp only [true_iff]
                exact ⟨inst, r, rfl, rfl, hu, hs, e2.1 rfl⟩
              | false =>
                simp only [reduceCtorEq, false_iff]
                rintro ⟨i', r', h0, h1, _, _, h3⟩
                cases h0
                exact absurd (e2.2 h3) (by simp)

/-! ## F. the record after the run -/

def keys (r : Rec) : List Str := r.map (·.1)

theorem rget_none_iff (r : Rec) (m : Str) : rget r m = none ↔ m ∉ keys r := by
  induction r with
  | nil => simp [rget, keys]
  | cons kv rs ih =>
    obtain ⟨k, v⟩ := kv
    simp only [rget, keys, List.map_cons, List.mem_cons, not_or] at ih ⊢
    by_cases hk : k = m
    · simp [hk]
    · have : ¬ m = k := fun e => hk e.symm
      simp [hk, this, ih]

theorem keys_rset (r : Rec) (n v : Str) : keys (rset r n v) = if n ∈ keys r then keys r else keys r ++ [n] := by
  induction r with
  | nil => simp [rset, keys]
  | cons kv rs ih =>
    obtain ⟨k, w⟩ := kv
    simp only [rset, keys, List.map_cons, List.mem_cons] at ih ⊢
    by_cases hk : k = n
    · simp [hk]
    · have : ¬ n = k := fun e => hk e.symm
      simp only [hk, if_false, List.map_cons, ih, this, false_or]
      by_cases hm : n ∈ List.map (fun x => x.1) rs <;> simp [hm]

theorem nodup_rset (r : Rec) (n v : Str) (h : (keys r).Nodup) : (keys (rset r n v)).Nodup := by
  rw [keys_rset]
  by_cases hm : n ∈ keys r
  · simp [hm, h]
  · simp only [hm, if_false]
    exact List.nodup_append.2 ⟨h, by simp, by intro a ha b hb; simp at hb; subst hb; exact fun e => hm (e ▸ ha)⟩

theorem nodup_recUpdate (r : Rec) (es : List Entry) (h : (keys r).Nodup) : (keys (recUpdate r es)).Nodup := by
  induction es generalizing r with
  | nil => exact h
  | cons e es ih => exact ih _ (nodup_rset r e.name e.version h)

theorem nodup_filter (r : Rec) (f : Str × Str → Bool) (h : (keys r).Nodup) : (keys (r.filter f)).Nodup := by
  unfold keys at h ⊢
  exact List.Pairwise.sublist (List.Sublist.map _ List.filter_sublist) h

theorem rget_recUpdate (r : Rec) (es : List Entry) (hnd : (es.map (·.name)).Nodup) (m : Str) :
    rget (recUpdate r es) m = match find es m with
      | some e => some e.version
      | none => rget r m := by
  induction es generalizing r with
  | nil => rfl
  | cons e es ih =>
    simp only [List.map_cons, List.nodup_cons] at hnd
    simp only [recUpdate, List.foldl_cons] at ih ⊢
    rw [ih _ hnd.2]
    simp only [find]
    by_cases he : e.name = m
    · subst he
      have : find es e.name = none := (find_none_iff es e.name).2 (fun x hx hn => hnd.1 (List.mem_map.2 ⟨x, hx, hn⟩))
      simp [this, rget_rset]
    · simp only [he, if_false, rget_rset]

theorem rget_filterMap (r : Rec) (g : Str × Str → Option (Str × Str)) (hg : ∀ kv kv', g kv = some kv' → kv'.1 = kv.1)
    (hnd : (keys r).Nodup) (m : Str) :
    rget (r.filterMap g) m = match rget r m with
      | some v => (g (m, v)).map (·.2)
      | none => none := by
  induction r with
  | nil => simp [rget]
  | cons kv rs ih =>
    obtain ⟨k, v⟩ := kv
    simp only [keys, List.map_cons, List.nodup_cons] at hnd
    have ih' := ih hnd.2
    simp only [List.filterMap_cons, rget]
    by_cases hk : k = m
    · subst hk
      have hnone : rget rs k = none := (rget_none_iff rs k).2 hnd.1
      simp only [if_true]
      cases hgk : g (k, v) with
      | none => simp only [Option.map_none]; rw [ih', hnone]
      | some kv' =>
        have := hg _ _ hgk
        obtain ⟨k', v'⟩ := kv'
        simp only at this
        subst this
        simp [rget]
    · simp only [hk, if_false]
      cases hgk : g (k, v) with
      | none => simp only; exact ih'
      | some kv' =>
        have := hg _ _ hgk
        obtain ⟨k', v'⟩ := kv'
        simp only at this
        subst this
        simp only [rget, hk, if_false]; exact ih'

theorem rget_resolve (site' : Str → Option Str) (r : Rec) (hnd : (keys r).Nodup) (m : Str) :
    rget (resolveUnpinned site' r) m = match rget r m with
      | some v => if v = UNP then truthy (site' m) else some v
      | none => none := by
  unfold resolveUnpinned
  by_cases hany : (r.any fun kv => kv.2 = UNP) = true
  · simp only [hany, if_true]
    rw [rget_filterMap r (resolveOne site') _ hnd m]
    · cases hr : rget r m with
      | none => rfl
      | some v =>
        simp only [resolveOne]
        by_cases hv : v = UNP
        · simp only [hv, ne_eq, not_true_eq_false, if_false, if_true]
          cases truthy (site' m) <;> rfl
        · simp [hv]
    · intro kv kv' h
      simp only [resolveOne] at h
      by_cases hv : kv.2 ≠ UNP
      · rw [if_pos hv] at h; simp only [Option.some.injEq] at h; rw [← h]
      · rw [if_neg hv] at h
        cases ht : truthy (site' kv.1) with
        | none => simp [ht] at h
        | some i => simp only [ht, Option.some.injEq] at h; rw [← h]
  · simp only [hany, Bool.false_eq_true, if_false]
    cases hr : rget r m with
    | none => rfl
    | some v =>
      simp only
      have : v ≠ UNP := by
        intro e
        apply hany
        simp only [List.any_eq_true, decide_eq_true_eq]
        have : (m, v) ∈ r := by
          clear hany hnd
          induction r with
          | nil => simp [rget] at hr
          | cons kv rs ih =>
            obtain ⟨k, w⟩ := kv
            simp only [rget] at hr
            by_cases hk : k = m
            · simp only [hk, if_true, Option.some.injEq] at hr; subst hr; subst hk; simp
            · simp only [hk, if_false] at hr; simp [ih hr]
        exact ⟨(m, v), this, e⟩
      simp [this]

theorem find_filter (t : Table) (hnd : (t.map (·.name)).Nodup) (P : Entry → Bool) (m : Str) :
    find (t.filter P) m = (find t m).filter P := by
  induction t with
  | nil => rfl
  | cons x xs ih =>
    simp only [List.map_cons, List.nodup_cons] at hnd
    simp only [List.filter_cons]
    by_cases hp : P x = true
    · simp only [hp, if_true, find]
      by_cases hx : x.name = m
      · simp [hx, Option.filter, hp]
      · simp only [hx, if_false]; exact ih hnd.2
    · simp only [hp, Bool.false_eq_true, if_false, find]
      by_cases hx : x.name = m
      · have : find xs m = none :=
          (find_none_iff xs m).2 (fun y hy hn => hnd.1 (List.mem_map.2 ⟨y, hy, hn.trans hx.symm⟩))
        rw [ih hnd.2, this]
        simp [hx, Option.filter, hp]
      · simp only [hx, if_false]; exact ih hnd.2

theorem nodup_installs (cfg : Cfg) (ver : Ver V) (r : Rec) (t : Table) (hnd : (t.map (·.name)).Nodup) :
    ((installs cfg ver r t).map (·.name)).Nodup :=
  List.Pairwise.sublist (List.Sublist.map _ List.filter_sublist) hnd

/-- the record entry of package `m` after the decision loop and `update`, before unpinned versions are resolved -/
theorem rget_recUpdate_phase1 (cfg : Cfg) (ver : Ver V) (allow : Bool) (t : Table) (hnd : (t.map (·.name)).Nodup) (r r1 : Rec)
    (ti : List Entry) (h : phase1 cfg ver allow t r = .go r1 ti) (m : Str) :
    rget (recUpdate r1 ti) m = recordRule cfg ver t r m := by
  obtain ⟨_, _, h1, h2⟩ := phase1_go cfg ver allow t hnd r r1 ti h
  subst h1 h2
  rw [rget_recUpdate _ _ (nodup_installs cfg ver r t hnd), installs, find_filter t hnd]
  rw [rget_filter_key r (fun k => !popped cfg ver r t k), popped_eq cfg ver r t hnd]
  unfold recordRule
  cases hf : find t m with
  | none => simp
  | some e =>
    have hn := (find_some_mem t m e hf).2
    subst hn
    cases hd : decidePkg cfg ver (rget r e.name) e <;> simp [Option.filter, hd]

theorem nodup_phase1 (cfg : Cfg) (ver : Ver V) (allow : Bool) (t : Table) (hnd : (t.map (·.name)).Nodup) (r r1 : Rec)
    (ti : List Entry) (h : phase1 cfg ver allow t r = .go r1 ti) (hk : (keys r).Nodup) :
    (keys (recUpdate r1 ti)).Nodup := by
  obtain ⟨_, _, h1, _⟩ := phase1_go cfg ver allow t hnd r r1 ti h
  subst h1
  exact nodup_recUpdate _ _ (nodup_filter r _ hk)

/-! ## G. well-formedness of the merged table -/

def TableOk (site : Str → Option Str) (t : Table) : Prop :=
  (t.map (·.name)).Nodup ∧ ∀ e ∈ t, e.installed = site e.name ∧ e.name ≠ []

theorem mem_upsert (t : Table) (e y : Entry) (h : y ∈ upsert t e) : y ∈ t ∨ y = e := by
  induction t with
  | nil => simp [upsert] at h; exact Or.inr h
  | cons x xs ih =>
    simp only [upsert] at h
    by_cases hx : x.name = e.name
    · simp only [hx, if_true, List.mem_cons] at h
      rcases h with h | h
      · exact Or.inr h
      · exact Or.inl (by simp [h])
    · simp only [hx, if_false, List.mem_cons] at h
      rcases h with h | h
      · exact Or.inl (by simp [h])
      · rcases ih h with h | h
        · exact Or.inl (by simp [h])
        · exact Or.inr h

theorem tableOk_upsert (site : Str → Option Str) (t : Table) (e : Entry) (h : TableOk site t)
    (he : e.installed = site e.name ∧ e.name ≠ []) : TableOk site (upsert t e) := by
  induction t with
  | nil => exact ⟨by simp [upsert], by intro y hy; simp [upsert] at hy; subst hy; exact he⟩
  | cons x xs ih =>
    obtain ⟨hnd, hall⟩ := h
    simp only [List.map_cons, List.nodup_cons] at hnd
    have hxs : TableOk site xs := ⟨hnd.2, fun y hy => hall y (by simp [hy])⟩
    simp only [upsert]
    by_cases hx : x.name = e.name
    · simp only [hx, if_true]
      refine ⟨?_, ?_⟩
      · simp only [List.map_cons, List.nodup_cons]; rw [← hx]; exact hnd
      · intro y hy
        rcases List.mem_cons.1 hy with rfl | hy
        · exact he
        · exact hall y (by simp [hy])
    · simp only [hx, if_false]
      obtain ⟨ind, iall⟩ := ih hxs
      refine ⟨?_, ?_⟩
      · simp only [List.map_cons, List.nodup_cons]
        refine ⟨?_, ind⟩
        intro hmem
        obtain ⟨y, hy, hyn⟩ := List.mem_map.1 hmem
        rcases mem_upsert xs e y hy with h1 | h1
        · exact hnd.1 (List.mem_map.2 ⟨y, h1, hyn⟩)
        · subst h1; exact hx hyn.symm
      · intro y hy
        rcases List.mem_cons.1 hy with rfl | hy
        · exact hall y (by simp)
        · exact iall y hy

theorem tableOk_modify (site : Str → Option Str) (t : Table) (n : Str) (f : Entry → Entry)
    (hf : ∀ e, (f e).name = e.name ∧ (f e).installed = e.installed) (h : TableOk site t) :
    TableOk site (modify t n f) := by
  obtain ⟨hnd, hall⟩ := h
  have hnames : (modify t n f).map (·.name) = t.map (·.name) := by
    simp only [modify, List.map_map]
    apply List.map_congr_left
    intro x _
    by_cases hx : x.name = n <;> simp [hx, (hf x).1]
  refine ⟨by rw [hnames]; exact hnd, ?_⟩
  intro y hy
  simp only [modify, List.mem_map] at hy
  obtain ⟨x, hx, rfl⟩ := hy
  by_cases hxn : x.name = n
  · simp only [hxn, if_true]
    rw [(hf x).1, (hf x).2]; exact hall x hx
  · simp only [hxn, if_false]; exact hall x hx

theorem tableOk_merge1 (ver : Ver V) (site : Str → Option Str) (t : Table) (src : Nat) (name new : Str)
    (h : TableOk site t) : TableOk site (merge1 ver site t src name new) := by
  unfold merge1
  split
  · simp only [getInstalled]
    by_cases hn : name = []
    · simp [hn, h]
    · simp only [hn, if_false]
      exact tableOk_upsert site t _ h ⟨rfl, hn⟩
  · exact tableOk_modify site t name _ (fun e => ⟨rfl, rfl⟩) h
  · exact tableOk_modify site t name _ (fun e => ⟨rfl, rfl⟩) h
  · exact h

theorem tableOk_mergeAll (cfg : Cfg) (ver : Ver V) (site : Str → Option Str) (ls : List (Nat × Str)) :
    TableOk site (mergeAll cfg ver site ls) := by
  unfold mergeAll
  suffices ∀ t, TableOk site t → TableOk site (ls.foldl (processLine cfg ver site) t) from
    this [] ⟨by simp, by simp⟩
  induction ls with
  | nil => intro t h; exact h
  | cons l ls ih =>
    intro t h
    simp only [List.foldl_cons]
    apply ih
    unfold processLine
    split
    · exact h
    · exact tableOk_merge1 ver site t _ _ _ h

/-! ## H. a second run -/

/-- the same table entry after the site changed: only the installed-version field is re-read -/
def refresh (s : Str → Option Str) (e : Entry) : Entry := { e with installed := s e.name }

theorem find_map_refresh (s : Str → Option Str) (t : Table) (m : Str) :
    find (t.map (refresh s)) m = (find t m).map (refresh s) := by
  induction t with
  | nil => rfl
  | cons x xs ih =>
    simp only [List.map_cons, find]
    have hn : (refresh s x).name = x.name := rfl
    rw [hn]
    by_cases hx : x.name = m
    · simp only [hx, if_true, Option.map_some]
    · simp only [hx, if_false]; exact ih

theorem versionOf_map_refresh (s : Str → Option Str) (t : Table) (m : Str) :
    versionOf (t.map (refresh s)) m = versionOf t m := by
  simp only [versionOf, find_map_refresh, Option.map_map]
  rfl

theorem upsert_map_refresh (s : Str → Option Str) (t : Table) (e : Entry) :
    (upsert t e).map (refresh s) = upsert (t.map (refresh s)) (refresh s e) := by
  induction t with
  | nil => rfl
  | cons x xs ih =>
    simp only [upsert, List.map_cons]
    have : (refresh s x).name = x.name := rfl
    have : (refresh s e).name = e.name := rfl
    by_cases hx : x.name = e.name
    · simp [hx, refresh]
    · simp only [hx, if_false, List.map_cons, ih, refresh]

theorem modify_map_refresh (s : Str → Option Str) (t : Table) (n : Str) (f : Entry → Entry)
    (hf : ∀ e, refresh s (f e) = f (refresh s e)) :
    (modify t n f).map (refresh s) = modify (t.map (refresh s)) n f := by
  simp only [modify, List.map_map]
  apply List.map_congr_left
  intro x _
  simp only [Function.comp]
  have : (refresh s x).name = x.name := rfl
  by_cases hx : x.name = n <;> simp [hx, this, hf]

theorem merge1_refresh (ver : Ver V) (site s : Str → Option Str) (t : Table) (src : Nat) (name new : Str) :
    (merge1 ver site t src name new).map (refresh s) = merge1 ver s (t.map (refresh s)) src name new := by
  unfold merge1
  rw [versionOf_map_refresh]
  cases branch ver (versionOf t name) new with
  | record =>
    simp only [getInstalled]
    by_cases hn : name = []
    · simp [hn]
    · simp only [hn, if_false, upsert_map_refresh]; rfl
  | keep => rfl
  | addSource => exact modify_map_refresh s t name _ (fun e => rfl)
  | bump => exact modify_map_refresh s t name _ (fun e => rfl)

theorem mergeAll_refresh (cfg : Cfg) (ver : Ver V) (site s : Str → Option Str) (ls : List (Nat × Str)) :
    mergeAll cfg ver s ls = (mergeAll cfg ver site ls).map (refresh s) := by
  unfold mergeAll
  suffices ∀ t, ls.foldl (processLine cfg ver s) (t.map (refresh s)) =
      (ls.foldl (processLine cfg ver site) t).map (refresh s) from this []
  induction ls with
  | nil => intro t; rfl
  | cons l ls ih =>
    intro t
    simp only [List.foldl_cons]
    rw [← ih]
    congr 1
    unfold processLine
    split
    · rfl
    · exact (merge1_refresh ver site s t _ _ _).symm

theorem rget_mem (r : Rec) (m v : Str) (h : rget r m = some v) : (m, v) ∈ r := by
  induction r with
  | nil => simp [rget] at h
  | cons kv rs ih =>
    obtain ⟨k, w⟩ := kv
    simp only [rget] at h
    by_cases hk : k = m
    · simp only [hk, if_true, Option.some.injEq] at h; subst h; subst hk; simp
    · simp only [hk, if_false] at h; simp [ih h]

theorem rget_phase2 (cfg : Cfg) (ver : Ver V) (allow : Bool) (t : Table) (hnd : (t.map (·.name)).Nodup) (r r1 : Rec)
    (ti : List Entry) (h : phase1 cfg ver allow t r = .go r1 ti) (hk : (keys r).Nodup) (site' : Str → Option Str) (m : Str) :
    rget (phase2 site' r1 ti) m = resolveRule site' m (recordRule cfg ver t r m) := by
  unfold phase2
  rw [rget_resolve site' _ (nodup_phase1 cfg ver allow t hnd r r1 ti h hk), rget_recUpdate_phase1 cfg ver allow t hnd r r1 ti h]
  rfl

theorem truthy_some (x : Option Str) (i : Str) (h : truthy x = some i) : x = some i ∧ i ≠ [] := by
  cases x with
  | none => simp [truthy] at h
  | some j =>
    cases j with
    | nil => simp [truthy] at h
    | cons c cs => simp only [truthy, Option.some.injEq] at h; subst h; simp

theorem truthy_of_ne (i : Str) (h : i ≠ []) : truthy (some i) = some i := by
  cases i with
  | nil => exact absurd rfl h
  | cons c cs => rfl

/-- the decision for every package in the second run, given the installer did its job: nothing to do -/
theorem second_run_nothing (cfg : Cfg) (ver : Ver V) (site site' : Str → Option Str) (t : Table) (ht : TableOk site t)
    (r : Rec) (hk : (keys r).Nodup) (hnu : ∀ kv ∈ r, kv.2 ≠ UNP) (allow : Bool) (r1 : Rec) (ti : List Entry)
    (h : phase1 cfg ver allow t r = .go r1 ti) (hio : InstallOk ver site site' ti) (e : Entry) (he : e ∈ t) :
    decidePkg cfg ver (rget (phase2 site' r1 ti) e.name) (refresh site' e) = .nothing := by
  obtain ⟨hnd, hall⟩ := ht
  rw [rget_phase2 cfg ver allow t hnd r r1 ti h hk]
  obtain ⟨_, hraise, _, hti⟩ := phase1_go cfg ver allow t hnd r r1 ti h
  have hfind : find t e.name = some e := find_of_mem_nodup t hnd e he
  have hnotin : decidePkg cfg ver (rget r e.name) e ≠ .install → site' e.name = e.installed := by
    intro hd
    rw [(hall e he).1]
    apply hio.others
    intro x hx hxn
    rw [hti, mem_installs] at hx
    have : find t x.name = some x := find_of_mem_nodup t hnd x hx.1
    rw [hxn, hfind] at this
    cases this
    exact hd hx.2
  simp only [recordRule, hfind]
  cases hd : decidePkg cfg ver (rget r e.name) e with
  | raise =>
    exfalso
    have : raises cfg ver r t = true := by
      simp only [raises, List.any_eq_true, beq_iff_eq]
      exact ⟨e, he, hd⟩
    rw [hraise] at this; cases this
  | install =>
    have hmem : e ∈ ti := by rw [hti, mem_installs]; exact ⟨he, hd⟩
    simp only [resolveRule]
    by_cases hu : e.version = UNP
    · obtain ⟨i, hi, hine⟩ := hio.unpinned e hmem hu
      simp only [hu, if_true, hi, truthy_of_ne i hine]
      simp [decidePkg_eq_ref, decidePkgRef, refresh, hi, truthy_of_ne i hine, hu]
    · obtain ⟨i, w, b, hi, hine, hw, hb, hwb⟩ := hio.pinned e hmem hu
      simp only [hu, if_false]
      have hd0 : differs cfg ver e.version i = some false := by
        unfold differs
        cases cfg.tolerantCmp <;> simp [sameV, hw, hb, hwb]
      simp [decidePkg_eq_ref, decidePkgRef, refresh, hi, truthy_of_ne i hine, hu, hd0]
  | pop =>
    simp only [resolveRule]
    have hs := hnotin (by rw [hd]; decide)
    have href : refresh site' e = e := by cases e; simp only [refresh] at hs ⊢; rw [hs]
    rw [href]
    rw [decidePkg_eq_ref] at hd ⊢
    unfold decidePkgRef at hd ⊢
    cases hti' : truthy e.installed with
    | none => simp only [hti'] at hd; cases hd
    | some inst => by_cases hu : e.version = UNP <;> simp [hu]
  | nothing =>
    have hs := hnotin (by rw [hd]; decide)
    have href : refresh site' e = e := by cases e; simp only [refresh] at hs ⊢; rw [hs]
    rw [href]
    cases hr : rget r e.name with
    | none => simp only [resolveRule]; rw [← hr]; exact hd
    | some v =>
      have : v ≠ UNP := hnu (e.name, v) (rget_mem r e.name v hr)
      simp only [resolveRule, this, if_false]
      rw [← hr]; exact hd

theorem resolve_noUnp (site' : Str → Option Str) (hs : ∀ n, site' n ≠ some UNP) (R : Rec) :
    ∀ kv ∈ resolveUnpinned site' R, kv.2 ≠ UNP := by
  intro kv hkv
  unfold resolveUnpinned at hkv
  by_cases hany : (R.any fun kv => kv.2 = UNP) = true
  · simp only [hany, if_true, List.mem_filterMap] at hkv
    obtain ⟨kv0, _, h0⟩ := hkv
    simp only [resolveOne] at h0
    by_cases hv : kv0.2 ≠ UNP
    · rw [if_pos hv] at h0; cases h0; exact hv
    · rw [if_neg hv] at h0
      cases ht : truthy (site' kv0.1) with
      | none => simp [ht] at h0
      | some i =>
        simp only [ht, Option.some.injEq] at h0
        subst h0
        intro e
        simp only at e
        exact hs kv0.1 (by rw [(truthy_some _ _ ht).1, e])
  · simp only [hany, Bool.false_eq_true, if_false] at hkv
    intro e
    apply hany
    simp only [List.any_eq_true, decide_eq_true_eq]
    exact ⟨kv, hkv, e⟩

theorem resolve_id (site' : Str → Option Str) (R : Rec) (h : ∀ kv ∈ R, kv.2 ≠ UNP) : resolveUnpinned site' R = R := by
  unfold resolveUnpinned
  have : (R.any fun kv => kv.2 = UNP) = false := by
    simp only [List.any_eq_false, decide_eq_true_eq]
    exact h
  simp [this]

theorem second_run (cfg : Cfg) (ver : Ver V) (site site' : Str → Option Str) (t : Table) (ht : TableOk site t)
    (r : Rec) (hk : (keys r).Nodup) (hnu : ∀ kv ∈ r, kv.2 ≠ UNP) (allow : Bool) (r1 : Rec) (ti : List Entry)
    (h : phase1 cfg ver allow t r = .go r1 ti) (hio : InstallOk ver site site' ti) (hs : ∀ n, site' n ≠ some UNP) :
    phase1 cfg ver allow (t.map (refresh site')) (phase2 site' r1 ti) = .go (phase2 site' r1 ti) [] ∧
    phase2 site' (phase2 site' r1 ti) [] = phase2 site' r1 ti := by
  have hdec : ∀ x ∈ t.map (refresh site'), decidePkg cfg ver (rget (phase2 site' r1 ti) x.name) x = .nothing := by
    intro x hx
    obtain ⟨e, he, rfl⟩ := List.mem_map.1 hx
    exact second_run_nothing cfg ver site site' t ht r hk hnu allow r1 ti h hio e he
  have hnames : (t.map (refresh site')).map (·.name) = t.map (·.name) := by
    simp only [List.map_map]; rfl
  have hnd' : ((t.map (refresh site')).map (·.name)).Nodup := by rw [hnames]; exact ht.1
  obtain ⟨hallow, _, _, _⟩ := phase1_go cfg ver allow t ht.1 r r1 ti h
  constructor
  · unfold phase1
    have hb : (!(t.map (refresh site')).isEmpty && !allow) = false := by
      rcases hallow with h0 | h0
      · subst h0; rfl
      · subst h0; simp
    rw [optinGuard_eq, Bool.true_and]
    simp only [hb, Bool.false_eq_true, if_false]
    rw [decideLoop_spec cfg ver _ hnd']
    have h1 : raises cfg ver (phase2 site' r1 ti) (t.map (refresh site')) = false := by
      simp only [raises, List.any_eq_false, beq_iff_eq]
      intro x hx; rw [hdec x hx]; decide
    have h2 : installs cfg ver (phase2 site' r1 ti) (t.map (refresh site')) = [] := by
      simp only [installs, List.filter_eq_nil_iff, beq_iff_eq]
      intro x hx; rw [hdec x hx]; decide
    have h3 : ∀ n, popped cfg ver (phase2 site' r1 ti) (t.map (refresh site')) n = false := by
      intro n
      simp only [popped, List.any_eq_false, Bool.and_eq_true, beq_iff_eq, not_and]
      intro x hx _; rw [hdec x hx]; decide
    simp only [h1, h2, h3, Bool.false_eq_true, if_false, Bool.not_false, List.append_nil]
    congr 1
    exact List.filter_eq_self.2 (fun _ _ => rfl)
  · unfold phase2
    simp only [recUpdate, List.foldl_nil]
    exact resolve_id site' _ (resolve_noUnp site' hs _)

theorem decidePkg_pop_iff (cfg : Cfg) (ver : Ver V) (ok : VerOk ver) (recd : Option Str) (e : Entry)
    (hnr : decidePkg cfg ver recd e ≠ .raise) :
    decidePkg cfg ver recd e = .pop ↔ ExternallyChanged ver recd e := by
  rw [decidePkg_eq_ref] at hnr ⊢
  unfold decidePkgRef at hnr ⊢
  unfold ExternallyChanged
  cases hi : truthy e.installed with
  | none => simp
  | some inst =>
    simp only [hi] at hnr
    by_cases hu : e.version = UNP
    · simp only [hu, if_true]
      cases recd with
      | none => simp
      | some r =>
        by_cases hr : r = inst
        · subst hr; simp
        · simp only [ne_eq, hr, not_false_eq_true, if_true, true_iff]
          exact ⟨inst, r, rfl, rfl, Or.inl ⟨trivial, hr⟩⟩
    · simp only [hu, if_false] at hnr ⊢
      cases recd with
      | none => simp
      | some r =>
        simp only at hnr ⊢
        cases hd1 : differs cfg ver r inst with
        | none => simp [hd1] at hnr
        | some d1 =>
          have e1 := differs_some cfg ver ok r inst d1 hd1
          cases d1 with
          | true =>
            simp only [true_iff]
            exact ⟨inst, r, rfl, rfl, Or.inr ⟨hu, e1.1 rfl⟩⟩
          | false =>
            have hs : SameV ver r inst :=
              Classical.byContradiction (fun hc => absurd (e1.2 hc) (by simp))
            constructor
            · intro h
              simp only [hd1] at hnr
              cases hd2 : differs cfg ver e.version inst with
              | none => simp [hd2] at hnr
              | some d2 => cases d2 <;> simp [hd2] at h
            · rintro ⟨i', r', h0, h1, h2⟩
              cases h0; cases h1
              rcases h2 with ⟨h3, _⟩ | ⟨_, h3⟩
              · exact h3.elim
              · exact absurd hs h3

theorem not_raise_of_raises_false (cfg : Cfg) (ver : Ver V) (r : Rec) (t : Table) (h : raises cfg ver r t = false)
    (e : Entry) (he : e ∈ t) : decidePkg cfg ver (rget r e.name) e ≠ .raise := by
  intro hd
  have : raises cfg ver r t = true := by
    simp only [raises, List.any_eq_true, beq_iff_eq]
    exact ⟨e, he, hd⟩
  rw [h] at this; cases this

/-- the decision loop ends normally whenever no single decision can raise (no assumption on the table) -/
theorem decideLoop_isSome (cfg : Cfg) (ver : Ver V) (hnr : ∀ recd e, decidePkg cfg ver recd e ≠ .raise) (t : Table)
    (st : LoopSt) : ∃ st', decideLoop cfg ver t st = some st' := by
  induction t generalizing st with
  | nil => exact ⟨st, rfl⟩
  | cons e es ih =>
    simp only [decideLoop]
    cases hd : decidePkg cfg ver (rget st.recd e.name) e with
    | raise => exact absurd hd (hnr _ _)
    | install => simp only [applyDec]; exact ih _
    | pop => simp only [applyDec]; exact ih _
    | nothing => simp only [applyDec]; exact ih _

/-! ## the numeric instance is a total preorder -/

theorem leNum_refl (a : List Nat) : leNum a a = true := by
  induction a with
  | nil => rfl
  | cons x xs ih => simp [leNum, ih]

theorem leNum_total (a b : List Nat) : leNum a b = true ∨ leNum b a = true := by
  induction a generalizing b with
  | nil => left; rfl
  | cons x xs ih =>
    cases b with
    | nil => right; rfl
    | cons y ys =>
      simp only [leNum, Bool.or_eq_true, decide_eq_true_eq, Bool.and_eq_true, beq_iff_eq]
      rcases Nat.lt_trichotomy x y with h | h | h
      · left; left; exact h
      · subst h
        rcases ih ys with h | h
        · left; right; exact ⟨rfl, h⟩
        · right; right; exact ⟨rfl, h⟩
      · right; left; exact h

theorem leNum_trans (a b c : List Nat) (h1 : leNum a b = true) (h2 : leNum b c = true) : leNum a c = true := by
  induction a generalizing b c with
  | nil => rfl
  | cons x xs ih =>
    cases b with
    | nil => simp [leNum] at h1
    | cons y ys =>
      cases c with
      | nil => simp [leNum] at h2
      | cons z zs =>
        simp only [leNum, Bool.or_eq_true, decide_eq_true_eq, Bool.and_eq_true, beq_iff_eq] at h1 h2 ⊢
        rcases h1 with h1 | ⟨rfl, h1⟩
        · rcases h2 with h2 | ⟨rfl, _⟩
          · left; omega
          · left; exact h1
        · rcases h2 with h2 | ⟨rfl, h2⟩
          · left; exact h2
          · right; exact ⟨rfl, ih ys zs h1 h2⟩

theorem numVer_ok : VerOk numVer where
  refl := leNum_refl
  trans := leNum_trans
  total := leNum_total
  unp := by decide
  empty := by decide

end PsModel.C20
