import PsModel.Lemmas.C05
/-!
# C05 – property theorems: `state_check_now`, `state_hold`, `state_hold_false` timing

Only property statements live here; helper lemmas are in `Lemmas/C05.lean`.

`Spec.holdRuns cfg b0 hist` is the documented timeline; `Legacy.holdRuns` the loop-variable machine of
`trigger_watch`; `WaitUntil.firstReturn` the one of legacy `task.wait_until`; `New.holdRuns` / `New.firstReturn` the
machine of `StateTriggerDecorator` (decorator / inside `task.wait_until`).  All theorems are for every configuration
(any `state_hold`, `state_hold_false` in ms, any `state_check_now`), every initial truth and EVERY history
satisfying `NoTies` (strictly increasing event times that avoid the hold deadlines – decidable).
-/
namespace PsModel.C05
open Spec

/-- **Legacy decorators: full.**  The loop variables of `trigger_watch` realise the documented timeline: same runs, at
the same virtual times, with the arguments of the FIRST candidate of each delay. -/
theorem C05_legacy (cfg : Cfg) (b0 : Bool) (hist : List Evt) (h : NoTies cfg hist) :
    Legacy.holdRuns cfg b0 hist = Spec.holdRuns cfg b0 hist := by
  unfold Legacy.holdRuns Spec.holdRuns
  have hsim := legacy_sim cfg hist (Legacy.start cfg b0)
    (fun hw => by
      obtain ⟨h1, h2⟩ := start_waiting cfg b0 hw
      exact ⟨h1, by rw [h2]; exact h.1⟩) h.2
  rw [abs_start] at hsim
  rw [← hsim]
  rfl

/-- **Legacy `task.wait_until` = first run of the decorator loop** (every history, no grid needed), except in the
configuration of `C05_waituntil_cex`: `state_check_now` (the default) together with `state_hold_false` while the
expression is initially false. -/
theorem C05_waituntil_lockstep (cfg : Cfg) (b0 : Bool) (hist : List Evt)
    (hok : ¬ (cfg.checkNow = true ∧ cfg.holdFalse.isSome = true ∧ b0 = false)) :
    WaitUntil.firstReturn cfg b0 hist = (Legacy.holdRuns cfg b0 hist).head? :=
  wu_sim cfg hist _ _ (wj_start cfg b0 hok)

/-- **Legacy `task.wait_until`: first return = first run of the timeline** (partial, see above). -/
theorem C05_waituntil_partial (cfg : Cfg) (b0 : Bool) (hist : List Evt) (h : NoTies cfg hist)
    (hok : ¬ (cfg.checkNow = true ∧ cfg.holdFalse.isSome = true ∧ b0 = false)) :
    WaitUntil.firstReturn cfg b0 hist = (Spec.holdRuns cfg b0 hist).head? := by
  rw [C05_waituntil_lockstep cfg b0 hist hok, C05_legacy cfg b0 hist h]

/-- witness: `task.wait_until(state_trigger=…, state_hold_false=0)` (check_now defaults to True), expression false at
the call: the initial False is not recorded (`state_false_time` stays `None`), so the first true evaluation at 2 s
is ignored; it returns only at 6 s after a later False.  The timeline (and the decorator) fire at 2 s. -/
theorem C05_waituntil_cex :
    let cfg : Cfg := ⟨true, none, some 0⟩
    let hist : List Evt := [⟨2000, .eval true, 1⟩, ⟨4000, .eval false, 2⟩, ⟨6000, .eval true, 3⟩]
    NoTies cfg hist ∧ WaitUntil.firstReturn cfg false hist = some (6000, 3) ∧
      (Spec.holdRuns cfg false hist).head? = some (2000, 1) := by
  decide

/-- **New subsystem, decorators: when things happen** (partial).  On histories without messages that cause no
evaluation (`skip`) and outside `state_check_now ∧ state_hold_false ∧ initially true`, the runs happen at exactly
the times of the timeline. -/
theorem C05_new_partial_times (cfg : Cfg) (b0 : Bool) (hist : List Evt) (h : NoTies cfg hist)
    (hns : noSkip hist = true) (hok : ¬ (cfg.checkNow = true ∧ cfg.holdFalse.isSome = true ∧ b0 = true)) :
    (New.holdRuns cfg b0 hist).map (·.1) = (Spec.holdRuns cfg b0 hist).map (·.1) := by
  unfold New.holdRuns Spec.holdRuns
  exact (new_sim cfg hist _ _ (nr_start cfg false b0 hok) hns
    (fun s hs => by rw [nr_start_te cfg false b0 s hs]; exact h.1) h.2).1

/-- **New subsystem, decorators: full agreement without `state_hold`** (partial): the arguments can only go stale
while a delay is pending (`C05_new_cex_latest_args`). -/
theorem C05_new_partial (cfg : Cfg) (b0 : Bool) (hist : List Evt) (h : NoTies cfg hist)
    (hns : noSkip hist = true) (hok : ¬ (cfg.checkNow = true ∧ cfg.holdFalse.isSome = true ∧ b0 = true))
    (hS : cfg.hold = none) :
    New.holdRuns cfg b0 hist = Spec.holdRuns cfg b0 hist := by
  unfold New.holdRuns Spec.holdRuns
  exact (new_sim cfg hist _ _ (nr_start cfg false b0 hok) hns
    (fun s hs => by rw [nr_start_te cfg false b0 s hs]; exact h.1) h.2).2 hS

/-- **New subsystem, `task.wait_until`: time of the first return** (partial, same fragment). -/
theorem C05_new_waituntil_partial (cfg : Cfg) (b0 : Bool) (hist : List Evt) (h : NoTies cfg hist)
    (hns : noSkip hist = true) (hok : ¬ (cfg.checkNow = true ∧ cfg.holdFalse.isSome = true ∧ b0 = true)) :
    (New.firstReturn cfg b0 hist).map (·.1) = ((Spec.holdRuns cfg b0 hist).head?).map (·.1) := by
  unfold New.firstReturn Spec.holdRuns
  have := (new_sim cfg hist _ _ (nr_start cfg true b0 hok) hns
    (fun s hs => by rw [nr_start_te cfg true b0 s hs]; exact h.1) h.2).1
  rw [← List.head?_map, ← List.head?_map, this]

/-- #13: `@state_trigger(expr, state_hold=5)`, true at 1 s, attribute-only update of the watched entity at 3 s: the new
`_cycle` treats the message as `trig_ok = False`, the hold is cancelled and the function never runs.
Timeline and legacy: run at 6 s. -/
theorem C05_new_cex_attr_update_cancels_hold :
    let cfg : Cfg := ⟨false, some 5000, none⟩
    let hist : List Evt := [⟨1000, .eval true, 1⟩, ⟨3000, .skip, 2⟩]
    NoTies cfg hist ∧ New.holdRuns cfg false hist = [] ∧ Spec.holdRuns cfg false hist = [(6000, 1)] ∧
      Legacy.holdRuns cfg false hist = [(6000, 1)] := by
  decide

/-- #14: two true evaluations during a hold: the run gets the LATEST event's arguments (`last_func_args` is
overwritten by every message); the timeline and legacy pass the first event's. -/
theorem C05_new_cex_latest_args :
    let cfg : Cfg := ⟨false, some 5000, none⟩
    let hist : List Evt := [⟨1000, .eval true, 1⟩, ⟨3000, .eval true, 2⟩]
    NoTies cfg hist ∧ New.holdRuns cfg false hist = [(6000, 2)] ∧ Spec.holdRuns cfg false hist = [(6000, 1)] := by
  decide

/-- same root as #13: with `state_hold_false=2`, expression true since start, an attribute-only update at 1 s starts a
"false" period although nothing was evaluated, and the true evaluation at 5 s fires.  Timeline and legacy: no run. -/
theorem C05_new_cex_skip_starts_false_period :
    let cfg : Cfg := ⟨false, none, some 2000⟩
    let hist : List Evt := [⟨1000, .skip, 1⟩, ⟨5000, .eval true, 2⟩]
    NoTies cfg hist ∧ New.holdRuns cfg true hist = [(5000, 2)] ∧ Spec.holdRuns cfg true hist = [] ∧
      Legacy.holdRuns cfg true hist = [] := by
  decide

/-- `state_check_now=True` with `state_hold_false`, expression true at definition time: the documented trigger at
start does not happen in the new subsystem (`_check_new_state` demands a preceding false period). -/
theorem C05_new_cex_checknow_holdfalse_no_start :
    let cfg : Cfg := ⟨true, none, some 2000⟩
    New.holdRuns cfg true [] = [] ∧ Spec.holdRuns cfg true [] = [(0, 0)] ∧ Legacy.holdRuns cfg true [] = [(0, 0)] := by
  decide

/-- new `task.wait_until(state_hold=5, state_hold_false=10)`, expression true at the call: `state_hold_false` is reset
to `None` for good, so after False at 1 s the True at 2 s starts a new hold and the call returns at 7 s; timeline and
legacy: the expression was false for 1 s only – no return. -/
theorem C05_new_waituntil_cex_holdfalse_disabled :
    let cfg : Cfg := ⟨true, some 5000, some 10000⟩
    let hist : List Evt := [⟨1000, .eval false, 1⟩, ⟨2000, .eval true, 2⟩]
    NoTies cfg hist ∧ New.firstReturn cfg true hist = some (7000, 2) ∧ (Spec.holdRuns cfg true hist).head? = none ∧
      WaitUntil.firstReturn cfg true hist = none := by
  decide

/-- **Irrelevance (timeline).**  Changes that cause no evaluation – unwatched entities, attribute-only updates of a
value-watched entity – can be inserted anywhere or removed: the timeline's runs do not change. -/
theorem C05_irrelevant (cfg : Cfg) (b0 : Bool) (hist : List Evt) (hs : hist.Pairwise (fun a b => a.t ≤ b.t)) :
    Spec.holdRuns cfg b0 (hist.filter isEval) = Spec.holdRuns cfg b0 hist := by
  unfold Spec.holdRuns
  rw [spec_irrelevant cfg hist _ hs]

/-- **Irrelevance (legacy loop).**  The same for the real loop variables: no timer is touched by such changes. -/
theorem C05_irrelevant_legacy (cfg : Cfg) (b0 : Bool) (hist : List Evt) (h : NoTies cfg hist) :
    Legacy.holdRuns cfg b0 (hist.filter isEval) = Legacy.holdRuns cfg b0 hist := by
  have h' : NoTies cfg (hist.filter isEval) := ⟨gridFrom_filter isEval h.1, grid_filter isEval h.2⟩
  rw [C05_legacy cfg b0 _ h', C05_legacy cfg b0 _ h, C05_irrelevant cfg b0 hist (grid_sorted h.2)]

/-- non-vacuity: a history on the grid where the initial check starts a hold that fires (2.5 s), a hold that is
cancelled (true 5 s, false 7 s), a `state_hold_false` rejection (true 8 s after 1 s of false), `skip`/`unrelated`
changes in between, and a hold that fires with the first candidate's arguments (true 12 s, true 13 s → run at 14.5 s) -/
example :
    let cfg : Cfg := ⟨true, some 2500, some 1500⟩
    let hist : List Evt := [⟨3000, .eval false, 1⟩, ⟨5000, .eval true, 2⟩, ⟨6000, .skip, 3⟩, ⟨7000, .eval false, 4⟩,
      ⟨8000, .eval true, 5⟩, ⟨9000, .unrelated, 6⟩, ⟨10000, .eval false, 7⟩, ⟨12000, .eval true, 8⟩, ⟨13000, .eval true, 9⟩]
    NoTies cfg hist ∧ Legacy.holdRuns cfg true hist = [(2500, 0), (14500, 8)] := by
  decide

end PsModel.C05
