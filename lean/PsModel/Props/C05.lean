import PsModel.Lemmas.C05
/-!
# C05 – property theorems: `state_check_now`, `state_hold`, `state_hold_false` timing

Only property statements live here; helper lemmas are in `Lemmas/C05.lean`.

`New.current` / `New.preFix` are the deviation flags of the new subsystem's `_cycle` after / before the `fix:` commits
`d4cc584`, `9670c81` and `e7ed034`; `New.holdRuns` is the machine with the current flags.  `WaitUntil.firstReturn` /
`WaitUntil.firstReturnPreFix` are legacy `task.wait_until` after / before fix `07b3e39`.  On the current tree all four
machines satisfy the FULL statement; every former `_cex` is now a `_regress_` theorem about the pre-fix values.
`Spec.holdRuns cfg b0 hist` is the documented timeline; `Legacy.holdRuns` the loop-variable machine of
`trigger_watch`; `WaitUntil.firstReturn` the one of legacy `task.wait_until`; `New.holdRuns` / `New.firstReturn` the
machine of `StateTriggerDecorator` (decorator / inside `task.wait_until`).  All theorems are for every configuration
(any `state_hold`, `state_hold_false` in ms, any `state_check_now`), every initial truth and EVERY history
satisfying `NoTies` (strictly increasing event times that avoid the hold deadlines – decidable).
-/
namespace PsModel.C05
open Spec

/-- **Legacy decorators: full.**  The loop variables of `trigger_watch` realise the documented timeline: same runs, at
the same virtual times, with the arguments of the FIRST candidate of each delay. -/
theorem C05_legacy (cfg : Cfg) (b0 : Bool) (hist : List Evt) (h : NoTies cfg hist) :
    Legacy.holdRuns cfg b0 hist = Spec.holdRuns cfg b0 hist := by
  unfold Legacy.holdRuns Spec.holdRuns
  have hsim := legacy_sim cfg hist (Legacy.start cfg b0)
    (fun hw => by
      obtain ⟨h1, h2⟩ := start_waiting cfg b0 hw
      exact ⟨h1, by rw [h2]; exact h.1⟩) h.2
  rw [abs_start] at hsim
  rw [← hsim]
  rfl

/-- **Legacy `task.wait_until` = first run of the decorator loop** – every configuration, every history (no grid
needed).  Full since fix `07b3e39` (before it: not for `state_check_now ∧ state_hold_false ∧ initially false`, see
`C05_waituntil_regress_init_false`). -/
theorem C05_waituntil_lockstep (cfg : Cfg) (b0 : Bool) (hist : List Evt) :
    WaitUntil.firstReturn cfg b0 hist = (Legacy.holdRuns cfg b0 hist).head? :=
  wu_sim cfg hist _ _ (wj_start cfg b0)

/-- **Legacy `task.wait_until`: full.**  The first return is the first run of the timeline. -/
theorem C05_waituntil (cfg : Cfg) (b0 : Bool) (hist : List Evt) (h : NoTies cfg hist) :
    WaitUntil.firstReturn cfg b0 hist = (Spec.holdRuns cfg b0 hist).head? := by
  rw [C05_waituntil_lockstep cfg b0 hist, C05_legacy cfg b0 hist h]

/-- regression (fixed by `07b3e39`): `task.wait_until(state_trigger=…, state_hold_false=0)` (check_now defaults to
True), expression false at the call.  BEFORE the fix the initial False was not recorded (`state_false_time` stayed
`None`), the first true evaluation at 2 s was ignored and the call returned only at 6 s after a later False; now it
returns at 2 s like the timeline (and the decorator). -/
theorem C05_waituntil_regress_init_false :
    let cfg : Cfg := ⟨true, none, some 0⟩
    let hist : List Evt := [⟨2000, .eval true, 1⟩, ⟨4000, .eval false, 2⟩, ⟨6000, .eval true, 3⟩]
    NoTies cfg hist ∧ WaitUntil.firstReturnPreFix cfg false hist = some (6000, 3) ∧
      WaitUntil.firstReturn cfg false hist = some (2000, 1) ∧
      (Spec.holdRuns cfg false hist).head? = some (2000, 1) := by
  decide

/-- **New subsystem, decorators: full** (code after the fixes `d4cc584`, `9670c81`, `e7ed034`): for every
configuration, every initial truth and EVERY no-ties history – messages that cause no evaluation included, with or
without `state_hold` / `state_hold_false` / `state_check_now` – `_cycle` produces exactly the timeline's runs: same
times, and the arguments of the first candidate of each delay. -/
theorem C05_new (cfg : Cfg) (b0 : Bool) (hist : List Evt) (h : NoTies cfg hist) :
    New.holdRuns cfg b0 hist = Spec.holdRuns cfg b0 hist := by
  unfold New.holdRuns New.holdRunsF Spec.holdRuns
  obtain ⟨hs, hi⟩ := nabs_start cfg false b0
  have := new_sim cfg hist _ hi (fun s hs => by rw [nr_start_te _ cfg false b0 s hs]; exact h.1) h.2
  rw [hs] at this
  rw [← this]
  rfl

/-- **New subsystem, `task.wait_until`: full.**  The first return is the first run of the timeline. -/
theorem C05_new_waituntil (cfg : Cfg) (b0 : Bool) (hist : List Evt) (h : NoTies cfg hist) :
    New.firstReturn cfg b0 hist = (Spec.holdRuns cfg b0 hist).head? := by
  unfold New.firstReturn New.firstReturnF Spec.holdRuns
  obtain ⟨hs, hi⟩ := nabs_start cfg true b0
  have := new_sim cfg hist _ hi (fun s hs => by rw [nr_start_te _ cfg true b0 s hs]; exact h.1) h.2
  rw [hs] at this
  rw [← this]
  rfl

/-- regression (#13, fixed by `d4cc584`): `state_hold=5`, true at 1 s, attribute-only update at 3 s.  The PRE-FIX
`_cycle` (`New.preFix`) handled the message as `trig_ok = False`: the hold was cancelled and the function never ran;
the code as it is now runs at 6 s like the timeline and legacy. -/
theorem C05_new_regress_attr_update_cancels_hold :
    let cfg : Cfg := ⟨false, some 5000, none⟩
    let hist : List Evt := [⟨1000, .eval true, 1⟩, ⟨3000, .skip, 2⟩]
    NoTies cfg hist ∧ New.holdRunsF New.preFix cfg false hist = [] ∧ New.holdRuns cfg false hist = [(6000, 1)] ∧
      Spec.holdRuns cfg false hist = [(6000, 1)] ∧ Legacy.holdRuns cfg false hist = [(6000, 1)] := by
  decide

/-- regression (#14, fixed by `9670c81`): two true evaluations during a hold.  PRE-FIX the run got the LATEST event's
arguments (`last_func_args` overwritten by every message); now it gets the first event's, like the timeline. -/
theorem C05_new_regress_latest_args :
    let cfg : Cfg := ⟨false, some 5000, none⟩
    let hist : List Evt := [⟨1000, .eval true, 1⟩, ⟨3000, .eval true, 2⟩]
    NoTies cfg hist ∧ New.holdRunsF New.preFix cfg false hist = [(6000, 2)] ∧
      New.holdRuns cfg false hist = [(6000, 1)] ∧ Spec.holdRuns cfg false hist = [(6000, 1)] := by
  decide

/-- regression (same root as #13, fixed by `d4cc584`): `state_hold_false=2`, expression true since start, an
attribute-only update at 1 s.  PRE-FIX it started a "false" period although nothing was evaluated and the true
evaluation at 5 s fired; now, like timeline and legacy: no run. -/
theorem C05_new_regress_skip_starts_false_period :
    let cfg : Cfg := ⟨false, none, some 2000⟩
    let hist : List Evt := [⟨1000, .skip, 1⟩, ⟨5000, .eval true, 2⟩]
    NoTies cfg hist ∧ New.holdRunsF New.preFix cfg true hist = [(5000, 2)] ∧ New.holdRuns cfg true hist = [] ∧
      Spec.holdRuns cfg true hist = [] ∧ Legacy.holdRuns cfg true hist = [] := by
  decide

/-- regression (fixed by `e7ed034`): `state_check_now=True` with `state_hold_false`, expression true at definition
time.  BEFORE the fix the documented trigger at start did not happen in the new subsystem (`_check_new_state` demanded
a preceding false period); now it does, like timeline and legacy. -/
theorem C05_new_regress_checknow_holdfalse_no_start :
    let cfg : Cfg := ⟨true, none, some 2000⟩
    New.holdRunsF New.preFix cfg true [] = [] ∧ New.holdRuns cfg true [] = [(0, 0)] ∧
      Spec.holdRuns cfg true [] = [(0, 0)] ∧ Legacy.holdRuns cfg true [] = [(0, 0)] := by
  decide

/-- regression (fixed by `e7ed034`): new `task.wait_until(state_hold=5, state_hold_false=10)`, expression true at the
call.  BEFORE the fix `state_hold_false` was reset to `None` for good, so after False at 1 s the True at 2 s started a
new hold and the call returned at 7 s; now, like timeline and legacy: the expression was false for 1 s only – no
return. -/
theorem C05_new_waituntil_regress_holdfalse_disabled :
    let cfg : Cfg := ⟨true, some 5000, some 10000⟩
    let hist : List Evt := [⟨1000, .eval false, 1⟩, ⟨2000, .eval true, 2⟩]
    NoTies cfg hist ∧ New.firstReturnF New.preFix cfg true hist = some (7000, 2) ∧
      New.firstReturn cfg true hist = none ∧ (Spec.holdRuns cfg true hist).head? = none ∧
      WaitUntil.firstReturn cfg true hist = none := by
  decide

/-- **Legacy `task.wait_until(…, timeout=T)`: first of hold and timeout.**  For every configuration, initial truth,
no-ties history and every timeout `T > 0` that coincides with no event: the call returns the timeline's first run if
that happens before `T`, and `{"trigger_type": "timeout"}` at `T` otherwise – in particular a `state_hold` that is
still running at `T` does NOT turn into a state trigger. -/
theorem C05_waituntil_timeout (T : Nat) (hT : 0 < T) (cfg : Cfg) (b0 : Bool) (hist : List Evt) (h : NoTies cfg hist)
    (hne : ∀ e ∈ hist, e.t ≠ T) :
    WaitUntil.firstReturnT T cfg b0 hist = cutT T (Spec.holdRuns cfg b0 hist).head? := by
  have hstart : ∀ r, (WaitUntil.start cfg b0).ret = some r → r.1 < T := by
    intro r hr
    obtain ⟨cn, S, H⟩ := cfg
    revert hr
    unfold WaitUntil.start WaitUntil.startF WaitUntil.unrecordedCurrent
    cases cn <;> cases H <;> cases S <;> cases b0 <;> simp <;> intro hr <;> rw [← hr] <;> exact hT
  have := driveT_eq T cfg hist (WaitUntil.start cfg b0) hstart hne (grid_sorted h.2)
  unfold WaitUntil.firstReturnT
  rw [this]
  have h2 := C05_waituntil cfg b0 hist h
  unfold WaitUntil.firstReturn WaitUntil.firstReturnF at h2
  unfold WaitUntil.start
  rw [h2]

/-- **New `task.wait_until(…, timeout=T)`** (first dispatch of the state-trigger decorator and the timeout decorator). -/
theorem C05_new_waituntil_timeout (T : Nat) (cfg : Cfg) (b0 : Bool) (hist : List Evt) (h : NoTies cfg hist) :
    New.firstReturnT T cfg b0 hist = cutT T (Spec.holdRuns cfg b0 hist).head? := by
  unfold New.firstReturnT
  rw [C05_new_waituntil cfg b0 hist h]

/-- **Triggers made only of any-change names** (`namesOnly`): whatever `state_check_now` / `state_hold_false` /
the current values are, all four machines produce the timeline of a trigger that is NOT checked at the start and on
which every match is a candidate – in particular nothing happens at definition time (second part: with an empty
history there is no run and `task.wait_until` does not return), also with an explicit `state_check_now=True`. -/
theorem C05_names_only (cfg : Cfg) (b0 : Bool) (hist : List Evt) (h : NoTies (namesOnly cfg) hist) :
    Legacy.holdRuns (namesOnly cfg) b0 hist = Spec.holdRuns (namesOnly cfg) false hist ∧
      New.holdRuns (namesOnly cfg) b0 hist = Spec.holdRuns (namesOnly cfg) false hist ∧
      WaitUntil.firstReturn (namesOnly cfg) b0 hist = (Spec.holdRuns (namesOnly cfg) false hist).head? ∧
      New.firstReturn (namesOnly cfg) b0 hist = (Spec.holdRuns (namesOnly cfg) false hist).head? := by
  have hb : Spec.holdRuns (namesOnly cfg) b0 hist = Spec.holdRuns (namesOnly cfg) false hist := by
    unfold Spec.holdRuns Spec.start namesOnly; simp
  rw [← hb]
  exact ⟨C05_legacy _ b0 hist h, C05_new _ b0 hist h, C05_waituntil _ b0 hist h, C05_new_waituntil _ b0 hist h⟩

theorem C05_names_only_no_start (cfg : Cfg) (b0 : Bool) :
    Spec.holdRuns (namesOnly cfg) b0 [] = [] ∧ Legacy.holdRuns (namesOnly cfg) b0 [] = [] ∧
      New.holdRuns (namesOnly cfg) b0 [] = [] ∧ WaitUntil.firstReturn (namesOnly cfg) b0 [] = none ∧
      New.firstReturn (namesOnly cfg) b0 [] = none := by
  have hs : Spec.holdRuns (namesOnly cfg) b0 [] = [] := by
    unfold Spec.holdRuns Spec.start namesOnly Spec.drive Spec.flush; simp
  have hnt : NoTies (namesOnly cfg) [] := ⟨rfl, rfl⟩
  refine ⟨hs, ?_, ?_, ?_, ?_⟩
  · rw [C05_legacy _ b0 [] hnt, hs]
  · rw [C05_new _ b0 [] hnt, hs]
  · rw [C05_waituntil _ b0 [] hnt, hs]; rfl
  · rw [C05_new_waituntil _ b0 [] hnt, hs]; rfl

/-- **Irrelevance (timeline).**  Changes that cause no evaluation – unwatched entities, attribute-only updates of a
value-watched entity – can be inserted anywhere or removed: the timeline's runs do not change. -/
theorem C05_irrelevant (cfg : Cfg) (b0 : Bool) (hist : List Evt) (hs : hist.Pairwise (fun a b => a.t ≤ b.t)) :
    Spec.holdRuns cfg b0 (hist.filter isEval) = Spec.holdRuns cfg b0 hist := by
  unfold Spec.holdRuns
  rw [spec_irrelevant cfg hist _ hs]

/-- **Irrelevance (legacy loop).**  The same for the real loop variables: no timer is touched by such changes. -/
theorem C05_irrelevant_legacy (cfg : Cfg) (b0 : Bool) (hist : List Evt) (h : NoTies cfg hist) :
    Legacy.holdRuns cfg b0 (hist.filter isEval) = Legacy.holdRuns cfg b0 hist := by
  have h' : NoTies cfg (hist.filter isEval) := ⟨gridFrom_filter isEval h.1, grid_filter isEval h.2⟩
  rw [C05_legacy cfg b0 _ h', C05_legacy cfg b0 _ h, C05_irrelevant cfg b0 hist (grid_sorted h.2)]

/-- **Irrelevance (new subsystem, current code).**  Since `d4cc584` no timer of `_cycle` is touched by such changes
either. -/
theorem C05_irrelevant_new (cfg : Cfg) (b0 : Bool) (hist : List Evt) (h : NoTies cfg hist) :
    New.holdRuns cfg b0 (hist.filter isEval) = New.holdRuns cfg b0 hist := by
  have h' : NoTies cfg (hist.filter isEval) := ⟨gridFrom_filter isEval h.1, grid_filter isEval h.2⟩
  rw [C05_new cfg b0 _ h', C05_new cfg b0 _ h, C05_irrelevant cfg b0 hist (grid_sorted h.2)]

/-- **The start-up state check happens exactly once, with or without a start-up time trigger on the same function**
(legacy: one `trigger_watch` loop serves both).  The head of the loop consumes `run_on_startup` and
`check_state_expr_on_start` in consecutive iterations: the branches taken are `startup` (iff the function has a
start-up time trigger), then `check` (iff `state_check_now` or `state_hold_false` is set), then the loop waits; the
function is started once for `"startup"`, and the loop variables after the head are exactly those of a function without
time trigger (`Legacy.start`). -/
theorem C05_startup_check_once (cfg : Cfg) (tt b0 : Bool) :
    Legacy.startT cfg tt b0 =
      (Legacy.start cfg b0, (if tt then 1 else 0),
        (if tt then [Legacy.Branch.startup] else []) ++
          (if cfg.checkNow || cfg.holdFalse.isSome then [Legacy.Branch.check] else []) ++ [Legacy.Branch.wait]) := by
  unfold Legacy.startT Legacy.start Legacy.headCurrent
  have h1 : Gen.TW_HEAD_STARTUP_RESETS = true := by decide
  have h2 : Gen.TW_HEAD_CHECK_RESETS = true := by decide
  rw [h1, h2]
  cases tt <;> cases hc : (cfg.checkNow || cfg.holdFalse.isSome) <;>
    simp [Legacy.startLoopF, Legacy.headStepF]

/-- **Legacy decorators with a time trigger on the same function: full.**  Whatever time trigger the function also
carries, its state runs are the documented timeline, and a start-up time trigger starts it exactly once more. -/
theorem C05_legacy_with_time_trigger (cfg : Cfg) (tt b0 : Bool) (hist : List Evt) (h : NoTies cfg hist) :
    Legacy.holdRunsT cfg tt b0 hist = (Spec.holdRuns cfg b0 hist, if tt then 1 else 0) := by
  unfold Legacy.holdRunsT
  rw [C05_startup_check_once cfg tt b0]
  have := C05_legacy cfg b0 hist h
  unfold Legacy.holdRuns at this
  simp only [this]

/-- the flag resets are what makes the branches one-shot: without `self.run_on_startup = False` the loop would take the
start-up branch for ever and never check the state trigger (fuel-bounded witness) -/
example :
    (Legacy.startLoopF ⟨false, true⟩ ⟨true, none, none⟩ true 3 ⟨true, true⟩ Legacy.init 0 []).2.2 =
      [.startup, .startup, .startup] := by decide

/-- **The shapes of the code the machines rely on** – read off `trigger_watch`, `TrigTime.wait_until` and
`StateTriggerDecorator` on every run (`tools/extractors/C05.py`): the start condition `state_check_now or state_hold_false
is not None` in all three, `state_hold_false` handled before `state_hold` with `is not None` tests, the delay stamped once
and cancelled by a false evaluation, the hold block after the timeout block with a strict `<` in `wait_until`, `initial`
bypassing `state_hold_false`, `>=` in both hold comparisons and `last_func_args` kept while a hold is pending in the new
subsystem. -/
theorem C05_shapes : legacyShapeOK = true ∧ waitUntilShapeOK = true ∧ newShapeOK = true := by decide

/-- non-vacuity: a history on the grid where the initial check starts a hold that fires (2.5 s), a hold that is
cancelled (true 5 s, false 7 s), a `state_hold_false` rejection (true 8 s after 1 s of false), `skip`/`unrelated`
changes in between, and a hold that fires with the first candidate's arguments (true 12 s, true 13 s → run at 14.5 s) -/
example :
    let cfg : Cfg := ⟨true, some 2500, some 1500⟩
    let hist : List Evt := [⟨3000, .eval false, 1⟩, ⟨5000, .eval true, 2⟩, ⟨6000, .skip, 3⟩, ⟨7000, .eval false, 4⟩,
      ⟨8000, .eval true, 5⟩, ⟨9000, .unrelated, 6⟩, ⟨10000, .eval false, 7⟩, ⟨12000, .eval true, 8⟩, ⟨13000, .eval true, 9⟩]
    NoTies cfg hist ∧ Legacy.holdRuns cfg true hist = [(2500, 0), (14500, 8)] := by
  decide

end PsModel.C05
