import PsModel.Lemmas.C10Result
/-!
# C10 – property theorems (reload loads exactly what the files and configuration dictate)

Only property statements live here; helper lemmas are in `Lemmas/C10.lean`.
`loadRows` is the `load_paths` table extracted from the working tree (`Gen/LoadPaths.lean`).
-/
namespace PsModel.C10
open PsModel.C10.Spec

/-! ## context names (`glob_read_files`) -/

/-- **'#' never loads.**  Whatever the table, configuration and directory listing: no file with a component that
starts with `#` gets a context. -/
theorem C10_hash_never (rows : List Row) (apps : AppsCfg) (files : List File) (e : Entry)
    (h : e ∈ globRead rows apps files) : isCommented e.path = false ∧ ∃ f ∈ files, f.path = e.path ∧ f.src = e.src ∧ f.mtime = e.mtime := by
  obtain ⟨r, _, f, hf, _, hc, hcase⟩ := (globRead_from rows apps files h).row
  rcases hcase with ⟨_, c, _, rfl⟩ | ⟨_, rfl⟩ <;> exact ⟨hc, f, hf, rfl, rfl, rfl⟩

/-- **Documented names.**  With today's `load_paths`, every registered file has exactly the documented context name
(`x.py ↦ file.x`; otherwise the path with `/` ↦ `.` and a trailing `/__init__` dropped). -/
theorem C10_names_doc (apps : AppsCfg) (files : List File) (e : Entry)
    (h : e ∈ globRead loadRows apps files) : e.name = docName e.path := by
  obtain ⟨r, hr, f, _, hm, _, hcase⟩ := (globRead_from loadRows apps files h).row
  have hn : e.name = ctxNameOf r.dir f.path ∧ e.path = f.path := by
    rcases hcase with ⟨_, c, _, rfl⟩ | ⟨_, rfl⟩ <;> exact ⟨rfl, rfl⟩
  rw [hn.1, hn.2]
  exact ctxName_doc_of_loadRows hr hm

/-- **One context per name**: the table of registered files never holds two entries with the same context name
(first match wins: package form before module form for apps and modules). -/
theorem C10_names_unique (rows : List Row) (apps : AppsCfg) (files : List File) :
    ((globRead rows apps files).map (·.name)).Nodup := globRead_nodup rows apps files

/-- **Only documented files are auto-loaded**: top-level files, files below `scripts`, and `apps/<a>.py` /
`apps/<a>/__init__.py` of *configured* apps (an empty yaml entry, value `none`, counts as configured) – and an
auto-loaded app carries exactly its configuration value. -/
theorem C10_autoload_sound (apps : AppsCfg) (files : List File) (e : Entry)
    (h : e ∈ globRead loadRows apps files) (ha : e.autoload = true) (hedge : e.path ≠ ["apps", "__init__"]) :
    isAutoPath apps e.path = true ∧
      (isUnder "apps" e.name = true → apps.lookup (e.name.getD 1 "") = some e.appCfg) := by
  obtain ⟨r, hr, f, _, hm, _, hcase⟩ := (globRead_from loadRows apps files h).row
  have hp : e.path = f.path := by
    rcases hcase with ⟨_, c, _, rfl⟩ | ⟨_, rfl⟩ <;> rfl
  exact autoload_sound_of_loadRows hr hm hcase (hp ▸ hedge) ha

/-- **Every visible file is registered under its documented name** (possibly by a file of the same name that
takes precedence). -/
theorem C10_names_complete (apps : AppsCfg) (files : List File) (f : File) (hf : f ∈ files)
    (hv : isVisible apps f.path = true) :
    ∃ e ∈ globRead loadRows apps files, e.name = docName f.path := by
  obtain ⟨r, hr, hm, hgate⟩ := visible_row hv
  have hc : isCommented f.path = false := by
    unfold isVisible at hv
    simp only [Bool.and_eq_true, Bool.not_eq_eq_eq_not, Bool.not_true] at hv
    exact hv.1
  obtain ⟨e, he, hn⟩ := globRead_complete loadRows apps files hr hf hm hc hgate
  exact ⟨e, he, by rw [hn]; exact ctxName_doc_of_loadRows hr hm⟩

/-! ## the import closure (`import_recurse`) -/

/-- **`import_recurse` = transitive closure.**  On an acyclic import graph the recursive walk with its `visited`
set and memo table returns exactly the contexts reachable through imports – for every depth budget above the rank
of the start node (so the walk terminates and the answer does not depend on the budget), and starting from any
memo table left behind by earlier root calls (`MemoInv`). -/
theorem C10_closure (loaded : List Ctx) (rank : Name → Nat) (hacyc : Acyclic loaded rank) (fuel : Nat) (n : Name)
    (hfuel : rank n < fuel) (tbl : Tbl) (hinv : MemoInv loaded [] { visited := [], tbl := tbl }) :
    (∀ x, x ∈ (importRecurse loaded fuel n { visited := [], tbl := tbl }).1 ↔ Reach loaded n x) ∧
      MemoInv loaded [] { visited := [], tbl := (importRecurse loaded fuel n { visited := [], tbl := tbl }).2.tbl } := by
  have h := importRecurse_ok loaded rank hacyc fuel n { visited := [], tbl := tbl } [] hfuel (by simp) hinv
  exact ⟨h.res, ⟨h.inv.fin, by simp⟩⟩

/-- the empty memo table is a valid starting point (non-vacuity of `C10_closure`) -/
theorem C10_closure_start (loaded : List Ctx) : MemoInv loaded [] { visited := [], tbl := [] } :=
  ⟨by simp [memoHas], by simp⟩

/-! ## the plan of a default reload -/

/-- **Untouched stays untouched (soundness).**  Every loaded context a default reload deletes is one the documented
rule `Spec.Disc` discards: its file / mtime / app configuration changed or vanished, it belongs to an app or module
package that contains a change, or it imports – directly or transitively – a changed module.  Holds for every set of
loaded contexts with an acyclic import graph and every file table. -/
theorem C10_plan_sound (loaded : List Ctx) (ents : List Entry) (rank : Name → Nat) (hacyc : Acyclic loaded rank)
    (fuel : Nat) (hfuel : ∀ c ∈ loaded, rank c.name < fuel) (hnd : NamesNodup ents) (hmod : ModsNotAuto ents)
    (pl : Plan) (hpl : plan fuel loaded ents .default = some pl) (c : Ctx) (hc : c ∈ loaded)
    (hdel : c.name ∈ pl.del) : Disc loaded ents c.name := by
  rw [plan_default hpl] at hdel
  exact plan_sound_aux hacyc hfuel hnd hmod hdel ⟨c, hc, rfl⟩

/-- the two table-side hypotheses hold for what `glob_read_files` produces from today's `load_paths` -/
theorem C10_plan_hyps (apps : AppsCfg) (files : List File) :
    NamesNodup (globRead loadRows apps files) ∧ ModsNotAuto (globRead loadRows apps files) :=
  ⟨globRead_nodup _ _ _, globRead_modules_not_auto _ _⟩

/-- **Everything that must go, goes (completeness) – partial.**  FULL statement: `Disc loaded ents n → n ∈ pl.del`.
It holds on the fragment `CompleteHyps`: no loaded app/module member has lost its file, importers of a module
package reach what its members import, and imports stay inside the importer's package or lead to modules.  The
first two conditions are violated by the code today (`…_cex_deleted_module`, `…_cex_widened_package`). -/
theorem C10_plan_complete_partial (loaded : List Ctx) (ents : List Entry) (rank : Name → Nat)
    (hacyc : Acyclic loaded rank) (fuel : Nat) (hfuel : ∀ c ∈ loaded, rank c.name < fuel) (hnd : NamesNodup ents)
    (hmod : ModsNotAuto ents) (hln : (loaded.map (·.name)).Nodup) (H : CompleteHyps loaded ents)
    (pl : Plan) (hpl : plan fuel loaded ents .default = some pl) (n : Name) (hdisc : Disc loaded ents n) :
    n ∈ pl.del := by
  rw [plan_default hpl]
  exact plan_complete_aux hacyc hfuel hnd hmod hln H hdisc

/-! witnesses (replayed on the real code by `harness/run_C10.py`, families `fixed`) -/

def mkCtx (name : Name) (path : Path) (src : Nat) (imports : List Name) (isModule : Bool) (oid : Nat) : Ctx :=
  { name := name, path := path, relImport := none, src := src, mtime := 1, appCfg := none, imports := imports,
    isModule := isModule, oid := oid }

def mkEnt (name : Name) (path : Path) (src : Nat) (autoload : Bool) : Entry :=
  { name := name, path := path, relImport := none, fq := path, appCfg := none, src := src, mtime := 1,
    autoload := autoload, force := false }

/-- F1: `a.py` imports `modules/m.py`; `m.py` is deleted -/
def cexF1Loaded : List Ctx :=
  [mkCtx ["file", "a"] ["a"] 1 [["modules", "m"]] false 0, mkCtx ["modules", "m"] ["modules", "m"] 2 [] true 1]
def cexF1Ents : List Entry := [mkEnt ["file", "a"] ["a"] 1 true]

/-- **Counterexample to completeness (finding C10-F1)**: the importer of a deleted module must be discarded
(`Disc`), but the plan deletes only the module. -/
theorem C10_plan_complete_cex_deleted_module :
    Disc cexF1Loaded cexF1Ents ["file", "a"] ∧
      (plan 4 cexF1Loaded cexF1Ents .default).map (·.del) = some [["modules", "m"]] := by
  constructor
  · exact .importer (c := mkCtx ["file", "a"] ["a"] 1 [["modules", "m"]] false 0) (i := ["modules", "m"])
      (d := ["modules", "m"]) (by simp [cexF1Loaded]) (by simp [mkCtx]) rfl
      (.changed (c := mkCtx ["modules", "m"] ["modules", "m"] 2 [] true 1) (by simp [cexF1Loaded]) (.inl (by decide)))
  · decide

/-- F2: `b.py` imports package `q`, `c.py` imports `q.sub`, `q/sub.py` imports `m`; `m.py` changes -/
def cexF2Loaded : List Ctx :=
  [mkCtx ["file", "b"] ["b"] 1 [["modules", "q"]] false 0,
   mkCtx ["file", "c"] ["c"] 2 [["modules", "q", "sub"]] false 1,
   mkCtx ["modules", "m"] ["modules", "m"] 5 [] true 2,
   mkCtx ["modules", "q"] ["modules", "q", "__init__"] 3 [] true 3,
   mkCtx ["modules", "q", "sub"] ["modules", "q", "sub"] 4 [["modules", "m"]] true 4]
def cexF2Ents : List Entry :=
  [mkEnt ["file", "b"] ["b"] 1 true, mkEnt ["file", "c"] ["c"] 2 true,
   mkEnt ["modules", "q"] ["modules", "q", "__init__"] 3 false, mkEnt ["modules", "m"] ["modules", "m"] 6 false,
   mkEnt ["modules", "q", "sub"] ["modules", "q", "sub"] 4 false]

/-- **Counterexample to completeness (finding C10-F2)**: `modules.q` is discarded (sibling of `modules.q.sub`, which
imports the changed `modules.m`), `file.b` imports `modules.q` and must go too – the plan keeps it. -/
theorem C10_plan_complete_cex_widened_package :
    Disc cexF2Loaded cexF2Ents ["file", "b"] ∧
      ((plan 7 cexF2Loaded cexF2Ents .default).map (fun p => (p.del.contains ["modules", "q"], p.del.contains ["file", "b"])))
        = some (true, false) := by
  constructor
  · have hm : Disc cexF2Loaded cexF2Ents ["modules", "m"] :=
      .changed (c := mkCtx ["modules", "m"] ["modules", "m"] 5 [] true 2) (by simp [cexF2Loaded])
        (.inr ⟨mkEnt ["modules", "m"] ["modules", "m"] 6 false, by decide, by decide⟩)
    have hs : Disc cexF2Loaded cexF2Ents ["modules", "q", "sub"] :=
      .importer (c := mkCtx ["modules", "q", "sub"] ["modules", "q", "sub"] 4 [["modules", "m"]] true 4)
        (i := ["modules", "m"]) (d := ["modules", "m"]) (by simp [cexF2Loaded]) (by simp [mkCtx]) rfl hm
    have hq : Disc cexF2Loaded cexF2Ents ["modules", "q"] :=
      .sibling (c := mkCtx ["modules", "q"] ["modules", "q", "__init__"] 3 [] true 3) (d := ["modules", "q", "sub"])
        (by simp [cexF2Loaded]) (by decide) (by decide) hs
    exact .importer (c := mkCtx ["file", "b"] ["b"] 1 [["modules", "q"]] false 0) (i := ["modules", "q"])
      (d := ["modules", "q"]) (by simp [cexF2Loaded]) (by simp [mkCtx]) rfl hq
  · decide

/-- non-vacuity of `CompleteHyps`: a script importing a single-file module that changed -/
example : CompleteHyps [mkCtx ["file", "a"] ["a"] 1 [["modules", "m"]] false 0, mkCtx ["modules", "m"] ["modules", "m"] 2 [] true 1]
    [mkEnt ["file", "a"] ["a"] 1 true, mkEnt ["modules", "m"] ["modules", "m"] 3 false] := by
  refine ⟨by decide, ?_, by decide⟩
  intro c hc i hi _ d hd hr m hm
  simp only [List.mem_cons, List.mem_nil_iff, or_false] at hc hd
  rcases hc with rfl | rfl
  · simp only [mkCtx, List.mem_singleton] at hi
    subst hi
    rcases hd with rfl | rfl
    · simp [mkCtx, root2] at hr
    · exact .step (c := mkCtx ["file", "a"] ["a"] 1 [["modules", "m"]] false 0) (by decide) (by simp [mkCtx]) hm
  · simp [mkCtx] at hi

/-- **Counterexample (finding C10-F6): an app with an EMPTY yaml entry cannot be switched off.**  `apps/x/__init__.py` was
loaded while `x:` was configured with an empty entry (configuration value `none`).  After the entry is removed
`glob_read_files` still registers the file – through the unguarded `apps/*/**/*.py` row, not auto-loaded, configuration
`none` (the entry `mkEnt …` below; that this is what the real `glob_read_files` yields is replayed by the harness, fixed
family) – so the loaded context does not differ from the table and the plan deletes nothing, although the app is no longer
configured (`isAutoPath` is false, the docs promise that removing the configuration disables the app).  With a
non-empty value (`some 0`) the same removal does delete the context. -/
theorem C10_unconfigured_empty_entry_cex :
    isAutoPath [] ["apps", "x", "__init__"] = false ∧
    (plan 3 [{ mkCtx ["apps", "x"] ["apps", "x", "__init__"] 1 [] false 0 with appCfg := none }]
        [mkEnt ["apps", "x"] ["apps", "x", "__init__"] 1 false] .default).map (·.del) = some [] ∧
    (plan 3 [{ mkCtx ["apps", "x"] ["apps", "x", "__init__"] 1 [] false 0 with appCfg := some 0 }]
        [mkEnt ["apps", "x"] ["apps", "x", "__init__"] 1 false] .default).map (fun p => p.del.contains ["apps", "x"])
        = some true := by
  decide

/-- **The spec column printed by the driver is the spec.**  `Spec.discardedList` (what `verifdrv` prints as `disc=`
and the harness compares with its own oracle) contains only contexts that `Spec.Disc` discards, and – once the
iteration is stable, which the driver checks – all of them. -/
theorem C10_spec_column (loaded : List Ctx) (ents : List Entry) :
    (∀ n ∈ discardedList loaded ents, Disc loaded ents n) ∧
      (stable loaded ents (discardedList loaded ents) = true → ∀ n, Disc loaded ents n → n ∈ discardedList loaded ents) :=
  ⟨iter_sound _ _ (by simp), fun hst _ h => disc_in_stable hst h⟩

/-- **What survives a default reload runs the current file.**  A loaded context that the plan does not delete has an
entry in the current file table with exactly the source, modification time and app configuration it was loaded with. -/
theorem C10_result_kept_current (loaded : List Ctx) (ents : List Entry) (rank : Name → Nat) (hacyc : Acyclic loaded rank)
    (fuel : Nat) (hfuel : ∀ c ∈ loaded, rank c.name < fuel) (hnd : NamesNodup ents)
    (hln : (loaded.map (·.name)).Nodup) (pl : Plan) (hpl : plan fuel loaded ents .default = some pl)
    (c : Ctx) (hc : c ∈ loaded) (hkeep : c.name ∉ pl.del) :
    ∃ e, findEntry ents c.name = some e ∧ c.src = e.src ∧ c.mtime = e.mtime ∧ c.appCfg = e.appCfg := by
  rw [plan_default hpl] at hkeep
  have h1 : c.name ∉ (p1Default loaded ents).del :=
    fun h => hkeep (plan_del_mono hacyc hfuel _ (p1_names loaded ents hnd) h)
  simp only [p1Default, List.mem_append, not_or, goneNames, changedNames, List.mem_map, List.mem_filter, not_exists,
    not_and] at h1
  have hhas : hasName ents c.name = true := by
    cases hh : hasName ents c.name with
    | true => rfl
    | false => exact absurd rfl (h1.1 c ⟨hc, by simp [hh]⟩)
  obtain ⟨e, he, hen⟩ := hasName_iff.mp hhas
  have hfe : findEntry ents c.name = some e := hen ▸ findEntry_of_nodup hnd he
  have hnc : isChanged loaded e = false := by
    cases hh : isChanged loaded e with
    | false => rfl
    | true => exact absurd hen (h1.2 e ⟨he, hh⟩)
  have hfc := findCtx_of_nodup hln hc
  unfold isChanged at hnc
  rw [hen, hfc] at hnc
  simp only [differs, Bool.or_eq_false_iff, bne_eq_false_iff_eq] at hnc
  exact ⟨e, hfe, hnc.1.1.symm, hnc.2.symm, hnc.1.2.symm⟩

/-! ## `reload('*')` and `reload(name)` -/

/-- **`reload('*')`** deletes every loaded context and raises every flag outside packages (inside a package the
root file is the one that is loaded again). -/
theorem C10_only_all (loaded : List Ctx) (ents : List Entry) (rank : Name → Nat) (hacyc : Acyclic loaded rank)
    (fuel : Nat) (hfuel : ∀ c ∈ loaded, rank c.name < fuel) (hnd : NamesNodup ents)
    (pl : Plan) (hpl : plan fuel loaded ents .all = some pl) :
    (∀ c ∈ loaded, c.name ∈ pl.del) ∧
      (∀ e ∈ ents, ∃ e' ∈ pl.ents, e'.name = e.name ∧
        (inPkg e.name = false → e'.force = true) ∧ (inPkg e.name = true → e'.force = isRootFile (root2 e.name) e)) := by
  have hp : pl = phase3 (phase2 loaded fuel { del := loaded.map (·.name), ents := ents.map (fun e => e.setF true) }) := by
    simp only [plan, phase1, Option.map_some, Option.some.injEq] at hpl
    exact hpl.symm
  have hnd1 : NamesNodup ({ del := loaded.map (·.name), ents := ents.map (fun e => e.setF true) } : Plan).ents := by
    unfold NamesNodup at hnd ⊢
    simp only [List.map_map]
    rw [List.map_congr_left (g := (·.name)) (fun e _ => by simp)]
    exact hnd
  constructor
  · intro c hc
    rw [hp]
    exact plan_del_mono hacyc hfuel _ hnd1 (List.mem_map_of_mem (f := (·.name)) hc)
  · intro e he
    have h2 := phase2_char hacyc hfuel { del := loaded.map (·.name), ents := ents.map (fun e => e.setF true) }
    have h3 := phase3_char _ (p2_names hacyc hfuel _ hnd1)
    -- after phase 2 the flag of `e` is still up
    have he2 : e.setF true ∈ (phase2 loaded fuel { del := loaded.map (·.name), ents := ents.map (fun e => e.setF true) }).ents :=
      (h2.2 _).mpr ⟨e.setF true, List.mem_map_of_mem (f := fun e => e.setF true) he, by simp, by simp⟩
    by_cases hw : Wide (phase2 loaded fuel { del := loaded.map (·.name), ents := ents.map (fun e => e.setF true) }).ents
        (root2 e.name)
    · refine ⟨(e.setF true).setF (isRootFile (root2 e.name) e), ?_, by simp, ?_, by simp⟩
      · rw [hp]
        exact (h3.2 _).mpr ⟨e.setF true, he2, by simp, by simp, by simp, fun hn => absurd hw hn⟩
      · intro hnp
        obtain ⟨e0, _, _, hp0, hr0⟩ := hw
        have := inPkg_of_root2_eq hr0.symm hp0
        simp [hnp] at this
    · refine ⟨e.setF true, ?_, by simp, by simp, ?_⟩
      · rw [hp]
        exact (h3.2 _).mpr ⟨e.setF true, he2, by simp, by simp, fun h => absurd h hw, by simp⟩
      · intro hpk
        exact absurd ⟨e.setF true, he2, by simp, by simpa using hpk, by simp⟩ hw

/-- **`reload(name)`: other changes are ignored.**  Besides `name` itself the plan deletes only what the
documentation allows (`Spec.DiscOnly`): the other files of `name`'s app or module, the contexts that – directly or
transitively – import the module `name` belongs to, and the packages of those importers. -/
theorem C10_only_ctx (loaded : List Ctx) (ents : List Entry) (rank : Name → Nat) (hacyc : Acyclic loaded rank)
    (fuel : Nat) (hfuel : ∀ c ∈ loaded, rank c.name < fuel) (hnd : NamesNodup ents) (hff : Unforced ents)
    (n : Name) (pl : Plan) (hpl : plan fuel loaded ents (.ctx n) = some pl) (m : Name) (hm : m ∈ pl.del) :
    m = n ∨ DiscOnly loaded n m :=
  only_ctx_aux hacyc hfuel hnd hff hpl hm

/-- `reload(name)` of a name that is neither loaded nor a file does nothing -/
theorem C10_only_unknown (fuel : Nat) (loaded : List Ctx) (ents : List Entry) (n : Name)
    (h1 : ∀ c ∈ loaded, c.name ≠ n) (h2 : ∀ e ∈ ents, e.name ≠ n) : plan fuel loaded ents (.ctx n) = none := by
  have a : loaded.any (fun c => c.name == n) = false := by
    rw [Bool.eq_false_iff]; simp only [ne_eq, List.any_eq_true, beq_iff_eq, not_exists, not_and]; exact h1
  have b : hasName ents n = false := by
    rw [Bool.eq_false_iff]; intro hh; obtain ⟨e, he, hen⟩ := hasName_iff.mp hh; exact h2 e he hen
  simp [plan, phase1, a, b]

/-! ## the load phase -/

/-- **Result of one reload.**  Let `pl` be the plan.  Then the reload only *appends* load events `evs`, and
* a context that is neither in `pl.del` nor (re)executed is *the same object* afterwards (all fields, identity `oid`);
* nothing else appears: every context afterwards is such a survivor or was executed in this reload;
* every forced auto-load entry is executed with the source the file table holds for it now. -/
theorem C10_result (fuelR fuelL : Nat) (rows : List Row) (apps : AppsCfg) (disk : List File) (prog : Nat → List Imp)
    (only : Only) (st : St) (pl : Plan)
    (hpl : plan fuelR (sortCtxs (st.ctxs.filter (fun c => isScriptCtx c.name))) (globRead rows apps disk) only = some pl) :
    ∃ evs : List (Name × Nat),
      (reload fuelR (fuelL + 1) rows apps disk prog only st).events = st.events ++ evs ∧
      (∀ c ∈ st.ctxs, c.name ∉ pl.del → c.name ∉ evs.map (·.1) →
        c ∈ (reload fuelR (fuelL + 1) rows apps disk prog only st).ctxs) ∧
      (∀ c ∈ (reload fuelR (fuelL + 1) rows apps disk prog only st).ctxs,
        (c ∈ st.ctxs ∧ c.name ∉ pl.del) ∨ c.name ∈ evs.map (·.1)) ∧
      (∀ e ∈ pl.ents, e.autoload = true → e.force = true → (e.name, e.src) ∈ evs) := by
  unfold reload
  rw [hpl]
  simp only [applyPlan]
  obtain ⟨evs, he, hk, hn, hall⟩ := loadAll_spec disk prog fuelL
    ((sortEntries pl.ents).filter (fun e => e.autoload && e.force)) (deleteCtxs st pl.del)
  refine ⟨evs, by simpa [deleteCtxs] using he, ?_, ?_, ?_⟩
  · intro c hc hnd hne
    apply hk c _ hne
    simp only [deleteCtxs, List.mem_filter, Bool.not_eq_eq_eq_not, Bool.not_true]
    exact ⟨hc, by simpa using hnd⟩
  · intro c hc
    rcases hn c hc with h | h
    · simp only [deleteCtxs, List.mem_filter, Bool.not_eq_eq_eq_not, Bool.not_true] at h
      exact .inl ⟨h.1, by simpa using h.2⟩
    · exact .inr h
  · intro e he ha hf
    apply hall e
    simp only [List.mem_filter, sortEntries, List.mem_mergeSort, Bool.and_eq_true]
    exact ⟨he, ha, hf⟩

/-! ## context names chosen by `module_import` -/

/-- **`module_import` names a module like `glob_read_files` does** (today's code = /repo with the `fix:` patches
C11-F1 / C11-F4, flags `relFromPackageNow`, `submodKnowsDirNow`).  Every candidate context name equals the documented
name of the candidate file: for absolute imports, for relative imports from a package `__init__` (context named after
its `rel_import_path`) AND – since the repair – for relative imports executed by a plain member of the package (context
`pkg.s`, `rel_import_path` = the package directory): the sibling-relative exception of the pre-fix code
(`C10_regress_import_name_prefix`, finding C10-F4) is gone. -/
theorem C10_import_name (self : Name) (rel : Option Path) (i : Imp) (hmod : i.mod ≠ [])
    (hinit : i.mod.getLast? ≠ some "__init__")
    (hok : i.level = 0 ∨ ∃ r, rel = some r ∧ modParts r ≠ [] ∧
      (self = modParts r ∨ (self ≠ modParts r ∧ self.dropLast = modParts r)))
    (cands : List Cand) (hc : candidates self rel i = some cands) :
    ∀ c ∈ cands, c.name = docName c.file := by
  have hlast : ∀ q : Path, (q ++ i.mod).getLast? ≠ some "__init__" := by
    intro q
    obtain ⟨x, hx⟩ : ∃ x, i.mod.getLast? = some x := by
      cases h : i.mod.getLast? with
      | none => exact absurd (List.getLast?_eq_none_iff.mp h) hmod
      | some x => exact ⟨x, rfl⟩
    rw [List.getLast?_append, hx]
    rw [hx] at hinit
    simpa using hinit
  have hlen : ∀ q : Path, q ≠ [] → 2 ≤ (q ++ i.mod).length := by
    intro q hq
    have : 1 ≤ q.length := List.length_pos_iff.mpr hq
    have : 1 ≤ i.mod.length := List.length_pos_iff.mpr hmod
    simp only [List.length_append]; omega
  have good : ∀ q : Path, q ≠ [] → (q ++ i.mod) = docName (q ++ i.mod ++ ["__init__"]) ∧
      (q ++ i.mod) = docName (q ++ i.mod) := by
    intro q hq
    exact ⟨(docName_init _ (by simp [hmod])).symm, (docName_plain _ (hlen q hq) (hlast q)).symm⟩
  unfold candidates candidatesCfg at hc
  by_cases hl : 0 < i.level
  · simp only [hl, if_true] at hc
    rcases hok with h0 | ⟨r, rfl, hne, hself⟩
    · omega
    · have hn0 : (if (relFromPackageNow && !(self == modParts r)) = true then self.dropLast else self) = modParts r := by
        rcases hself with rfl | ⟨h1, h2⟩
        · simp
        · simp [relFromPackageNow, h1, h2]
      simp only [hn0] at hc
      split at hc
      · simp at hc
      · rename_i p n hcl
        obtain ⟨hpn, hp2⟩ := climb_same _ _ _ _ hcl
        subst hpn
        have hpne : p ≠ [] := by
          by_cases hk : 0 < i.level - 1
          · have := hp2 hk; intro h; simp [h] at this
          · have hz : i.level - 1 = 0 := by omega
            rw [hz] at hcl
            simp only [climb, Option.some.injEq, Prod.mk.injEq] at hcl
            rw [← hcl.1]; exact hne
        simp only [Option.some.injEq] at hc
        subst hc
        intro c hcm
        simp only [List.mem_cons, List.mem_nil_iff, or_false] at hcm
        rcases hcm with rfl | rfl
        · exact (good p hpne).1
        · exact (good p hpne).2
  · simp only [hl, if_false, Option.some.injEq] at hc
    subst hc
    intro c hcm
    have ga := good ["apps"] (by simp)
    have gm := good ["modules"] (by simp)
    simp only [List.cons_append, List.nil_append] at ga gm
    simp only [List.mem_append, List.mem_cons, List.mem_nil_iff, or_false] at hcm
    rcases hcm with hcm | rfl | rfl
    · split at hcm
      · split at hcm
        · simp only [List.mem_cons, List.mem_nil_iff, or_false] at hcm
          rcases hcm with rfl | rfl
          · exact ga.1
          · exact ga.2
        · simp at hcm
      · simp at hcm
    · exact gm.1
    · exact gm.2

/-- **Regression witness (finding C10-F4, fixed by C11-F1).**  `from . import t` executed by `modules/p/s.py` (context
`modules.p.s`, loaded by the package with `rel_import_path = "modules/p"`) looks for `modules/p/t.py`: the PRE-FIX code
called the context `modules.p.s.t` (not the documented name – the next reload unloaded it as 'not present in current
files'); today's code calls it `modules.p.t`. -/
theorem C10_regress_import_name_prefix :
    (∃ c ∈ (candidatesCfg false false ["modules", "p", "s"] (some ["modules", "p"]) ⟨1, ["t"]⟩).getD [],
      c.file = ["modules", "p", "t"] ∧ c.name = ["modules", "p", "s", "t"] ∧ c.name ≠ docName c.file) ∧
    (∀ c ∈ (candidates ["modules", "p", "s"] (some ["modules", "p"]) ⟨1, ["t"]⟩).getD [], c.name = ["modules", "p", "t"]) :=
  ⟨⟨⟨["modules", "p", "s", "t"], ["modules", "p", "t"], some ["modules", "p"]⟩, by decide, rfl, rfl, by decide⟩, by decide⟩

/-- **Regression witness (C11-F4).**  `import p.s` from a script: the PRE-FIX code created the context of
`modules/p/s.py` without `rel_import_path` (so `from . import t` inside it raised ImportError); today it gets the
package directory `modules/p`. -/
theorem C10_regress_submodule_rel_path :
    ((candidatesCfg false false ["file", "a"] none ⟨0, ["p", "s"]⟩).getD []).map (·.relImport) =
        [some ["modules", "p", "s"], none] ∧
    ((candidates ["file", "a"] none ⟨0, ["p", "s"]⟩).getD []).map (·.relImport) =
        [some ["modules", "p", "s"], some ["modules", "p"]] := by
  decide

/-- non-vacuity of `C10_import_name` (sibling-relative case) -/
example : ∃ cands, candidates ["modules", "p", "s"] (some ["modules", "p"]) ⟨1, ["t"]⟩ = some cands ∧ cands ≠ [] :=
  ⟨_, rfl, by decide⟩

/-! ## two more witnesses about the result -/

/-- **Counterexample (finding C10-F3)**: with two modules importing each other the load of the importing script
fails for *every* recursion budget – a context is registered only after its script has finished, so each import of
the other module starts it again. -/
theorem C10_cyclic_cex (fuel : Nat) :
    (loadCtx cexF3Disk cexF3Prog fuel { ctxs := [], events := [] } cexF3A).1 = false := by
  have key : ∀ fuel st, NoMN st →
      (loadCtx cexF3Disk cexF3Prog fuel st cexF3M).1 = false ∧ (loadCtx cexF3Disk cexF3Prog fuel st cexF3N).1 = false := by
    intro fuel
    induction fuel with
    | zero => intro st _; exact ⟨rfl, rfl⟩
    | succ fuel ih =>
      intro st hst
      constructor
      · have h1 := noMN_filter hst ["modules", "m"] (st.events ++ [(["modules", "m"], 2)])
        have := (ih _ h1).2
        unfold loadCtx
        simp only [cexF3M, cexF3Prog]
        unfold runImps
        simp only [candidates, candidatesCfg]
        simp only [cexF3N] at this
        simp [h1.2, this, cexF3_ffN]
      · have h1 := noMN_filter hst ["modules", "n"] (st.events ++ [(["modules", "n"], 3)])
        have := (ih _ h1).1
        unfold loadCtx
        simp only [cexF3N, cexF3Prog]
        unfold runImps
        simp only [candidates, candidatesCfg]
        simp only [cexF3M] at this
        simp [h1.1, this, cexF3_ffM]
  cases fuel with
  | zero => rfl
  | succ fuel =>
    have h1 : NoMN { ctxs := [], events := [(["file", "a"], 1)] } := by
      simp [NoMN, loadedModule]
    have := (key fuel _ h1).1
    unfold loadCtx
    simp only [cexF3A, cexF3Prog]
    unfold runImps
    simp only [candidates, candidatesCfg]
    simp only [cexF3M] at this
    simp [loadedModule, this, cexF3_ffM]

/-- **Counterexample (finding C10-F5)**: the state after the only importer `a.py` of `modules/m.py` was deleted: the
module context is loaded, no loaded context imports it, its file is unchanged – the plan deletes nothing (and by
`C10_result` the module stays loaded): the result is *not* "auto-loaded files plus the modules they import". -/
theorem C10_result_orphan_cex :
    (plan 3 [mkCtx ["modules", "m"] ["modules", "m"] 2 [] true 1] [mkEnt ["modules", "m"] ["modules", "m"] 2 false]
      .default).map (·.del) = some [] := by
  decide

end PsModel.C10
