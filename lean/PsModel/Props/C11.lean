import PsModel.Lemmas.C11
/-!
# C11 – property theorems (isolated global contexts, shared module singletons)

Only property statements live here; helper lemmas are in `Lemmas/C11.lean`.

* `execStmt / execBlock / callFn / importMod` – the model of pyscript's evaluator with its four context pointers
  (`Model/C11.lean`); `Py.*` – the lexical reference without pointers (`Spec/C11.lean`).
* All theorems are for every world (function bodies, files), every fuel, every state satisfying the stated
  invariant – no bounds.
-/
namespace PsModel.C11

/-! ## restore -/

/-- **Restore, every program, every exit path.**  After `EvalFunc.call` – whether the body returned a value or
raised (`r.val` is arbitrary), and whatever it executed, including `pyscript.set_global_ctx` – the evaluator's
pointers (`global_sym_table`, `sym_table`, `sym_table_stack`, `global_ctx`, `curr_func`) are exactly those before the
call, or those redirected by a `set_global_ctx(c)` the body executed; a call into another context always restores
exactly; and if no `set_global_ctx` ran (ghost counter `nset` unchanged) the pointers are exactly restored. -/
theorem C11_restore (W : World) (n : Nat) (st : St) (fv : Val) (vs : List Val) (hw : WF st.p) :
    ((callFn W n st fv vs).st.p = st.p ∨ ∃ c, (callFn W n st fv vs).st.p = setGlobalCtx st.p c) ∧
    ((callFn W n st fv vs).st.h.nset = st.h.nset → (callFn W n st fv vs).st.p = st.p) ∧
    (st.p.gctx ≠ fnCtx fv st.p.gctx → (callFn W n st fv vs).st.p = st.p) := by
  obtain ⟨h1, h2⟩ := (restAll W n).2.2.1 st fv vs hw
  refine ⟨?_, ?_, h2⟩
  · rcases h1 with ⟨_, b⟩ | ⟨_, c, b⟩
    · exact Or.inl b
    · exact Or.inr ⟨c, b⟩
  · intro heq
    rcases h1 with ⟨_, b⟩ | ⟨a, _⟩
    · exact b
    · rw [heq] at a; exact absurd a (Nat.lt_irrefl _)

/-- **The pointer shape is an invariant of every execution** (module level: empty stack, `sym_table` is the
global table; inside calls: the bottom stack entry is the global table).  In particular `sym_table_stack.pop()` in
the `finally` block never meets an empty stack, and `global_sym_table` is always the table of `global_ctx`. -/
theorem C11_pointer_invariant (W : World) (n : Nat) (st : St) (b : Block) (hw : WF st.p) :
    WF (execBlock W n st b).st.p ∧ (execBlock W n st b).st.p.gst = (execBlock W n st b).st.p.gctx := by
  have h := ((restAll W n).2.1 st b hw).wf hw
  exact ⟨h, h.1⟩

/-- a statement list executed at some nesting depth leaves the pointers as they were (local tables may have new
contents), for every program that does not execute `set_global_ctx` -/
theorem C11_restore_block (W : World) (n : Nat) (st : St) (b : Block) (hw : WF st.p)
    (hn : (execBlock W n st b).st.h.nset = st.h.nset) : Same st.p (execBlock W n st b).st.p := by
  rcases (restAll W n).2.1 st b hw with ⟨_, s⟩ | ⟨a, _⟩
  · exact s
  · rw [hn] at a; exact absurd a (Nat.lt_irrefl _)

/-! ## defining context -/

/-- **Refinement.**  On programs without `set_global_ctx`, the pointer-switching evaluator computes exactly what
the lexical reference computes – same heap (all global tables, registry), same locals, same outcome – from every
coherent state.  In the reference a function body runs with the globals of the context that defined it *by
construction*; hence so it does in the model, whoever calls it. -/
theorem C11_refines (W : World) (hW : W.NoSet) (n : Nat) (st : St) (b : Block) (hc : Coh st.p) (hb : noSetB b = true) :
    (Py.execBlock W n (abs st) b).s = abs (execBlock W n st b).st ∧
    (Py.execBlock W n (abs st) b).out = (execBlock W n st b).out ∧
    Same st.p (execBlock W n st b).st.p := by
  have h := (simAll W hW n).2.1 st b hc hb
  exact ⟨h.s, h.out, h.same⟩

/-- **A function executes against the globals of its defining context, regardless of the caller.**
The effect and result of calling `fn c fid` from ANY coherent evaluator state is that of running its body in the
reference with `g := c` (the defining context), fresh locals – it does not depend on the caller's pointers. -/
theorem C11_defining_ctx (W : World) (hW : W.NoSet) (n : Nat) (st : St) (c fid : Nat) (vs : List Val)
    (fd : FuncDef) (l : Table) (hc : Coh st.p) (hf : W.funcs[fid]? = some fd) (hl : bindArgs fd.params vs = some l) :
    (callFn W (n+1) st (.fn c fid) vs).st.h
        = (Py.execBlock W n ⟨st.h, { g := c, locals := some l, gnames := some fd.globals }⟩ fd.body).s.h ∧
    (callFn W (n+1) st (.fn c fid) vs).val
        = outOfBody (Py.execBlock W n ⟨st.h, { g := c, locals := some l, gnames := some fd.globals }⟩ fd.body).out ∧
    (callFn W (n+1) st (.fn c fid) vs).st.p = st.p := by
  have h := (simAll W hW (n+1)).2.2.1 st (.fn c fid) vs hc
  have e : Py.callFn W (n+1) (abs st) (.fn c fid) vs
      = ⟨⟨(Py.execBlock W n ⟨st.h, { g := c, locals := some l, gnames := some fd.globals }⟩ fd.body).s.h, (abs st).env⟩,
         outOfBody (Py.execBlock W n ⟨st.h, { g := c, locals := some l, gnames := some fd.globals }⟩ fd.body).out⟩ := by
    simp only [Py.callFn, hf, hl]
    rfl
  refine ⟨?_, ?_, h.ptrs⟩
  · have := h.s
    rw [e] at this
    have := congrArg PSt.h this
    exact this.symm
  · have := h.val
    rw [e] at this
    exact this.symm

/-- two callers in different contexts (a trigger run, a task, another file) get the same effect and result -/
theorem C11_caller_independent (W : World) (hW : W.NoSet) (n : Nat) (st1 st2 : St) (fv : Val) (vs : List Val)
    (h1 : Coh st1.p) (h2 : Coh st2.p) (hh : st1.h = st2.h) :
    (callFn W n st1 fv vs).st.h = (callFn W n st2 fv vs).st.h ∧ (callFn W n st1 fv vs).val = (callFn W n st2 fv vs).val := by
  have a := (simAll W hW n).2.2.1 st1 fv vs h1
  have b := (simAll W hW n).2.2.1 st2 fv vs h2
  obtain ⟨_, e2, e3⟩ := Py.callFn_env W n st1.h (abs st1).env (abs st2).env fv vs
  have a1 : abs st1 = ⟨st1.h, (abs st1).env⟩ := rfl
  have b1 : abs st2 = ⟨st1.h, (abs st2).env⟩ := by rw [hh]; rfl
  rw [a1] at a
  rw [b1] at b
  refine ⟨?_, ?_⟩
  · have x := congrArg PSt.h a.s
    have y := congrArg PSt.h b.s
    simp only [abs] at x y
    have e2' : (Py.callFn W n ⟨st1.h, envOf st2.p⟩ fv vs).s.h = (Py.callFn W n ⟨st1.h, envOf st1.p⟩ fv vs).s.h := e2
    rw [← x, ← y, e2']
  · have e3' : (Py.callFn W n ⟨st1.h, envOf st2.p⟩ fv vs).val = (Py.callFn W n ⟨st1.h, envOf st1.p⟩ fv vs).val := e3
    have av : (Py.callFn W n ⟨st1.h, envOf st1.p⟩ fv vs).val = (callFn W n st1 fv vs).val := a.val
    have bv : (Py.callFn W n ⟨st1.h, envOf st2.p⟩ fv vs).val = (callFn W n st2 fv vs).val := b.val
    rw [← av, ← bv, e3']

/-! ## frame -/

/-- **Frame / non-interference.**  Let `B` be a context that is not the current one, has no module object, and to
which no function or module value stored anywhere outside `B`'s own table refers (`SFree`).  Then running any
program (without `set_global_ctx`) neither reads nor writes `B`'s global table: replacing the table by an arbitrary
one changes nothing else – same outcome, same heap except that table – and the table itself is unchanged. -/
theorem C11_frame (W : World) (hW : W.NoSet) (B n : Nat) (st : St) (b : Block) (hc : Coh st.p) (hb : noSetB b = true)
    (hf : SFree B (abs st)) (t' : Table) :
    (execBlock W n ⟨st.h.setTab B t', st.p⟩ b).st.h = (execBlock W n st b).st.h.setTab B t' ∧
    (execBlock W n ⟨st.h.setTab B t', st.p⟩ b).out = (execBlock W n st b).out ∧
    (execBlock W n st b).st.h.tab B = st.h.tab B ∧
    SFree B (abs (execBlock W n st b).st) := by
  have s1 := (simAll W hW n).2.1 st b hc hb
  have s2 := (simAll W hW n).2.1 ⟨st.h.setTab B t', st.p⟩ b hc hb
  have fr := (frameAll W B n).2.1 (abs st) b hf
  have hsw : abs ⟨st.h.setTab B t', st.p⟩ = swap B t' (abs st) := rfl
  have key : ∀ t'', (execBlock W n ⟨st.h.setTab B t'', st.p⟩ b).st.h = (execBlock W n st b).st.h.setTab B t'' ∧
      (execBlock W n ⟨st.h.setTab B t'', st.p⟩ b).out = (execBlock W n st b).out := by
    intro t''
    have s3 := (simAll W hW n).2.1 ⟨st.h.setTab B t'', st.p⟩ b hc hb
    have hsw' : abs ⟨st.h.setTab B t'', st.p⟩ = swap B t'' (abs st) := rfl
    have c := fr.comm t''
    rw [← hsw'] at c
    constructor
    · have x := congrArg PSt.h s3.s
      rw [c] at x
      simp only [swap] at x
      have x' : (Py.execBlock W n (abs st) b).s.h.setTab B t'' = (execBlock W n ⟨st.h.setTab B t'', st.p⟩ b).st.h := x
      rw [← x', s1.s]
      rfl
    · rw [← s3.out, c, s1.out]
  refine ⟨(key t').1, (key t').2, ?_, ?_⟩
  · have hid : st.h.setTab B (st.h.tab B) = st.h := by
      cases h : st.h with
      | mk ctxs tabs reg nset loads =>
        simp only [Heap.setTab, Heap.tab]
        congr 1
        funext c'
        by_cases hcb : c' = B
        · subst hcb; simp
        · simp [hcb]
    have k := (key (st.h.tab B)).1
    have hst : (⟨st.h.setTab B (st.h.tab B), st.p⟩ : St) = st := by rw [hid]
    rw [hst] at k
    have := congrArg (fun h => h.tab B) k
    simp only [Heap.tab, Heap.setTab, if_true] at this
    exact this
  · have := fr.free
    rw [s1.s] at this
    exact this

/-! ## singleton -/

/-- **Lookup before load.**  If the first candidate context name that is registered with a module object maps to
`i`, `module_import` returns that module object and changes nothing (no load, no new context, no registry change). -/
theorem C11_singleton_lookup (W : World) (n : Nat) (st : St) (m : Name) (lvl : Nat) (cds : List Cand) (i : Nat)
    (hcd : candidates W.cfg (selfCtx st.h st.p.gctx) m lvl = .ok cds) (hf : findLoaded st.h cds = some i) :
    importMod W (n+1) st m lvl = ⟨st, .ok (some i)⟩ := by
  simp only [importMod, importLookup, hcd, hf]

/-- when every candidate carries the name `k` and `k` is registered with module `i`, the lookup finds `i` -/
theorem C11_singleton_found (h : Heap) (cds : List Cand) (k : Name) (i : Nat) (hne : cds ≠ [])
    (hk : ∀ cd ∈ cds, cd.ctxName = k) (hr : Reg k i h) : findLoaded h cds = some i := by
  cases cds with
  | nil => exact absurd rfl hne
  | cons cd r =>
    simp only [findLoaded, hk cd List.mem_cons_self, hr.1, hr.2, if_true]

/-- **A registered module object is never replaced and its file never loaded again** – by any program, from any
context, through any number of imports, calls, tasks, failing loads of other modules, `set_global_ctx` …:
after any execution `k` is still registered to the same context `i`, and no `load_file` for `k` was started. -/
theorem C11_singleton (W : World) (k : Name) (i n : Nat) (st : St) (b : Block) (hr : Reg k i st.h) :
    Reg k i (execBlock W n st b).st.h ∧
    ∃ extra, (execBlock W n st b).st.h.loads = st.h.loads ++ extra ∧ k ∉ extra := by
  have h := (singAll W k i n).2.1 st b hr
  exact ⟨h.reg, h.loads⟩

/-- **n imports, one object.**  Once `k ↦ i` is registered, then after running ANY program `b`, an import whose
candidates are named `k` (from any importing context) returns module `i` again and leaves the state untouched. -/
theorem C11_singleton_again (W : World) (k : Name) (i n n' : Nat) (st : St) (b : Block) (hr : Reg k i st.h)
    (m : Name) (lvl : Nat) (cds : List Cand) (hne : cds ≠ [])
    (hcd : candidates W.cfg (selfCtx (execBlock W n st b).st.h (execBlock W n st b).st.p.gctx) m lvl = .ok cds)
    (hk : ∀ cd ∈ cds, cd.ctxName = k) :
    importMod W (n'+1) (execBlock W n st b).st m lvl = ⟨(execBlock W n st b).st, .ok (some i)⟩ :=
  C11_singleton_lookup W n' _ m lvl cds i hcd (C11_singleton_found _ cds k i hne hk (C11_singleton W k i n st b hr).1)

/-- a successful import leaves the module registered (so the theorems above apply to it from then on) -/
theorem C11_singleton_registered (W : World) (n : Nat) (st : St) (m : Name) (lvl : Nat) (cd : Cand) (body : Block)
    (hl : importLookup W st.h st.p.gctx m lvl = .load cd body) (c : Nat)
    (hv : (importMod W (n+1) st m lvl).val = .ok (some c)) :
    regGet (importMod W (n+1) st m lvl).st.h.reg cd.ctxName = some c := by
  simp only [importMod, hl] at hv ⊢
  cases ho : (execBlock W n { h := loadBegin st.h cd, p := fresh st.h.ctxs.length } body).out with
  | exc e => rw [ho] at hv; simp at hv
  | norm =>
    rw [ho] at hv
    simp only [Except.ok.injEq, Option.some.injEq] at hv
    subst hv
    simp [loadCommit, regSet, regGet]
  | ret v =>
    rw [ho] at hv
    simp only [Except.ok.injEq, Option.some.injEq] at hv
    subst hv
    simp [loadCommit, regSet, regGet]

/-- **One context per module name (absolute imports, importer outside `apps/`)**: the context name depends on the
module name only, not on who imports – so all such importers share one module object (`_partial`: relative imports
do not have this property, see `C11_singleton_relative_cex`). -/
theorem C11_singleton_absolute_partial (cfg : Cfg) (self : Ctx) (m : Name) (happs : isAppsRel self.rel = false) :
    ∃ cds, candidates cfg self m 0 = .ok cds ∧ cds ≠ [] ∧ ∀ cd ∈ cds, cd.ctxName = "modules" :: m := by
  refine ⟨_, by simp only [candidates, Nat.lt_irrefl, if_false, happs]; rfl, by simp, ?_⟩
  intro cd hcd
  simp only [Bool.false_eq_true, if_false, List.nil_append, List.mem_cons, List.mem_nil_iff, or_false] at hcd
  rcases hcd with rfl | rfl <;> rfl

/-- **C11-F1 repaired (witness, both shapes).**  `apps/app1/__init__.py` and `apps/app1/helper.py` both execute
`from . import other`.  Current code: both look the file `apps/app1/other` up under the ONE context name
`apps.app1.other`.  Shape before the repair (regression witness): the submodule used `apps.app1.helper.other`, so the same
file was loaded twice – two module objects. -/
theorem C11_regress_relative_submodule :
    candidates Cfg.current { name := ["apps", "app1"], rel := some ["apps", "app1", "__init__"], hasModule := false } ["other"] 1
      = .ok [⟨["apps", "app1", "other"], ["apps", "app1", "other", "__init__"], some ["apps", "app1", "other"]⟩,
             ⟨["apps", "app1", "other"], ["apps", "app1", "other"], some ["apps", "app1"]⟩] ∧
    candidates Cfg.current { name := ["apps", "app1", "helper"], rel := some ["apps", "app1"], hasModule := true } ["other"] 1
      = .ok [⟨["apps", "app1", "other"], ["apps", "app1", "other", "__init__"], some ["apps", "app1", "other"]⟩,
             ⟨["apps", "app1", "other"], ["apps", "app1", "other"], some ["apps", "app1"]⟩] ∧
    candidates Cfg.preFix { name := ["apps", "app1", "helper"], rel := some ["apps", "app1"], hasModule := true } ["other"] 1
      = .ok [⟨["apps", "app1", "helper", "other"], ["apps", "app1", "other", "__init__"], some ["apps", "app1", "other"]⟩,
             ⟨["apps", "app1", "helper", "other"], ["apps", "app1", "other"], some ["apps", "app1"]⟩] := by
  refine ⟨by rfl, by rfl, by rfl⟩

/-! ## witnesses of the findings that concern interleaving and cycles -/

/-- **Finding C11-F2 (witness).**  `module_import` suspends between its lookup and `load_file`.  Two importers of the
not-yet-loaded module `m1` that both pass the lookup first each create a context and a module object (ids 1 and 2,
both with a module) – whereas two imports one after the other (`_partial`: sequential histories, covered by
`C11_singleton_again`) yield the same object. -/
theorem C11_singleton_race_cex :
    (match importLookup raceW raceH 0 ["m1"] 0 with
     | .load cd _ => some cd
     | _ => none) = some raceCd ∧
    (importLoad raceW 10 ⟨raceH, fresh 0⟩ raceCd [.assign "cnt" (.lit 0)]).val = .ok (some 1) ∧
    (importLoad raceW 10 ⟨(importLoad raceW 10 ⟨raceH, fresh 0⟩ raceCd [.assign "cnt" (.lit 0)]).st.h, fresh 0⟩ raceCd
        [.assign "cnt" (.lit 0)]).val = .ok (some 2) ∧
    hasModuleAt (importLoad raceW 10 ⟨(importLoad raceW 10 ⟨raceH, fresh 0⟩ raceCd [.assign "cnt" (.lit 0)]).st.h, fresh 0⟩
        raceCd [.assign "cnt" (.lit 0)]).st.h 1 = true ∧
    hasModuleAt (importLoad raceW 10 ⟨(importLoad raceW 10 ⟨raceH, fresh 0⟩ raceCd [.assign "cnt" (.lit 0)]).st.h, fresh 0⟩
        raceCd [.assign "cnt" (.lit 0)]).st.h 2 = true ∧
    (importMod raceW 10 ⟨raceH, fresh 0⟩ ["m1"] 0).val = .ok (some 1) ∧
    (importMod raceW 10 (importMod raceW 10 ⟨raceH, fresh 0⟩ ["m1"] 0).st ["m1"] 0).val = .ok (some 1) := by
  refine ⟨by rfl, by rfl, by rfl, by rfl, by rfl, by rfl, by rfl⟩

/-- **Finding C11-F3 (witness).**  With `m1: import m2` and `m2: import m1`, importing either module never
succeeds – for EVERY amount of fuel the evaluation runs out of it (each nested import finds the other module
"not loaded yet" and loads it again), from any heap without module objects. -/
theorem C11_cycle_cex : ∀ (n : Nat) (st : St), NoMod st.h →
    ((importMod cycW n st ["m1"] 0).val = .error .fuel ∧ NoMod (importMod cycW n st ["m1"] 0).st.h) ∧
    ((importMod cycW n st ["m2"] 0).val = .error .fuel ∧ NoMod (importMod cycW n st ["m2"] 0).st.h) := by
  intro n
  induction n using Nat.strongRecOn with
  | _ n ih =>
    intro st hn
    have look : ∀ m other, (m = "m1" ∧ other = "m2") ∨ (m = "m2" ∧ other = "m1") →
        importLookup cycW st.h st.p.gctx [m] 0
          = .load ⟨["modules", m], ["modules", m], none⟩ [.import_ [other] none] := by
      intro m other hm
      unfold importLookup
      simp only [candidates, Nat.lt_irrefl, if_false, hn.2 st.p.gctx, Bool.false_eq_true, List.nil_append,
        findLoaded_noMod hn.1]
      rcases hm with ⟨rfl, rfl⟩ | ⟨rfl, rfl⟩ <;> rfl
    have step : ∀ m other, (m = "m1" ∧ other = "m2") ∨ (m = "m2" ∧ other = "m1") →
        (importMod cycW n st [m] 0).val = .error .fuel ∧ NoMod (importMod cycW n st [m] 0).st.h := by
      intro m other hm
      cases n with
      | zero => simp only [importMod]; exact ⟨by trivial, hn⟩
      | succ k =>
        simp only [importMod, look m other hm]
        have hb := noMod_loadBegin hn ⟨["modules", m], ["modules", m], none⟩ rfl
        cases k with
        | zero => simp only [execBlock]; exact ⟨by trivial, hb⟩
        | succ j =>
          simp only [execBlock]
          cases j with
          | zero => simp only [execStmt]; exact ⟨by trivial, hb⟩
          | succ i =>
            simp only [execStmt]
            have := ih i (by omega) ⟨loadBegin st.h ⟨["modules", m], ["modules", m], none⟩, fresh st.h.ctxs.length⟩ hb
            rcases hm with ⟨rfl, rfl⟩ | ⟨rfl, rfl⟩
            · rw [this.2.1]; exact ⟨by trivial, this.2.2⟩
            · rw [this.1.1]; exact ⟨by trivial, this.1.2⟩
    exact ⟨step "m1" "m2" (Or.inl ⟨rfl, rfl⟩), step "m2" "m1" (Or.inr ⟨rfl, rfl⟩)⟩

/-! ## non-vacuity of the hypotheses -/

/-- a world without `set_global_ctx`, a coherent well-formed state, an unreachable context `B = 1` -/
example : World.NoSet raceW ∧ WF (fresh 0) ∧ Coh (fresh 0) ∧ noSetB [Stmt.import_ ["m1"] none] = true :=
  ⟨⟨(by intro fd h; cases h), (by intro pb h; simp [raceW] at h; subst h; rfl)⟩, wf_fresh 0, coh_fresh 0, rfl⟩

example : SFree 1 (abs ⟨{ ctxs := [⟨["file", "a"], none, false⟩, ⟨["file", "b"], none, false⟩], tabs := fun c =>
      if c = 1 then [("f", .fn 1 0)] else [("x", .int 3)], reg := [] }, fresh 0⟩) := by
  refine ⟨⟨by decide, by decide, ?_⟩, by decide, by intro t h; cases h⟩
  intro c hc kv hkv
  simp only [abs, Heap.tab] at hkv
  rw [if_neg hc] at hkv
  simp only [List.mem_singleton] at hkv
  subst hkv
  rfl

example : Reg ["modules", "m1"] 1 (importMod raceW 10 ⟨raceH, fresh 0⟩ ["m1"] 0).st.h := by
  constructor <;> rfl


/-- **C11-F4 repaired (witness, both shapes).**  The file `modules/pkg/sub.py` reached by its absolute dotted name now
gets `rel_import_path = modules/pkg`, the same as when it is reached by a relative import from the package, and a
relative import executed in it resolves inside the package.  Shape before the repair (regression witness): it got
`None` and the relative import raised ImportError. -/
theorem C11_regress_relative_dotted :
    candidates Cfg.current { name := ["file", "a"], rel := none, hasModule := false } ["pkg", "sub"] 0
      = .ok [⟨["modules", "pkg", "sub"], ["modules", "pkg", "sub", "__init__"], some ["modules", "pkg", "sub"]⟩,
             ⟨["modules", "pkg", "sub"], ["modules", "pkg", "sub"], some ["modules", "pkg"]⟩] ∧
    candidates Cfg.current { name := ["modules", "pkg"], rel := some ["modules", "pkg"], hasModule := true } ["sub"] 1
      = .ok [⟨["modules", "pkg", "sub"], ["modules", "pkg", "sub", "__init__"], some ["modules", "pkg", "sub"]⟩,
             ⟨["modules", "pkg", "sub"], ["modules", "pkg", "sub"], some ["modules", "pkg"]⟩] ∧
    candidates Cfg.current { name := ["modules", "pkg", "sub"], rel := some ["modules", "pkg"], hasModule := true } ["sib"] 1
      = .ok [⟨["modules", "pkg", "sib"], ["modules", "pkg", "sib", "__init__"], some ["modules", "pkg", "sib"]⟩,
             ⟨["modules", "pkg", "sib"], ["modules", "pkg", "sib"], some ["modules", "pkg"]⟩] ∧
    candidates Cfg.preFix { name := ["file", "a"], rel := none, hasModule := false } ["pkg", "sub"] 0
      = .ok [⟨["modules", "pkg", "sub"], ["modules", "pkg", "sub", "__init__"], some ["modules", "pkg", "sub"]⟩,
             ⟨["modules", "pkg", "sub"], ["modules", "pkg", "sub"], none⟩] ∧
    candidates Cfg.preFix { name := ["modules", "pkg", "sub"], rel := none, hasModule := true } ["sib"] 1 = .error .importErr := by
  refine ⟨by rfl, by rfl, by rfl, by rfl, by rfl⟩

/-! ## `from m import *` and `__all__` (C11-F6 repaired) -/

/-- the importing file of the witness: `y = 100`; the module: `x = 1; y = 2; _p = 3; __all__ = ['x', '_p']` -/
def starSt : St :=
  ⟨{ ctxs := [⟨["file", "a"], none, false⟩, ⟨["modules", "m1"], none, true⟩],
     tabs := fun c => if c = 1 then [("x", .int 1), ("y", .int 2), ("_p", .int 3), ("__all__", .names ["x", "_p"])]
                      else [("y", .int 100)],
     reg := [(["file", "a"], 0), (["modules", "m1"], 1)] }, fresh 0⟩

/-- **C11-F6 (open; witness, both shapes).**  With the `__all__`-reading shape `Cfg.withAll`, `from m1 import *` binds
exactly the names of `__all__` (`x` and the private `_p`) and the importer's own `y` survives.  TODAY's code
(`Cfg.current`, same as the pre-fix shape in this respect): `y` is overwritten by the module's `y` and `_p` is not
imported – the repair was withdrawn at integration, see findings.d/C11.json. -/
theorem C11_regress_star_ignores_all :
    ((bindStarC Cfg.withAll starSt 1).1.h.tab 0 = [("y", .int 100), ("x", .int 1), ("_p", .int 3)] ∧
     (bindStarC Cfg.withAll starSt 1).2 = none) ∧
    ((bindStarC Cfg.current starSt 1).1.h.tab 0 = [("y", .int 2), ("x", .int 1)]) ∧
    ((bindStarC Cfg.preFix starSt 1).1.h.tab 0 = [("y", .int 2), ("x", .int 1)]) := by
  refine ⟨⟨by rfl, by rfl⟩, ?_, ?_⟩
  · simp [bindStarC, starNames, Cfg.current, starSt, bindStar, isPublic, writeSym, fresh, Heap.tab, Heap.setKey,
      Heap.setTab, tset]
  · simp [bindStarC, starNames, Cfg.preFix, starSt, bindStar, isPublic, writeSym, fresh, Heap.tab, Heap.setKey,
      Heap.setTab, tset]

/-- **`*` means `__all__`** (for the `__all__`-reading shape `Cfg.withAll`, not today's code – C11-F6 is open).  When the module has a list-valued `__all__`, `from m import *` is
exactly `from m import n1, n2, …` for the names of that list, in that order – for every state and every module table;
in particular a listed name the module lacks raises AttributeError as `getattr` does. -/
theorem C11_star_is_all (st : St) (c : Nat) (l : List String) (h : allOf (st.h.tab c) = some l) :
    bindStarC Cfg.withAll st c = bindFrom st c (l.map (fun n => (n, none))) := by
  simp only [bindStarC, starNames, Cfg.withAll, if_true, h]

example : allOf (starSt.h.tab 1) = some ["x", "_p"] := rfl

/-- a module without a list-valued `__all__` exports every name that does not start with `_` (both shapes) -/
theorem C11_star_without_all (cfg : Cfg) (st : St) (c : Nat) (h : allOf (st.h.tab c) = none) :
    bindStarC cfg st c = (bindStar st (st.h.tab c), none) := by
  have e : starNames cfg (st.h.tab c) = none := by simp only [starNames, h]; split <;> rfl
  simp only [bindStarC, e]

end PsModel.C11
