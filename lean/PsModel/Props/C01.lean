import PsModel.Lemmas.C01
import PsModel.Lemmas.C01Comp
import PsModel.Gen.Handlers
import PsModel.Model.C01Rec
/-!
# C01 – property theorems: expressions and assignments evaluate exactly like Python

`eval cfg P` / `run cfg P` = pyscript's handlers as configured by the deviation flags, over ARBITRARY primitives `P` and
an arbitrary world type; `Py.eval` / `Py.run` = the language-reference shapes.  Equality of results for all `P` means:
the same primitive operations, on the same operands, in the same order, each once; the same final store; the same
exception.  No fuel: the recursion is structural on the syntax, so the theorems hold for every nesting depth.
-/
namespace PsModel.C01
variable {W : Type}

/-- **Expressions, any cfg.** -/
theorem C01_expr (cfg : Cfg) (P : Prims W) (e : Expr) (σ : Store) (w : W) (h : Conf cfg e = true) :
    eval cfg P e σ w = Py.eval P e σ w :=
  eval_eq cfg P Cfg.python allOn_python e σ w h

/-- **Straight-line programs, any cfg.**  On the fragment `ConfProg cfg`, for primitives whose in-place operators
coincide with the binary ones (or once `augInPlace` is on), the final store, the primitive trail (world) and the
exception are Python's. -/
theorem C01_prog_partial (cfg : Cfg) (P : Prims W) (hi : cfg.augInPlace = true ∨ NoInPlace P)
    (p : List Stmt) (σ : Store) (w : W) (h : ConfProg cfg p = true) : run cfg P p σ w = Py.run P p σ w :=
  run_eq cfg P Cfg.python allOn_python hi p σ w h

/-- **Today's code** – after the `fix:` commits every handler but the comprehension scope has its Python shape: the only
fragment condition left in `ConfProg Current.cfg` is `compEarlyFree` (no clause of a comprehension mentions a loop variable
that a LATER generator binds – Python raises UnboundLocalError there, pyscript reads the enclosing variable: finding
C01-F14, witness `C01_cex_comp_read_before_bound`).  No hypothesis on the primitives. -/
theorem C01_current_partial (P : Prims W) (p : List Stmt) (σ : Store) (w : W) (h : ConfProg Current.cfg p = true) :
    run Current.cfg P p σ w = Py.run P p σ w :=
  C01_prog_partial Current.cfg P (Or.inl rfl) p σ w h

/-- the handlers as they were before the `fix:` commits: agreement only on the fragment and for primitives without
in-place forms -/
theorem C01_prefix_partial (P : Prims W) (hi : NoInPlace P) (p : List Stmt) (σ : Store) (w : W)
    (h : ConfProg Cfg.preFix p = true) : run Cfg.preFix P p σ w = Py.run P p σ w :=
  C01_prog_partial Cfg.preFix P (Or.inr hi) p σ w h

/-- **Full statement for the repaired handlers**: a configuration with every flag on IS the reference – no fragment,
no hypothesis on the primitives. -/
theorem C01_full (cfg : Cfg) (h : AllOn cfg) (P : Prims W) (p : List Stmt) (σ : Store) (w : W) :
    run cfg P p σ w = Py.run P p σ w := by
  have : cfg = Cfg.python := by
    cases cfg; cases h; simp_all [Cfg.python]
  subst this; rfl

/-! ### comprehensions -/

/-- today's comprehension handlers with every other handler in its reference shape -/
def Cfg.compAsCoded : Cfg := { Cfg.python with compFresh := false }

/-- **Comprehensions, every shape.**  `ast_listcomp` / `ast_setcomp` / `ast_dictcomp` as coded – the loops run in the
ENCLOSING table, `loopvar_scope_save` only remembers the loop variables' entries and `loopvar_scope_restore` puts them back –
agree with Python's semantics (leftmost iterable evaluated in the enclosing scope, then a fresh scope in which every loop
variable is unbound until its generator binds it, nested loops, `if` clauses left to right with short-circuit, key before
value, element per innermost pass) for ANY number of generators and conditions, any targets, comprehensions nested in any
expression and in each other, any primitives – provided no clause mentions a loop variable that may still be unbound when
the clause runs (`compEarlyFree`, part of `Conf`). -/
theorem C01_comprehension_partial (P : Prims W) (e : Expr) (σ : Store) (w : W) (h : Conf Cfg.compAsCoded e = true) :
    eval Cfg.compAsCoded P e σ w = Py.eval P e σ w :=
  C01_expr Cfg.compAsCoded P e σ w h

/-- Python's comprehension, spelled out: the first iterable is evaluated (and iterated) in the enclosing scope; the loops
start in a scope where ALL loop variables are unbound; afterwards the enclosing entries of those names are back -/
theorem Py_comprehension_fresh_scope (P : Prims W) (isSet : Bool) (elt : Expr) (t : Target) (it : Expr) (ifs : List Expr)
    (gs : List Gen) (σ : Store) (w : W) :
    Py.eval P (.comp isSet elt (.mk t it ifs :: gs)) σ w =
      bind (Py.eval P it σ w) fun a w => bind (P.iter a.1 w) fun vals w =>
      bind (genStep (fun v σ w => assign Cfg.python P t v σ w) (fun σ w => evalConds Cfg.python P ifs σ w)
              (fun σ w => compGens Cfg.python P
                 (fun σ w => bind (Py.eval P elt σ w) fun e w => (.ok ([(none, e.1)], e.2), w)) gs σ w)
              vals (a.2.hide (t.names ++ gensNames gs)) w) fun r w =>
      bind (P.mkseq (if isSet then 2 else 0) (r.1.map (·.2)) w) fun v w =>
      (.ok (v, Store.restore r.2 σ (t.names ++ gensNames gs)), w) := by
  simp only [Py.eval, eval]
  rfl

/-- the `if` clauses of a generator short-circuit: after a false one the rest is not evaluated -/
theorem Py_comprehension_conditions_short_circuit (cfg : Cfg) (P : Prims W) (c : Expr) (cs : List Expr) (σ : Store) (w : W) :
    evalConds cfg P (c :: cs) σ w =
      bind (eval cfg P c σ w) fun a w => if P.truth a.1 w then evalConds cfg P cs a.2 w else (.ok (false, a.2), w) := by
  simp [evalConds]

/-- dict comprehensions evaluate the key before the value -/
theorem Py_dictcomp_key_then_value (cfg : Cfg) (P : Prims W) (k v : Expr) (σ : Store) (w : W) :
    compGens cfg P (fun σ w => bind (eval cfg P k σ w) fun kv w => bind (eval cfg P v kv.2 w) fun e w =>
        (.ok ([(some kv.1, e.1)], e.2), w)) [] σ w =
      bind (eval cfg P k σ w) fun kv w => bind (eval cfg P v kv.2 w) fun e w => (.ok ([(some kv.1, e.1)], e.2), w) := by
  simp [compGens]

/-- non-vacuity: two generators, conditions on both, an inner iterable and a condition that use the OUTER loop variable, a
tuple target, a nested comprehension as element, a walrus in a condition – all inside today's fragment -/
def sampleComp : Expr :=
  .comp false (.comp true (.binop 0 (.name "x") (.name "z")) [.mk (.name "z") (.name "y") [.leaf 5]])
    [.mk (.tup false [.name "x", .name "k"] none []) (.leaf 1) [.leaf 2, .named "seen" (.name "x")],
     .mk (.name "y") (.call (.name "x") [] []) [.compare (.name "y") [.mk 2 (.name "k")]]]
example : Conf Current.cfg sampleComp = true := by decide
example : Conf Cfg.compAsCoded (.dictcomp (.name "x") (.name "y") [.mk (.name "x") (.leaf 1) [], .mk (.name "y") (.name "x") []]) = true := by
  decide

/-! ### unpacking takes a snapshot (`vals = [*(iter(val))]`) -/

/-- **Unpacking distributes a snapshot.**  For a tuple / list target without star, ALL items are obtained from the
right-hand side by ONE `iter` in the world `w` before any target is stored to; what the stores to earlier targets do to
the world (e.g. mutate the very object being unpacked) cannot change which values the later targets receive. -/
theorem C01_unpack_snapshot (cfg : Cfg) (P : Prims W) (isList : Bool) (before after : List Target) (v : Val) (σ : Store)
    (w w1 : W) (vals : List Val) (hl : (isList && !cfg.listTarget) = false) (hi : P.iter v w = (.ok vals, w1))
    (hn : vals.length = before.length + after.length) :
    assign cfg P (.tup isList before none after) v σ w =
      bind (assignList cfg P before (vals.take before.length) σ w1) fun σ1 w =>
        assignList cfg P after (vals.drop before.length) σ1 w := by
  simp [assign, hl, hi, hn]

/-- the same with a starred name: the starred list is built from the snapshot too -/
theorem C01_unpack_snapshot_star (cfg : Cfg) (P : Prims W) (isList : Bool) (before after : List Target) (x : String) (v : Val)
    (σ : Store) (w w1 : W) (vals : List Val) (hl : (isList && !cfg.listTarget) = false) (hi : P.iter v w = (.ok vals, w1))
    (hn : before.length + after.length ≤ vals.length) :
    assign cfg P (.tup isList before (some x) after) v σ w =
      bind (assignList cfg P before (vals.take before.length) σ w1) fun σ1 w =>
      bind (P.mkseq 0 ((vals.drop before.length).take (vals.length - (before.length + after.length))) w) fun lst w =>
        assignList cfg P after (vals.drop (before.length + (vals.length - (before.length + after.length)))) (σ1.set x lst) w := by
  simp [assign, hl, hi, Nat.not_lt.2 hn]

/-! ### the reference shapes, spelled out (so that the spec can be read without the flags) -/

theorem Py_dict_key_then_value (P : Prims W) (k v : Expr) (r : List DictArm) (σ : Store) (w : W) :
    evalPairs Cfg.python P (.kv k v :: r) σ w =
      bind (Py.eval P k σ w) fun a w => bind (Py.eval P v a.2 w) fun b w =>
      bind (evalPairs Cfg.python P r b.2 w) fun ps w => (.ok ((some a.1, b.1) :: ps.1, ps.2), w) := by
  simp [evalPairs, Py.eval]

theorem Py_call_args_then_keywords (P : Prims W) (f : Expr) (args : List Elt) (kws : List Kw) (σ : Store) (w : W) :
    Py.eval P (.call f args kws) σ w =
      bind (Py.eval P f σ w) fun fv w => bind (evalElts Cfg.python P args fv.2 w) fun as w =>
      bind (evalKws Cfg.python P [] kws as.2 w) fun ks w =>
      bind (P.call fv.1 as.1 ks.1 w) fun r w => (.ok (r, ks.2), w) := by
  simp [Py.eval, eval]

theorem Py_compare_each_operand_once (P : Prims W) (l : Expr) (op : Nat) (e : Expr) (rest : List CmpArm)
    (σ : Store) (w : W) :
    Py.eval P (.compare l (.mk op e :: rest)) σ w =
      bind (Py.eval P l σ w) fun a w => bind (Py.eval P e a.2 w) fun b w => bind (P.cmp op a.1 b.1 w) fun t w =>
      if t then chainOnce Cfg.python P b.1 rest b.2 w else (.ok (P.ofBool false, b.2), w) := by
  simp [Py.eval, eval, chainOnce]

theorem Py_aug_subscript_once_in_place (P : Prims W) (v i e : Expr) (op : Nat) (σ : Store) (w : W) :
    augAssign Cfg.python P (.sub v i) op e σ w =
      bind (Py.eval P v σ w) fun c w => bind (Py.eval P i c.2 w) fun k w =>
      bind (P.getitem c.1 k.1 w) fun a w => bind (Py.eval P e k.2 w) fun b w =>
      bind (P.iop op a b.1 w) fun r w => bind (P.setitem c.1 k.1 r w) fun _ w => (.ok b.2, w) := by
  simp [augAssign, applyAug, Py.eval]

/-- `and`/`or`: the code tests the truthiness of the last operand too; truthiness is pure, so the value is the last
operand's, as in the language reference -/
theorem Py_boolop_last_operand (cfg : Cfg) (P : Prims W) (isAnd : Bool) (last : Val) (e : Expr) (σ : Store) (w : W) :
    evalBool cfg P isAnd last [e] σ w = eval cfg P e σ w := by
  simp only [evalBool]
  rcases eval cfg P e σ w with ⟨(ex | a), w1⟩
  · rfl
  · simp only [bind_ok]; split <;> rfl

/-! ### witnesses (recorder primitives): `_cex_` = deviations of today's code (replayed by the check as known findings);
`_regress_` = the handler shapes that the `fix:` commits removed still deviate, i.e. the flags are not vacuous -/

def logOf (r : R RW Store) : List String := r.2.log

/-- `{T(1): T(2)}` – value evaluated before key -/
theorem C01_regress_dict :
    logOf (run Cfg.preFix (recorder 0) [.expr (.dict [.kv (.leaf 1) (.leaf 2)])] [] {})
      ≠ logOf (Py.run (recorder 0) [.expr (.dict [.kv (.leaf 1) (.leaf 2)])] [] {}) := by decide

/-- `f(T(1), x=T(2))` – keywords evaluated before positional arguments -/
def cexCall : List Stmt :=
  [.assign [.name "f"] (.leaf 0), .expr (.call (.name "f") [.plain (.leaf 1)] [.named "x" (.leaf 2)])]
theorem C01_regress_call : logOf (run Cfg.preFix (recorder 0) cexCall [] {}) ≠ logOf (Py.run (recorder 0) cexCall [] {}) := by
  decide

/-- `T(1) < T(2) < T(3)` – the middle operand is evaluated twice -/
def cexChain : List Stmt := [.expr (.compare (.leaf 1) [.mk 2 (.leaf 2), .mk 2 (.leaf 3)])]
theorem C01_regress_chain :
    logOf (run Cfg.preFix (recorder 0) cexChain [] { tape := [0, 0, 1, 0, 0, 0, 1] })
      ≠ logOf (Py.run (recorder 0) cexChain [] { tape := [0, 0, 1, 0, 0, 0, 1] }) := by decide

/-- `L[T(1)] += T(2)` – the target's sub-expressions are evaluated twice and the binary operator is applied -/
def cexAug : List Stmt := [.assign [.name "L"] (.leaf 0), .aug (.sub (.name "L") (.leaf 1)) 0 (.leaf 2)]
theorem C01_regress_aug : logOf (run Cfg.preFix (recorder 0) cexAug [] {}) ≠ logOf (Py.run (recorder 0) cexAug [] {}) := by decide

/-- `f"{x!r}"` – the conversion is ignored -/
def cexFstr : List Stmt := [.assign [.name "x"] (.leaf 0), .expr (.fstr [.fmt (.name "x") (some 114) none])]
theorem C01_regress_fstr_conversion :
    logOf (run Cfg.preFix (recorder 0) cexFstr [] {}) ≠ logOf (Py.run (recorder 0) cexFstr [] {}) := by decide

/-- `[p, q] = T(1)` – list-display targets are not implemented -/
def cexListTarget : List Stmt := [.assign [.tup true [.name "p", .name "q"] none []] (.leaf 1)]
theorem C01_regress_list_target :
    (run Cfg.preFix (recorder 0) cexListTarget [] { tape := [0, 2] }).1.toOption.isSome
      ≠ (Py.run (recorder 0) cexListTarget [] { tape := [0, 2] }).1.toOption.isSome := by decide

/-- `+x` – unary plus is not applied -/
def cexUadd : List Stmt := [.assign [.name "x"] (.leaf 0), .expr (.unary 3 (.name "x"))]
theorem C01_regress_uadd : logOf (run Cfg.preFix (recorder 0) cexUadd [] {}) ≠ logOf (Py.run (recorder 0) cexUadd [] {}) := by
  decide

/-- `f(x=1, **{"x": 2})` – no TypeError, the later value wins -/
def cexDupKw : List Stmt :=
  [.assign [.name "f"] (.leaf 0),
   .expr (.call (.name "f") [] [.named "7" (.const 1), .splat (.dict [.kv (.fstr [.lit 7]) (.const 2)])])]
theorem C01_regress_dup_keyword :
    (run Cfg.preFix (recorder 0) cexDupKw [] {}).1.toOption.isSome ≠ (Py.run (recorder 0) cexDupKw [] {}).1.toOption.isSome := by
  decide

/-- `f(**{"7": 2}, 7=T(1), k=T(2))` – CPython evaluates the whole run of explicit keywords (T(1), T(2)) before the merge
raises TypeError; before fix 06e8bd2 the duplicate raised at once and T(2) was never evaluated -/
def cexKwGroup : List Stmt :=
  [.assign [.name "f"] (.leaf 0),
   .expr (.call (.name "f") [] [.splat (.dict [.kv (.fstr [.lit 7]) (.const 2)]), .named "7" (.leaf 1), .named "k" (.leaf 2)])]
theorem C01_regress_kw_group :
    logOf (run { Current.cfg with kwGroupMerge := false } (recorder 0) cexKwGroup [] {})
      ≠ logOf (Py.run (recorder 0) cexKwGroup [] {}) ∧
    logOf (run Current.cfg (recorder 0) cexKwGroup [] {}) = logOf (Py.run (recorder 0) cexKwGroup [] {}) := by decide

/-- `y = T(9); [y for x in [T(1)] for y in [y]]` – the inner iterable reads the loop variable `y` before its generator has
bound it: Python raises (UnboundLocalError, the NameError family), today's code reads the enclosing `y` (finding C01-F14) -/
def cexCompUnbound : List Stmt :=
  [.assign [.name "y"] (.leaf 9),
   .expr (.comp false (.name "y") [.mk (.name "x") (.seq 0 [.plain (.leaf 1)]) [], .mk (.name "y") (.seq 0 [.plain (.name "y")]) []])]
def errOf (r : R RW Store) : Option Exc := match r.1 with | .error e => some e | .ok _ => none
theorem C01_cex_comp_read_before_bound :
    errOf (run Current.cfg (recorder 0) cexCompUnbound [] {}) = none ∧
    errOf (Py.run (recorder 0) cexCompUnbound [] {}) = some .nameError ∧
    ConfProg Current.cfg cexCompUnbound = false := by decide

/-- non-vacuity: a program with every node kind lies in today's fragment -/
def sample : List Stmt :=
  [.assign [.name "a", .tup false [.name "b"] (some "c") [.sub (.name "a") (.const 0)]] (.leaf 1),
   .expr (.call (.attr (.name "a") "m") [.plain (.leaf 2), .star (.name "b")] [.named "k" (.const 3)]),
   .assign [.name "d"] (.dict [.kv (.const 1) (.leaf 3), .splat (.name "a")]),
   .expr (.compare (.leaf 4) [.mk 0 (.name "a"), .mk 1 (.leaf 5)]),
   .expr (.boolop true [.ifexp (.leaf 6) (.name "a") (.unary 2 (.name "b")), .subscript (.name "a") (.slice (some (.const 1)) none none)]),
   .aug (.name "a") 0 (.binop 1 (.leaf 7) (.named "z" (.leaf 8))),
   .expr (.fstr [.lit 1, .fmt (.name "a") none (some (.fstr [.lit 2]))]),
   .del [.name "z", .sub (.name "a") (.const 0)]]
example : ConfProg Cfg.preFix sample = true := by decide

/-- the node handlers this model mirrors (dispatch in `aeval` is by handler NAME, so a handler that disappears or is
renamed silently turns its node kind into `NotImplementedError`) -/
def modelledHandlers : List String :=
  ["ast_constant", "ast_name", "ast_binop", "ast_binop_add", "ast_binop_sub", "ast_binop_mult", "ast_binop_div",
   "ast_binop_mod", "ast_binop_pow", "ast_binop_lshift", "ast_binop_rshift", "ast_binop_bitor", "ast_binop_bitxor",
   "ast_binop_bitand", "ast_binop_floordiv", "ast_unaryop", "ast_unaryop_not", "ast_unaryop_invert", "ast_unaryop_uadd",
   "ast_unaryop_usub", "ast_boolop", "ast_compare", "ast_cmpop_eq", "ast_cmpop_noteq", "ast_cmpop_lt", "ast_cmpop_lte",
   "ast_cmpop_gt", "ast_cmpop_gte", "ast_cmpop_is", "ast_cmpop_isnot", "ast_cmpop_in", "ast_cmpop_notin", "ast_ifexp",
   "ast_subscript", "ast_slice", "ast_attribute", "ast_call", "ast_list", "ast_tuple", "ast_set", "ast_dict",
   "ast_joinedstr", "ast_formattedvalue", "ast_namedexpr", "ast_assign", "ast_augassign", "ast_delete", "ast_expr",
   "ast_listcomp", "ast_setcomp", "ast_dictcomp", "ast_annassign", "ast_lambda"]

/-- the loop helpers of the comprehension handlers -/
def modelledHelpers : List String :=
  ["listcomp_loop", "setcomp_loop", "dictcomp_loop", "loopvar_scope_save", "loopvar_scope_restore", "recurse_assign",
   "eval_elt_list"]

/-- **Tie (translator).**  Every handler the model mirrors exists in the source tree that was extracted for this run. -/
theorem C01_handlers_present : ∀ h ∈ modelledHandlers, h ∈ Gen.AST_HANDLERS := by decide

end PsModel.C01

/-! ## (c) comprehension loop variables: their own scope (`loopvar_scope_save` / `loopvar_scope_restore`) -/
namespace PsModel.C01Comp

/-- **Isolation.**  Whatever the enclosing symbol table holds (plain values, cells shared with closures, unbound cells), for
any list of distinct loop-variable names and any number of iterations with any values: after the comprehension every name
has exactly the entry it had before, and no cell has changed – the loop variables neither leak nor write through to a
closure's variable. -/
theorem C01_comprehension_scope (f : Frame) (lv : List String) (iters : List (List Nat)) (h : lv.Nodup) :
    (comp true f lv iters).cells = f.cells ∧ ∀ y, get (comp true f lv iters).tbl y = get f.tbl y := by
  obtain ⟨s1, s2, s3⟩ := save_spec f lv h
  obtain ⟨l1, l2, l3⟩ := loops_spec lv iters (save true f lv).1 s1
  refine ⟨?_, ?_⟩
  · simp only [comp]; exact l2.trans s2
  · intro y
    simp only [comp]
    by_cases hy : y ∈ lv
    · rw [restore_in _ lv _ y h hy]
      simp only [save]
      rw [get_savedOf]; simp [hy]
    · rw [restore_notin _ lv _ y hy, l3 y hy, s3 y hy]

/-- inside the comprehension a loop variable reads the value of the current iteration (never a stale cell) -/
theorem C01_comprehension_reads_loop_value (f : Frame) (lv : List String) (x : String) (v : Nat) (h : lv.Nodup) (hx : x ∈ lv) :
    load (assign (save true f lv).1 x v) x = some v := by
  obtain ⟨s1, _, _⟩ := save_spec f lv h
  have hnc : ∀ i, get (save true f lv).1.tbl x ≠ some (.cell i) := s1 x hx
  unfold assign
  cases hg : get (save true f lv).1.tbl x with
  | none => simp [load, get_put_eq]
  | some s => cases s with
    | plain w => simp [load, get_put_eq]
    | cell i => exact absurd hg (hnc i)

/-- before fix cc1c3b5 (cells were not hidden) the loop variable overwrote the closure's variable: `x` is cell 0 holding 10,
`[x for x in (1, 2)]` leaves 2 in the cell -/
theorem C01_regress_comprehension_writes_through :
    (comp false ⟨[("x", .cell 0)], [some 10]⟩ ["x"] [[1], [2]]).cells = [some 2] ∧
    (comp true ⟨[("x", .cell 0)], [some 10]⟩ ["x"] [[1], [2]]).cells = [some 10] := by decide

/-- non-vacuity: a table with a shared cell, an unbound cell, a plain entry and a name without entry -/
example : (["x", "y", "z", "w"] : List String).Nodup ∧
    (comp true ⟨[("x", .cell 0), ("y", .cell 1), ("z", .plain 5)], [some 10, none]⟩ ["x", "y", "z", "w"] [[1, 2, 3, 4], [5, 6, 7, 8]]).cells
      = [some 10, none] := by decide

end PsModel.C01Comp
