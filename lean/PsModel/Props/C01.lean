import PsModel.Lemmas.C01
import PsModel.Lemmas.C01Comp
import PsModel.Gen.Handlers
import PsModel.Model.C01Rec
/-!
# C01 – property theorems: expressions and assignments evaluate exactly like Python

`eval cfg P` / `run cfg P` = pyscript's handlers as configured by the deviation flags, over ARBITRARY primitives `P` and
an arbitrary world type; `Py.eval` / `Py.run` = the language-reference shapes.  Equality of results for all `P` means:
the same primitive operations, on the same operands, in the same order, each once; the same final store; the same
exception.  No fuel: the recursion is structural on the syntax, so the theorems hold for every nesting depth.
-/
namespace PsModel.C01
variable {W : Type}

/-- **Expressions, any cfg.** -/
theorem C01_expr (cfg : Cfg) (P : Prims W) (e : Expr) (σ : Store) (w : W) (h : Conf cfg e = true) :
    eval cfg P e σ w = Py.eval P e σ w :=
  eval_eq cfg P Cfg.python allOn_python e σ w h

/-- **Straight-line programs, any cfg.**  On the fragment `ConfProg cfg`, for primitives whose in-place operators
coincide with the binary ones (or once `augInPlace` is on), the final store, the primitive trail (world) and the
exception are Python's. -/
theorem C01_prog_partial (cfg : Cfg) (P : Prims W) (hi : cfg.augInPlace = true ∨ NoInPlace P)
    (p : List Stmt) (σ : Store) (w : W) (h : ConfProg cfg p = true) : run cfg P p σ w = Py.run P p σ w :=
  run_eq cfg P Cfg.python allOn_python hi p σ w h

/-- **Today's code** – after the `fix:` commits every handler has its Python shape: NO fragment, NO hypothesis. -/
theorem C01_current (P : Prims W) (p : List Stmt) (σ : Store) (w : W) :
    run Current.cfg P p σ w = Py.run P p σ w := rfl

/-- the handlers as they were before the `fix:` commits: agreement only on the fragment and for primitives without
in-place forms -/
theorem C01_prefix_partial (P : Prims W) (hi : NoInPlace P) (p : List Stmt) (σ : Store) (w : W)
    (h : ConfProg Cfg.preFix p = true) : run Cfg.preFix P p σ w = Py.run P p σ w :=
  C01_prog_partial Cfg.preFix P (Or.inr hi) p σ w h

/-- **Full statement for the repaired handlers**: a configuration with every flag on IS the reference – no fragment,
no hypothesis on the primitives. -/
theorem C01_full (cfg : Cfg) (h : AllOn cfg) (P : Prims W) (p : List Stmt) (σ : Store) (w : W) :
    run cfg P p σ w = Py.run P p σ w := by
  have : cfg = Cfg.python := by
    cases cfg; cases h; simp_all [Cfg.python]
  subst this; rfl

/-! ### the reference shapes, spelled out (so that the spec can be read without the flags) -/

theorem Py_dict_key_then_value (P : Prims W) (k v : Expr) (r : List DictArm) (σ : Store) (w : W) :
    evalPairs Cfg.python P (.kv k v :: r) σ w =
      bind (Py.eval P k σ w) fun a w => bind (Py.eval P v a.2 w) fun b w =>
      bind (evalPairs Cfg.python P r b.2 w) fun ps w => (.ok ((some a.1, b.1) :: ps.1, ps.2), w) := by
  simp [evalPairs, Py.eval]

theorem Py_call_args_then_keywords (P : Prims W) (f : Expr) (args : List Elt) (kws : List Kw) (σ : Store) (w : W) :
    Py.eval P (.call f args kws) σ w =
      bind (Py.eval P f σ w) fun fv w => bind (evalElts Cfg.python P args fv.2 w) fun as w =>
      bind (evalKws Cfg.python P [] kws as.2 w) fun ks w =>
      bind (P.call fv.1 as.1 ks.1 w) fun r w => (.ok (r, ks.2), w) := by
  simp [Py.eval, eval]

theorem Py_compare_each_operand_once (P : Prims W) (l : Expr) (op : Nat) (e : Expr) (rest : List CmpArm)
    (σ : Store) (w : W) :
    Py.eval P (.compare l (.mk op e :: rest)) σ w =
      bind (Py.eval P l σ w) fun a w => bind (Py.eval P e a.2 w) fun b w => bind (P.cmp op a.1 b.1 w) fun t w =>
      if t then chainOnce Cfg.python P b.1 rest b.2 w else (.ok (P.ofBool false, b.2), w) := by
  simp [Py.eval, eval, chainOnce]

theorem Py_aug_subscript_once_in_place (P : Prims W) (v i e : Expr) (op : Nat) (σ : Store) (w : W) :
    augAssign Cfg.python P (.sub v i) op e σ w =
      bind (Py.eval P v σ w) fun c w => bind (Py.eval P i c.2 w) fun k w =>
      bind (P.getitem c.1 k.1 w) fun a w => bind (Py.eval P e k.2 w) fun b w =>
      bind (P.iop op a b.1 w) fun r w => bind (P.setitem c.1 k.1 r w) fun _ w => (.ok b.2, w) := by
  simp [augAssign, applyAug, Py.eval]

/-- `and`/`or`: the code tests the truthiness of the last operand too; truthiness is pure, so the value is the last
operand's, as in the language reference -/
theorem Py_boolop_last_operand (cfg : Cfg) (P : Prims W) (isAnd : Bool) (last : Val) (e : Expr) (σ : Store) (w : W) :
    evalBool cfg P isAnd last [e] σ w = eval cfg P e σ w := by
  simp only [evalBool]
  rcases eval cfg P e σ w with ⟨(ex | a), w1⟩
  · rfl
  · simp only [bind_ok]; split <;> rfl

/-! ### witnesses (recorder primitives): `_cex_` = deviations of today's code (replayed by the check as known findings);
`_regress_` = the handler shapes that the `fix:` commits removed still deviate, i.e. the flags are not vacuous -/

def logOf (r : R RW Store) : List String := r.2.log

/-- `{T(1): T(2)}` – value evaluated before key -/
theorem C01_regress_dict :
    logOf (run Cfg.preFix (recorder 0) [.expr (.dict [.kv (.leaf 1) (.leaf 2)])] [] {})
      ≠ logOf (Py.run (recorder 0) [.expr (.dict [.kv (.leaf 1) (.leaf 2)])] [] {}) := by decide

/-- `f(T(1), x=T(2))` – keywords evaluated before positional arguments -/
def cexCall : List Stmt :=
  [.assign [.name "f"] (.leaf 0), .expr (.call (.name "f") [.plain (.leaf 1)] [.named "x" (.leaf 2)])]
theorem C01_regress_call : logOf (run Cfg.preFix (recorder 0) cexCall [] {}) ≠ logOf (Py.run (recorder 0) cexCall [] {}) := by
  decide

/-- `T(1) < T(2) < T(3)` – the middle operand is evaluated twice -/
def cexChain : List Stmt := [.expr (.compare (.leaf 1) [.mk 2 (.leaf 2), .mk 2 (.leaf 3)])]
theorem C01_regress_chain :
    logOf (run Cfg.preFix (recorder 0) cexChain [] { tape := [0, 0, 1, 0, 0, 0, 1] })
      ≠ logOf (Py.run (recorder 0) cexChain [] { tape := [0, 0, 1, 0, 0, 0, 1] }) := by decide

/-- `L[T(1)] += T(2)` – the target's sub-expressions are evaluated twice and the binary operator is applied -/
def cexAug : List Stmt := [.assign [.name "L"] (.leaf 0), .aug (.sub (.name "L") (.leaf 1)) 0 (.leaf 2)]
theorem C01_regress_aug : logOf (run Cfg.preFix (recorder 0) cexAug [] {}) ≠ logOf (Py.run (recorder 0) cexAug [] {}) := by decide

/-- `f"{x!r}"` – the conversion is ignored -/
def cexFstr : List Stmt := [.assign [.name "x"] (.leaf 0), .expr (.fstr [.fmt (.name "x") (some 114) none])]
theorem C01_regress_fstr_conversion :
    logOf (run Cfg.preFix (recorder 0) cexFstr [] {}) ≠ logOf (Py.run (recorder 0) cexFstr [] {}) := by decide

/-- `[p, q] = T(1)` – list-display targets are not implemented -/
def cexListTarget : List Stmt := [.assign [.tup true [.name "p", .name "q"] none []] (.leaf 1)]
theorem C01_regress_list_target :
    (run Cfg.preFix (recorder 0) cexListTarget [] { tape := [0, 2] }).1.toOption.isSome
      ≠ (Py.run (recorder 0) cexListTarget [] { tape := [0, 2] }).1.toOption.isSome := by decide

/-- `+x` – unary plus is not applied -/
def cexUadd : List Stmt := [.assign [.name "x"] (.leaf 0), .expr (.unary 3 (.name "x"))]
theorem C01_regress_uadd : logOf (run Cfg.preFix (recorder 0) cexUadd [] {}) ≠ logOf (Py.run (recorder 0) cexUadd [] {}) := by
  decide

/-- `f(x=1, **{"x": 2})` – no TypeError, the later value wins -/
def cexDupKw : List Stmt :=
  [.assign [.name "f"] (.leaf 0),
   .expr (.call (.name "f") [] [.named "7" (.const 1), .splat (.dict [.kv (.fstr [.lit 7]) (.const 2)])])]
theorem C01_regress_dup_keyword :
    (run Cfg.preFix (recorder 0) cexDupKw [] {}).1.toOption.isSome ≠ (Py.run (recorder 0) cexDupKw [] {}).1.toOption.isSome := by
  decide

/-- `f(**{"7": 2}, 7=T(1), k=T(2))` – CPython evaluates the whole run of explicit keywords (T(1), T(2)) before the merge
raises TypeError; before fix 06e8bd2 the duplicate raised at once and T(2) was never evaluated -/
def cexKwGroup : List Stmt :=
  [.assign [.name "f"] (.leaf 0),
   .expr (.call (.name "f") [] [.splat (.dict [.kv (.fstr [.lit 7]) (.const 2)]), .named "7" (.leaf 1), .named "k" (.leaf 2)])]
theorem C01_regress_kw_group :
    logOf (run { Current.cfg with kwGroupMerge := false } (recorder 0) cexKwGroup [] {})
      ≠ logOf (Py.run (recorder 0) cexKwGroup [] {}) ∧
    logOf (run Current.cfg (recorder 0) cexKwGroup [] {}) = logOf (Py.run (recorder 0) cexKwGroup [] {}) := by decide

/-- non-vacuity: a program with every node kind lies in today's fragment -/
def sample : List Stmt :=
  [.assign [.name "a", .tup false [.name "b"] (some "c") [.sub (.name "a") (.const 0)]] (.leaf 1),
   .expr (.call (.attr (.name "a") "m") [.plain (.leaf 2), .star (.name "b")] [.named "k" (.const 3)]),
   .assign [.name "d"] (.dict [.kv (.const 1) (.leaf 3), .splat (.name "a")]),
   .expr (.compare (.leaf 4) [.mk 0 (.name "a"), .mk 1 (.leaf 5)]),
   .expr (.boolop true [.ifexp (.leaf 6) (.name "a") (.unary 2 (.name "b")), .subscript (.name "a") (.slice (some (.const 1)) none none)]),
   .aug (.name "a") 0 (.binop 1 (.leaf 7) (.named "z" (.leaf 8))),
   .expr (.fstr [.lit 1, .fmt (.name "a") none (some (.fstr [.lit 2]))]),
   .del [.name "z", .sub (.name "a") (.const 0)]]
example : ConfProg Cfg.preFix sample = true := by decide

/-- the node handlers this model mirrors (dispatch in `aeval` is by handler NAME, so a handler that disappears or is
renamed silently turns its node kind into `NotImplementedError`) -/
def modelledHandlers : List String :=
  ["ast_constant", "ast_name", "ast_binop", "ast_binop_add", "ast_binop_sub", "ast_binop_mult", "ast_binop_div",
   "ast_binop_mod", "ast_binop_pow", "ast_binop_lshift", "ast_binop_rshift", "ast_binop_bitor", "ast_binop_bitxor",
   "ast_binop_bitand", "ast_binop_floordiv", "ast_unaryop", "ast_unaryop_not", "ast_unaryop_invert", "ast_unaryop_uadd",
   "ast_unaryop_usub", "ast_boolop", "ast_compare", "ast_cmpop_eq", "ast_cmpop_noteq", "ast_cmpop_lt", "ast_cmpop_lte",
   "ast_cmpop_gt", "ast_cmpop_gte", "ast_cmpop_is", "ast_cmpop_isnot", "ast_cmpop_in", "ast_cmpop_notin", "ast_ifexp",
   "ast_subscript", "ast_slice", "ast_attribute", "ast_call", "ast_list", "ast_tuple", "ast_set", "ast_dict",
   "ast_joinedstr", "ast_formattedvalue", "ast_namedexpr", "ast_assign", "ast_augassign", "ast_delete", "ast_expr",
   "ast_listcomp", "ast_setcomp", "ast_dictcomp", "ast_annassign", "ast_lambda"]

/-- **Tie (translator).**  Every handler the model mirrors exists in the source tree that was extracted for this run. -/
theorem C01_handlers_present : ∀ h ∈ modelledHandlers, h ∈ Gen.AST_HANDLERS := by decide

end PsModel.C01

/-! ## (c) comprehension loop variables: their own scope (`loopvar_scope_save` / `loopvar_scope_restore`) -/
namespace PsModel.C01Comp

/-- **Isolation.**  Whatever the enclosing symbol table holds (plain values, cells shared with closures, unbound cells), for
any list of distinct loop-variable names and any number of iterations with any values: after the comprehension every name
has exactly the entry it had before, and no cell has changed – the loop variables neither leak nor write through to a
closure's variable. -/
theorem C01_comprehension_scope (f : Frame) (lv : List String) (iters : List (List Nat)) (h : lv.Nodup) :
    (comp true f lv iters).cells = f.cells ∧ ∀ y, get (comp true f lv iters).tbl y = get f.tbl y := by
  obtain ⟨s1, s2, s3⟩ := save_spec f lv h
  obtain ⟨l1, l2, l3⟩ := loops_spec lv iters (save true f lv).1 s1
  refine ⟨?_, ?_⟩
  · simp only [comp]; exact l2.trans s2
  · intro y
    simp only [comp]
    by_cases hy : y ∈ lv
    · rw [restore_in _ lv _ y h hy]
      simp only [save]
      rw [get_savedOf]; simp [hy]
    · rw [restore_notin _ lv _ y hy, l3 y hy, s3 y hy]

/-- inside the comprehension a loop variable reads the value of the current iteration (never a stale cell) -/
theorem C01_comprehension_reads_loop_value (f : Frame) (lv : List String) (x : String) (v : Nat) (h : lv.Nodup) (hx : x ∈ lv) :
    load (assign (save true f lv).1 x v) x = some v := by
  obtain ⟨s1, _, _⟩ := save_spec f lv h
  have hnc : ∀ i, get (save true f lv).1.tbl x ≠ some (.cell i) := s1 x hx
  unfold assign
  cases hg : get (save true f lv).1.tbl x with
  | none => simp [load, get_put_eq]
  | some s => cases s with
    | plain w => simp [load, get_put_eq]
    | cell i => exact absurd hg (hnc i)

/-- before fix cc1c3b5 (cells were not hidden) the loop variable overwrote the closure's variable: `x` is cell 0 holding 10,
`[x for x in (1, 2)]` leaves 2 in the cell -/
theorem C01_regress_comprehension_writes_through :
    (comp false ⟨[("x", .cell 0)], [some 10]⟩ ["x"] [[1], [2]]).cells = [some 2] ∧
    (comp true ⟨[("x", .cell 0)], [some 10]⟩ ["x"] [[1], [2]]).cells = [some 10] := by decide

/-- non-vacuity: a table with a shared cell, an unbound cell, a plain entry and a name without entry -/
example : (["x", "y", "z", "w"] : List String).Nodup ∧
    (comp true ⟨[("x", .cell 0), ("y", .cell 1), ("z", .plain 5)], [some 10, none]⟩ ["x", "y", "z", "w"] [[1, 2, 3, 4], [5, 6, 7, 8]]).cells
      = [some 10, none] := by decide

end PsModel.C01Comp
