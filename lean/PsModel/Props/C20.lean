import PsModel.Lemmas.C20
/-!
# C20 – property theorems (requirements resolution)

Only property statements live here; helper lemmas are in `Lemmas/C20.lean`.
`ver` is an arbitrary version type with `VerOk ver` (`<=` a total preorder; sentinel and "" are not versions);
`cfg` carries the deviation parameters.  `current` = the code today: every field is GENERATED from requirements.py on
every run (`Gen/ReqTbl.lean`), as are the case split (`Gen.REQ_MERGE_ROWS`) and the per-package install decision
(`Gen.REQ_DECIDE_ROWS`) that `branch` / `decidePkg` interpret – so every theorem below that mentions `current`, `branch`,
`decidePkg`, `parseLine` … is re-checked against what the code says now.  `Cfg.round3` / `Cfg.preFix` / `Cfg.preBomFix` are
hand-written earlier shapes, used only by the `_regress_` theorems.
-/
namespace PsModel.C20
variable {V : Type}

/-- **Order independence, full strength – the code today** (`current`: a pin is validated as soon as it is split
off, `fix:` e2ec6b7).  For ANY two arrangements of the same multiset of (file, line) pairs – no hypothesis on the lines
whatsoever – the version recorded for every package is the same up to `Version` equality, whatever is installed. -/
theorem C20_order_full (ver : Ver V) (ok : VerOk ver) (site site' : Str → Option Str)
    (ls ls' : List (Nat × Str)) (hperm : ls.Perm ls') (p : Str) :
    VEquiv ver (versionOf (mergeAll current ver site ls) p) (versionOf (mergeAll current ver site' ls') p) :=
  order_of_good current ver ok site site' ls ls' hperm p (news_good_of_fix current ver rfl p ls)

/-- the same for every configuration that validates the first pin, whatever its rejection set -/
theorem C20_order_full_of_validate (cfg : Cfg) (hfix : cfg.validateFirstPin = true) (ver : Ver V) (ok : VerOk ver)
    (site site' : Str → Option Str) (ls ls' : List (Nat × Str)) (hperm : ls.Perm ls') (p : Str) :
    VEquiv ver (versionOf (mergeAll cfg ver site ls) p) (versionOf (mergeAll cfg ver site' ls') p) :=
  order_of_good cfg ver ok site site' ls ls' hperm p (news_good_of_fix cfg ver hfix p ls)

/-- **Order independence on the well-formed-pin fragment**, whatever the configuration (in particular for the
pre-fix shape `Cfg.preFix`, where this is all that holds): for ANY two arrangements of the same multiset of
(file, line) pairs in which every pin the code sees is a version, the version recorded for every package is the same
up to `Version` equality. -/
theorem C20_order_partial (cfg : Cfg) (ver : Ver V) (ok : VerOk ver) (site site' : Str → Option Str)
    (ls ls' : List (Nat × Str)) (hperm : ls.Perm ls') (hgood : ∀ l ∈ ls, GoodLine cfg ver l.2) (p : Str) :
    VEquiv ver (versionOf (mergeAll cfg ver site ls) p) (versionOf (mergeAll cfg ver site' ls') p) :=
  order_of_good cfg ver ok site site' ls ls' hperm p (news_good_of_lines cfg ver p ls hgood)

/-- **A pin that is not a version is ignored** by the code today, wherever it stands and whatever is recorded
(malformed `p==abc`, empty `p==`, sentinel `p==_unpinned_version`: `VerOk` says the last two are not versions). -/
theorem C20_invalid_pin_ignored (ver : Ver V) (site : Str → Option Str) (t : Table) (src : Nat) (raw n v : Str)
    (hp : parseLine current raw = some (n, some v)) (hv : ver.parse v = none) :
    processLine current ver site t (src, raw) = t := by
  have hr : rejectedByFix current ver (some v) = true := by
    simp [rejectedByFix, current, Gen.REQ_VALIDATE_FIRST_PIN, hv]
  simp only [processLine, meaning, hp, hr, if_true]

/-! ### regression witnesses: the pre-fix configuration `Cfg.preFix` really behaves differently (the two parameters
are not vacuous).  These were the `_cex` theorems while findings C20-F1…F4 were open; the real pre-fix code is
replayed against them by `VERIF_REPO=<worktree of f2eddcb> ./check C20`. -/

/-- (fixed C20-F1) a malformed first pin was never validated and blocked the valid one; today both orders give 1.0 -/
theorem C20_regress_invalid_pin_first :
    (versionOf (mergeAll Cfg.preFix numVer (fun _ => none) [(0, "p==abc".toList), (0, "p==1.0".toList)]) "p".toList
      = some "abc".toList ∧
     versionOf (mergeAll Cfg.preFix numVer (fun _ => none) [(0, "p==1.0".toList), (0, "p==abc".toList)]) "p".toList
      = some "1.0".toList) ∧
    (versionOf (mergeAll current numVer (fun _ => none) [(0, "p==abc".toList), (0, "p==1.0".toList)]) "p".toList
      = some "1.0".toList ∧
     versionOf (mergeAll current numVer (fun _ => none) [(0, "p==1.0".toList), (0, "p==abc".toList)]) "p".toList
      = some "1.0".toList) := by decide

/-- (fixed C20-F2) an empty pin was falsy when recorded first, but replaced an unpinned entry when it came second;
today it is ignored in both orders -/
theorem C20_regress_empty_pin_vs_unpinned :
    (versionOf (mergeAll Cfg.preFix numVer (fun _ => none) [(0, "p==".toList), (0, "p".toList)]) "p".toList = some UNP ∧
     versionOf (mergeAll Cfg.preFix numVer (fun _ => none) [(0, "p".toList), (0, "p==".toList)]) "p".toList = some []) ∧
    (versionOf (mergeAll current numVer (fun _ => none) [(0, "p==".toList), (0, "p".toList)]) "p".toList = some UNP ∧
     versionOf (mergeAll current numVer (fun _ => none) [(0, "p".toList), (0, "p==".toList)]) "p".toList = some UNP) := by
  decide

/-- (fixed C20-F3) `p~=1.0` / `p!=1.0` became unpinned packages of that literal name; today the lines are ignored
(and a pin with a version epoch, which contains a lone `!`, is still a pin) -/
theorem C20_regress_specifier_kept_as_name :
    ((mergeAll Cfg.preFix numVer (fun _ => none) [(0, "p~=1.0".toList), (0, "p!=1.0".toList), (0, "p==2.0".toList)]).map
        (fun e => (e.name, e.version))
      = [("p~=1.0".toList, UNP), ("p!=1.0".toList, UNP), ("p".toList, "2.0".toList)]) ∧
    ((mergeAll current numVer (fun _ => none) [(0, "p~=1.0".toList), (0, "p!=1.0".toList), (0, "p==2.0".toList)]).map
        (fun e => (e.name, e.version))
      = [("p".toList, "2.0".toList)]) ∧
    versionOf (mergeAll current numVer (fun _ => none) [(0, "p==1!2.0".toList), (0, "p==3.0".toList)]) "p".toList
      = some "1!2.0".toList ∧
    versionOf (mergeAll current numVer (fun _ => none) [(0, "p==3.0".toList), (0, "p==1!2.0".toList)]) "p".toList
      = some "1!2.0".toList := by decide

/-- (fixed C20-F4) a pin to the sentinel string counted as an unpinned requirement; today the line is ignored -/
theorem C20_regress_sentinel_pin :
    versionOf (mergeAll Cfg.preFix numVer (fun _ => none) [(0, "p==_unpinned_version".toList)]) "p".toList = some UNP ∧
    versionOf (mergeAll current numVer (fun _ => none) [(0, "p==_unpinned_version".toList)]) "p".toList = none := by
  decide

/-- (fixed C20-F8) read with plain `utf-8` (`Cfg.preBomFix`) the byte-order mark of the file stayed in the first line
and became part of the package name; today (`utf-8-sig`) the requirement is `p==1.0` -/
theorem C20_regress_bom_first_line :
    (mergeAll Cfg.preBomFix numVer (fun _ => none) (fileLines Cfg.preBomFix ⟨0, [], [BOM :: "p==1.0".toList]⟩)).map
        (fun e => (e.name, e.version)) = [(BOM :: "p".toList, "1.0".toList)] ∧
    (mergeAll current numVer (fun _ => none) (fileLines current ⟨0, [], [BOM :: "p==1.0".toList]⟩)).map
        (fun e => (e.name, e.version)) = [("p".toList, "1.0".toList)] := by decide

/-- **A byte-order mark changes nothing** for the code today: a file that starts with one yields exactly the lines
that follow the mark, whatever they are; a file without one is read as it is -/
theorem C20_bom_ignored (id : Nat) (dir : List Str) (l : Str) (ls : List Str) :
    fileLines current ⟨id, dir, (BOM :: l) :: ls⟩ = (l :: ls).map (fun x => (id, x)) ∧
    (l.head? ≠ some BOM → fileLines current ⟨id, dir, l :: ls⟩ = (l :: ls).map (fun x => (id, x))) := by
  constructor
  · simp [fileLines, decodeLines, current, Gen.REQ_STRIP_BOM]
  · intro h
    cases l with
    | nil => simp [fileLines, decodeLines, current, Gen.REQ_STRIP_BOM]
    | cons c cs =>
      have hc : c ≠ BOM := fun e => h (by simp [e])
      simp [fileLines, decodeLines, current, Gen.REQ_STRIP_BOM, hc]

/-- hence the full-strength statement was FALSE for the pre-fix code: `C20_order_full` cannot be proved for
`Cfg.preFix`, the hypothesis of `C20_order_partial` is needed there -/
theorem C20_regress_order_full_false :
    ¬ (∀ (ls ls' : List (Nat × Str)), ls.Perm ls' → ∀ p,
        VEquiv numVer (versionOf (mergeAll Cfg.preFix numVer (fun _ => none) ls) p)
                      (versionOf (mergeAll Cfg.preFix numVer (fun _ => none) ls') p)) := by
  intro h
  have := h [(0, "p==abc".toList), (0, "p==1.0".toList)] [(0, "p==1.0".toList), (0, "p==abc".toList)]
    (List.Perm.swap _ _ _) "p".toList
  rw [C20_regress_invalid_pin_first.1.1, C20_regress_invalid_pin_first.1.2] at this
  rcases this with h | ⟨x, _, hx, _⟩
  · exact absurd h (by decide)
  · have : numVer.parse "abc".toList = none := by decide
    rw [this] at hx; cases hx

/-! ### open findings: the model reproduces them (witnesses replayed on the real code by the harness) -/

/-- (open C20-F7) package names are compared as raw text: two spellings of one package (same `normName`, which is how
pip and `importlib.metadata` identify it) are two rows -/
theorem C20_cex_name_variants :
    (mergeAll current numVer (fun _ => none) [(0, "My_Pkg==1.0".toList), (0, "my-pkg==2.0".toList)]).map
        (fun e => (e.name, e.version)) = [("My_Pkg".toList, "1.0".toList), ("my-pkg".toList, "2.0".toList)] ∧
    normName "My_Pkg".toList = normName "my-pkg".toList := by decide

/-- (open C20-F6) a line that is not `name[==version]` is kept as a package name: `p[extra]==1.0` counts as not
installed, goes to the installer, and the host's `p` 2.0 (which pyscript never recorded) is replaced by 1.0 -/
theorem C20_cex_extras_override_host :
    (runOnce current numVer { site := [("p".toList, "2.0".toList)], index := [] } true [] [(0, "p[extra]==1.0".toList)]).2.args
      = some ["p[extra]==1.0".toList] ∧
    (runOnce current numVer { site := [("p".toList, "2.0".toList)], index := [] } true [] [(0, "p[extra]==1.0".toList)]).1.site
      = [("p".toList, "1.0".toList)] := by decide

/-- (fixed C20-F9) an installed / recorded version string that is not PEP 440 made the install decision raise
(`InvalidVersion` escaped `install_requirements`: with `Version(a) != Version(b)` – `Cfg.round3` – `decidePkg` has no
branch that survives it); today (`same_version`) the package pyscript installed as `2004d` is simply updated to the pin -/
theorem C20_regress_legacy_installed_version :
    (runOnce Cfg.round3 numVer { site := [("p".toList, "2004d".toList)], index := [] } true [("p".toList, "2004d".toList)]
      [(0, "p==1.0".toList)]).2.exc = some "InvalidVersion" ∧
    (runOnce current numVer { site := [("p".toList, "2004d".toList)], index := [] } true [("p".toList, "2004d".toList)]
      [(0, "p==1.0".toList)]).2.args = some ["p==1.0".toList] ∧
    (runOnce current numVer { site := [("p".toList, "2004d".toList)], index := [] } true [("p".toList, "2004d".toList)]
      [(0, "p==1.0".toList)]).2.rec' = [("p".toList, "1.0".toList)] ∧
    -- installed by somebody else in a version that is not PEP 440, recorded by pyscript as 1.0: forgotten, not touched
    (runOnce current numVer { site := [("p".toList, "2004d".toList)], index := [] } true [("p".toList, "1.0".toList)]
      [(0, "p==2.0".toList)]).2.args = none ∧
    (runOnce current numVer { site := [("p".toList, "2004d".toList)], index := [] } true [("p".toList, "1.0".toList)]
      [(0, "p==2.0".toList)]).2.rec' = [] := by decide

/-- **Highest pin** (`_partial`: exactly the fragment outside findings C20-F6/F7).  When every line means to the
code what it means to the reference (plain name written in its normal form, pin is a version – or the line is ignored
by both), the recorded version of every package is a correct selection in the
sense of `Selected`: a highest valid pin; the unpinned marker only if no pin exists; nothing if no line names it. -/
theorem C20_highest (cfg : Cfg) (ver : Ver V) (ok : VerOk ver) (site : Str → Option Str) (ls : List (Nat × Str))
    (hspec : ∀ l ∈ ls, meaning cfg ver l.2 = specLine ver l.2) (p : Str) :
    Selected ver (ls.filterMap (fun l => specLine ver l.2)) p (versionOf (mergeAll cfg ver site ls) p) :=
  selected_mergeAll cfg ver ok site ls hspec p

/-- **Blank and comment lines are ignored**, wherever they stand. -/
theorem C20_blank_comment_ignored (cfg : Cfg) (ver : Ver V) (site : Str → Option Str) (t : Table) (src : Nat)
    (raw : Str) (h : ∀ c ∈ cutComment raw, isWs c = true) : processLine cfg ver site t (src, raw) = t := by
  have : parseLine cfg raw = none := parseLine_of_body_nil cfg raw (by rw [body_eq]; exact strip_allWs _ h)
  simp [processLine, meaning, this]

/-- **An inline comment does not change what a line means.** -/
theorem C20_inline_comment_ignored (cfg : Cfg) (raw tail : Str) (h : '#' ∉ raw) :
    parseLine cfg (raw ++ '#' :: tail) = parseLine cfg raw := by
  simp only [parseLine, parseLineWith, body, cutComment_append_hash raw tail h, cutComment_no_hash raw h]

/-- **Unsupported specifiers are ignored**: a line whose body contains a pattern of the configuration's rejection
set as a substring, or more than one `==`. -/
theorem C20_range_specifier_ignored (cfg : Cfg) (ver : Ver V) (site : Str → Option Str) (t : Table) (src : Nat)
    (raw : Str) (h : hasSpecPat cfg.specPats (body raw) = true ∨ 2 < (splitEq (body raw) []).length) :
    processLine cfg ver site t (src, raw) = t := by
  have : parseLine cfg raw = none := by
    rcases h with h | h
    · exact parseLine_of_specPat cfg raw h
    · exact parseLine_of_many_parts cfg raw h
  simp [processLine, meaning, this]

/-- for the code today that set is `,` `>` `<` `~=` `!=`: every line whose body is `pre ++ pat ++ post` for one of
these five patterns – all `>=` `<=` `>` `<` `~=` `!=` and `,`-joined forms – is ignored (`fix:` d07dfc5 / 5d02a52) -/
theorem C20_unsupported_specifier_ignored (ver : Ver V) (site : Str → Option Str) (t : Table) (src : Nat)
    (raw pat pre post : Str) (hp : pat ∈ [",".toList, ">".toList, "<".toList, "~=".toList, "!=".toList])
    (h : body raw = pre ++ pat ++ post) : processLine current ver site t (src, raw) = t := by
  refine C20_range_specifier_ignored current ver site t src raw (Or.inl ?_)
  rw [h]
  exact hasSpecPat_of_sub _ pat pre post hp

/-- lines that do not parse can be deleted anywhere without changing the resulting table (not just the versions) -/
theorem C20_ignored_lines_irrelevant (cfg : Cfg) (ver : Ver V) (site : Str → Option Str) (ls : List (Nat × Str)) :
    mergeAll cfg ver site ls = mergeAll cfg ver site (ls.filter (fun l => (parseLine cfg l.2).isSome)) := by
  unfold mergeAll
  apply foldl_filter_irrelevant
  intro t l hl
  cases hp : parseLine cfg l.2 with
  | none => simp [processLine, meaning, hp]
  | some x => simp [hp] at hl

/-- the merged table is a well-formed dict: one row per (non-empty) package name, and the installed-version column
is what the site reports for that name -/
theorem C20_table_wellformed (cfg : Cfg) (ver : Ver V) (site : Str → Option Str) (ls : List (Nat × Str)) :
    ((mergeAll cfg ver site ls).map (·.name)).Nodup ∧
    ∀ e ∈ mergeAll cfg ver site ls, e.installed = site e.name ∧ e.name ≠ [] :=
  tableOk_mergeAll cfg ver site ls

/-- **Nothing without opt-in.**  If any requirement is present and `allow_all_imports` is off, the installer is not
called, the record and the world are unchanged, the config entry is not updated. -/
theorem C20_nothing_without_optin (cfg : Cfg) (ver : Ver V) (w : World) (r : Rec) (ls : List (Nat × Str))
    (h : mergeAll cfg ver w.installed ls ≠ []) :
    (runOnce cfg ver w false r ls).1 = w ∧ (runOnce cfg ver w false r ls).2.args = none ∧
    (runOnce cfg ver w false r ls).2.rec' = r ∧ (runOnce cfg ver w false r ls).2.updated = false ∧
    (runOnce cfg ver w false r ls).2.exc = none := by
  have hb : phase1 cfg ver false (mergeAll cfg ver w.installed ls) (readRec cfg r) = .blocked := by
    unfold phase1
    rw [optinGuard_eq]
    cases hm : mergeAll cfg ver w.installed ls with
    | nil => exact absurd hm h
    | cons x xs => simp
  simp [runOnce, hb]

/-- **The tables read off the source are the decision procedures the theorems reason about**: interpreting the
generated rows of the case split (`Gen.REQ_MERGE_ROWS`: `not cur` → record, unpinned-vs-pinned precedence in both
directions, equal → add source, lower → replace, higher → ignore, `ValueError` → skip) and of the per-package install
decision (`Gen.REQ_DECIDE_ROWS`: not installed → install; unpinned → never install, forget on a text difference;
recorded but another version installed → forget; recorded and pinned differently → install; otherwise – in particular
installed and NOT recorded – nothing) gives exactly the hand-written functions `branchRef` / `decidePkgRef`. -/
theorem C20_generated_rows_are_reference (cfg : Cfg) (ver : Ver V) :
    (∀ cur new, branch ver cur new = branchRef ver cur new) ∧
    (∀ recd e, decidePkg cfg ver recd e = decidePkgRef cfg ver recd e) :=
  ⟨branch_eq_ref ver, decidePkg_eq_ref cfg ver⟩

/-- the generated configuration is, value for value, the hand-written `Cfg.round4` (rejection substrings
`,` `>` `<` `~=` `!=`, first pin validated, byte-order mark stripped, versions compared through `same_version` since the
repair of C20-F9; names still compared as the open findings C20-F6/F7 describe, nothing recorded after an installer
failure, C20-F5), and the other shape parameters are the ones the model was written for -/
theorem C20_current_shape :
    current = Cfg.round4 ∧ Gen.REQ_COMMENT_MARK = '#' ∧ Gen.REQ_STRIP_AFTER_COMMENT = true ∧ Gen.REQ_SKIP_BLANK = true ∧
    Gen.REQ_PIN_SEP = ('=', '=') ∧ Gen.REQ_MAX_PARTS = 2 ∧ Gen.REQ_OPTIN_GUARD = true := by decide

/-- **Exactly the reference install rule.**  For a table with unique names, a package goes to the installer iff
it is not installed, or pyscript recorded the version that is installed and a different version is pinned now
(`ShouldInstall`); and the installer gets nothing that is not in the table. -/
theorem C20_install_iff (cfg : Cfg) (ver : Ver V) (ok : VerOk ver) (allow : Bool) (t : Table)
    (hnd : (t.map (·.name)).Nodup) (r r1 : Rec) (ti : List Entry) (h : phase1 cfg ver allow t r = .go r1 ti) :
    (∀ e ∈ t, e ∈ ti ↔ ShouldInstall ver (rget r e.name) e) ∧ (∀ x ∈ ti, x ∈ t) := by
  obtain ⟨_, hraise, _, hti⟩ := phase1_go cfg ver allow t hnd r r1 ti h
  subst hti
  constructor
  · intro e he
    rw [mem_installs, decidePkg_install_iff cfg ver ok _ e (not_raise_of_raises_false cfg ver r t hraise e he)]
    exact ⟨fun h => h.2, fun h => ⟨he, h⟩⟩
  · intro x hx; exact ((mem_installs cfg ver r t x).1 hx).1

/-- **Never override the host.**  A package that is installed and that pyscript has no record of is never passed
to the installer – under any name-equal row, any pins, any flag. -/
theorem C20_foreign_untouched (cfg : Cfg) (ver : Ver V) (ok : VerOk ver) (allow : Bool) (t : Table)
    (hnd : (t.map (·.name)).Nodup) (r r1 : Rec)
    (ti : List Entry) (h : phase1 cfg ver allow t r = .go r1 ti) (e : Entry) (he : e ∈ t) (inst : Str)
    (hinst : truthy e.installed = some inst) (hrec : rget r e.name = none) :
    ∀ x ∈ ti, x.name ≠ e.name := by
  obtain ⟨hiff, hsub⟩ := C20_install_iff cfg ver ok allow t hnd r r1 ti h
  intro x hx hn
  have hxt := hsub x hx
  have e1 : find t x.name = some x := find_of_mem_nodup t hnd x hxt
  have e2 : find t e.name = some e := find_of_mem_nodup t hnd e he
  rw [hn, e2] at e1
  cases e1
  have := (hiff e he).1 hx
  rw [hrec] at this
  rcases this with h0 | ⟨_, _, _, h1, _⟩
  · rw [hinst] at h0; cases h0
  · cases h1

/-- **Own packages are updated exactly when the pin differs.**  For an installed package that pyscript recorded:
it is (re)installed iff the installed version still is the recorded one and a pinned, different version is
required (`SameV`: the same text, or equal as versions). -/
theorem C20_own_updated_iff (cfg : Cfg) (ver : Ver V) (ok : VerOk ver) (allow : Bool) (t : Table)
    (hnd : (t.map (·.name)).Nodup) (r r1 : Rec)
    (ti : List Entry) (h : phase1 cfg ver allow t r = .go r1 ti) (e : Entry) (he : e ∈ t) (inst rv : Str)
    (hinst : truthy e.installed = some inst) (hrec : rget r e.name = some rv) :
    e ∈ ti ↔ (e.version ≠ UNP ∧ SameV ver rv inst ∧ ¬ SameV ver e.version inst) := by
  rw [(C20_install_iff cfg ver ok allow t hnd r r1 ti h).1 e he, hrec]
  constructor
  · rintro (h0 | ⟨i, r', h1, h2, h3, h4, h5⟩)
    · rw [hinst] at h0; cases h0
    · rw [hinst] at h1; cases h1; cases h2
      exact ⟨h3, h4, h5⟩
  · rintro ⟨h3, h4, h5⟩
    exact Or.inr ⟨inst, rv, hinst, rfl, h3, h4, h5⟩

/-- **The record matches what was done.**  After the run the record of every package `m` is: the version just
handed to the installer (an unpinned one resolved to what is installed afterwards); nothing if the package turned out
to be changed externally (`decidePkg = pop` ⇔ `ExternallyChanged`); otherwise exactly what it was – in particular for
packages that no file mentions any more. -/
theorem C20_record_matches (cfg : Cfg) (ver : Ver V) (ok : VerOk ver) (allow : Bool) (t : Table)
    (hnd : (t.map (·.name)).Nodup) (r r1 : Rec)
    (ti : List Entry) (h : phase1 cfg ver allow t r = .go r1 ti) (hk : ((r.map (·.1))).Nodup)
    (site' : Str → Option Str) (m : Str) :
    rget (phase2 site' r1 ti) m = resolveRule site' m (recordRule cfg ver t r m) ∧
    (∀ e ∈ t, decidePkg cfg ver (rget r e.name) e = .pop ↔ ExternallyChanged ver (rget r e.name) e) ∧
    (∀ e ∈ t, decidePkg cfg ver (rget r e.name) e = .install ↔ ShouldInstall ver (rget r e.name) e) := by
  obtain ⟨_, hraise, _, _⟩ := phase1_go cfg ver allow t hnd r r1 ti h
  exact ⟨rget_phase2 cfg ver allow t hnd r r1 ti h hk site' m,
    fun e he => decidePkg_pop_iff cfg ver ok _ e (not_raise_of_raises_false cfg ver r t hraise e he),
    fun e he => decidePkg_install_iff cfg ver ok _ e (not_raise_of_raises_false cfg ver r t hraise e he)⟩

/-- **The install decision cannot fail** once versions are compared through `same_version` (`tolerantCmp`, the repair
of C20-F9): whatever strings are recorded, installed or pinned – PEP 440 or not – `install_requirements` gets through
its decision loop (`phase1` is `blocked` or `go`, never `raised`), for every table and record. -/
theorem C20_decision_never_raises (cfg : Cfg) (ht : cfg.tolerantCmp = true) (ver : Ver V) (allow : Bool) (t : Table)
    (r : Rec) : phase1 cfg ver allow t r ≠ .raised := by
  unfold phase1
  split
  · simp
  · obtain ⟨st', hs⟩ := decideLoop_isSome cfg ver (decidePkg_ne_raise cfg ver ht) t { recd := r, toInstall := [] }
    simp [hs]

/-- … and that is the code today: whatever is recorded, installed or pinned, `install_requirements` never raises out
of its decision loop (the full statement finding C20-F9 blocked) -/
theorem C20_never_raises (ver : Ver V) (allow : Bool) (t : Table) (r : Rec) : phase1 current ver allow t r ≠ .raised :=
  C20_decision_never_raises current rfl ver allow t r

/-- **Idempotence.**  If a run reached the installer stage with `ti`, the installer did its job (`InstallOk`), and
nothing else touches the site, then the next run over the same files installs nothing and leaves the record as it
is. -/
theorem C20_idempotent (cfg : Cfg) (ver : Ver V) (site site' : Str → Option Str) (ls : List (Nat × Str))
    (allow : Bool) (r r1 : Rec) (ti : List Entry) (hk : (r.map (·.1)).Nodup) (hnu : ∀ kv ∈ r, kv.2 ≠ UNP)
    (h : phase1 cfg ver allow (mergeAll cfg ver site ls) r = .go r1 ti)
    (hio : InstallOk ver site site' ti) (hs : ∀ n, site' n ≠ some UNP) :
    phase1 cfg ver allow (mergeAll cfg ver site' ls) (phase2 site' r1 ti) = .go (phase2 site' r1 ti) [] ∧
    phase2 site' (phase2 site' r1 ti) [] = phase2 site' r1 ti := by
  rw [mergeAll_refresh cfg ver site site' ls]
  exact second_run cfg ver site site' _ (tableOk_mergeAll cfg ver site ls) r hk hnu allow r1 ti h hio hs

/-! ## non-vacuity: the hypotheses above are satisfiable by non-trivial inputs -/

example : VerOk numVer := numVer_ok

/-- a well-formed arrangement with pins, an unpinned line, a comment and a range line; `1.10` wins over `1.9` -/
example :
    (∀ l ∈ [(0, "p==1.9".toList), (1, "p".toList), (0, "p==1.10 # c".toList), (1, "p>=3".toList), (0, "q==1.0.0".toList)],
        meaning current numVer l.2 = specLine numVer l.2) ∧
    versionOf (mergeAll current numVer (fun _ => none)
      [(0, "p==1.9".toList), (1, "p".toList), (0, "p==1.10 # c".toList), (1, "p>=3".toList), (0, "q==1.0.0".toList)])
      "p".toList = some "1.10".toList := by decide

/-- a run that reaches the installer: `p` recorded by pyscript at the installed 1.0 and pinned to 2.0 is updated,
`q` installed by something else is left alone, `s` is new -/
example :
    phase1 current numVer true
      (mergeAll current numVer (rget [("p".toList, "1.0".toList), ("q".toList, "1.0".toList)])
        [(0, "p==2.0".toList), (0, "q==2.0".toList), (0, "s".toList)])
      [("p".toList, "1.0.0".toList)]
    = .go [("p".toList, "1.0.0".toList)]
        [⟨"p".toList, "2.0".toList, [0], some "1.0".toList⟩, ⟨"s".toList, UNP, [0], none⟩] := by decide

end PsModel.C20
