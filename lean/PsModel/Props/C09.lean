import PsModel.Lemmas.C09World
/-!
# C09 – property theorems (triggers live exactly as long as their function and leave nothing behind)

`cont` is the deviation flag of `State.notify_del`: `false` = the loop as coded today (`return` at the first name whose
entity no longer lists the queue), `true` = the repaired loop (`continue`).  The full-strength statements are proved
for `cont = true`; for the code as it is they hold on the fragment "every queue names each entity once"
(`…_partial`) and fail outside it (`…_cex`, finding C09-F1 = DESIGN §6 #18).
-/
namespace PsModel.C09
open PsModel.C09.Spec

/-! ## `start ; stop = id` on the state subscription table -/

/-- **FULL statement (repaired loop).**  Subscribing a fresh queue to any set of names and unsubscribing it again –
the names iterated in *any* order, possibly a different one – leaves every entity's subscriber set as it was. -/
theorem C09_start_stop_id (names names' : List Var) (hp : names'.Perm names) (q : Q) (t : StateTbl)
    (hfresh : ∀ e, q ∉ subsOf t e) (e : Ent) (q' : Q) :
    q' ∈ subsOf (notifyDel true q names' (notifyAdd names q t)) e ↔ q' ∈ subsOf t e := by
  rw [mem_notifyDel_cont, mem_notifyAdd]
  have hperm : e ∈ entsOf names' ↔ e ∈ entsOf names := (entsOf_perm hp).mem_iff
  constructor
  · rintro ⟨h | ⟨rfl, he⟩, hn⟩
    · exact h
    · exact absurd ⟨rfl, hperm.mpr he⟩ hn
  · intro h
    refine ⟨.inl h, ?_⟩
    rintro ⟨rfl, _⟩
    exact hfresh e h

/-- **The code as it is, partial.**  The same holds for today's `notify_del` when no two watched names belong to the
same entity (so no `a` together with `a.old` or `a.attr`). -/
theorem C09_start_stop_partial (names names' : List Var) (hp : names'.Perm names) (hnd : (entsOf names').Nodup)
    (q : Q) (t : StateTbl) (hfresh : ∀ e, q ∉ subsOf t e) (e : Ent) (q' : Q) :
    q' ∈ subsOf (notifyDel false q names' (notifyAdd names q t)) e ↔ q' ∈ subsOf t e := by
  have hperm : ∀ x, x ∈ entsOf names' ↔ x ∈ entsOf names := fun x => (entsOf_perm hp).mem_iff
  rw [mem_notifyDel_code _ _ _ hnd, mem_notifyAdd]
  · constructor
    · rintro ⟨h | ⟨rfl, he⟩, hn⟩
      · exact h
      · exact absurd ⟨rfl, (hperm e).mpr he⟩ hn
    · intro h
      refine ⟨.inl h, ?_⟩
      rintro ⟨rfl, _⟩
      exact hfresh e h
  · intro x hx
    rw [mem_notifyAdd]
    exact .inr ⟨rfl, (hperm x).mp hx⟩

/-- **Counterexample (finding C09-F1).**  Watching `pyscript.a`, `pyscript.a.old` and `pyscript.b`, iterated in this
order: after `notify_add ; notify_del` the queue is still subscribed to `pyscript.b` (the second name finds the queue
already gone from `pyscript.a` and `return`s).  In the order `b, a, a.old` nothing leaks – the defect depends on the
iteration order of a Python set. -/
theorem C09_cex_two_names_one_entity :
    subsOf (notifyDel false (7, 0) [["pyscript", "a"], ["pyscript", "a", "old"], ["pyscript", "b"]]
      (notifyAdd [["pyscript", "a"], ["pyscript", "a", "old"], ["pyscript", "b"]] (7, 0) [])) ["pyscript", "b"] = [(7, 0)] ∧
    subsOf (notifyDel false (7, 0) [["pyscript", "b"], ["pyscript", "a"], ["pyscript", "a", "old"]]
      (notifyAdd [["pyscript", "a"], ["pyscript", "a", "old"], ["pyscript", "b"]] (7, 0) [])) ["pyscript", "b"] = [] := by
  decide

/-! ## the event table and the bus listener -/

/-- **Listener count (legacy subsystem).**  After any sequence of `Event.notify_add` / `Event.notify_del` calls,
pyscript holds exactly one bus listener for an event type that has a subscriber and none otherwise, and the table
has an entry for a type exactly when it has a subscriber. -/
theorem C09_listener_count (ops : List EvOp) (ty : String) :
    busCount (evRun ops).bus ty = (if (evSubs (evRun ops) ty).isEmpty then 0 else 1) ∧
      (evHas (evRun ops) ty = true ↔ evSubs (evRun ops) ty ≠ []) := by
  have h := evRun_ok ops
  have hiff : evHas (evRun ops) ty = true ↔ evSubs (evRun ops) ty ≠ [] := by
    constructor
    · exact h.nonempty ty
    · intro hne
      cases hh : evHas (evRun ops) ty with
      | true => rfl
      | false => exact absurd (subsOf_of_not_has _ _ hh) hne
  refine ⟨?_, hiff⟩
  rw [h.count ty]
  by_cases hh : evHas (evRun ops) ty = true
  · have := hiff.mp hh
    simp [hh, this]
  · have hh' : evHas (evRun ops) ty = false := by simpa using hh
    have : evSubs (evRun ops) ty = [] := subsOf_of_not_has _ _ hh'
    simp [hh', this]

/-- in the new subsystem every started `@event_trigger` holds its own bus listener: the count is the number of
increments minus decrements (stated on the counter itself) -/
theorem C09_listener_count_new (b : List (String × Nat)) (ty ty' : String) :
    busCount (busInc b ty) ty' = (if ty' = ty then busCount b ty + 1 else busCount b ty') ∧
      busCount (busDec b ty) ty' = (if ty' = ty then busCount b ty - 1 else busCount b ty') :=
  ⟨busCount_inc b ty ty', busCount_dec b ty ty'⟩

/-! ## refinement over all operation sequences -/

/-- **Refinement, FULL statement (repaired loop).**  After *any* sequence of define / redefine / `del` / rebind /
container put / drop / context unload / unload-all operations, in either subsystem, under the ASSUMPTION that an
unreferenced function object is finalised right after the operation (`sweep`):
the state subscription table is exactly the union of the subscriptions of the started generations (`Spec.Tables`),
the started generations are exactly the referenced ones (`Spec.Active`) – so no occurrence can reach a function
that is no longer referenced – and their identifiers are pairwise distinct. -/
theorem C09_refinement (sub : Sub) (ops : List Op) :
    (∀ e q, q ∈ subsOf (run true sub ops).st e ↔ Tables sub (run true sub ops).started e q) ∧
    (∀ g ∈ (run true sub ops).started, Active (run true sub ops) g.id) ∧
    (∀ i, Active (run true sub ops) i → ∃ g ∈ (run true sub ops).started, g.id = i) ∧
    ((run true sub ops).started.map (·.id)).Nodup := by
  have h := run_inv true sub ops emptyWorld (emptyWorld_inv true sub) (fun op _ => opGood_of_cont sub op)
  exact ⟨h.inv.tables, h.active, h.inv.live, h.inv.nodup⟩

/-- **Refinement for the code as it is – partial.**  The same, provided every defined function names each entity
once per queue (`OpGood false`). -/
theorem C09_refinement_partial (sub : Sub) (ops : List Op) (hgood : ∀ op ∈ ops, OpGood false sub op) :
    (∀ e q, q ∈ subsOf (run false sub ops).st e ↔ Tables sub (run false sub ops).started e q) ∧
    (∀ g ∈ (run false sub ops).started, Active (run false sub ops) g.id) ∧
    (∀ i, Active (run false sub ops) i → ∃ g ∈ (run false sub ops).started, g.id = i) := by
  have h := run_inv false sub ops emptyWorld (emptyWorld_inv false sub) hgood
  exact ⟨h.inv.tables, h.active, h.inv.live⟩

/-- **Counterexample at the level of operations (finding C09-F1).**  Define a function watching `a`, `a.old`, `b`
and delete it: no generation is started any more, yet `pyscript.b` still lists its queue – in both subsystems. -/
theorem C09_refinement_cex :
    (run false .legacy [.define "file.t" "f" [[["pyscript", "a"], ["pyscript", "a", "old"], ["pyscript", "b"]]] [] [] false false,
        .del "file.t" "f"]).started = [] ∧
    subsOf (run false .legacy [.define "file.t" "f" [[["pyscript", "a"], ["pyscript", "a", "old"], ["pyscript", "b"]]] [] [] false false,
        .del "file.t" "f"]).st ["pyscript", "b"] = [(0, 0)] ∧
    subsOf (run false .new [.define "file.t" "f" [[["pyscript", "a"], ["pyscript", "a", "old"], ["pyscript", "b"]]] [] [] false false,
        .del "file.t" "f"]).st ["pyscript", "b"] = [(0, 0)] := by
  decide

/-- **Unload returns to the baseline.**  Whatever happened before, after `unloadAll` nothing is started and no
entity has a subscriber left (repaired loop: always; code as it is: on the fragment). -/
theorem C09_unload_baseline (cont : Bool) (sub : Sub) (ops : List Op) (hgood : ∀ op ∈ ops, OpGood cont sub op) :
    (run cont sub (ops ++ [.unloadAll])).started = [] ∧ ∀ e, subsOf (run cont sub (ops ++ [.unloadAll])).st e = [] := by
  have h : StepInv cont sub (run cont sub (ops ++ [Op.unloadAll])) :=
    run_inv cont sub (ops ++ [Op.unloadAll]) emptyWorld (emptyWorld_inv cont sub)
    (by
      intro op hop
      rcases List.mem_append.mp hop with hop | hop
      · exact hgood op hop
      · simp only [List.mem_singleton] at hop; subst hop; trivial)
  have hstarted : (run cont sub (ops ++ [.unloadAll])).started = [] := by
    apply List.eq_nil_iff_forall_not_mem.mpr
    intro g hg
    have hact := h.active g hg
    -- after `unloadAll` there are no references at all
    have hpre : StepInv cont sub (run cont sub ops) := run_inv cont sub ops emptyWorld (emptyWorld_inv cont sub) hgood
    have hrun : run cont sub (ops ++ [.unloadAll]) = step cont sub (run cont sub ops) .unloadAll := by
      simp [run, List.foldl_append]
    rw [hrun] at hact
    obtain ⟨h1, g1⟩ := applyOp_inv hpre.inv hpre.good .unloadAll trivial
    unfold step at hact
    rw [refs_sweep h1 g1] at hact
    simp [applyOp, refs] at hact
  refine ⟨hstarted, ?_⟩
  intro e
  apply List.eq_nil_iff_forall_not_mem.mpr
  intro q hq
  obtain ⟨g, hg, _⟩ := (h.inv.tables e q).mp hq
  rw [hstarted] at hg
  simp at hg

/-- non-vacuity: two functions, one redefined, one kept in a container after `del`; tables follow the survivors -/
example : ((run false .legacy [.define "c" "f" [[["pyscript", "a"]]] ["ev"] [] false false,
      .define "c" "g" [[["pyscript", "b"]]] [] [] false false, .put 0 "c" "g", .del "c" "g",
      .define "c" "f" [[["pyscript", "c"]]] [] [] false false]).started.map (·.id)) = [1, 2] := by decide

end PsModel.C09
