import PsModel.Lemmas.C09Chan
/-!
# C09 – property theorems (triggers live exactly as long as their function and leave nothing behind)

`State.notify_del` is modelled with a deviation flag: `delContinuesNow = true` is TODAY's code (since the `fix:` commit
a7dbc5e of /repo the loop `continue`s), `delContinuesPreFix = false` is the loop before that commit (`return` at the
first name whose entity no longer lists the queue – finding C09-F1 = DESIGN §6 #18, now fixed).  The headline theorems
speak about today's code at full strength; the `C09_regress_…` theorems record what held and what failed for the
pre-fix code, so that a re-introduction of the `return` is recognised for what it is.
-/
namespace PsModel.C09
open PsModel.C09.Spec

/-! ## `start ; stop = id` on the state subscription table -/

/-- **Today's code, all iteration orders.**  Subscribing a fresh queue to any set of names and unsubscribing it again –
the names iterated in *any* order, possibly a different one, any number of names per entity – leaves every entity's
subscriber set as it was. -/
theorem C09_start_stop_id (names names' : List Var) (hp : names'.Perm names) (q : Q) (t : StateTbl)
    (hfresh : ∀ e, q ∉ subsOf t e) (e : Ent) (q' : Q) :
    q' ∈ subsOf (notifyDel delContinuesNow q names' (notifyAdd names q t)) e ↔ q' ∈ subsOf t e := by
  show q' ∈ subsOf (notifyDel true q names' (notifyAdd names q t)) e ↔ _
  rw [mem_notifyDel_cont, mem_notifyAdd]
  have hperm : e ∈ entsOf names' ↔ e ∈ entsOf names := (entsOf_perm hp).mem_iff
  constructor
  · rintro ⟨h | ⟨rfl, he⟩, hn⟩
    · exact h
    · exact absurd ⟨rfl, hperm.mpr he⟩ hn
  · intro h
    refine ⟨.inl h, ?_⟩
    rintro ⟨rfl, _⟩
    exact hfresh e h

/-- **Pre-fix code, the fragment on which it was clean.**  With the old `return` the same held only when no two watched
names belong to the same entity (no `a` together with `a.old` or `a.attr`). -/
theorem C09_regress_start_stop_prefix_fragment (names names' : List Var) (hp : names'.Perm names)
    (hnd : (entsOf names').Nodup) (q : Q) (t : StateTbl) (hfresh : ∀ e, q ∉ subsOf t e) (e : Ent) (q' : Q) :
    q' ∈ subsOf (notifyDel delContinuesPreFix q names' (notifyAdd names q t)) e ↔ q' ∈ subsOf t e := by
  show q' ∈ subsOf (notifyDel false q names' (notifyAdd names q t)) e ↔ _
  have hperm : ∀ x, x ∈ entsOf names' ↔ x ∈ entsOf names := fun x => (entsOf_perm hp).mem_iff
  rw [mem_notifyDel_code _ _ _ hnd, mem_notifyAdd]
  · constructor
    · rintro ⟨h | ⟨rfl, he⟩, hn⟩
      · exact h
      · exact absurd ⟨rfl, (hperm e).mpr he⟩ hn
    · intro h
      refine ⟨.inl h, ?_⟩
      rintro ⟨rfl, _⟩
      exact hfresh e h
  · intro x hx
    rw [mem_notifyAdd]
    exact .inr ⟨rfl, (hperm x).mp hx⟩

/-- **Regression witness (C09-F1, fixed by a7dbc5e).**  Watching `pyscript.a`, `pyscript.a.old` and `pyscript.b`:
the PRE-FIX loop, iterating in this order, left the queue subscribed to `pyscript.b` (and nothing in the order
`b, a, a.old` – the defect depended on the iteration order of a Python set); TODAY's loop leaves nothing in either order. -/
theorem C09_regress_two_names_one_entity :
    subsOf (notifyDel delContinuesPreFix (7, 0) [["pyscript", "a"], ["pyscript", "a", "old"], ["pyscript", "b"]]
      (notifyAdd [["pyscript", "a"], ["pyscript", "a", "old"], ["pyscript", "b"]] (7, 0) [])) ["pyscript", "b"] = [(7, 0)] ∧
    subsOf (notifyDel delContinuesPreFix (7, 0) [["pyscript", "b"], ["pyscript", "a"], ["pyscript", "a", "old"]]
      (notifyAdd [["pyscript", "a"], ["pyscript", "a", "old"], ["pyscript", "b"]] (7, 0) [])) ["pyscript", "b"] = [] ∧
    subsOf (notifyDel delContinuesNow (7, 0) [["pyscript", "a"], ["pyscript", "a", "old"], ["pyscript", "b"]]
      (notifyAdd [["pyscript", "a"], ["pyscript", "a", "old"], ["pyscript", "b"]] (7, 0) [])) ["pyscript", "b"] = [] := by
  decide

/-! ## the event table and the bus listener -/

/-- **Listener count (legacy subsystem).**  After any sequence of `Event.notify_add` / `Event.notify_del` calls,
pyscript holds exactly one bus listener for an event type that has a subscriber and none otherwise, and the table
has an entry for a type exactly when it has a subscriber. -/
theorem C09_listener_count (ops : List EvOp) (ty : String) :
    busCount (evRun ops).bus ty = (if (evSubs (evRun ops) ty).isEmpty then 0 else 1) ∧
      (evHas (evRun ops) ty = true ↔ evSubs (evRun ops) ty ≠ []) := by
  have h := evRun_ok ops
  have hiff : evHas (evRun ops) ty = true ↔ evSubs (evRun ops) ty ≠ [] := by
    constructor
    · exact h.nonempty ty
    · intro hne
      cases hh : evHas (evRun ops) ty with
      | true => rfl
      | false => exact absurd (subsOf_of_not_has _ _ hh) hne
  refine ⟨?_, hiff⟩
  rw [h.count ty]
  by_cases hh : evHas (evRun ops) ty = true
  · have := hiff.mp hh
    simp [hh, this]
  · have hh' : evHas (evRun ops) ty = false := by simpa using hh
    have : evSubs (evRun ops) ty = [] := subsOf_of_not_has _ _ hh'
    simp [hh', this]

/-- in the new subsystem every started `@event_trigger` holds its own bus listener: the count is the number of
increments minus decrements (stated on the counter itself) -/
theorem C09_listener_count_new (b : List (String × Nat)) (ty ty' : String) :
    busCount (busInc b ty) ty' = (if ty' = ty then busCount b ty + 1 else busCount b ty') ∧
      busCount (busDec b ty) ty' = (if ty' = ty then busCount b ty - 1 else busCount b ty') :=
  ⟨busCount_inc b ty ty', busCount_dec b ty ty'⟩

/-! ## refinement over all operation sequences -/

/-- **Refinement, today's code, no side condition.**  After *any* sequence of define / redefine / `del` / rebind /
container put / drop / context unload / unload-all operations, in either subsystem, under the ASSUMPTION that an
unreferenced function object is finalised right after the operation (`sweep`):
the state subscription table is exactly the union of the subscriptions of the started generations (`Spec.Tables`),
the started generations are exactly the referenced ones (`Spec.Active`) – so no occurrence can reach a function
that is no longer referenced – and their identifiers are pairwise distinct. -/
theorem C09_refinement (sub : Sub) (ops : List Op) :
    (∀ e q, q ∈ subsOf (run delContinuesNow sub ops).st e ↔ Tables sub (run delContinuesNow sub ops).started e q) ∧
    (∀ g ∈ (run delContinuesNow sub ops).started, Active (run delContinuesNow sub ops) g.id) ∧
    (∀ i, Active (run delContinuesNow sub ops) i → ∃ g ∈ (run delContinuesNow sub ops).started, g.id = i) ∧
    ((run delContinuesNow sub ops).started.map (·.id)).Nodup := by
  have h := run_inv true sub ops emptyWorld (emptyWorld_inv true sub) (fun op _ => opGood_of_cont sub op)
  exact ⟨h.inv.tables, h.active, h.inv.live, h.inv.nodup⟩

/-- **Unload returns to the baseline (today's code, no side condition).**  Whatever happened before, after `unloadAll`
nothing is started and no entity has a subscriber left. -/
theorem C09_unload_baseline (sub : Sub) (ops : List Op) :
    (run delContinuesNow sub (ops ++ [.unloadAll])).started = [] ∧
      ∀ e, subsOf (run delContinuesNow sub (ops ++ [.unloadAll])).st e = [] :=
  unload_baseline_aux true sub ops (fun op _ => opGood_of_cont sub op)

/-- **Pre-fix code, the fragment on which refinement and unload-to-baseline held**: every defined function names each
entity once per queue (`OpGood false`). -/
theorem C09_regress_refinement_prefix_fragment (sub : Sub) (ops : List Op)
    (hgood : ∀ op ∈ ops, OpGood delContinuesPreFix sub op) :
    (∀ e q, q ∈ subsOf (run delContinuesPreFix sub ops).st e ↔ Tables sub (run delContinuesPreFix sub ops).started e q) ∧
    (∀ g ∈ (run delContinuesPreFix sub ops).started, Active (run delContinuesPreFix sub ops) g.id) ∧
    (∀ i, Active (run delContinuesPreFix sub ops) i → ∃ g ∈ (run delContinuesPreFix sub ops).started, g.id = i) ∧
    ((run delContinuesPreFix sub (ops ++ [.unloadAll])).started = [] ∧
      ∀ e, subsOf (run delContinuesPreFix sub (ops ++ [.unloadAll])).st e = []) := by
  have h := run_inv false sub ops emptyWorld (emptyWorld_inv false sub) hgood
  exact ⟨h.inv.tables, h.active, h.inv.live, unload_baseline_aux false sub ops hgood⟩

/-- **Regression witness at the level of operations (C09-F1, fixed).**  Define a function watching `a`, `a.old`, `b`
and delete it.  PRE-FIX: no generation is started any more, yet `pyscript.b` still lists its queue – in both
subsystems.  TODAY: `pyscript.b` has no subscriber left. -/
theorem C09_regress_refinement_prefix_leak :
    (run delContinuesPreFix .legacy [.define "file.t" "f" [[["pyscript", "a"], ["pyscript", "a", "old"], ["pyscript", "b"]]] [] [] [] [] false false,
        .del "file.t" "f"]).started = [] ∧
    subsOf (run delContinuesPreFix .legacy [.define "file.t" "f" [[["pyscript", "a"], ["pyscript", "a", "old"], ["pyscript", "b"]]] [] [] [] [] false false,
        .del "file.t" "f"]).st ["pyscript", "b"] = [(0, 0)] ∧
    subsOf (run delContinuesPreFix .new [.define "file.t" "f" [[["pyscript", "a"], ["pyscript", "a", "old"], ["pyscript", "b"]]] [] [] [] [] false false,
        .del "file.t" "f"]).st ["pyscript", "b"] = [(0, 0)] ∧
    subsOf (run delContinuesNow .legacy [.define "file.t" "f" [[["pyscript", "a"], ["pyscript", "a", "old"], ["pyscript", "b"]]] [] [] [] [] false false,
        .del "file.t" "f"]).st ["pyscript", "b"] = [] ∧
    subsOf (run delContinuesNow .new [.define "file.t" "f" [[["pyscript", "a"], ["pyscript", "a", "old"], ["pyscript", "b"]]] [] [] [] [] false false,
        .del "file.t" "f"]).st ["pyscript", "b"] = [] := by
  decide

/-- **Two contexts competing for one service name (witness, both subsystems).**  `file.t` claims `pyscript.shared`;
the claim of `file.u` is refused *without being counted* (`Function.service_register` checks the owner before it
increments `service_cnt`) and leaves an inert function; when the owner's function is deleted the count is 0 and the
name has no owner, so a new claim of `file.u` succeeds.  (A concrete run of the model, not a universal statement: the
service bookkeeping is otherwise tied by correspondence – seeded change C09_2, which counts the refused claim, is
reported by the check as `ran-inactive` / `leak:service`.) -/
theorem C09_service_competition_witness (sub : Sub) :
    let w1 := run delContinuesNow sub [.define "file.t" "f0" [] [] [] [] ["pyscript.shared"] false false,
                                       .define "file.u" "f0" [] [] [] [] ["pyscript.shared"] false false]
    let w2 := step delContinuesNow sub w1 (.del "file.t" "f0")
    let w3 := step delContinuesNow sub w2 (.define "file.u" "f0" [] [] [] [] ["pyscript.shared"] false false)
    (svcCount w1.svc "pyscript.shared" = 1 ∧ ownerOf w1.owner "pyscript.shared" = some "file.t" ∧
      (w1.started.map (·.services)) = [["pyscript.shared"], []]) ∧
    (svcCount w2.svc "pyscript.shared" = 0 ∧ ownerOf w2.owner "pyscript.shared" = none) ∧
    (svcCount w3.svc "pyscript.shared" = 1 ∧ ownerOf w3.owner "pyscript.shared" = some "file.u") := by
  cases sub <;> decide

/-! ## the notify channels (`Event`, `Mqtt`, `Webhook`) over all operation sequences -/

/-- **Legacy subsystem: the three notify tables and their Home Assistant side, after ANY operation sequence.**
`Event.notify`, `Mqtt.notify` and `Webhook.notify` hold, for every key (event type / topic / webhook id), exactly the
queues of the started generations whose decorators name the key (`Spec.ChanTables`; started = referenced by
`C09_refinement`), and pyscript holds exactly one bus listener / `mqtt.async_subscribe` subscription / webhook
registration for a key that has a queue and none otherwise – subscribe on the first listener, unsubscribe on the last. -/
theorem C09_channels_legacy (ops : List Op) (key : String) :
    (∀ q, q ∈ evSubs (run delContinuesNow .legacy ops).ev key ↔
        ChanTables (·.events) (run delContinuesNow .legacy ops).started key q) ∧
    (∀ q, q ∈ evSubs (run delContinuesNow .legacy ops).mq key ↔
        ChanTables (·.mqtts) (run delContinuesNow .legacy ops).started key q) ∧
    (∀ q, q ∈ evSubs (run delContinuesNow .legacy ops).wh key ↔
        ChanTables (·.hooks) (run delContinuesNow .legacy ops).started key q) ∧
    busCount (run delContinuesNow .legacy ops).ev.bus key =
        (if (evSubs (run delContinuesNow .legacy ops).ev key).isEmpty then 0 else 1) ∧
    busCount (run delContinuesNow .legacy ops).mq.bus key =
        (if (evSubs (run delContinuesNow .legacy ops).mq key).isEmpty then 0 else 1) ∧
    busCount (run delContinuesNow .legacy ops).wh.bus key =
        (if (evSubs (run delContinuesNow .legacy ops).wh key).isEmpty then 0 else 1) := by
  have hx : XInv .legacy (run delContinuesNow .legacy ops) := run_xinv true .legacy ops emptyWorld (emptyWorld_inv true .legacy) (emptyWorld_xinv .legacy)
    (fun op _ => opGood_of_cont .legacy op)
  obtain ⟨he, heo⟩ := hx.evc.legacy rfl
  obtain ⟨hm, hmo⟩ := hx.mqc.legacy rfl
  obtain ⟨hw, hwo⟩ := hx.whc.legacy rfl
  exact ⟨he key, hm key, hw key, evOK_count heo key, evOK_count hmo key, evOK_count hwo key⟩

/-- **New subsystem: Home Assistant registrations after ANY operation sequence.**  Every started `@event_trigger` /
`@mqtt_trigger` / `@webhook_trigger` holds its own registration and nothing else does: the number of bus listeners,
MQTT subscriptions and webhook registrations per key equals the number of decorators of the started generations naming
it (`Spec.demand`); the notify tables are not used; and a webhook id never has more than one registration (Home
Assistant's registry is a dictionary – a function naming a registered id is refused as a whole, `hookClash`). -/
theorem C09_channels_new (ops : List Op) (key : String) :
    busCount (run delContinuesNow .new ops).ev.bus key = demand (·.events) (run delContinuesNow .new ops).started key ∧
    busCount (run delContinuesNow .new ops).mq.bus key = demand (·.mqtts) (run delContinuesNow .new ops).started key ∧
    busCount (run delContinuesNow .new ops).wh.bus key = demand (·.hooks) (run delContinuesNow .new ops).started key ∧
    busCount (run delContinuesNow .new ops).wh.bus key ≤ 1 ∧
    (run delContinuesNow .new ops).ev.tbl = [] ∧ (run delContinuesNow .new ops).mq.tbl = [] ∧
    (run delContinuesNow .new ops).wh.tbl = [] := by
  have hx : XInv .new (run delContinuesNow .new ops) := run_xinv true .new ops emptyWorld (emptyWorld_inv true .new) (emptyWorld_xinv .new)
    (fun op _ => opGood_of_cont .new op)
  obtain ⟨het, he⟩ := hx.evc.new rfl
  obtain ⟨hmt, hm⟩ := hx.mqc.new rfl
  obtain ⟨hwt, hw⟩ := hx.whc.new rfl
  exact ⟨he key, hm key, hw key, by rw [hw key]; exact hx.hookx rfl key, het, hmt, hwt⟩

/-- **Unload returns every channel and the service bookkeeping to the baseline.**  Whatever happened before, after
`unloadAll` no event type / topic / webhook id has a queue or a Home Assistant registration left, every service count
is zero and no service name has an owner – in both subsystems. -/
theorem C09_unload_baseline_channels (sub : Sub) (ops : List Op) (key : String) :
    (evSubs (run delContinuesNow sub (ops ++ [.unloadAll])).ev key = [] ∧
      busCount (run delContinuesNow sub (ops ++ [.unloadAll])).ev.bus key = 0) ∧
    (evSubs (run delContinuesNow sub (ops ++ [.unloadAll])).mq key = [] ∧
      busCount (run delContinuesNow sub (ops ++ [.unloadAll])).mq.bus key = 0) ∧
    (evSubs (run delContinuesNow sub (ops ++ [.unloadAll])).wh key = [] ∧
      busCount (run delContinuesNow sub (ops ++ [.unloadAll])).wh.bus key = 0) ∧
    svcCount (run delContinuesNow sub (ops ++ [.unloadAll])).svc key = 0 ∧
    ownerOf (run delContinuesNow sub (ops ++ [.unloadAll])).owner key = none := by
  have hx : XInv sub (run delContinuesNow sub (ops ++ [.unloadAll])) := run_xinv true sub (ops ++ [Op.unloadAll]) emptyWorld (emptyWorld_inv true sub) (emptyWorld_xinv sub)
    (fun op _ => opGood_of_cont sub op)
  have hst : (run delContinuesNow sub (ops ++ [.unloadAll])).started = [] := (C09_unload_baseline sub ops).1
  have hev := hx.evc; have hmq := hx.mqc; have hwh := hx.whc
  have hc := hx.cnt key; have hf := hx.free key
  rw [hst] at hev hmq hwh hc hf
  exact ⟨chanInv_baseline hev key, chanInv_baseline hmq key, chanInv_baseline hwh key, hc, hf.mpr rfl⟩

/-! ## services: competition for a name, over all operation sequences and any number of contexts -/

/-- **Service bookkeeping after ANY operation sequence (any number of global contexts).**
`Function.service_cnt[n]` is exactly the number of `@service(n)` declarations of the started (= referenced, not
refused) generations; the name has an owner in `Function.service2global_ctx` exactly while some started generation
declares it – so when the owner's last declarer goes the name is free again –; and every started declarer lives in the
owning context. -/
theorem C09_service_bookkeeping (sub : Sub) (ops : List Op) (n : String) :
    svcCount (run delContinuesNow sub ops).svc n = demand (·.services) (run delContinuesNow sub ops).started n ∧
    (ownerOf (run delContinuesNow sub ops).owner n = none ↔ ∀ g ∈ (run delContinuesNow sub ops).started, n ∉ g.services) ∧
    (∀ g ∈ (run delContinuesNow sub ops).started, n ∈ g.services →
      ownerOf (run delContinuesNow sub ops).owner n = some g.ctx) := by
  have hx : XInv sub (run delContinuesNow sub ops) := run_xinv true sub ops emptyWorld (emptyWorld_inv true sub) (emptyWorld_xinv sub)
    (fun op _ => opGood_of_cont sub op)
  refine ⟨hx.cnt n, ?_, fun g hg hn => hx.own g hg n hn⟩
  rw [hx.free n]
  constructor
  · intro h0 g hg hn
    have := (demand_pos_iff (·.services) n _).mpr ⟨g, hg, hn⟩
    omega
  · intro hno
    cases hd : demand (·.services) (run delContinuesNow sub ops).started n with
    | zero => rfl
    | succ k =>
      obtain ⟨g, hg, hn⟩ := (demand_pos_iff (·.services) n _).mp (by rw [hd]; exact Nat.succ_pos k)
      exact absurd hn (hno g hg)

/-- **A service name is owned by at most one global context**: after any operation sequence two started generations
declaring the same name live in the same context. -/
theorem C09_service_one_owner (sub : Sub) (ops : List Op) (n : String) (g1 g2 : Gen)
    (h1 : g1 ∈ (run delContinuesNow sub ops).started) (h2 : g2 ∈ (run delContinuesNow sub ops).started)
    (hn1 : n ∈ g1.services) (hn2 : n ∈ g2.services) : g1.ctx = g2.ctx := by
  have hb := (C09_service_bookkeeping sub ops n).2.2
  have e1 := hb g1 h1 hn1
  have e2 := hb g2 h2 hn2
  rw [e1] at e2
  exact Option.some.inj e2

/-- **A refused claimant changes nothing** – in ANY world (not only a reachable one): defining a function whose start
is refused (its service name belongs to another context; new subsystem: its webhook id is registered already) leaves
`service_cnt`, `service2global_ctx`, every subscription table, every Home Assistant registration and the
startup/shutdown log exactly as they were. -/
theorem C09_refused_changes_nothing (sub : Sub) (w : World) (ctx name : String) (states : List (List Var))
    (events mqtts hooks services : List String) (su sd : Bool)
    (h : refused sub w (mkGen w.next ctx states events mqtts hooks services su sd) = true) :
    (applyOp sub w (.define ctx name states events mqtts hooks services su sd)).svc = w.svc ∧
    (applyOp sub w (.define ctx name states events mqtts hooks services su sd)).owner = w.owner ∧
    (applyOp sub w (.define ctx name states events mqtts hooks services su sd)).st = w.st ∧
    (applyOp sub w (.define ctx name states events mqtts hooks services su sd)).ev = w.ev ∧
    (applyOp sub w (.define ctx name states events mqtts hooks services su sd)).mq = w.mq ∧
    (applyOp sub w (.define ctx name states events mqtts hooks services su sd)).wh = w.wh ∧
    (applyOp sub w (.define ctx name states events mqtts hooks services su sd)).log = w.log := by
  simp only [applyOp, effective, h, if_true, setBind, startGen, subscribe, inert, chanSub_nil, idxList]
  simp

/-- **When the last declarer is gone the name can be claimed by anybody.**  After any operation sequence, if no started
generation declares `n` any more, the count is zero, the name has no owner, and a claim from ANY context is not
refused on account of `n`. -/
theorem C09_service_free_again (sub : Sub) (ops : List Op) (n : String)
    (hgone : ∀ g ∈ (run delContinuesNow sub ops).started, n ∉ g.services) :
    svcCount (run delContinuesNow sub ops).svc n = 0 ∧ ownerOf (run delContinuesNow sub ops).owner n = none ∧
    ∀ (i : Nat) (ctx : String) (su sd : Bool),
      svcRefused (run delContinuesNow sub ops) (mkGen i ctx [] [] [] [] [n] su sd) = false := by
  obtain ⟨hc, hf, _⟩ := C09_service_bookkeeping sub ops n
  have hnone := hf.mpr hgone
  refine ⟨?_, hnone, ?_⟩
  · rw [hc]
    cases hd : demand (·.services) (run delContinuesNow sub ops).started n with
    | zero => rfl
    | succ k =>
      obtain ⟨g, hg, hn⟩ := (demand_pos_iff (·.services) n _).mp (by rw [hd]; exact Nat.succ_pos k)
      exact absurd hn (hgone g hg)
  · intro i ctx su sd
    simp [svcRefused, mkGen, hnone]

/-- non-vacuity of `C09_service_free_again` and of the channel theorems: MQTT topics and webhook ids shared by two
functions (legacy multiplexes: one registration, two queues; the new subsystem refuses the second function for the
webhook id and gives every `@mqtt_trigger` its own subscription), then both deleted -/
example :
    let ops := [Op.define "file.t" "f0" [] [] ["t/1"] ["h1"] ["pyscript.s"] false false,
                Op.define "file.u" "f0" [] [] ["t/1"] ["h1"] [] false false]
    (busCount (run delContinuesNow .legacy ops).mq.bus "t/1", (evSubs (run delContinuesNow .legacy ops).mq "t/1").length,
     busCount (run delContinuesNow .legacy ops).wh.bus "h1", (evSubs (run delContinuesNow .legacy ops).wh "h1").length) = (1, 2, 1, 2) ∧
    (busCount (run delContinuesNow .new ops).mq.bus "t/1", busCount (run delContinuesNow .new ops).wh.bus "h1",
     (run delContinuesNow .new ops).started.map (·.mqtts)) = (1, 1, [["t/1"], []]) ∧
    (∀ g ∈ (run delContinuesNow .legacy (ops ++ [.del "file.t" "f0"])).started, "pyscript.s" ∉ g.services) := by
  decide

/-- non-vacuity: two functions, one redefined, one kept in a container after `del`; tables follow the survivors -/
example : ((run delContinuesNow .legacy [.define "c" "f" [[["pyscript", "a"], ["pyscript", "a", "old"]]] ["ev"] [] [] [] false false,
      .define "c" "g" [[["pyscript", "b"]]] [] [] [] [] false false, .put 0 "c" "g", .del "c" "g",
      .define "c" "f" [[["pyscript", "c"]]] [] [] [] [] false false]).started.map (·.id)) = [1, 2] := by decide

end PsModel.C09
