import PsModel.Lemmas.C09World
/-!
# C09 – property theorems (triggers live exactly as long as their function and leave nothing behind)

`State.notify_del` is modelled with a deviation flag: `delContinuesNow = true` is TODAY's code (since the `fix:` commit
a7dbc5e of /repo the loop `continue`s), `delContinuesPreFix = false` is the loop before that commit (`return` at the
first name whose entity no longer lists the queue – finding C09-F1 = DESIGN §6 #18, now fixed).  The headline theorems
speak about today's code at full strength; the `C09_regress_…` theorems record what held and what failed for the
pre-fix code, so that a re-introduction of the `return` is recognised for what it is.
-/
namespace PsModel.C09
open PsModel.C09.Spec

/-! ## `start ; stop = id` on the state subscription table -/

/-- **Today's code, all iteration orders.**  Subscribing a fresh queue to any set of names and unsubscribing it again –
the names iterated in *any* order, possibly a different one, any number of names per entity – leaves every entity's
subscriber set as it was. -/
theorem C09_start_stop_id (names names' : List Var) (hp : names'.Perm names) (q : Q) (t : StateTbl)
    (hfresh : ∀ e, q ∉ subsOf t e) (e : Ent) (q' : Q) :
    q' ∈ subsOf (notifyDel delContinuesNow q names' (notifyAdd names q t)) e ↔ q' ∈ subsOf t e := by
  show q' ∈ subsOf (notifyDel true q names' (notifyAdd names q t)) e ↔ _
  rw [mem_notifyDel_cont, mem_notifyAdd]
  have hperm : e ∈ entsOf names' ↔ e ∈ entsOf names := (entsOf_perm hp).mem_iff
  constructor
  · rintro ⟨h | ⟨rfl, he⟩, hn⟩
    · exact h
    · exact absurd ⟨rfl, hperm.mpr he⟩ hn
  · intro h
    refine ⟨.inl h, ?_⟩
    rintro ⟨rfl, _⟩
    exact hfresh e h

/-- **Pre-fix code, the fragment on which it was clean.**  With the old `return` the same held only when no two watched
names belong to the same entity (no `a` together with `a.old` or `a.attr`). -/
theorem C09_regress_start_stop_prefix_fragment (names names' : List Var) (hp : names'.Perm names)
    (hnd : (entsOf names').Nodup) (q : Q) (t : StateTbl) (hfresh : ∀ e, q ∉ subsOf t e) (e : Ent) (q' : Q) :
    q' ∈ subsOf (notifyDel delContinuesPreFix q names' (notifyAdd names q t)) e ↔ q' ∈ subsOf t e := by
  show q' ∈ subsOf (notifyDel false q names' (notifyAdd names q t)) e ↔ _
  have hperm : ∀ x, x ∈ entsOf names' ↔ x ∈ entsOf names := fun x => (entsOf_perm hp).mem_iff
  rw [mem_notifyDel_code _ _ _ hnd, mem_notifyAdd]
  · constructor
    · rintro ⟨h | ⟨rfl, he⟩, hn⟩
      · exact h
      · exact absurd ⟨rfl, (hperm e).mpr he⟩ hn
    · intro h
      refine ⟨.inl h, ?_⟩
      rintro ⟨rfl, _⟩
      exact hfresh e h
  · intro x hx
    rw [mem_notifyAdd]
    exact .inr ⟨rfl, (hperm x).mp hx⟩

/-- **Regression witness (C09-F1, fixed by a7dbc5e).**  Watching `pyscript.a`, `pyscript.a.old` and `pyscript.b`:
the PRE-FIX loop, iterating in this order, left the queue subscribed to `pyscript.b` (and nothing in the order
`b, a, a.old` – the defect depended on the iteration order of a Python set); TODAY's loop leaves nothing in either order. -/
theorem C09_regress_two_names_one_entity :
    subsOf (notifyDel delContinuesPreFix (7, 0) [["pyscript", "a"], ["pyscript", "a", "old"], ["pyscript", "b"]]
      (notifyAdd [["pyscript", "a"], ["pyscript", "a", "old"], ["pyscript", "b"]] (7, 0) [])) ["pyscript", "b"] = [(7, 0)] ∧
    subsOf (notifyDel delContinuesPreFix (7, 0) [["pyscript", "b"], ["pyscript", "a"], ["pyscript", "a", "old"]]
      (notifyAdd [["pyscript", "a"], ["pyscript", "a", "old"], ["pyscript", "b"]] (7, 0) [])) ["pyscript", "b"] = [] ∧
    subsOf (notifyDel delContinuesNow (7, 0) [["pyscript", "a"], ["pyscript", "a", "old"], ["pyscript", "b"]]
      (notifyAdd [["pyscript", "a"], ["pyscript", "a", "old"], ["pyscript", "b"]] (7, 0) [])) ["pyscript", "b"] = [] := by
  decide

/-! ## the event table and the bus listener -/

/-- **Listener count (legacy subsystem).**  After any sequence of `Event.notify_add` / `Event.notify_del` calls,
pyscript holds exactly one bus listener for an event type that has a subscriber and none otherwise, and the table
has an entry for a type exactly when it has a subscriber. -/
theorem C09_listener_count (ops : List EvOp) (ty : String) :
    busCount (evRun ops).bus ty = (if (evSubs (evRun ops) ty).isEmpty then 0 else 1) ∧
      (evHas (evRun ops) ty = true ↔ evSubs (evRun ops) ty ≠ []) := by
  have h := evRun_ok ops
  have hiff : evHas (evRun ops) ty = true ↔ evSubs (evRun ops) ty ≠ [] := by
    constructor
    · exact h.nonempty ty
    · intro hne
      cases hh : evHas (evRun ops) ty with
      | true => rfl
      | false => exact absurd (subsOf_of_not_has _ _ hh) hne
  refine ⟨?_, hiff⟩
  rw [h.count ty]
  by_cases hh : evHas (evRun ops) ty = true
  · have := hiff.mp hh
    simp [hh, this]
  · have hh' : evHas (evRun ops) ty = false := by simpa using hh
    have : evSubs (evRun ops) ty = [] := subsOf_of_not_has _ _ hh'
    simp [hh', this]

/-- in the new subsystem every started `@event_trigger` holds its own bus listener: the count is the number of
increments minus decrements (stated on the counter itself) -/
theorem C09_listener_count_new (b : List (String × Nat)) (ty ty' : String) :
    busCount (busInc b ty) ty' = (if ty' = ty then busCount b ty + 1 else busCount b ty') ∧
      busCount (busDec b ty) ty' = (if ty' = ty then busCount b ty - 1 else busCount b ty') :=
  ⟨busCount_inc b ty ty', busCount_dec b ty ty'⟩

/-! ## refinement over all operation sequences -/

/-- **Refinement, today's code, no side condition.**  After *any* sequence of define / redefine / `del` / rebind /
container put / drop / context unload / unload-all operations, in either subsystem, under the ASSUMPTION that an
unreferenced function object is finalised right after the operation (`sweep`):
the state subscription table is exactly the union of the subscriptions of the started generations (`Spec.Tables`),
the started generations are exactly the referenced ones (`Spec.Active`) – so no occurrence can reach a function
that is no longer referenced – and their identifiers are pairwise distinct. -/
theorem C09_refinement (sub : Sub) (ops : List Op) :
    (∀ e q, q ∈ subsOf (run delContinuesNow sub ops).st e ↔ Tables sub (run delContinuesNow sub ops).started e q) ∧
    (∀ g ∈ (run delContinuesNow sub ops).started, Active (run delContinuesNow sub ops) g.id) ∧
    (∀ i, Active (run delContinuesNow sub ops) i → ∃ g ∈ (run delContinuesNow sub ops).started, g.id = i) ∧
    ((run delContinuesNow sub ops).started.map (·.id)).Nodup := by
  have h := run_inv true sub ops emptyWorld (emptyWorld_inv true sub) (fun op _ => opGood_of_cont sub op)
  exact ⟨h.inv.tables, h.active, h.inv.live, h.inv.nodup⟩

/-- **Unload returns to the baseline (today's code, no side condition).**  Whatever happened before, after `unloadAll`
nothing is started and no entity has a subscriber left. -/
theorem C09_unload_baseline (sub : Sub) (ops : List Op) :
    (run delContinuesNow sub (ops ++ [.unloadAll])).started = [] ∧
      ∀ e, subsOf (run delContinuesNow sub (ops ++ [.unloadAll])).st e = [] :=
  unload_baseline_aux true sub ops (fun op _ => opGood_of_cont sub op)

/-- **Pre-fix code, the fragment on which refinement and unload-to-baseline held**: every defined function names each
entity once per queue (`OpGood false`). -/
theorem C09_regress_refinement_prefix_fragment (sub : Sub) (ops : List Op)
    (hgood : ∀ op ∈ ops, OpGood delContinuesPreFix sub op) :
    (∀ e q, q ∈ subsOf (run delContinuesPreFix sub ops).st e ↔ Tables sub (run delContinuesPreFix sub ops).started e q) ∧
    (∀ g ∈ (run delContinuesPreFix sub ops).started, Active (run delContinuesPreFix sub ops) g.id) ∧
    (∀ i, Active (run delContinuesPreFix sub ops) i → ∃ g ∈ (run delContinuesPreFix sub ops).started, g.id = i) ∧
    ((run delContinuesPreFix sub (ops ++ [.unloadAll])).started = [] ∧
      ∀ e, subsOf (run delContinuesPreFix sub (ops ++ [.unloadAll])).st e = []) := by
  have h := run_inv false sub ops emptyWorld (emptyWorld_inv false sub) hgood
  exact ⟨h.inv.tables, h.active, h.inv.live, unload_baseline_aux false sub ops hgood⟩

/-- **Regression witness at the level of operations (C09-F1, fixed).**  Define a function watching `a`, `a.old`, `b`
and delete it.  PRE-FIX: no generation is started any more, yet `pyscript.b` still lists its queue – in both
subsystems.  TODAY: `pyscript.b` has no subscriber left. -/
theorem C09_regress_refinement_prefix_leak :
    (run delContinuesPreFix .legacy [.define "file.t" "f" [[["pyscript", "a"], ["pyscript", "a", "old"], ["pyscript", "b"]]] [] [] false false,
        .del "file.t" "f"]).started = [] ∧
    subsOf (run delContinuesPreFix .legacy [.define "file.t" "f" [[["pyscript", "a"], ["pyscript", "a", "old"], ["pyscript", "b"]]] [] [] false false,
        .del "file.t" "f"]).st ["pyscript", "b"] = [(0, 0)] ∧
    subsOf (run delContinuesPreFix .new [.define "file.t" "f" [[["pyscript", "a"], ["pyscript", "a", "old"], ["pyscript", "b"]]] [] [] false false,
        .del "file.t" "f"]).st ["pyscript", "b"] = [(0, 0)] ∧
    subsOf (run delContinuesNow .legacy [.define "file.t" "f" [[["pyscript", "a"], ["pyscript", "a", "old"], ["pyscript", "b"]]] [] [] false false,
        .del "file.t" "f"]).st ["pyscript", "b"] = [] ∧
    subsOf (run delContinuesNow .new [.define "file.t" "f" [[["pyscript", "a"], ["pyscript", "a", "old"], ["pyscript", "b"]]] [] [] false false,
        .del "file.t" "f"]).st ["pyscript", "b"] = [] := by
  decide

/-- **Two contexts competing for one service name (witness, both subsystems).**  `file.t` claims `pyscript.shared`;
the claim of `file.u` is refused *without being counted* (`Function.service_register` checks the owner before it
increments `service_cnt`) and leaves an inert function; when the owner's function is deleted the count is 0 and the
name has no owner, so a new claim of `file.u` succeeds.  (A concrete run of the model, not a universal statement: the
service bookkeeping is otherwise tied by correspondence – seeded change C09_2, which counts the refused claim, is
reported by the check as `ran-inactive` / `leak:service`.) -/
theorem C09_service_competition_witness (sub : Sub) :
    let w1 := run delContinuesNow sub [.define "file.t" "f0" [] [] ["pyscript.shared"] false false,
                                       .define "file.u" "f0" [] [] ["pyscript.shared"] false false]
    let w2 := step delContinuesNow sub w1 (.del "file.t" "f0")
    let w3 := step delContinuesNow sub w2 (.define "file.u" "f0" [] [] ["pyscript.shared"] false false)
    (svcCount w1.svc "pyscript.shared" = 1 ∧ ownerOf w1.owner "pyscript.shared" = some "file.t" ∧
      (w1.started.map (·.services)) = [["pyscript.shared"], []]) ∧
    (svcCount w2.svc "pyscript.shared" = 0 ∧ ownerOf w2.owner "pyscript.shared" = none) ∧
    (svcCount w3.svc "pyscript.shared" = 1 ∧ ownerOf w3.owner "pyscript.shared" = some "file.u") := by
  cases sub <;> decide

/-- non-vacuity: two functions, one redefined, one kept in a container after `del`; tables follow the survivors -/
example : ((run delContinuesNow .legacy [.define "c" "f" [[["pyscript", "a"], ["pyscript", "a", "old"]]] ["ev"] [] false false,
      .define "c" "g" [[["pyscript", "b"]]] [] [] false false, .put 0 "c" "g", .del "c" "g",
      .define "c" "f" [[["pyscript", "c"]]] [] [] false false]).started.map (·.id)) = [1, 2] := by decide

end PsModel.C09
