import PsModel.Lemmas.C13
/-!
# C13 – property theorems: `task.unique` guarantees at most one live owner per name

`run ops` is the state of `function.py`'s bookkeeping after the atomic steps `ops` (any number of tasks and names,
any interleaving of claims, reaper deliveries, exits and foreign tasks) – every theorem below that mentions `run ops`
is proved by induction over `ops`, i.e. for all schedules.  Helper lemmas live in `Lemmas/C13.lean`.
-/
namespace PsModel.C13

set_option linter.unusedSectionVars false
variable {κ : Type} [DecidableEq κ]

/-- **The two maps are mutually inverse and every owner is a running pyscript task** (all reachable states). -/
theorem C13_maps_inv (ops : List (Op κ)) (k : κ) (t : Task) :
    ((run ops).owner k = some t ↔ k ∈ (run ops).names t) ∧
    ((run ops).owner k = some t →
      (run ops).live t = true ∧ (run ops).ours t = true ∧ (run ops).foreign t = false) := by
  have h := inv_run ops
  refine ⟨⟨fun e => (h.own_names k t e).1, h.names_own k t⟩, fun e => ?_⟩
  obtain ⟨_, a, b, _⟩ := h.own_names k t e
  exact ⟨a, b, ((h.ours_iff t).1 b).2⟩

/-- **Mutual exclusion.**  In every reachable state, among the running tasks that ever claimed `k`, at most one has
no cancellation pending or delivered – and that one is the owner reported by `unique_name2task`. -/
theorem C13_mutex (ops : List (Op κ)) (k : κ) (t u : Task)
    (ht : (run ops).claimed k t = true) (hlt : (run ops).live t = true) (hpt : ¬ Pending (run ops) t)
    (hu : (run ops).claimed k u = true) (hlu : (run ops).live u = true) (hpu : ¬ Pending (run ops) u) :
    t = u ∧ (run ops).owner k = some t := by
  have h := inv_run ops
  have e1 : (run ops).owner k = some t := Classical.byContradiction fun e => hpt (h.displaced k t ht hlt e)
  have e2 : (run ops).owner k = some u := Classical.byContradiction fun e => hpu (h.displaced k u hu hlu e)
  rw [e1] at e2
  exact ⟨Option.some.inj e2, e1⟩

/-- **Displacement.**  After `task.unique(k)` by a running pyscript task `t`, every *other* running task that ever
claimed `k` has a cancel pending in the reaper queue or already delivered. -/
theorem C13_displaced (ops : List (Op κ)) (t u : Task) (k : κ)
    (hc : canStep (run ops) t = true) (ho : (run ops).ours t = true) (hne : u ≠ t)
    (hcl : (run (ops ++ [.unique t k false])).claimed k u = true)
    (hl : (run (ops ++ [.unique t k false])).live u = true) :
    Pending (run (ops ++ [.unique t k false])) u := by
  have h := inv_run (ops ++ [Op.unique t k false])
  apply h.displaced k u hcl hl
  have hs := sim_run (ops ++ [Op.unique t k false])
  rw [hs.owner]
  have h0 := sim_run ops
  have hcan : ((Sp.run ops).alive t && !(Sp.run ops).halted t) = true := by
    rw [← h0.live, ← h0.parked]; exact hc
  have hp : (Sp.run ops).pys t = true := by
    have := h0.ours t
    rw [ho] at this
    cases hh : (Sp.run ops).pys t with
    | true => rfl
    | false => rw [hh] at this; simp at this
  have : (Sp.run (ops ++ [Op.unique t k false])).owner k = some t := by
    simp only [Sp.run, List.foldl_append, List.foldl_cons, List.foldl_nil, Sp.step]
    change ((Sp.run ops).unique t k false).owner k = some t
    unfold Sp.unique
    simp only [hcan, Bool.not_true, Bool.false_eq_true, if_false, false_and]
    cases (Sp.run ops).owner k <;> simp [Sp.take, hp]
  rw [this]
  intro e
  exact hne (Option.some.inj e).symm

/-- **The model's owner map is the spec's** (single map, no reverse map / reaper / `our_tasks`), for every step
sequence; so are liveness and the halted (kill-me) flag. -/
theorem C13_refines_spec (ops : List (Op κ)) :
    (run ops).owner = (Sp.run ops).owner ∧ (run ops).live = (Sp.run ops).alive ∧
    (run ops).parked = (Sp.run ops).halted := by
  have h := sim_run ops
  exact ⟨h.owner, h.live, h.parked⟩

/-- **Ownership.**  After `task.unique(k)` (no kill_me) by a running pyscript task, `name2id(k)` is the caller, and the
caller keeps every other name it owned (a task may own several names). -/
theorem C13_owner (ops : List (Op κ)) (t : Task) (k : κ)
    (hc : canStep (run ops) t = true) (ho : (run ops).ours t = true) :
    (step (run ops) (.unique t k false)).owner k = some t ∧
    (∀ k', k' ∈ (run ops).names t → k' ∈ (step (run ops) (.unique t k false)).names t) ∧
    (∀ k', k' ≠ k → (step (run ops) (.unique t k false)).owner k' = (run ops).owner k') := by
  have h := inv_run ops
  simp only [step, uniqueStep, hc, Bool.not_true, Bool.false_eq_true, if_false]
  have key : ∀ s : St κ, Inv s → s.ours t = true → s.owner = (run ops).owner → s.names = (run ops).names →
      (claim s t k).owner k = some t ∧ (∀ k', k' ∈ (run ops).names t → k' ∈ (claim s t k).names t) ∧
      (∀ k', k' ≠ k → (claim s t k).owner k' = (run ops).owner k') := by
    intro s hi hso e1 e2
    refine ⟨by rw [claim_eq s t k hso]; simp, ?_, ?_⟩
    · intro k' hk'
      rw [mem_claim_names s t t k k' hi.maps hso]
      by_cases e : k' = k
      · exact Or.inl ⟨e, rfl⟩
      · exact Or.inr ⟨e, by rw [e2]; exact hk'⟩
    · intro k' hk'
      rw [claim_eq s t k hso]; simp only [upd_other _ _ _ _ hk', e1]
  cases hown : (run ops).owner k with
  | none => exact key _ h ho rfl rfl
  | some o =>
    simp only []
    have hk := inv_killPrev (run ops) t o k h hown
    apply key _ hk
    · unfold killPrev; split <;> exact ho
    · unfold killPrev; split <;> rfl
    · unfold killPrev; split <;> rfl

/-- **kill_me.**  `task.unique(k, kill_me=True)` while another task owns `k`: ownership (both maps) is unchanged, the
owner is a running task, and the caller is handed to the reaper and parked for good. -/
theorem C13_killme (ops : List (Op κ)) (t o : Task) (k : κ)
    (hc : canStep (run ops) t = true) (hown : (run ops).owner k = some o) (hne : o ≠ t) :
    let s' := step (run ops) (.unique t k true)
    s'.owner = (run ops).owner ∧ s'.names = (run ops).names ∧ (run ops).live o = true ∧
    t ∈ s'.reaperQ ∧ s'.parked t = true ∧ canStep s' t = false := by
  have h := inv_run ops
  simp only [step, uniqueStep, hc, Bool.not_true, Bool.false_eq_true, if_false, hown, if_true, ne_eq, hne,
    not_false_eq_true]
  refine ⟨rfl, rfl, (h.own_names k o hown).2.1, ?_, ?_, ?_⟩
  · simp [park, enqueue]
  · simp [park]
  · simp [canStep, park]

/-- kill_me with nobody else owning the name is an ordinary claim -/
theorem C13_killme_free (s : St κ) (t : Task) (k : κ) (h : s.owner k = none ∨ s.owner k = some t) :
    uniqueStep s t k true = uniqueStep s t k false := by
  unfold uniqueStep
  rcases h with h | h
  · simp [h]
  · simp [h, killPrev]

/-- **Release.**  After the `finally` of `run_coro` no name maps to the task, its `unique_task2name` entry and its
`our_tasks` membership are gone, and the deletion loop never raised `KeyError`. -/
theorem C13_release (ops : List (Op κ)) (t : Task) :
    let s := run (ops ++ [.exit t])
    (∀ k, s.owner k ≠ some t) ∧ s.names t = [] ∧ s.entry t = false ∧ s.ours t = false ∧ s.keyErr = false := by
  have h := inv_run (ops ++ [Op.exit t])
  have hl : (run (ops ++ [Op.exit t])).live t = false := by
    rw [run_append]; simp only [step]; rw [exit_live]; simp
  have hown : ∀ k, (run (ops ++ [Op.exit t])).owner k ≠ some t := by
    intro k e
    have := (h.own_names k t e).2.1
    rw [hl] at this; cases this
  refine ⟨hown, ?_, ?_, ?_, h.no_keyerr⟩
  · apply List.eq_nil_iff_forall_not_mem.2
    intro k hk
    exact hown k (h.names_own k t hk)
  · cases he : (run (ops ++ [Op.exit t])).entry t with
    | false => rfl
    | true => have := h.entry_live t he; rw [hl] at this; cases this
  · cases ho : (run (ops ++ [Op.exit t])).ours t with
    | false => rfl
    | true => have := ((h.ours_iff t).1 ho).1; rw [hl] at this; cases this

/-- in every reachable state a task that is not running owns nothing and is in no registry -/
theorem C13_dead_clean (ops : List (Op κ)) (t : Task) (hl : (run ops).live t = false) :
    (∀ k, (run ops).owner k ≠ some t) ∧ (run ops).names t = [] ∧ (run ops).entry t = false ∧
    (run ops).ours t = false := by
  have h := inv_run ops
  have hown : ∀ k, (run ops).owner k ≠ some t := by
    intro k e
    have := (h.own_names k t e).2.1
    rw [hl] at this; cases this
  refine ⟨hown, ?_, ?_, ?_⟩
  · apply List.eq_nil_iff_forall_not_mem.2
    intro k hk
    exact hown k (h.names_own k t hk)
  · cases he : (run ops).entry t with
    | false => rfl
    | true => have := h.entry_live t he; rw [hl] at this; cases this
  · cases ho : (run ops).ours t with
    | false => rfl
    | true => have := ((h.ours_iff t).1 ho).1; rw [hl] at this; cases this

/-- **Context separation, part 1: a call touches one key.**  `task.unique` / `@task_unique` on key `k` changes no
other entry of `unique_name2task` and no other member of any `unique_task2name` set. -/
theorem C13_other_keys (ops : List (Op κ)) (t : Task) (k k' : κ) (km : Bool) (hk : k' ≠ k) :
    (step (run ops) (.unique t k km)).owner k' = (run ops).owner k' ∧
    (∀ u, k' ∈ (step (run ops) (.unique t k km)).names u ↔ k' ∈ (run ops).names u) ∧
    (step (run ops) (.decoNew t k km)).owner k' = (run ops).owner k' := by
  have h := inv_run ops
  have key : ∀ s : St κ, Inv s → s.owner = (run ops).owner → s.names = (run ops).names →
      (claim s t k).owner k' = (run ops).owner k' ∧
      (∀ u, k' ∈ (claim s t k).names u ↔ k' ∈ (run ops).names u) := by
    intro s hi e1 e2
    by_cases hso : s.ours t = true
    · refine ⟨by rw [claim_eq s t k hso]; simp only [upd_other _ _ _ _ hk, e1], ?_⟩
      intro u
      rw [mem_claim_names s t u k k' hi.maps hso, e2]
      constructor
      · rintro (⟨e, _⟩ | ⟨_, hm⟩)
        · exact absurd e hk
        · exact hm
      · exact fun hm => Or.inr ⟨hk, hm⟩
    · rw [claim_not_ours s t k hso, e1, e2]; exact ⟨rfl, fun _ => Iff.rfl⟩
  have huniq : ∀ km, (uniqueStep (run ops) t k km).owner k' = (run ops).owner k' ∧
      (∀ u, k' ∈ (uniqueStep (run ops) t k km).names u ↔ k' ∈ (run ops).names u) := by
    intro km
    unfold uniqueStep
    split
    · exact ⟨rfl, fun _ => Iff.rfl⟩
    · split
      · rename_i o hown
        cases km
        · simp only [Bool.false_eq_true, if_false]
          apply key _ (inv_killPrev (run ops) t o k h hown)
          · unfold killPrev; split <;> rfl
          · unfold killPrev; split <;> rfl
        · simp only [if_true]
          split
          · exact ⟨rfl, fun _ => Iff.rfl⟩
          · exact key _ h rfl rfl
      · exact key _ h rfl rfl
  refine ⟨(huniq km).1, (huniq km).2, ?_⟩
  simp only [step, decoNewStep]
  split
  · exact (huniq false).1
  · rfl

/-- **Context separation, part 2 – the code as it is now** (keys are the tuples `(ctx_name, name)`, /repo ef1f444):
keys of two *different* contexts never coincide, whatever dots the context names or the task names contain;
`task.name2id()` of one context shows none of the other's names and all of its own; within a context different names
are different keys. -/
theorem C13_ctx_sep (c c' n n' : Str) (h : c ≠ c') :
    keyOf current.tupleKeys c n ≠ keyOf current.tupleKeys c' n' ∧
    viewOf current.tupleKeys c (keyOf current.tupleKeys c' n') = none ∧
    viewOf current.tupleKeys c (keyOf current.tupleKeys c n) = some n ∧
    (keyOf current.tupleKeys c n = keyOf current.tupleKeys c n' → n = n') := by
  refine ⟨keyOf_tuple_ne c c' n n' h, ?_, ?_, ?_⟩
  · show viewOf true c (keyOf true c' n') = none
    rw [viewOf_tuple]
    have : ¬ c' = c := fun e => h e.symm
    simp [this]
  · show viewOf true c (keyOf true c n) = some n
    rw [viewOf_tuple]; simp
  · intro e
    simp only [current_eq, keyOf, if_true, Prod.mk.injEq, true_and] at e
    exact e

/-- **Regression statement about the pre-fix key scheme** (`f"{ctx}.{name}"` + `startswith`): it separated contexts
only when neither dotted context name is a prefix of the other. -/
theorem C13_regress_ctx_sep_partial (c c' n n' : Str) (h : Sep c c') :
    keyOf preFix.tupleKeys c n ≠ keyOf preFix.tupleKeys c' n' ∧
    viewOf preFix.tupleKeys c (keyOf preFix.tupleKeys c' n') = none ∧
    viewOf preFix.tupleKeys c (keyOf preFix.tupleKeys c n) = some n ∧
    (keyOf preFix.tupleKeys c n = keyOf preFix.tupleKeys c n' → n = n') := by
  refine ⟨?_, ?_, ?_, ?_⟩
  · intro e
    simp only [preFix, keyOf, Bool.false_eq_true, if_false, Prod.mk.injEq, and_true] at e
    exact mkKey_ne_of_sep c c' n n' h e
  · simp only [preFix, viewOf, keyOf, Bool.false_eq_true, if_false]; exact viewName_other c c' n' h
  · simp only [preFix, viewOf, keyOf, Bool.false_eq_true, if_false]; exact viewName_own c n
  · intro e
    simp only [preFix, keyOf, Bool.false_eq_true, if_false, Prod.mk.injEq, and_true] at e
    exact mkKey_inj_name c n n' e

/-- **Regression witness (C13-F2 / F2b, fixed by /repo ef1f444)**: with the pre-fix scheme the *nested* context names
of `scripts/a.py` and `scripts/a/b.py` collide – name `"b.x"` of `scripts.a` and name `"x"` of `scripts.a.b` are one
key, and `name2id()` of `scripts.a` lists the other context's name; with tuple keys neither happens. -/
theorem C13_regress_ctx_sep_nested :
    (keyOf false "scripts.a".toList "b.x".toList = keyOf false "scripts.a.b".toList "x".toList ∧
     viewOf false "scripts.a".toList (keyOf false "scripts.a.b".toList "x".toList) = some "b.x".toList) ∧
    (keyOf true "scripts.a".toList "b.x".toList ≠ keyOf true "scripts.a.b".toList "x".toList ∧
     viewOf true "scripts.a".toList (keyOf true "scripts.a.b".toList "x".toList) = none) := by
  decide

/-- **Foreign tasks.**  The only way a task that pyscript did not start gets onto the reaper queue is its own
`task.unique(…, kill_me=True)` call. -/
theorem C13_foreign (ops : List (Op κ)) (op : Op κ) (x : Task)
    (hin : x ∈ (step (run ops) op).reaperQ) (hnew : x ∉ (run ops).reaperQ) (hf : (run ops).foreign x = true) :
    ∃ k, op = .unique x k true := by
  have h := inv_run ops
  cases op with
  | spawn t fg =>
    simp only [step, spawnStep] at hin
    split at hin <;> exact absurd hin hnew
  | unique t k km =>
    rcases unique_new_in_queue (run ops) t k km x h hin hnew with ⟨e1, e2⟩ | e
    · subst e1; subst e2; exact ⟨k, rfl⟩
    · rw [hf] at e; cases e
  | reap =>
    exact absurd (pending_reap_of (run ops) x (Or.inl hin)) (by
      intro hp
      rcases hp with hp | hp
      · exact hnew hp
      · -- delivered earlier: then x was dequeued earlier; it cannot re-enter by a reap step
        simp only [step, reapStep, reapStepCfg] at hin
        split at hin
        · exact hnew hin
        · split at hin
          · exact hnew hin
          · rename_i hd q hq
            split at hin <;> exact hnew (by rw [hq]; exact List.mem_cons_of_mem _ hin))
  | exit t =>
    simp only [step] at hin
    rw [(exit_queue _ t).1] at hin; exact absurd hin hnew
  | endBody t =>
    simp only [step] at hin
    rw [(endBody_fields _ t).2.2.2.2.2.2.2.1] at hin; exact absurd hin hnew
  | decoNew t k km =>
    simp only [step, decoNewStep] at hin
    split at hin
    · rcases unique_new_in_queue (run ops) t k false x h hin hnew with ⟨_, e2⟩ | e
      · cases e2
      · rw [hf] at e; cases e
    · exact absurd hin hnew

/-- …hence a foreign task with a cancel pending or delivered asked for it itself (all reachable states) -/
theorem C13_foreign_never_cancelled (ops : List (Op κ)) (t : Task) (hf : (run ops).foreign t = true)
    (hp : Pending (run ops) t) : (run ops).selfEnq t = true :=
  (inv_run ops).foreign_q t hf hp

/-- **`@task_unique`, new subsystem** (`TaskUniqueDecorator.handle_call`, first segment of the new task): it is
`task.unique(name)` whenever the function body is allowed to run, and with `kill_me=True` and the name in use nothing
changes and the body does not run. -/
theorem C13_decorator_new (s : St κ) (t : Task) (k : κ) (km : Bool) :
    (decoRuns s k km = true → decoNewStep s t k km = uniqueStep s t k km) ∧
    (decoRuns s k km = false → decoNewStep s t k km = s ∧ km = true ∧ ∃ o, s.owner k = some o) := by
  unfold decoNewStep decoRuns nameUsed
  constructor
  · intro hr
    simp only [hr, if_true]
    cases km
    · rfl
    · have hn : s.owner k = none := by
        cases ho : s.owner k with
        | none => rfl
        | some o => simp [ho] at hr
      exact (C13_killme_free s t k (Or.inl hn)).symm
  · intro hr
    simp only [hr, Bool.false_eq_true, if_false]
    cases km
    · simp at hr
    · cases ho : s.owner k with
      | none => simp [ho] at hr
      | some o => simp

/-- **`@task_unique`, legacy subsystem – the code as it is now** (`call_action` checks `unique_name_used` in the
trigger loop; the new task starts with `task_unique(name, kill_me=…)`, /repo a7d4ccd).  Whatever happened between the
dispatcher's check and the first segment of the new task (no proviso any more): the first segment *is* the
`task.unique` rule with the decorator's `kill_me`; ownership afterwards is what the new subsystem's decorator produces
in the same state; and a fresh task goes on to run its body exactly when the new subsystem's decorator would let it
run – with `kill_me=True` and the name owned by somebody else the new run parks itself and the owner is untouched. -/
theorem C13_decorator_legacy (s : St κ) (t : Task) (k : κ) (km : Bool) :
    decoLegacyStep current s t k km = uniqueStep s t k km ∧
    (decoLegacyStep current s t k km).owner = (decoNewStep s t k km).owner ∧
    (canStep s t = true → s.owner k ≠ some t →
      canStep (decoLegacyStep current s t k km) t = decoRuns s k km) := by
  have e0 : decoLegacyStep current s t k km = uniqueStep s t k km := by
    simp [decoLegacyStep, current_eq]
  have hclaim : ∀ v : St κ, (claim v t k).live = v.live ∧ (claim v t k).parked = v.parked := fun v =>
    ⟨(claim_queue v t k).2.2.2.2.2, (claim_queue v t k).2.2.2.2.1⟩
  refine ⟨e0, ?_, ?_⟩
  · rw [e0]
    cases km with
    | false => simp [decoNewStep, decoRuns]
    | true =>
      cases ho : s.owner k with
      | none =>
        rw [C13_killme_free s t k (Or.inl ho)]
        simp [decoNewStep, decoRuns, nameUsed, ho]
      | some o =>
        have hd : decoNewStep s t k true = s := by simp [decoNewStep, decoRuns, nameUsed, ho]
        rw [hd]
        unfold uniqueStep
        split
        · rfl
        · simp only [ho, if_true]
          split
          · rfl
          · rename_i hot
            have hot : o = t := Classical.not_not.1 hot
            subst hot
            by_cases hours : s.ours o = true
            · rw [claim_eq s o k hours]
              funext x
              simp only [upd_apply]
              split
              · rename_i e; subst e; exact ho.symm
              · rfl
            · rw [claim_not_ours s o k hours]
  · intro hc hne
    rw [e0]
    unfold uniqueStep
    simp only [hc, Bool.not_true, Bool.false_eq_true, if_false]
    have hcan : ∀ v : St κ, v.live = s.live → v.parked = s.parked → canStep (claim v t k) t = true := by
      intro v e1 e2
      unfold canStep
      rw [(hclaim v).1, (hclaim v).2, e1, e2]
      exact hc
    cases ho : s.owner k with
    | none =>
      simp only [decoRuns, nameUsed, ho, Option.isSome_none, Bool.and_false, Bool.not_false]
      exact hcan s rfl rfl
    | some o =>
      have hot : o ≠ t := fun e => hne (by rw [ho, e])
      cases km with
      | false =>
        simp only [Bool.false_eq_true, if_false, decoRuns, Bool.false_and, Bool.not_false]
        apply hcan
        · unfold killPrev; split <;> rfl
        · unfold killPrev; split <;> rfl
      | true =>
        simp only [if_true, ne_eq, hot, not_false_eq_true, decoRuns, nameUsed, ho, Option.isSome_some,
          Bool.and_self, Bool.not_true]
        simp [canStep, park]

/-- **Regression statement about the pre-fix shape** (claim without `kill_me`): it equalled the new subsystem's rule
only *provided the owner of the name did not change between the check (state `s0`) and the first segment of the new
task (state `s`)*. -/
theorem C13_regress_decorator_legacy_partial (s0 s : St κ) (t : Task) (k : κ) (km : Bool)
    (hcheck : decoRuns s0 k km = true) (hsame : s.owner k = s0.owner k) :
    decoLegacyStep preFix s t k km = decoNewStep s t k km := by
  unfold decoNewStep
  have : decoRuns s k km = true := by
    unfold decoRuns nameUsed at hcheck ⊢; rw [hsame]; exact hcheck
  simp [this, decoLegacyStep, preFix]

/-- **Regression witness (C13-F1, fixed by /repo a7d4ccd)**: two occurrences of a `kill_me=True` function dispatched in
the same instant; both dispatcher checks see the name free.  Pre-fix the second run displaced the first (cancel queued
for task 0); now the second run parks itself and queues *itself* – exactly what the new subsystem's decorator gives
(task 0 keeps the name). -/
theorem C13_regress_decorator_legacy_race :
    let s0 : St Nat := run [.spawn 0 false, .spawn 1 false]
    let go := fun (cfg : Cfg) => decoLegacyStep cfg (decoLegacyStep cfg s0 0 7 true) 1 7 true
    decoRuns (init : St Nat) 7 true = true ∧
    ((go preFix).owner 7 = some 1 ∧ (go preFix).reaperQ = [0] ∧ (go preFix).parked 1 = false) ∧
    ((go current).owner 7 = some 0 ∧ (go current).reaperQ = [1] ∧ (go current).parked 1 = true) ∧
    (run [.spawn 0 false, .spawn 1 false, .decoNew 0 (7 : Nat) true, .decoNew 1 7 true]).owner 7 = some 0 := by
  decide

/-- **`@task_unique` with the empty name, legacy subsystem – the code as it is now** (/repo dc7ca82): whatever the name,
the guarded first segment is the claim. -/
theorem C13_decorator_legacy_any_name (s : St κ) (t : Task) (k : κ) (km nonEmpty : Bool) :
    decoLegacyNamed current s t k km nonEmpty = uniqueStep s t k km := by
  simp [decoLegacyNamed, decoLegacyStep, current_eq]

/-- **Regression witness (C13-F3, fixed by /repo dc7ca82)**: with the truthiness guard two runs of a function decorated
`@task_unique("")` (key 7 here) both stayed alive – neither claimed; now the second displaces the first. -/
theorem C13_regress_decorator_legacy_empty_name :
    let s0 : St Nat := run [.spawn 0 false, .spawn 1 false]
    let go := fun (cfg : Cfg) => decoLegacyNamed cfg (decoLegacyNamed cfg s0 0 7 false false) 1 7 false false
    ((go preFix).owner 7 = none ∧ (go preFix).reaperQ = []) ∧
    ((go current).owner 7 = some 1 ∧ (go current).reaperQ = [0]) ∧
    (decoLegacyNamed preFix s0 0 7 false true).owner 7 = some 0 := by
  decide

/-- **The reaper finishes the job.**  Under the runtime assumption that a cancelled task ends at its next suspension
point (`reapCycle` = deliver, then that task's `finally`), once the reaper has worked through its queue the queue is
empty and every task that was on it has ended – from any state: the reaper (/repo 32185a9) never waits. -/
theorem C13_reaper_drains (s : St κ) :
    (drain s.reaperQ.length s).reaperQ = [] ∧ ∀ t ∈ s.reaperQ, (drain s.reaperQ.length s).live t = false := by
  obtain ⟨a, c, _⟩ := drain_spec s.reaperQ.length s rfl
  exact ⟨a, c⟩


/-! ### the done-callback phase of `run_coro`'s `finally`

Between the end of its body (`endBody`) and the release block (`exit`) a task runs its done-callbacks: further segments of
the same, still running task, which may suspend – so every other task's steps, `task.unique` included, interleave with
them – and may call `task.unique` themselves.  `run ops` ranges over all such interleavings, hence `C13_maps_inv`,
`C13_mutex`, `C13_displaced`, `C13_release` … hold across the callback phase as they stand.  What is special about the
phase is stated here. -/

/-- **The end of a task's body releases nothing.**  Both maps, `our_tasks`, the reaper queue and every pending
cancellation are untouched; the task is running, owns what it owned, and – even if it had been halted by kill_me – runs
segments again (its done-callbacks). -/
theorem C13_body_end_keeps_names (s : St κ) (t : Task) (hl : s.live t = true) :
    let s' := step s (.endBody t)
    s'.owner = s.owner ∧ s'.names = s.names ∧ s'.entry = s.entry ∧ s'.ours = s.ours ∧ s'.live = s.live ∧
    s'.reaperQ = s.reaperQ ∧ s'.cancelReq = s.cancelReq ∧ canStep s' t = true := by
  obtain ⟨e1, e2, e3, e4, e5, _, _, e8, e9, _⟩ := endBody_fields s t
  refine ⟨e1, e2, e3, e4, e5, e8, e9, ?_⟩
  simp [step, endBodyStep, canStep, hl]

/-- **A name changes hands in exactly two ways** (all reachable states, every step – the steps of the owner's own
done-callbacks and everybody else's steps during them included): the owner's release block runs (`exit`), or somebody
claims that very key.  In particular the release block of ANOTHER task never takes a name away from its owner, whatever
that other task owned earlier. -/
theorem C13_name_kept (ops : List (Op κ)) (op : Op κ) (k : κ) (t : Task)
    (hown : (run ops).owner k = some t) (hx : op ≠ .exit t)
    (hu : ∀ u km, op ≠ .unique u k km) (hd : ∀ u km, op ≠ .decoNew u k km) :
    (step (run ops) op).owner k = some t := by
  have h := inv_run ops
  cases op with
  | spawn u fg =>
    simp only [step, spawnStep]; split <;> exact hown
  | unique u k' km =>
    have hk : k ≠ k' := fun e => hu u km (by rw [e])
    rw [(C13_other_keys ops u k' k km hk).1]; exact hown
  | reap =>
    show (reapStep (run ops)).owner k = some t
    rw [(reap_fields (run ops)).1]; exact hown
  | exit u =>
    have hut : u ≠ t := fun e => hx (by rw [e])
    simp only [step]
    by_cases hl : (run ops).live u = true
    · rw [exit_eq (run ops) u h.maps hl]
      simp only []
      have : k ∉ (run ops).names u := by
        intro hk
        have := h.names_own k u hk
        rw [hown] at this
        exact hut (Option.some.inj this).symm
      simp [this, hown]
    · rw [exit_dead (run ops) u hl]; exact hown
  | decoNew u k' km =>
    have hk : k ≠ k' := fun e => hd u km (by rw [e])
    rw [(C13_other_keys ops u k' k km hk).2.2]; exact hown
  | endBody u =>
    simp only [step]; rw [(endBody_fields _ u).1]; exact hown

/-- **A claim that arrives while the owner is inside a (suspended) done-callback** – the schedule of seeded change
C13_7: task 0 owns key 7, its body ends, its done-callback suspends; task 1 claims 7 (task 0 is handed to the reaper, its
set loses the name), the reaper delivers, task 0's callback is cancelled and its release block runs: task 1 is STILL the
owner in both maps; a third claimer then displaces task 1, not nobody.  And a name claimed BY a done-callback (key 9,
claimed by task 0 after its body ended) is released by the release block that follows. -/
theorem C13_claim_during_callback :
    let pre : List (Op Nat) := [.spawn 0 false, .spawn 1 false, .spawn 2 false, .unique 0 7 false, .endBody 0,
                                .unique 0 9 false, .unique 1 7 false]
    let s1 := run pre
    let s2 := run (pre ++ [.reap, .exit 0])
    let s3 := run (pre ++ [.reap, .exit 0, .unique 2 7 false])
    (s1.owner 7 = some 1 ∧ s1.owner 9 = some 0 ∧ s1.names 0 = [9] ∧ s1.names 1 = [7] ∧ s1.reaperQ = [0]) ∧
    (s2.owner 7 = some 1 ∧ s2.names 1 = [7] ∧ s2.owner 9 = none ∧ s2.entry 0 = false ∧ s2.live 0 = false ∧
     s2.live 1 = true) ∧
    (s3.owner 7 = some 2 ∧ s3.reaperQ = [1]) := by
  decide

/-- a task halted by `kill_me` whose cancellation was delivered runs its done-callbacks, and a done-callback may claim:
task 1 parks on key 7 (owned by task 0), is reaped, its body ends, its callback claims key 8 and keeps it until its
release block -/
theorem C13_halted_task_runs_callbacks :
    let pre : List (Op Nat) := [.spawn 0 false, .spawn 1 false, .unique 0 7 false, .unique 1 7 true, .reap]
    (canStep (run pre) 1 = false ∧ (run pre).cancelReq 1 = true) ∧
    (canStep (run (pre ++ [.endBody 1])) 1 = true ∧
     (run (pre ++ [.endBody 1, .unique 1 8 false])).owner 8 = some 1 ∧
     (run (pre ++ [.endBody 1, .unique 1 8 false])).owner 7 = some 0 ∧
     (run (pre ++ [.endBody 1, .unique 1 8 false, .exit 1])).owner 8 = none) := by
  decide

/-! ### the tie to the source: the shape tables extracted from function.py / trigger.py / decorators/task.py -/

/-- **The extracted shape is the proved shape.**  `Shape.extracted` / `shapeFacts` are regenerated from the working tree
on every run (`tools/extractors/C13.py`): block order and guards of `task_unique`, the maps a claim stores into, the
registries the release block of `run_coro` clears and their order, one FIFO reaper queue, release inside a `finally`
without an await, dispatcher check before the task is made, decorator = check + plain claim. -/
theorem C13_shape_tie : Shape.extracted = Shape.proved ∧ shapeFacts = [true, true, true, true, true] := by
  decide

/-- `task_unique` assembled from the shape table is the `uniqueStep` the theorems are about -/
theorem C13_shape_unique (s : St κ) (t : Task) (k : κ) (km : Bool) :
    uniqueStepSh Shape.proved s t k km = uniqueStep s t k km := by
  unfold uniqueStepSh uniqueStep
  by_cases hc : canStep s t = true
  · simp only [hc, Bool.not_true, Bool.false_eq_true, if_false, Shape.proved, if_true]
    cases hown : s.owner k with
    | none => simp [killArmSh, hown, claimSh, claim, setOwnerSh, setOwner]
    | some o =>
      cases km with
      | true =>
        by_cases hot : o = t
        · subst hot
          simp [killArmSh, hown, claimSh, claim, setOwnerSh, setOwner]
        · simp [killArmSh, hown, hot]
      | false =>
        by_cases hot : o = t
        · subst hot
          simp [killArmSh, hown, killPrev, claimSh, claim, setOwnerSh, setOwner]
        · by_cases hoo : s.ours o = true
          · simp [killArmSh, hown, hot, hoo, killPrev, claimSh, claim, setOwnerSh, setOwner, enqueue]
          · have hoo' : s.ours o = false := not_true_false hoo
            simp [killArmSh, hown, hot, hoo', killPrev, claimSh, claim, setOwnerSh, setOwner]
  · have : canStep s t = false := not_true_false hc
    simp [this]

/-- the release block assembled from the order table is the `exitStep` the theorems are about -/
theorem C13_shape_release (s : St κ) (t : Task) : exitStepSh Shape.proved s t = exitStep s t := by
  unfold exitStepSh exitStep
  cases hl : s.live t <;> cases he : s.entry t <;> cases hd : delErr s.owner (s.names t) <;>
    simp [releaseAll, releaseOne, Shape.proved, he, hd]

/-- **The model the driver replays observed runs with – every step assembled from the extracted tables and flags – is
the model of the theorems.** -/
theorem C13_shape_step (s : St κ) (op : Op κ) : stepSh Shape.extracted current s op = step s op := by
  rw [C13_shape_tie.1]
  cases op with
  | spawn t fg => rfl
  | unique t k km => exact C13_shape_unique s t k km
  | reap => rfl
  | exit t => exact C13_shape_release s t
  | decoNew t k km =>
    simp only [stepSh, step, decoNewStep]
    split
    · exact C13_shape_unique s t k false
    · rfl
  | endBody t => rfl

/-- each extracted guard matters: with the `task in our_tasks` conjunct of the displacing arm gone a task that pyscript
did not start is handed to the reaper (`C13_foreign` fails); with the `discard` gone the maps stop being inverse; with
the release order starting at `our_tasks` and lacking `unique_name2task` a dead task keeps its name -/
theorem C13_shape_flags_matter :
    let pre : List (Op Nat) := [.spawn 0 true, .spawn 1 false]
    let s := run pre
    (uniqueStepSh { Shape.proved with killOnlyOurs := false }
        ({ s with owner := upd s.owner 7 (some 0) }) 1 7 false).reaperQ = [0] ∧
    (uniqueStepSh Shape.proved ({ s with owner := upd s.owner 7 (some 0) }) 1 7 false).reaperQ = [] ∧
    (let s2 := run [.spawn 0 false, .spawn 1 false, .unique 0 7 false]
     (uniqueStepSh { Shape.proved with claimDiscardsOld := false } s2 1 7 false).names 0 = [7] ∧
     (uniqueStepSh Shape.proved s2 1 7 false).names 0 = [] ∧
     (exitStepSh { Shape.proved with releaseOrder := [.unique_task2name, .our_tasks] } s2 0).owner 7 = some 0 ∧
     (exitStepSh Shape.proved s2 0).owner 7 = none) := by
  decide

/-! non-vacuity of the hypotheses used above -/
example : canStep (run [Op.spawn 0 false, Op.unique 0 (3 : Nat) false]) 0 = true ∧
    (run [Op.spawn 0 false, Op.unique 0 (3 : Nat) false]).ours 0 = true ∧
    (run [Op.spawn 0 false, Op.unique 0 (3 : Nat) false]).owner 3 = some 0 := by decide
example : (run [Op.spawn 0 false, Op.spawn 1 true, Op.unique 0 (3 : Nat) false, Op.unique 1 3 true]).foreign 1 = true ∧
    (run [Op.spawn 0 false, Op.spawn 1 true, Op.unique 0 (3 : Nat) false, Op.unique 1 3 true]).reaperQ = [1] := by decide
example : Sep "file.a".toList "file.b".toList := by
  unfold Sep; constructor <;> decide

end PsModel.C13
