import PsModel.Lemmas.C12
/-!
# C12 – property theorems: a `@service` exists exactly while declared and calls the current definition

The life-cycle machine of `Model/C12.lean` is one machine with four switches (`Cfg`); `legacyCfg` and `newCfg` are the two
subsystems.  The invariants below are proved for **every** switch setting and **every** operation sequence
(define / redefine at file level or at run time, any start order of the new subsystem's managers, delete, unload/reload,
any number of contexts).  Where the code leaves the property, a `_cex` theorem exhibits the reachable sequence
(open findings C12-F1, F5b, F6) and the positive theorem states the fragment that does hold.  The four repairs made in
/repo (C12-F2: a name given twice is registered once; C12-F3: the new subsystem registers under the global-context name;
C12-F4: a manager whose function died before the delayed start is discarded; C12-F5: managers start in definition order)
are switches whose current values are extracted from the source (`C12_cfg_current`); the former counterexamples are kept
as `_regress` theorems about `legacyPreFix` / `newPreFix`.
-/
namespace PsModel.C12
open PsModel.C16 (aget aset adel)

/-- **Reference counting is consistent, always.**  After any operation sequence in either subsystem, for every service
name: it is registered in Home Assistant iff its count is positive iff it has an owner entry; the count is at least the
number of registrations the live holders (functions / decorator managers) will give back, and *exactly* that number
when the holder's bookkeeping is exact (`Exact cfg`: the started declarations are kept as a list – new subsystem –
or a name that is already tracked is not registered again – legacy since the repair). -/
theorem C12_count_inv (cfg : Cfg) (ops : List Op) (k : Svc) :
    (registered (run cfg {} ops).reg k = true ↔ cntOf (run cfg {} ops).reg k > 0) ∧
    ((aget k (run cfg {} ops).reg.owner).isSome = true ↔ cntOf (run cfg {} ops).reg k > 0) ∧
    trackedCount (run cfg {} ops).holders k ≤ cntOf (run cfg {} ops).reg k ∧
    (Exact cfg → trackedCount (run cfg {} ops).holders k = cntOf (run cfg {} ops).reg k) := by
  have hi := inv_run cfg ops {} (inv_init cfg)
  obtain ⟨h1, h2⟩ := hi.regOK k
  refine ⟨?_, ?_, hi.cntGe k, fun hs => hi.cntEq hs k⟩
  · simp only [registered]; rw [h1]; simp
  · rw [h2]; simp

/-- **The working tree contains all eight repairs**: the switch values extracted from `trigger_init`,
`ServiceDecorator.start`, `on_func_var_deleted`, `GlobalContext.start`, `service_register` / `service_remove` (the
lower-cased key), the built-in name tests of `trigger_init` / `ServiceDecorator.validate`, the place where `trigger_init`
enters the function in its context's trigger registry (C12-F11) and the way the entity-method call form is finished
(C12-F8: `State.get` / `Function.hass_services_async_call`) are the repaired ones (undoing a repair in the source makes
this theorem fail). -/
theorem C12_cfg_current :
    legacyCfg = ⟨true, false, false, false, false, true, false, false, true, true, true⟩ ∧
    newCfg = ⟨false, false, true, true, true, false, true, true, true, true, true⟩ ∧
    outCfg = ⟨true, true⟩ := by decide

/-- **A refused name is not remembered** (tie of `acquireAll`, which tracks a name only after `register` accepted it, to the
source): in `trigger_init` the statement `self.trigger_service.add(srv_name)` comes after `Function.service_register(...)`,
so a declaration refused because another context owns the name leaves nothing to remove when its function dies
(`C12_owner`, `C12_owner_shared` then keep the owner's registration intact). -/
theorem C12_tracks_after_register : PsModel.Gen.LEGACY_TRACKS_AFTER_REGISTER = true := by decide

/-- **Exact counting in both subsystems as they are now**: for every operation sequence the count of every service is
exactly the number of registrations the live holders will give back (legacy: the holders are the live functions,
`C12_legacy_holders_live`). -/
theorem C12_count_exact (ops : List Op) (k : Svc) :
    trackedCount (run legacyCfg {} ops).holders k = cntOf (run legacyCfg {} ops).reg k ∧
    trackedCount (run newCfg {} ops).holders k = cntOf (run newCfg {} ops).reg k :=
  ⟨(inv_run legacyCfg ops {} (inv_init _)).cntEq (Or.inr (by decide)) k,
   (inv_run newCfg ops {} (inv_init _)).cntEq (Or.inl (by decide)) k⟩

/-- **Exact counting without the duplicate-name repair (partial: no function names a service twice).**  When definitions are started
at once (`legacyCfg`) and every definition's service names are distinct, the count of every service equals the number
of registrations the live functions hold – for every operation sequence; `C12_duplicate_regress` shows that before the
repair the hypothesis was needed. -/
theorem C12_count_exact_partial (cfg : Cfg) (hd : cfg.delayTopLevel = false) (ops : List Op)
    (hn : ∀ op ∈ ops, ∀ ctx fn var gen decl, op = .define ctx fn var gen decl → ((foldDecl cfg decl).map (·.1)).Nodup) (k : Svc) :
    trackedCount (run cfg {} ops).holders k = cntOf (run cfg {} ops).reg k := by
  have key : ∀ (ops : List Op) (st : MState), Inv cfg st → (∀ k, trackedCount st.holders k = cntOf st.reg k) →
      (∀ op ∈ ops, ∀ ctx fn var gen decl, op = .define ctx fn var gen decl → ((foldDecl cfg decl).map (·.1)).Nodup) →
      ∀ k, trackedCount (run cfg st ops).holders k = cntOf (run cfg st ops).reg k := by
    intro ops
    induction ops with
    | nil => intro st _ he _; exact he
    | cons op ops ih =>
      intro st hi he hn
      simp only [run]
      exact ih _ (inv_step cfg st op hi) (eq_step cfg hd st op hi he (hn op (by simp)))
        (fun o ho => hn o (by simp [ho]))
  exact key ops {} (inv_init cfg) (fun k => by simp [trackedCount, cntOf, aget]) hn k

/-- **In the legacy subsystem the holders are exactly live functions**: after any operation sequence every holder is
bound to its global variable and running – so the counts above count declarations of *live* functions.  (For the new
subsystem see `C12_holders_bound`.) -/
theorem C12_legacy_holders_live (cfg : Cfg) (hd : cfg.delayTopLevel = false) (he : cfg.regEarly = true) (ops : List Op)
    (h : Holder) (hm : h ∈ (run cfg {} ops).holders) : h.bound = true ∧ h.status = .running := by
  have keep : ∀ (ctx var : String) (hs : List Holder), (∀ x ∈ hs, x.bound = true ∧ x.status = .running) →
      ∀ x ∈ unbindHolders cfg ctx var hs, x ∈ hs := by
    intro ctx var hs
    induction hs with
    | nil => intro _ x hx; simp [unbindHolders] at hx
    | cons y ys ih =>
      intro hp x hx
      have hy := hp y (by simp)
      have ih' := ih (fun z hz => hp z (by simp [hz]))
      by_cases hv : isVar ctx var y = true
      · simp only [unbindHolders, hv, if_true, dropHolder, hy.2, Option.toList_none, List.nil_append] at hx
        exact List.mem_cons_of_mem _ (ih' x hx)
      · simp only [unbindHolders, hv, Bool.false_eq_true, if_false, List.mem_cons] at hx
        rcases hx with e | e
        · simp [e]
        · exact List.mem_cons_of_mem _ (ih' x e)
  have key : ∀ (ops : List Op) (st : MState), (∀ x ∈ st.holders, x.bound = true ∧ x.status = .running) →
      ∀ x ∈ (run cfg st ops).holders, x.bound = true ∧ x.status = .running := by
    intro ops
    induction ops with
    | nil => intro st hp; exact hp
    | cons op ops ih =>
      intro st hp
      simp only [run]
      apply ih
      cases op with
      | start ctx events => simp only [step, hd, Bool.false_eq_true, if_false]; exact hp
      | delete ctx var => intro x hx; exact hp x (keep ctx var _ hp x hx)
      | unload ctx => intro x hx; exact hp x (unload_keeps cfg he ctx st.holders x hx)
      | define ctx fn var gen decl =>
        intro x hx
        simp only [step, defineStep, hd, Bool.false_and, Bool.false_eq_true, if_false] at hx
        rcases List.mem_append.mp hx with e | e
        · exact hp x (keep ctx var _ hp x e)
        · simp only [startHolder] at e
          split at e
          · simp only [Option.toList_some, List.mem_singleton] at e
            subst e; simp [newHolder]
          · simp at e
  exact key ops {} (by simp) h hm

/-- **Every holder belongs to a live function – in both subsystems as they are now.**  Since a manager whose function
dies before the delayed start is discarded (`cfg.dropDelayed`), every holder – running or still waiting for
`GlobalContext.start()` – is bound to its global variable after any operation sequence; no manager outlives its
function any more (`C12_regress_redefined_at_load` is the pre-fix witness).  Promoted from `C12_legacy_holders_live`. -/
theorem C12_holders_bound (cfg : Cfg) (hc : cfg.dropDelayed = true ∨ cfg.delayTopLevel = false) (he : cfg.regEarly = true)
    (ops : List Op) (h : Holder) (hm : h ∈ (run cfg {} ops).holders) : h.bound = true := by
  rcases hc with hc | hc
  rotate_left
  · exact (C12_legacy_holders_live cfg hc he ops h hm).1
  have keep : ∀ (ctx var : String) (hs : List Holder), ∀ x ∈ unbindHolders cfg ctx var hs, x ∈ hs := by
    intro ctx var hs
    induction hs with
    | nil => intro x hx; simp [unbindHolders] at hx
    | cons y ys ih =>
      intro x hx
      by_cases hv : isVar ctx var y = true
      · have hn : dropHolder cfg y = none := by
          rw [dropHolder_eq]; simp [released, hc]
        simp only [unbindHolders, hv, if_true, hn, Option.toList_none, List.nil_append] at hx
        exact List.mem_cons_of_mem _ (ih x hx)
      · simp only [unbindHolders, hv, Bool.false_eq_true, if_false, List.mem_cons] at hx
        rcases hx with e | e
        · simp [e]
        · exact List.mem_cons_of_mem _ (ih x e)
  have ev : ∀ (r : Reg) (ctx : String) (g : Nat) (hs : List Holder), (∀ x ∈ hs, x.bound = true) →
      ∀ x ∈ eventStepHolders cfg r ctx g hs, x.bound = true := by
    intro r ctx g hs
    induction hs with
    | nil => intro _ x hx; simp [eventStepHolders] at hx
    | cons y ys ih =>
      intro hp x hx
      by_cases hd : isDelayed ctx g y = true
      · simp only [eventStepHolders, hd, if_true, List.mem_append] at hx
        rcases hx with e | e
        · have hy := hp y (by simp)
          unfold eventHolder at e
          split at e
          · simp only [Option.toList_some, List.mem_singleton] at e; subst e; exact hy
          · split at e
            · simp only [Option.toList_some, List.mem_singleton] at e; subst e; exact hy
            · split at e
              · simp only [Option.toList_some, List.mem_singleton] at e; subst e; exact hy
              · simp at e
        · exact hp x (by simp [e])
      · simp only [eventStepHolders, hd, Bool.false_eq_true, if_false, List.mem_cons] at hx
        rcases hx with e | e
        · subst e; exact hp _ (by simp)
        · exact ih (fun z hz => hp z (by simp [hz])) x e
  have evs : ∀ (ctx : String) (gs : List Nat) (st : MState), (∀ x ∈ st.holders, x.bound = true) →
      ∀ x ∈ (startEvents cfg ctx st gs).holders, x.bound = true := by
    intro ctx gs
    induction gs with
    | nil => intro st hp; exact hp
    | cons g gs ih => intro st hp; simp only [startEvents]; exact ih _ (ev st.reg ctx g st.holders hp)
  have key : ∀ (ops : List Op) (st : MState), (∀ x ∈ st.holders, x.bound = true) →
      ∀ x ∈ (run cfg st ops).holders, x.bound = true := by
    intro ops
    induction ops with
    | nil => intro st hp; exact hp
    | cons op ops ih =>
      intro st hp
      simp only [run]
      apply ih
      cases op with
      | start ctx events =>
        simp only [step]
        split
        · exact evs ctx events st hp
        · exact hp
      | delete ctx var => intro x hx; exact hp x (keep ctx var _ x hx)
      | unload ctx => intro x hx; exact hp x (unload_keeps cfg he ctx st.holders x hx)
      | define ctx fn var gen decl =>
        intro x hx
        simp only [step, defineStep] at hx
        split at hx
        · rcases List.mem_append.mp hx with e | e
          · exact hp x (keep ctx var _ x e)
          · simp only [List.mem_singleton] at e; subst e; rfl
        · rcases List.mem_append.mp hx with e | e
          · exact hp x (keep ctx var _ x e)
          · simp only [startHolder] at e
            split at e
            · simp only [Option.toList_some, List.mem_singleton] at e
              subst e; simp [newHolder]
            · simp at e
  exact key ops {} (by simp) h hm

/-- **The delayed managers are started in definition order** (since the repair of `GlobalContext.start`): a start whose
observed registration order is admitted by the model begins the managers of the context in the order in which their
functions were defined (the first registration of each manager; later decorators of a manager may interleave). -/
theorem C12_start_order_admitted (cfg : Cfg) (hd : cfg.delayTopLevel = true) (ho : cfg.orderedStart = true)
    (st : MState) (ctx : String) (events : List Nat) (ha : (step cfg st (.start ctx events)).inadm = false) :
    events.eraseDups = delayedGens ctx st.holders := by
  simp only [step, hd, if_true, ho, Bool.true_and, Bool.or_eq_false_iff, Bool.not_eq_false'] at ha
  simpa [startOrderOK] using ha.2

/-- **`service_remove` is only ever reached with a positive count** – the `cnt ≤ 1` branch that would un-register a
never-counted key is unreachable from the two life-cycles (every op sequence, both subsystems). -/
theorem C12_remove_safe (cfg : Cfg) (ops : List Op) : (run cfg {} ops).reg.underflow = false :=
  (inv_run cfg ops {} (inv_init cfg)).noUnder

/-- **A register from another context fails and changes nothing**: count, owner, registered handler (and its
`supports_response`) of every service are what they were. -/
theorem C12_owner (r : Reg) (o o' : OwnerName) (k : Svc) (h : Handler) (hown : aget k r.owner = some o') (hne : o' ≠ o) :
    (register r o k h).2 = false ∧ (∀ k', cntOf (register r o k h).1 k' = cntOf r k') ∧
    (register r o k h).1.handler = r.handler ∧ (register r o k h).1.owner = r.owner := by
  have ha : accepts r o k = false := by simp [accepts, hown, hne]
  obtain ⟨a, b, c, d, _⟩ := register_refused r o k h ha
  exact ⟨a, b, c, d⟩

/-- … and consequently all live holders of a service name registered it under one and the same owner name: two contexts
never hold the same service at the same time (every op sequence, both subsystems). -/
theorem C12_owner_shared (cfg : Cfg) (ops : List Op) (h1 h2 : Holder) (k : Svc)
    (m1 : h1 ∈ (run cfg {} ops).holders) (m2 : h2 ∈ (run cfg {} ops).holders)
    (t1 : k ∈ h1.tracked) (t2 : k ∈ h2.tracked) :
    h1.owner = h2.owner ∧ aget k (run cfg {} ops).reg.owner = some h1.owner := by
  have hi := inv_run cfg ops {} (inv_init cfg)
  have a := hi.owner h1 m1 k t1
  have b := hi.owner h2 m2 k t2
  rw [a] at b
  exact ⟨Option.some.inj b, a⟩

/-- **Nothing is left behind (exact bookkeeping: both subsystems as they are now)**: once no holder is left – every context unloaded, every
function deleted – no service is registered any more. -/
theorem C12_unload_clean (cfg : Cfg) (hl : Exact cfg) (ops : List Op)
    (hempty : (run cfg {} ops).holders = []) (k : Svc) : registered (run cfg {} ops).reg k = false := by
  have hi := inv_run cfg ops {} (inv_init cfg)
  have := hi.cntEq hl k
  rw [hempty, trackedCount_nil] at this
  have h1 := (hi.regOK k).1
  simp only [registered]; rw [h1, ← this]; simp

/-- **A (re)definition ends with the new definition's handler.**  In any reachable state, a definition that is started
at once (legacy: always; new: a definition executed at run time) and whose names are all accepted leaves, for every
name it declares, Home Assistant holding the handler of *this* definition with the declared `supports_response` – the
old function object is released only after the new registration (register-before-remove, seamless). -/
theorem C12_latest_after_define (cfg : Cfg) (ops : List Op) (ctx : String) (fn : Option String) (var : String) (gen : Nat)
    (decl : List (Svc × Resp)) (hnow : (cfg.delayTopLevel && fn.isNone) = false)
    (hok : (acquireAll cfg (ownerFor cfg ctx fn) gen (run cfg {} ops).reg (foldDecl cfg decl) []).ok = true)
    (k : Svc) (hk : k ∈ (foldDecl cfg decl).map (·.1)) :
    ∃ rs, (k, rs) ∈ foldDecl cfg decl ∧
      aget k (step cfg (run cfg {} ops) (.define ctx fn var gen decl)).reg.handler = some ⟨gen, rs⟩ := by
  have hi := inv_run cfg ops {} (inv_init cfg)
  generalize run cfg {} ops = st at hi hok
  show ∃ rs, (k, rs) ∈ foldDecl cfg decl ∧
      aget k (defineStep cfg st ctx fn var gen (foldDecl cfg decl)).reg.handler = some ⟨gen, rs⟩
  generalize foldDecl cfg decl = D at hok hk ⊢
  obtain ⟨q1, q2, ⟨added, q3, q4, _⟩, _, _⟩ := acquireAll_spec cfg (ownerFor cfg ctx fn) gen D st.reg [] hi.regOK
  obtain ⟨o1, o2, _⟩ := acquireAll_ok cfg (ownerFor cfg ctx fn) gen D D st.reg [] (fun d hd => hd)
    (fun x hx => by simp at hx) hok
  have t1 := o2 k hk
  obtain ⟨rs, t2, t3⟩ := o1 k t1
  refine ⟨rs, t2, ?_⟩
  simp only [defineStep, hnow, Bool.false_eq_true, if_false, startReg, hok, Bool.true_or, if_true]
  have hu : (acquireAll cfg (ownerFor cfg ctx fn) gen st.reg D []).reg.underflow = false := by rw [q2]; exact hi.noUnder
  have pre : ∀ k, trackedCount st.holders k ≤ cntOf (acquireAll cfg (ownerFor cfg ctx fn) gen st.reg D []).reg k := by
    intro k; have := hi.cntGe k; rw [q3]; omega
  obtain ⟨_, _, a3, a4, _, a6⟩ := unbind_spec cfg ctx var st.holders _ q1 hu pre
  have hpos : cntOf (unbindReg cfg (acquireAll cfg (ownerFor cfg ctx fn) gen st.reg D []).reg ctx var st.holders) k > 0 := by
    have c1 := List.count_pos_iff.mpr t1
    have h3 := a3 k
    have h6 := a6 k
    have h7 := q3 k
    have h4 := q4 k
    have h5 := hi.cntGe k
    simp only [List.count_nil, Nat.zero_add] at h4
    omega
  rw [(a4 k hpos).2]; exact t3

/-! ## call arguments -/

/-- **The handler's keyword arguments** are the call's data plus `trigger_type='service'` and `context` (a data key of
the same name wins, as in `dict.update`). -/
theorem C12_call_args (ctxVal : String) (data : Kw) (k : String) :
    aget k (handlerKwargs ctxVal data) = sKwargs ctxVal data k := by
  unfold handlerKwargs sKwargs
  rw [aget_foldl_aset]
  cases aget k data.reverse
  · by_cases h1 : k = "trigger_type"
    · subst h1; simp [aget]
    · by_cases h2 : k = "context"
      · subst h2; simp [aget]
      · have e1 : ¬ "trigger_type" = k := fun e => h1 e.symm
        have e2 : ¬ "context" = k := fun e => h2 e.symm
        simp [aget, h1, h2, e1, e2]
  · rfl

/-- **Overlapping calls do not see each other**: when several calls of one service overlap in time, the `i`-th call is
answered exactly as if it were the only one – it runs the registered definition with *its own* data (plus
`trigger_type='service'` and `context`) and gets *its own* result. -/
theorem C12_overlapping_calls (cfg : Cfg) (r : Reg) (k : Svc) (ctxVal : String) (datas : List Kw) (rr : Bool) (i : Nat) :
    (overlapOutcome cfg r k ctxVal datas rr)[i]? = (datas[i]?).map (fun d => callOutcome cfg r k ctxVal d rr) ∧
    (∀ h, aget k r.handler = some h → (overlapOutcome cfg r k ctxVal datas rr).length = datas.length ∧
      ∀ d, datas[i]? = some d → ∀ g kw b, (overlapOutcome cfg r k ctxVal datas rr)[i]? = some (.ran g kw b) →
        g = h.gen ∧ b = rr ∧ ∀ key, aget key kw = sKwargs ctxVal d key) := by
  refine ⟨by simp [overlapOutcome], fun h hh => ⟨by simp [overlapOutcome], fun d hd g kw b hr => ?_⟩⟩
  simp only [overlapOutcome, List.getElem?_map, hd, Option.map_some, Option.some.injEq] at hr
  simp only [callOutcome, hh] at hr
  split at hr
  · simp at hr
  · split at hr
    · simp at hr
    · simp only [CallOut.ran.injEq] at hr
      obtain ⟨e1, e2, e3⟩ := hr
      exact ⟨e1.symm, e3.symm, fun key => by rw [← e2]; exact C12_call_args ctxVal d key⟩

/-- **Data that fits the function's parameters is delivered unchanged; data that does not fit never runs the function**:
the handler's keyword arguments go through python's binding – a missing required parameter or an unknown keyword
without `**kwargs` is a (logged) `TypeError`, everything else reaches the function as given. -/
theorem C12_bind (sigs : List (Nat × Sig)) (s : Sig) (g : Nat) (kw : Kw) (rr : Bool) (hs : aget g sigs = some s) :
    (bindOK s kw = false → bound sigs (.ran g kw rr) = .bindError) ∧
    (bindOK s kw = true → (rr = false ∨ answerIsDict kw = true) → bound sigs (.ran g kw rr) = .ran g kw rr) ∧
    (bindOK s kw = true ↔ (∀ p ∈ s.required, (aget p kw).isSome = true) ∧ (s.extra = true ∨ ∀ q ∈ kw, q.1 ∈ s.params)) := by
  refine ⟨fun h => by simp [bound, hs, h], fun h hr => ?_, ?_⟩
  · rcases hr with hr | hr <;> simp [bound, hs, h, hr]
  · simp [bindOK, List.all_eq_true]

/-- **The control tables of the three call forms, as extracted** (tie of `controlTable`, which is built from the rows the
extractor reads off the `for keyword, typ, default in [...]` loops of `Function.service_call`, `Function.get` and
`State.get`): `context` / `blocking` / `return_response` with their types, and – entity-method form only – a numeric
`limit` (C12-F7: Home Assistant has no such parameter any more). -/
theorem C12_control_tables (e : Entry) :
    controlTable e = [("context", [.context]), ("blocking", [.bool]), ("return_response", [.bool])] ++
      (if e = .entityMethod then [("limit", [.float, .int])] else []) := by
  cases e <;> decide

/-- **Outgoing calls deliver exactly the given keyword parameters**: with distinct keywords and no task context, the
service data of `service.call` / `domain.service()` / `domain.entity.service()` is every keyword that is not a call
control of the right type, in the given order (decision logic over the control table of the entry point); an entity
method then adds its `entity_id`. -/
theorem C12_call_split (e : Entry) (entity : String) (kwargs : List Arg) (hn : (kwargs.map (·.key)).Nodup) :
    (splitCall e none kwargs).2 = kwargs.filter (fun a => !isControl e a) ∧
    callData e entity (splitCall e none kwargs).2 = sData e entity kwargs := by
  have nodup_filter : ∀ (p : Arg → Bool) (l : List Arg), (l.map (·.key)).Nodup → ((l.filter p).map (·.key)).Nodup :=
    fun p l h => List.Nodup.sublist (List.Sublist.map _ List.filter_sublist) h
  have one : ∀ (row : String × List Ty) (acc : List Arg × List Arg), (acc.2.map (·.key)).Nodup →
      (splitOne none row acc).2 = acc.2.filter (fun a => !(a.key == row.1 && row.2.contains a.ty)) := by
    intro row acc h
    rw [← splitOne_data row acc.2 h]
    unfold splitOne
    cases findArg row.1 acc.2 with
    | none => rfl
    | some a =>
      by_cases ht : row.2.contains a.ty = true
      · simp only [ht, if_true]
      · simp only [ht, Bool.false_eq_true, if_false]
  have rows : ∀ (tbl : List (String × List Ty)) (acc : List Arg × List Arg), (acc.2.map (·.key)).Nodup →
      (tbl.foldl (fun acc row => splitOne none row acc) acc).2
        = acc.2.filter (fun a => tbl.all (fun row => !(a.key == row.1 && row.2.contains a.ty))) := by
    intro tbl
    induction tbl with
    | nil => intro acc _; exact (List.filter_eq_self.mpr (fun _ _ => rfl)).symm
    | cons row rest ih =>
      intro acc h
      simp only [List.foldl_cons]
      rw [ih _ (by rw [one row acc h]; exact nodup_filter _ _ h), one row acc h, List.filter_filter]
      apply List.filter_congr
      intro a _
      simp only [List.all_cons]
      exact Bool.and_comm _ _
  have bd : ∀ (x y : String), (x == y) = decide (x = y) := by
    intro x y; by_cases h : x = y <;> simp [h]
  have key : (splitCall e none kwargs).2 = kwargs.filter (fun a => !isControl e a) := by
    unfold splitCall
    rw [rows _ _ hn]
    apply List.filter_congr
    intro a _
    rw [C12_control_tables]
    cases e <;> cases hty : a.ty <;>
      simp [isControl, hty, Bool.and_comm, bd]
  refine ⟨key, ?_⟩
  rw [key]
  unfold callData sData
  by_cases he : e = .entityMethod
  · simp only [he, if_true, List.filter_filter]
    congr 1
    apply List.filter_congr
    intro a _
    exact Bool.and_comm _ _
  · simp [he]

/-! ## where the code leaves the property today (recorded findings; each sequence is replayed on the real code) -/

def s1 : Svc := "pyscript.s1"
def s2 : Svc := "pyscript.s2"

/-- **F1 (design #25), both subsystems**: two live functions declare `s1`; the later one is deleted: the service stays
registered with the *deleted* function's handler – the most recent live definition is `1`. -/
theorem C12_latest_cex :
    let ops := [Op.define "a" (some "opA") "f" 1 [(s1, .none)], .define "a" (some "opA") "g" 2 [(s1, .none)], .delete "a" "g"]
    aget s1 (run legacyCfg {} ops).reg.handler = some ⟨2, .none⟩ ∧
    aget s1 (run newCfg {} ops).reg.handler = some ⟨2, .none⟩ ∧
    sHandler (sRun [] ops) s1 = some ⟨1, .none⟩ := by decide

/-- **What Home Assistant holds is what the key-indexed tables say** (both subsystems as they are now): Home Assistant
files a service under its lower-cased name; since `service_register` / `service_remove` build their key from the
lower-cased name too (`Cfg.foldCase`, read off the source), after EVERY operation sequence Home Assistant's own table
equals the `handler` table all the theorems above speak about – whatever the letter case of the declared names. -/
theorem C12_ha_agrees (cfg : Cfg) (hf : cfg.foldCase = true) (ops : List Op) :
    (run cfg {} ops).reg.ha = (run cfg {} ops).reg.handler :=
  (run_hl cfg hf ops {} hl_init).1

theorem C12_ha_agrees_now (ops : List Op) :
    (run legacyCfg {} ops).reg.ha = (run legacyCfg {} ops).reg.handler ∧
    (run newCfg {} ops).reg.ha = (run newCfg {} ops).reg.handler :=
  ⟨C12_ha_agrees legacyCfg (by decide) ops, C12_ha_agrees newCfg (by decide) ops⟩

/-- **F9 – regression witness (both subsystems)**: two live functions declare `pyscript.Case1` and `pyscript.case1`.
Before the repair the counts were kept per spelling: deleting `f` took `pyscript.Case1` to 0 and Home Assistant –
which knows only `pyscript.case1` – removed the service `g` still declares (count 1, handler view: definition 2, Home
Assistant: nothing).  With the lower-cased key the count is 2, then 1, and Home Assistant keeps definition 2. -/
theorem C12_regress_case_variant :
    let ops := [Op.define "a" (some "opA") "f" 1 [("pyscript.Case1", .none)],
                .define "a" (some "opA") "g" 2 [("pyscript.case1", .none)], .delete "a" "f"]
    (∀ cfg ∈ [caseSensitive legacyCfg, caseSensitive newCfg],
      aget "pyscript.case1" (run cfg {} ops).reg.ha = none ∧ cntOf (run cfg {} ops).reg "pyscript.case1" = 1 ∧
      aget "pyscript.case1" (run cfg {} ops).reg.handler = some ⟨2, .none⟩) ∧
    (∀ cfg ∈ [legacyCfg, newCfg],
      aget "pyscript.case1" (run cfg {} ops).reg.ha = some ⟨2, .none⟩ ∧ cntOf (run cfg {} ops).reg "pyscript.case1" = 1 ∧
      cntOf (run cfg {} (ops.take 2)).reg "pyscript.case1" = 2) ∧
    sHandler (sRun [] (ops.map lowOp)) "pyscript.case1" = some ⟨2, .none⟩ := by decide +kernel

/-- **F9b – regression witness (both subsystems)**: ONE function, redefined with another spelling of its service name:
the new definition is registered first (`pyscript.CASE1`, count 1), then the old function gives `pyscript.Case1` back –
count 0, and Home Assistant removed the freshly registered service.  Now both spellings share one count (2, then 1). -/
theorem C12_regress_case_variant_redefine :
    let ops := [Op.define "a" (some "opA") "f" 1 [("pyscript.Case1", .none)],
                .define "a" (some "opA") "f" 2 [("pyscript.CASE1", .optional)]]
    (∀ cfg ∈ [caseSensitive legacyCfg, caseSensitive newCfg],
      aget "pyscript.case1" (run cfg {} ops).reg.ha = none ∧ cntOf (run cfg {} ops).reg "pyscript.CASE1" = 1) ∧
    (∀ cfg ∈ [legacyCfg, newCfg],
      aget "pyscript.case1" (run cfg {} ops).reg.ha = some ⟨2, .optional⟩ ∧ cntOf (run cfg {} ops).reg "pyscript.case1" = 1) ∧
    sHandler (sRun [] (ops.map lowOp)) "pyscript.case1" = some ⟨2, .optional⟩ := by decide +kernel

/-- **F9 – the ownership side**: before the repair another global context could declare another spelling of a name it
does not own and silently take the Home Assistant service over; now it is refused like the name itself. -/
theorem C12_regress_case_variant_owner :
    let ops := [Op.define "a" (some "opA") "f" 1 [("pyscript.Case1", .none)],
                .define "b" (some "opA") "g" 2 [("pyscript.CASE1", .none)]]
    (∀ cfg ∈ [caseSensitive legacyCfg, caseSensitive newCfg], aget "pyscript.case1" (run cfg {} ops).reg.ha = some ⟨2, .none⟩) ∧
    (∀ cfg ∈ [legacyCfg, newCfg], aget "pyscript.case1" (run cfg {} ops).reg.ha = some ⟨1, .none⟩ ∧
      aget "pyscript.case1" (run cfg {} ops).reg.owner = some ⟨"a", none⟩) := by decide +kernel

/-- **Everything proved about `run` holds behind the built-in name test**: the test only decides which operation the
machine sees (a definition with fewer names, or the mere loss of the old function object), so the invariants, counts,
ownership and the agreement with Home Assistant's table carry over to `runB` for every switch setting and sequence. -/
theorem C12_builtin_filter (cfg : Cfg) (ops : List Op) (k : Svc) :
    runB cfg {} ops = run cfg {} (ops.map (admitOp cfg)) ∧
    (registered (runB cfg {} ops).reg k = true ↔ cntOf (runB cfg {} ops).reg k > 0) ∧
    (runB cfg {} ops).reg.underflow = false ∧
    (cfg.foldCase = true → (runB cfg {} ops).reg.ha = (runB cfg {} ops).reg.handler) :=
  ⟨rfl, (C12_count_inv cfg (ops.map (admitOp cfg)) k).1, C12_remove_safe cfg (ops.map (admitOp cfg)),
   fun hf => C12_ha_agrees cfg hf (ops.map (admitOp cfg))⟩

/-- **Any spelling of a built-in name is refused today** (decision logic of the test, both subsystems): the machine
never sees a declaration whose service part lower-cases to `reload` / `jupyter_kernel_start`. -/
theorem C12_builtin_refused (cfg : Cfg) (hf : cfg.foldBuiltin = true) (ctx : String) (fn : Option String) (var : String)
    (gen : Nat) (decl : List (Svc × Resp)) :
    match admitOp cfg (.define ctx fn var gen decl) with
    | .define _ _ _ _ d => ∀ x ∈ d, lower (svcPart x.1) ∉ BUILTIN_SERVICES
    | .delete c v => c = ctx ∧ v = var ∧ ∃ x ∈ decl, lower (svcPart x.1) ∈ BUILTIN_SERVICES
    | _ => False := by
  unfold admitOp
  by_cases hr : cfg.rollback = true
  · simp only [hr, if_true]
    by_cases ha : decl.any (fun d => builtinHit cfg d.1) = true
    · simp only [ha, if_true]
      obtain ⟨x, hx, hh⟩ := List.any_eq_true.mp ha
      exact ⟨by simp, by simp, x, hx, by simpa [builtinHit, hf] using hh⟩
    · simp only [ha, Bool.false_eq_true, if_false]
      intro x hx
      have hn : builtinHit cfg x.1 = false := by
        cases hb : builtinHit cfg x.1
        · rfl
        · exact absurd (List.any_eq_true.mpr ⟨x, hx, hb⟩) ha
      simpa [builtinHit, hf] using hn
  · simp only [hr, Bool.false_eq_true, if_false]
    intro x hx
    have := mem_takeWhile_pred _ _ x hx
    simpa [builtinHit, hf] using this

/-- **F10 – regression witness (both subsystems)**: before the repair the test looked at the name as written:
`@service('pyscript.Reload')` passed, and Home Assistant – which lower-cases – filed the script function under
`pyscript.reload`, the key of pyscript's own reload service (replaced; and removed with the function: the count goes
1 → 0).  Today every spelling is refused: nothing of the script's is ever filed under that key; a function that names
other services too keeps those declared before the offending name (legacy) or none at all (new). -/
theorem C12_regress_builtin_case :
    let d1 := Op.define "a" (some "opA") "f" 1 [("pyscript.Reload", .none)]
    let d2 := Op.define "a" (some "opA") "g" 2 [("pyscript.s1", .none), ("test.RELOAD", .none), ("pyscript.s2", .none)]
    (∀ cfg ∈ [builtinAsWritten legacyCfg, builtinAsWritten newCfg],
      aget "pyscript.reload" (runB cfg {} [d1]).reg.ha = some ⟨1, .none⟩ ∧
      cntOf (runB cfg {} [d1]).reg "pyscript.reload" = 1 ∧ cntOf (runB cfg {} [d1, .delete "a" "f"]).reg "pyscript.reload" = 0) ∧
    (∀ cfg ∈ [legacyCfg, newCfg],
      aget "pyscript.reload" (runB cfg {} [d1]).reg.ha = none ∧ cntOf (runB cfg {} [d1]).reg "pyscript.reload" = 0 ∧
      aget "test.reload" (runB cfg {} [d2]).reg.ha = none ∧ aget "pyscript.s2" (runB cfg {} [d2]).reg.ha = none) ∧
    aget "pyscript.s1" (runB legacyCfg {} [d2]).reg.ha = some ⟨2, .none⟩ ∧
    aget "pyscript.s1" (runB newCfg {} [d2]).reg.ha = none ∧
    admitOp legacyCfg (.define "a" none "f" 1 [("pyscript.reload", .none)]) = .define "a" none "f" 1 [] ∧
    admitOp newCfg (.define "a" none "f" 1 [("pyscript.jupyter_kernel_start", .none)]) = .delete "a" "f" := by decide +kernel

/-- **F2 – regression witness (legacy)**: before the repair a function that named the same service twice registered it
twice but remembered it once (`trigger_service` is a set): deleting the function left the service registered – count 1,
no holder.  With the repair (`legacyCfg`) the second mention is skipped and nothing is left. -/
theorem C12_duplicate_regress :
    let ops := [Op.define "a" none "f" 1 [(s1, .none), (s1, .none)], .delete "a" "f"]
    registered (run legacyPreFix {} ops).reg s1 = true ∧ (run legacyPreFix {} ops).holders.length = 0 ∧
    cntOf (run legacyPreFix {} ops).reg s1 = 1 ∧
    registered (run legacyCfg {} ops).reg s1 = false ∧ cntOf (run legacyCfg {} ops).reg s1 = 0 ∧
    registered (run newCfg {} (ops ++ [.start "a" []])).reg s1 = false ∧ sRegistered (sRun [] ops) s1 = false := by decide

/-- **F3 – regression witness (new)**: before the repair a service defined at file level and redefined at run time inside
a function was registered under the evaluator's name `a.opA`, refused because `a` owns it, and un-registered when the old
function object went – although the new function is live and declares it.  With the repair (`newCfg`) the redefinition
is accepted and Home Assistant calls the new definition. -/
theorem C12_evaluator_owner_regress :
    let ops := [Op.define "a" none "f" 1 [(s1, .none)], .start "a" [1], .define "a" (some "opA") "f" 2 [(s1, .none)]]
    registered (run newPreFix {} ops).reg s1 = false ∧ sHandler (sRun [] ops) s1 = some ⟨2, .none⟩ ∧
    aget s1 (run newCfg {} ops).reg.handler = some ⟨2, .none⟩ ∧
    aget s1 (run legacyCfg {} ops).reg.handler = some ⟨2, .none⟩ := by decide

/-- **F4 – regression witness (new)**: before the repair, when a file defined the same function twice, the manager of the
first (dead) definition was still started by `GlobalContext.start()`; deleting the function afterwards left the service
registered.  With the repair the dead manager is discarded: only the live definition is started (the old schedule
`[1, 2]` is not admitted any more) and nothing is left after the delete. -/
theorem C12_regress_redefined_at_load :
    let defs := [Op.define "a" none "f" 1 [(s1, .none)], .define "a" none "f" 2 [(s1, .none)]]
    let old := defs ++ [.start "a" [1, 2], .delete "a" "f"]
    let now := defs ++ [.start "a" [2], .delete "a" "f"]
    registered (run newPreFix {} old).reg s1 = true ∧ (run newPreFix {} old).inadm = false ∧
    sRegistered (sRun [] old) s1 = false ∧
    (run newCfg {} old).inadm = true ∧
    registered (run newCfg {} now).reg s1 = false ∧ (run newCfg {} now).inadm = false ∧
    cntOf (run newCfg {} (defs ++ [.start "a" [2]])).reg s1 = 1 ∧
    registered (run legacyCfg {} old).reg s1 = false := by decide

/-- **F5 – regression witness (new)**: before the repair two functions of one file declaring the same service were
started in set order – when the older one happened to start last (`[2, 1]`), Home Assistant called the older definition.
With the repair that schedule is not admitted; in definition order the most recent definition is called. -/
theorem C12_regress_start_order :
    let defs := [Op.define "a" none "f" 1 [(s1, .optional)], .define "a" none "g" 2 [(s1, .only)]]
    aget s1 (run newPreFix {} (defs ++ [.start "a" [2, 1]])).reg.handler = some ⟨1, .optional⟩ ∧
    (run newPreFix {} (defs ++ [.start "a" [2, 1]])).inadm = false ∧
    sHandler (sRun [] (defs ++ [.start "a" [2, 1]])) s1 = some ⟨2, .only⟩ ∧
    (run newCfg {} (defs ++ [.start "a" [2, 1]])).inadm = true ∧
    aget s1 (run newCfg {} (defs ++ [.start "a" [1, 2]])).reg.handler = some ⟨2, .only⟩ ∧
    (run newCfg {} (defs ++ [.start "a" [1, 2]])).inadm = false := by decide

/-- **F5b (open), new – what the definition-order repair leaves**: the start tasks of the managers run concurrently and a
manager awaits between its decorators; an earlier function that declares the shared service as its *second* decorator
may register it after the later function did (`[1, 2, 1]` is admitted: the managers *begin* in definition order) – Home
Assistant then calls the older definition. -/
theorem C12_start_interleave_cex :
    let ops := [Op.define "a" none "f" 1 [("test.s3", .none), (s1, .optional)], .define "a" none "g" 2 [(s1, .only)],
                .start "a" [1, 2, 1]]
    aget s1 (run newCfg {} ops).reg.handler = some ⟨1, .optional⟩ ∧ (run newCfg {} ops).inadm = false ∧
    sHandler (sRun [] ops) s1 = some ⟨2, .only⟩ := by decide

/-- **F6, both**: a function declares a name owned by another context and a free name: the refusal aborts (legacy, when
the refused name comes first) or rolls back (new) the free name too. -/
theorem C12_refusal_cex :
    let pre := [Op.define "a" none "f" 1 [(s1, .none)], .start "a" [1]]
    let l := pre ++ [.define "b" none "g" 2 [(s1, .none), (s2, .none)]]
    let n := pre ++ [.define "b" (some "opA") "g" 2 [(s2, .none), (s1, .none)]]
    registered (run legacyCfg {} l).reg s2 = false ∧ sHandler (sRun [] l) s2 = some ⟨2, .none⟩ ∧
    registered (run newCfg {} n).reg s2 = false ∧ sHandler (sRun [] n) s2 = some ⟨2, .none⟩ ∧
    aget s1 (run legacyCfg {} l).reg.handler = some ⟨1, .none⟩ ∧ aget s1 (run newCfg {} n).reg.handler = some ⟨1, .none⟩ := by
  decide

/-- **F11 – regression witness (legacy)**: context `b` declares `s2` (free) and `s1` (owned by `a`) on one function: `s2`
is registered, the refusal of `s1` aborts `trigger_init`.  Before the repair the function was then unknown to its
context's trigger registry, so unloading `b` released nothing: `s2` stayed registered (count 1, owner `b`, the handler
of the dead definition 2) with a holder no variable refers to – for ever.  Now the context knows the function from
its first registration on: the unload releases `s2`.  (`del g` released correctly before and after.) -/
theorem C12_regress_unload_after_refusal :
    let ops := [Op.define "a" none "f" 1 [(s1, .none)], .define "b" none "g" 2 [(s2, .none), (s1, .none)], .unload "b"]
    let del := [Op.define "a" none "f" 1 [(s1, .none)], .define "b" none "g" 2 [(s2, .none), (s1, .none)], .delete "b" "g"]
    aget s2 (run (registeredLate legacyCfg) {} ops).reg.handler = some ⟨2, .none⟩ ∧
    cntOf (run (registeredLate legacyCfg) {} ops).reg s2 = 1 ∧
    aget s2 (run (registeredLate legacyCfg) {} ops).reg.owner = some ⟨"b", none⟩ ∧
    (run (registeredLate legacyCfg) {} ops).holders.any (fun h => h.gen == 2 && !h.bound) = true ∧
    sRegistered (sRun [] ops) s2 = false ∧
    registered (run legacyCfg {} ops).reg s2 = false ∧ cntOf (run legacyCfg {} ops).reg s2 = 0 ∧
    (run legacyCfg {} ops).holders.length = 1 ∧
    registered (run (registeredLate legacyCfg) {} del).reg s2 = false ∧ registered (run legacyCfg {} del).reg s2 = false ∧
    aget s1 (run legacyCfg {} ops).reg.handler = some ⟨1, .none⟩ := by decide

/-! ## non-vacuity -/

/-- a clean history over two contexts in both subsystems: model and declaration spec agree on every service -/
example :
    let ops := [Op.define "a" none "f" 1 [(s1, .optional), (s2, .none)], .start "a" [1, 1],
                .define "b" none "f" 2 [(s1, .none)], .start "b" [2],
                .define "a" (some "opA") "g" 3 [("test.s3", .only)], .define "a" (some "opA") "g" 4 [("test.s3", .none)],
                .delete "a" "f", .unload "b", .define "a" (some "opA") "h" 5 [(s2, .only)]]
    (∀ cfg ∈ [legacyCfg, newCfg], ∀ k ∈ [s1, s2, "test.s3"],
      aget k (run cfg {} ops).reg.handler = sHandler (sRun [] ops) k) ∧
    aget "test.s3" (run newCfg {} ops).reg.handler = some ⟨4, .none⟩ ∧ (run newCfg {} ops).inadm = false := by decide

/-- the hypotheses of `C12_latest_after_define` are satisfiable (a run-time redefinition in the new subsystem) -/
example : (acquireAll newCfg (ownerFor newCfg "a" (some "opA")) 2
    (run newCfg {} [.define "a" (some "opA") "f" 1 [(s1, .none)]]).reg [(s1, .only)] []).ok = true := by decide

end PsModel.C12
