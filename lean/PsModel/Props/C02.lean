import PsModel.Lemmas.C02
import PsModel.Gen.Handlers
/-!
# C02 – property theorems: control flow and exception handling follow Python's paths

`PS` = the marker-passing evaluator of `eval.py` (as configured by `cfg`), `Py` = the reference outcome semantics.
Equality of `(result, World)` pairs means: same statements executed in the same order (the event log, which includes
every `__enter__`/`__exit__` with its exception info), same tape consumption, same returned value or propagated
exception (class and cause).  All theorems hold for EVERY fuel, nesting depth, subclass relation and tape.
-/
namespace PsModel.C02

deriving instance DecidableEq for Except

def toCall (r : Except Exc (Option Nat) × World) : Option (Except Exc (Option Nat)) × World := (some r.1, r.2)

/-- **Statement level, any cfg.**  On the fragment `confL cfg` the pyscript evaluator and Python agree on every
block, for every fuel / handled-exception context / world. -/
theorem C02_block_partial (cfg : Cfg) (sub : Nat → Nat → Bool) (n : Nat) (h : Option Exc) (ss : List Stmt) (w : World)
    (hok : HOk cfg h) (hc : confL cfg ss = true) : lift (PS.stmts cfg sub n h ss w) = Py.block sub n h ss w :=
  (agree_all cfg sub n).2.1 h ss w hok hc

/-- **Function level, any cfg.**  For function bodies that CPython's compiler accepts (no `break`/`continue` outside
a loop) and that lie in the fragment, calling the function gives the same log, the same returned value or the same
propagated exception. -/
theorem C02_call_partial (cfg : Cfg) (sub : Nat → Nat → Bool) (n : Nat) (body : List Stmt) (w : World)
    (hc : confL cfg body = true) (hs : freeJumpL body = false) :
    toCall (PS.bodyStmts cfg sub n body w) = Py.callBody sub n body w := by
  induction body generalizing w with
  | nil => simp [PS.bodyStmts, Py.callBody, toCall]
  | cons s ss ih =>
    simp only [confL, Bool.and_eq_true] at hc
    simp only [freeJumpL, Bool.or_eq_false_iff] at hs
    simp only [PS.bodyStmts, Py.callBody]
    have h1 := (agree_all cfg sub n).1 none s w (hok_none cfg) hc.1
    have hnj := (nj_all sub n).1 none s w hs.1
    simp only [lift] at h1
    rcases hps : PS.exec cfg sub n none s w with ⟨r, w'⟩
    rw [hps] at h1
    rw [← h1] at hnj ⊢
    rcases r with (_ | m) | e
    · simpa [Res.toOut] using ih w' hc.2 hs.2
    · cases m with
      | brk => simp [NoJumpOut, Res.toOut, Marker.toOut] at hnj
      | cont => simp [NoJumpOut, Res.toOut, Marker.toOut] at hnj
      | ret v => simp [Res.toOut, Marker.toOut, toCall]
    · simp [Res.toOut, toCall]

/-- the Python configuration: every deviation flag on -/
def Cfg.python : Cfg := { loopElsePropagates := true, withNested := true, catchesBase := true }

mutual
theorem confS_python (cfg : Cfg) (h1 : cfg.loopElsePropagates = true) (h2 : cfg.withNested = true)
    (h3 : cfg.catchesBase = true) : ∀ s, confS cfg s = true
  | .tick _ => by simp [confS]
  | .brk => by simp [confS]
  | .cont => by simp [confS]
  | .ret _ => by simp [confS]
  | .raise _ _ => by simp [confS, h3]
  | .reraise => by simp [confS]
  | .assert_ _ => by simp [confS]
  | .suspend _ => by simp [confS, h3]
  | .ite _ b o => by simp [confS, confL_python cfg h1 h2 h3 b, confL_python cfg h1 h2 h3 o]
  | .while_ _ b o => by simp [confS, confL_python cfg h1 h2 h3 b, confL_python cfg h1 h2 h3 o, h1]
  | .for_ _ b o => by simp [confS, confL_python cfg h1 h2 h3 b, confL_python cfg h1 h2 h3 o, h1]
  | .try_ b hs o f => by
      simp [confS, confL_python cfg h1 h2 h3 b, confH_python cfg h1 h2 h3 hs, confL_python cfg h1 h2 h3 o,
        confL_python cfg h1 h2 h3 f]
  | .with_ _ b => by simp [confS, confL_python cfg h1 h2 h3 b, withOk, h2, h3]
theorem confL_python (cfg : Cfg) (h1 : cfg.loopElsePropagates = true) (h2 : cfg.withNested = true)
    (h3 : cfg.catchesBase = true) : ∀ ss, confL cfg ss = true
  | [] => by simp [confL]
  | s :: ss => by simp [confL, confS_python cfg h1 h2 h3 s, confL_python cfg h1 h2 h3 ss]
theorem confH_python (cfg : Cfg) (h1 : cfg.loopElsePropagates = true) (h2 : cfg.withNested = true)
    (h3 : cfg.catchesBase = true) : ∀ hs, confH cfg hs = true
  | [] => by simp [confH]
  | .mk _ _ b :: hs => by simp [confH, confL_python cfg h1 h2 h3 b, confH_python cfg h1 h2 h3 hs, h3]
end

mutual
/-- no source of a BaseException-only exception: no `raise` of such a class, no suspension point (the task may be cancelled
there), no manager method / `except` type expression raising one -/
def quietS : Stmt → Bool
  | .raise c _ => !baseOnly c
  | .suspend _ => false
  | .ite _ b o => quietL b && quietL o
  | .while_ _ b o => quietL b && quietL o
  | .for_ _ b o => quietL b && quietL o
  | .try_ b hs o f => quietL b && quietH hs && quietL o && quietL f
  | .with_ items b => quietL b && items.all WItem.quiet
  | _ => true
def quietL : List Stmt → Bool
  | [] => true
  | s :: ss => quietS s && quietL ss
def quietH : List Handler → Bool
  | [] => true
  | .mk _ pre b :: hs => quietL b && pre.quiet && quietH hs
end

mutual
theorem confS_quiet (cfg : Cfg) (h1 : cfg.loopElsePropagates = true) (h2 : cfg.withNested = true) :
    ∀ s, quietS s = true → confS cfg s = true
  | .tick _, _ => by simp [confS]
  | .brk, _ => by simp [confS]
  | .cont, _ => by simp [confS]
  | .ret _, _ => by simp [confS]
  | .raise _ _, hq => by simp only [quietS] at hq; simp [confS, hq]
  | .reraise, _ => by simp [confS]
  | .assert_ _, _ => by simp [confS]
  | .suspend _, hq => by simp [quietS] at hq
  | .ite _ b o, hq => by
      simp only [quietS, Bool.and_eq_true] at hq
      simp [confS, confL_quiet cfg h1 h2 b hq.1, confL_quiet cfg h1 h2 o hq.2]
  | .while_ _ b o, hq => by
      simp only [quietS, Bool.and_eq_true] at hq
      simp [confS, confL_quiet cfg h1 h2 b hq.1, confL_quiet cfg h1 h2 o hq.2, h1]
  | .for_ _ b o, hq => by
      simp only [quietS, Bool.and_eq_true] at hq
      simp [confS, confL_quiet cfg h1 h2 b hq.1, confL_quiet cfg h1 h2 o hq.2, h1]
  | .try_ b hs o f, hq => by
      simp only [quietS, Bool.and_eq_true] at hq
      simp [confS, confL_quiet cfg h1 h2 b hq.1.1.1, confH_quiet cfg h1 h2 hs hq.1.1.2, confL_quiet cfg h1 h2 o hq.1.2,
        confL_quiet cfg h1 h2 f hq.2]
  | .with_ items b, hq => by
      simp only [quietS, Bool.and_eq_true] at hq
      simp only [confS, confL_quiet cfg h1 h2 b hq.1, withOk, h2, hq.2, Bool.or_true, Bool.true_or, Bool.and_self]
theorem confL_quiet (cfg : Cfg) (h1 : cfg.loopElsePropagates = true) (h2 : cfg.withNested = true) :
    ∀ ss, quietL ss = true → confL cfg ss = true
  | [], _ => by simp [confL]
  | s :: ss, hq => by
      simp only [quietL, Bool.and_eq_true] at hq
      simp [confL, confS_quiet cfg h1 h2 s hq.1, confL_quiet cfg h1 h2 ss hq.2]
theorem confH_quiet (cfg : Cfg) (h1 : cfg.loopElsePropagates = true) (h2 : cfg.withNested = true) :
    ∀ hs, quietH hs = true → confH cfg hs = true
  | [], _ => by simp [confH]
  | .mk _ _ b :: hs, hq => by
      simp only [quietH, Bool.and_eq_true] at hq
      simp [confH, confL_quiet cfg h1 h2 b hq.1.1, hq.1.2, confH_quiet cfg h1 h2 hs hq.2]
end

/-- **Full statement** for the repaired handlers: with both deviation flags on, every program CPython accepts is
executed exactly as Python executes it (no fragment hypothesis left). -/
theorem C02_full (sub : Nat → Nat → Bool) (n : Nat) (body : List Stmt) (w : World) (hs : freeJumpL body = false) :
    toCall (PS.bodyStmts Cfg.python sub n body w) = Py.callBody sub n body w :=
  C02_call_partial Cfg.python sub n body w (confL_python Cfg.python rfl rfl rfl body) hs

/-- **Today's code** (`Current.cfg`: after the `fix:` commits the loop-else and `with` handlers have their Python shape; what
is left is `except Exception` in `ast_try` / `with_items`, finding C02-F4): every function body that CPython's compiler
accepts and that has no source of a BaseException-only exception (`quietL`) is executed exactly as Python executes it. -/
theorem C02_current (sub : Nat → Nat → Bool) (n : Nat) (body : List Stmt) (w : World) (hq : quietL body = true)
    (hs : freeJumpL body = false) :
    toCall (PS.bodyStmts Current.cfg sub n body w) = Py.callBody sub n body w :=
  C02_call_partial Current.cfg sub n body w (confL_quiet Current.cfg rfl rfl body hq) hs

/-! ### the `finally` clause runs for EVERY way out of the try statement (all programs, all fuel)

`PS.tryPart` is the body / `except` clauses / `else` part of `ast_try` (what sits inside Python's own `try … finally:` there).
Its result may be: nothing, a stop-flow marker, an exception of an ordinary class, or an exception of a BaseException-only
class (task cancellation at a suspension point, SystemExit, …) – the latter passes every `except` clause (C02-F4) but
NOT the `finally` clause. -/

/-- the try/except/else part of `ast_try` -/
def PS.tryPart (cfg : Cfg) (sub : Nat → Nat → Bool) (n : Nat) (h : Option Exc) (b : List Stmt) (hs : List Handler)
    (o : List Stmt) (w : World) : Res × World :=
  match PS.stmts cfg sub n h b w with
  | (.exc e, w1) =>
    if skipsHandlers cfg e then (.exc e, w1) else
    match selectHandler sub e hs w1 with
    | (.found hb, w2) => PS.stmts cfg sub n (some e) hb w2
    | (.notFound, w2) => (.exc e, w2)
    | (.raised e2, w2) => (.exc e2, w2)
  | (.ok (some m), w1) => (.ok (some m), w1)
  | (.ok none, w1) => PS.stmts cfg sub n h o w1

/-- the same part in the reference semantics -/
def Py.tryPart (sub : Nat → Nat → Bool) (n : Nat) (h : Option Exc) (b : List Stmt) (hs : List Handler)
    (o : List Stmt) (w : World) : Out × World :=
  match Py.block sub n h b w with
  | (.raise e, w1) =>
    match selectHandler sub e hs w1 with
    | (.found hb, w2) => Py.block sub n (some e) hb w2
    | (.notFound, w2) => (.raise e, w2)
    | (.raised e2, w2) => (.raise e2, w2)
  | (.normal, w1) => Py.block sub n h o w1
  | r => r

theorem stmts_nil (cfg : Cfg) (sub : Nat → Nat → Bool) (n : Nat) (h : Option Exc) (w : World) :
    PS.stmts cfg sub n h [] w = (.ok none, w) := by
  cases n <;> simp [PS.stmts]

/-- **`finally` runs for every outcome (pyscript).**  Whatever the try/except/else part produced – `r` ranges over ALL
results: fall-through, break / continue / return markers, exceptions of ordinary AND of BaseException-only classes – the
final body is executed next, in the world that part left, and its completion is combined with the pending result by
`PS.finish` (a marker or exception of the final body replaces the pending one, otherwise the pending one stands). -/
theorem C02_finally_every_outcome (cfg : Cfg) (sub : Nat → Nat → Bool) (n : Nat) (h : Option Exc) (b : List Stmt)
    (hs : List Handler) (o f : List Stmt) (w : World) :
    PS.exec cfg sub (n + 1) h (.try_ b hs o f) w =
      PS.finish (PS.tryPart cfg sub n h b hs o w).1
        (PS.stmts cfg sub n (PS.handlingIn (PS.tryPart cfg sub n h b hs o w).1 h) f (PS.tryPart cfg sub n h b hs o w).2) := by
  simp only [PS.exec, PS.tryPart]
  rfl

/-- `PS.tryPart` is not an artefact of the statement above: it is the try statement with its `finally` clause removed -/
theorem C02_try_part_is_try_without_finally (cfg : Cfg) (sub : Nat → Nat → Bool) (n : Nat) (h : Option Exc) (b : List Stmt)
    (hs : List Handler) (o : List Stmt) (w : World) :
    PS.exec cfg sub (n + 1) h (.try_ b hs o []) w = PS.tryPart cfg sub n h b hs o w := by
  rw [C02_finally_every_outcome, stmts_nil]
  rfl

/-- the first statement of a `finally` clause is executed (here a tracer: its event is appended to the log left by the
try/except/else part) for every result `r` of that part – there is no case distinction on `r` at all -/
theorem C02_finally_first_statement (cfg : Cfg) (sub : Nat → Nat → Bool) (k : Nat) (h : Option Exc) (b : List Stmt)
    (hs : List Handler) (o f : List Stmt) (i : Nat) (w : World) :
    PS.exec cfg sub (k + 3) h (.try_ b hs o (.tick i :: f)) w =
      PS.finish (PS.tryPart cfg sub (k + 2) h b hs o w).1
        (PS.stmts cfg sub (k + 1) (PS.handlingIn (PS.tryPart cfg sub (k + 2) h b hs o w).1 h) f
          ((PS.tryPart cfg sub (k + 2) h b hs o w).2.emit (.tick i))) := by
  rw [C02_finally_every_outcome]
  simp only [PS.stmts, PS.exec]

/-- **BaseException-only exceptions pass the `except` clauses (today, C02-F4) …** no clause expression is evaluated (the
world is the one the body left), the `else` clause is skipped -/
theorem C02_base_passes_handlers (cfg : Cfg) (hcb : cfg.catchesBase = false) (sub : Nat → Nat → Bool) (n : Nat)
    (h : Option Exc) (b : List Stmt) (hs : List Handler) (o : List Stmt) (w w1 : World) (e : Exc)
    (hb : PS.stmts cfg sub n h b w = (.exc e, w1)) (hbase : baseOnly e.cls = true) :
    PS.tryPart cfg sub n h b hs o w = (.exc e, w1) := by
  simp [PS.tryPart, hb, skipsHandlers, hcb, hbase]

/-- **… but not the `finally` clause**: the final body runs with that exception pending (a bare `raise` in it re-raises it,
a `return` / `break` / `continue` in it replaces it) -/
theorem C02_base_runs_finally (cfg : Cfg) (hcb : cfg.catchesBase = false) (sub : Nat → Nat → Bool) (n : Nat)
    (h : Option Exc) (b : List Stmt) (hs : List Handler) (o f : List Stmt) (w w1 : World) (e : Exc)
    (hb : PS.stmts cfg sub n h b w = (.exc e, w1)) (hbase : baseOnly e.cls = true) :
    PS.exec cfg sub (n + 1) h (.try_ b hs o f) w = PS.finish (.exc e) (PS.stmts cfg sub n (some e) f w1) := by
  rw [C02_finally_every_outcome, C02_base_passes_handlers cfg hcb sub n h b hs o w w1 e hb hbase]
  rfl

/-- the reference semantics has the same law (so "the clause runs" means the same thing on both sides) -/
theorem C02_py_finally_every_outcome (sub : Nat → Nat → Bool) (n : Nat) (h : Option Exc) (b : List Stmt)
    (hs : List Handler) (o f : List Stmt) (w : World) :
    Py.exec sub (n + 1) h (.try_ b hs o f) w =
      Py.finish (Py.tryPart sub n h b hs o w).1
        (Py.block sub n (Py.handlingIn (Py.tryPart sub n h b hs o w).1 h) f (Py.tryPart sub n h b hs o w).2) := by
  simp only [Py.exec, Py.tryPart]
  rfl

/-- a manager is exited when a BaseException-only exception leaves its block, but (today, C02-F4) `__exit__` is called
with `(None, None, None)` and what it returns is ignored; an exception raised by `__exit__` replaces the pending one -/
theorem C02_base_exit_without_info (cfg : Cfg) (hcb : cfg.catchesBase = false) (m : WItem) (e : Exc) (w : World)
    (hbase : baseOnly e.cls = true) :
    PS.withFinish cfg [m] (.exc e, w) =
      ((match m.exitRaises with | some c => .exc { cls := c } | none => .exc e), w.emit (.exit m.id none)) := by
  cases hx : m.exitRaises <;> simp [PS.withFinish, skipsHandlers, hcb, hbase, PS.exitAll, hx]

/-- the class lattice of the witnesses: 0 = `Exception` (every class that is not BaseException-only), else equality -/
def pySub : Nat → Nat → Bool := fun a b => a == b || (b == 0 && !baseOnly a)

def outcomeCls : Except Exc (Option Nat) → Option Nat
  | .error e => some e.cls
  | .ok _ => none

/-- a task cancelled while it is suspended inside nested try statements inside a loop: both `finally` clauses run (7, 8),
the handler and the `else` clause do not (5, 6), the loop ends, `CancelledError` propagates – exactly as in Python -/
def cancelNested : List Stmt :=
  [.for_ 1 [.try_ [.try_ [.tick 2, .suspend 3, .tick 4] [.mk (some [0]) .plain [.tick 5]] [.tick 6] [.tick 7]] [] [] [.tick 8]] [],
   .tick 9]
theorem C02_cancel_runs_every_finally :
    (PS.bodyStmts Current.cfg pySub 20 cancelNested { tape := [3, 2] }).2.log = [.tick 1, .tick 2, .tick 3, .tick 7, .tick 8] ∧
    outcomeCls (PS.bodyStmts Current.cfg pySub 20 cancelNested { tape := [3, 2] }).1 = some cancelledError ∧
    toCall (PS.bodyStmts Current.cfg pySub 20 cancelNested { tape := [3, 2] }) = Py.callBody pySub 20 cancelNested { tape := [3, 2] } := by
  decide

/-- non-vacuity of `C02_base_passes_handlers` / `C02_base_runs_finally`: a body that ends in a BaseException-only exception -/
example : PS.stmts Current.cfg pySub 5 none [.tick 2, .suspend 3, .tick 4] { tape := [2] }
    = (.exc { cls := cancelledError }, { log := [.tick 2, .tick 3], tape := [] }) ∧ baseOnly cancelledError = true := by decide

/-- `continue` / `return` in a `finally` clause replaces a pending cancellation (as in Python) -/
def cancelReplaced : List Stmt :=
  [.for_ 1 [.try_ [.suspend 2] [] [] [.tick 3, .cont]] [], .try_ [.suspend 4] [] [] [.ret 5]]
theorem C02_jump_in_finally_replaces_cancellation :
    (PS.bodyStmts Current.cfg pySub 20 cancelReplaced { tape := [2, 2, 2, 2] }).2.log
      = [.tick 1, .tick 2, .tick 3, .tick 2, .tick 3, .tick 4] ∧
    toCall (PS.bodyStmts Current.cfg pySub 20 cancelReplaced { tape := [2, 2, 2, 2] })
      = (some (.ok (some 5)), { log := [.tick 1, .tick 2, .tick 3, .tick 2, .tick 3, .tick 4], tape := [] }) ∧
    toCall (PS.bodyStmts Current.cfg pySub 20 cancelReplaced { tape := [2, 2, 2, 2] })
      = Py.callBody pySub 20 cancelReplaced { tape := [2, 2, 2, 2] } := by
  decide

/-! ### C02-F4 (open): what `except Exception` inside the interpreter costs -/

/-- `try: raise B0() except B0: T(1)` – Python catches, pyscript lets it pass -/
def cexBaseHandler : List Stmt := [.try_ [.raise 200 none] [.mk (some [200]) .plain [.tick 1]] [] [.tick 2]]
theorem C02_cex_baseexception_handler :
    (PS.bodyStmts Current.cfg pySub 20 cexBaseHandler {}).2.log = [.tick 2] ∧
    outcomeCls (PS.bodyStmts Current.cfg pySub 20 cexBaseHandler {}).1 = some 200 ∧
    (Py.callBody pySub 20 cexBaseHandler {}).2.log = [.tick 1, .tick 2] := by decide

/-- `with CM(suppress=True): raise B0()` – Python's `__exit__` sees the exception and suppresses it; pyscript calls
`__exit__(None, None, None)` and the exception propagates -/
def cexBaseExit : List Stmt := [.with_ [{ id := 1, suppress := true }] [.raise 200 none], .tick 2]
theorem C02_cex_baseexception_exit :
    (PS.bodyStmts Current.cfg pySub 20 cexBaseExit {}).2.log = [.init 1, .enter 1, .exit 1 none] ∧
    (Py.callBody pySub 20 cexBaseExit {}).2.log = [.init 1, .enter 1, .exit 1 (some 200), .tick 2] := by decide

/-- with `catchesBase` on (the Python configuration) both witnesses agree with the reference – covered by `C02_full` -/
example : toCall (PS.bodyStmts Cfg.python pySub 20 cexBaseHandler {}) = Py.callBody pySub 20 cexBaseHandler {} ∧
    toCall (PS.bodyStmts Cfg.python pySub 20 cexBaseExit {}) = Py.callBody pySub 20 cexBaseExit {} := by decide

/-! ### a pending `return <value>` belongs to the activation that executed it -/

/-- **Return values are per activation.**  With one fresh `EvalReturn` object per execution of a return statement (today's
`ast_return`), for EVERY interleaving of activations of a function – recursion from a finally clause / `__exit__`, other
tasks running the same function while this one is suspended with its return pending – each `EvalFunc.call` returns the
value of the return statement that its own activation executed last. -/
theorem C02_return_value_per_activation (evs : List MEv) : MStore.run .fresh evs = RetSpec.run evs :=
  (minv_run evs {} {} ⟨rfl, by intro a i h; simp at h, by intro a; simp [MStore.valOf]⟩).1


/-- non-vacuity / regression witness: with ONE marker object cached per `ast.Return` node the second activation overwrites
the first one's pending value (and, when the consumer clears it, leaves None behind) -/
def twoPending : List MEv := [.ret 1 0 1007, .ret 2 0 2007, .take 1, .take 2]
theorem C02_regress_shared_return_marker :
    MStore.run .fresh twoPending = [(1, some 1007), (2, some 2007)] ∧
    MStore.run (.perNode true) twoPending = [(1, some 2007), (2, none)] ∧
    MStore.run (.perNode false) [.ret 2 0 20, .ret 1 0 10, .take 1, .take 2] = [(1, some 10), (2, some 10)] := by decide

/-- the handlers as they were before the `fix:` commits: agreement only without a jump in a loop's `else` clause and
with single-manager `with` statements whose `__enter__` does not raise -/
theorem C02_prefix_partial (sub : Nat → Nat → Bool) (n : Nat) (body : List Stmt) (w : World)
    (hc : confL Cfg.preFix body = true) (hs : freeJumpL body = false) :
    toCall (PS.bodyStmts Cfg.preFix sub n body w) = Py.callBody sub n body w :=
  C02_call_partial Cfg.preFix sub n body w hc hs

/-- **No marker leaks.**  For accepted bodies a break/continue marker never reaches the function boundary. -/
theorem C02_marker_inv (sub : Nat → Nat → Bool) (n : Nat) (body : List Stmt) (w : World)
    (hs : freeJumpL body = false) : (Py.callBody sub n body w).1 ≠ none := by
  induction body generalizing w with
  | nil => simp [Py.callBody]
  | cons s ss ih =>
    simp only [freeJumpL, Bool.or_eq_false_iff] at hs
    simp only [Py.callBody]
    have hnj := (nj_all sub n).1 none s w hs.1
    rcases hps : Py.exec sub n none s w with ⟨o, w'⟩
    rw [hps] at hnj
    cases o with
    | normal => exact ih w' hs.2
    | brk => simp [NoJumpOut] at hnj
    | cont => simp [NoJumpOut] at hnj
    | ret v => simp
    | raise e => simp

/-! ### regression witnesses: the handler shapes removed by the `fix:` commits (`Cfg.preFix`) still deviate -/

def eqSub : Nat → Nat → Bool := fun a b => a == b

/-- `while c: (while c': T(1) else: break); T(2)` – Python leaves the outer loop, pyscript drops the marker -/
def cexLoopElse : List Stmt := [.while_ 10 [.while_ 11 [.tick 1] [.brk], .tick 2] [], .tick 3]
theorem C02_regress_loop_else_break :
    (PS.bodyStmts Cfg.preFix eqSub 20 cexLoopElse { tape := [1, 0, 0] }).2.log ≠ (Py.callBody eqSub 20 cexLoopElse { tape := [1, 0, 0] }).2.log := by decide

/-- `with A, B: raise E` where B suppresses: Python's A sees no exception; pyscript hands the exception to both -/
def cexWithSuppress : List Stmt :=
  [.with_ [{ id := 1 }, { id := 2, suppress := true }] [.raise 7 none], .tick 3]
theorem C02_regress_with_inner_suppression :
    (PS.bodyStmts Cfg.preFix eqSub 20 cexWithSuppress {}).2.log ≠ (Py.callBody eqSub 20 cexWithSuppress {}).2.log := by decide

/-- `with A: …` where `A.__enter__` raises: Python does not call `__exit__`, pyscript does -/
def cexWithEnter : List Stmt := [.with_ [{ id := 1, enterRaises := some 7 }] [.tick 1]]
theorem C02_regress_with_failed_enter_exited :
    (PS.bodyStmts Cfg.preFix eqSub 20 cexWithEnter {}).2.log ≠ (Py.callBody eqSub 20 cexWithEnter {}).2.log := by decide

/-- `with A, B:` – pyscript evaluates both context expressions before entering A -/
def cexWithOrder : List Stmt := [.with_ [{ id := 1 }, { id := 2 }] [.tick 1]]
theorem C02_regress_with_two_managers_order :
    (PS.bodyStmts Cfg.preFix eqSub 20 cexWithOrder {}).2.log ≠ (Py.callBody eqSub 20 cexWithOrder {}).2.log := by decide

/-- a failing store to the `as` target happens inside the guarded region: the manager is exited with that exception and
may suppress it (`with A as (a, b): …` where `A.__enter__()` is not iterable) – the models agree on it by `C02_current`;
this is what it looks like -/
def withBindFails : List Stmt :=
  [.with_ [{ id := 1 }, { id := 2, suppress := true, bindRaises := some 102 }] [.tick 1], .tick 2]
theorem C02_with_bind_failure_is_guarded :
    (PS.bodyStmts Current.cfg eqSub 20 withBindFails {}).2.log
      = [.init 1, .enter 1, .init 2, .enter 2, .exit 2 (some 102), .exit 1 none, .tick 2] ∧
    (PS.bodyStmts Current.cfg eqSub 20 withBindFails {}).2.log = (Py.callBody eqSub 20 withBindFails {}).2.log := by decide

/-- `except` clauses are reached one by one: the type expression of the second clause (a tracer) is not evaluated when the
first clause matches, and a clause whose expression raises replaces the exception – both models agree (`C02_current`);
the `finally` block still runs -/
def lazyClauses : List Stmt :=
  [.try_ [.raise 11 none] [.mk (some [11]) (.tick 1) [.tick 2], .mk (some [12]) (.tick 3) [.tick 4]] [] [.tick 5],
   .try_ [.try_ [.raise 11 none] [.mk (some [12]) (.raises 6 12) [.tick 7], .mk (some [11]) .plain [.tick 8]] [] [.tick 9]]
         [.mk (some [12]) .plain [.tick 10]] [] []]
theorem C02_except_clauses_lazy :
    (PS.bodyStmts Current.cfg eqSub 20 lazyClauses {}).2.log = [.tick 1, .tick 2, .tick 5, .tick 6, .tick 9, .tick 10] ∧
    (PS.bodyStmts Current.cfg eqSub 20 lazyClauses {}).2.log = (Py.callBody eqSub 20 lazyClauses {}).2.log := by decide

/-- an `__exit__` that raises on the clean path is called once, its exception propagates (no second `__exit__` call, no
suppression of its own failure) -/
def exitRaisesClean : List Stmt :=
  [.try_ [.with_ [{ id := 1, suppress := true, exitRaises := some 12 }] [.tick 1], .tick 2] [.mk (some [12]) .plain [.tick 3]] [] []]
theorem C02_clean_exit_raising :
    (PS.bodyStmts Current.cfg eqSub 20 exitRaisesClean {}).2.log = [.init 1, .enter 1, .tick 1, .exit 1 none, .tick 3] ∧
    (PS.bodyStmts Current.cfg eqSub 20 exitRaisesClean {}).2.log = (Py.callBody eqSub 20 exitRaisesClean {}).2.log := by decide

/-- non-vacuity: a program using every construct lies in today's fragment and is accepted -/
def sample : List Stmt :=
  [.for_ 1 [.try_ [.ite 2 [.raise 5 (some 6)] [.cont], .tick 3] [.mk (some [5]) (.tick 40) [.tick 4, .reraise], .mk none .plain [.brk]]
              [.tick 5] [.tick 6, .assert_ 7]] [.tick 8],
   .with_ [{ id := 1, suppress := true }] [.while_ 9 [.ret 3] []], .ret 4]
example : confL Cfg.preFix sample = true ∧ freeJumpL sample = false ∧ quietL sample = true := by decide

/-- **Tie (translator).**  The statement handlers this model mirrors exist in the extracted source tree (dispatch in
`aeval` is by handler name). -/
theorem C02_handlers_present :
    ∀ h ∈ ["ast_if", "ast_for", "ast_while", "ast_try", "ast_raise", "ast_with", "ast_assert", "ast_break", "ast_continue",
           "ast_return", "ast_pass", "ast_expr", "ast_asyncfor", "ast_asyncwith"], h ∈ Gen.AST_HANDLERS := by decide

end PsModel.C02
