import PsModel.Lemmas.C02
import PsModel.Gen.Handlers
/-!
# C02 – property theorems: control flow and exception handling follow Python's paths

`PS` = the marker-passing evaluator of `eval.py` (as configured by `cfg`), `Py` = the reference outcome semantics.
Equality of `(result, World)` pairs means: same statements executed in the same order (the event log, which includes
every `__enter__`/`__exit__` with its exception info), same tape consumption, same returned value or propagated
exception (class and cause).  All theorems hold for EVERY fuel, nesting depth, subclass relation and tape.
-/
namespace PsModel.C02

def toCall (r : Except Exc (Option Nat) × World) : Option (Except Exc (Option Nat)) × World := (some r.1, r.2)

/-- **Statement level, any cfg.**  On the fragment `confL cfg` the pyscript evaluator and Python agree on every
block, for every fuel / handled-exception context / world. -/
theorem C02_block_partial (cfg : Cfg) (sub : Nat → Nat → Bool) (n : Nat) (h : Option Exc) (ss : List Stmt) (w : World)
    (hc : confL cfg ss = true) : lift (PS.stmts cfg sub n h ss w) = Py.block sub n h ss w :=
  (agree_all cfg sub n).2.1 h ss w hc

/-- **Function level, any cfg.**  For function bodies that CPython's compiler accepts (no `break`/`continue` outside
a loop) and that lie in the fragment, calling the function gives the same log, the same returned value or the same
propagated exception. -/
theorem C02_call_partial (cfg : Cfg) (sub : Nat → Nat → Bool) (n : Nat) (body : List Stmt) (w : World)
    (hc : confL cfg body = true) (hs : freeJumpL body = false) :
    toCall (PS.bodyStmts cfg sub n body w) = Py.callBody sub n body w := by
  induction body generalizing w with
  | nil => simp [PS.bodyStmts, Py.callBody, toCall]
  | cons s ss ih =>
    simp only [confL, Bool.and_eq_true] at hc
    simp only [freeJumpL, Bool.or_eq_false_iff] at hs
    simp only [PS.bodyStmts, Py.callBody]
    have h1 := (agree_all cfg sub n).1 none s w hc.1
    have hnj := (nj_all sub n).1 none s w hs.1
    simp only [lift] at h1
    rcases hps : PS.exec cfg sub n none s w with ⟨r, w'⟩
    rw [hps] at h1
    rw [← h1] at hnj ⊢
    rcases r with (_ | m) | e
    · simpa [Res.toOut] using ih w' hc.2 hs.2
    · cases m with
      | brk => simp [NoJumpOut, Res.toOut, Marker.toOut] at hnj
      | cont => simp [NoJumpOut, Res.toOut, Marker.toOut] at hnj
      | ret v => simp [Res.toOut, Marker.toOut, toCall]
    · simp [Res.toOut, toCall]

/-- the repaired configuration: both deviation flags on -/
def Cfg.python : Cfg := { loopElsePropagates := true, withNested := true }

mutual
theorem confS_python (cfg : Cfg) (h1 : cfg.loopElsePropagates = true) (h2 : cfg.withNested = true) :
    ∀ s, confS cfg s = true
  | .tick _ => by simp [confS]
  | .brk => by simp [confS]
  | .cont => by simp [confS]
  | .ret _ => by simp [confS]
  | .raise _ _ => by simp [confS]
  | .reraise => by simp [confS]
  | .assert_ _ => by simp [confS]
  | .ite _ b o => by simp [confS, confL_python cfg h1 h2 b, confL_python cfg h1 h2 o]
  | .while_ _ b o => by simp [confS, confL_python cfg h1 h2 b, confL_python cfg h1 h2 o, h1]
  | .for_ _ b o => by simp [confS, confL_python cfg h1 h2 b, confL_python cfg h1 h2 o, h1]
  | .try_ b hs o f => by
      simp [confS, confL_python cfg h1 h2 b, confH_python cfg h1 h2 hs, confL_python cfg h1 h2 o,
        confL_python cfg h1 h2 f]
  | .with_ _ b => by simp [confS, confL_python cfg h1 h2 b, withOk, h2]
theorem confL_python (cfg : Cfg) (h1 : cfg.loopElsePropagates = true) (h2 : cfg.withNested = true) :
    ∀ ss, confL cfg ss = true
  | [] => by simp [confL]
  | s :: ss => by simp [confL, confS_python cfg h1 h2 s, confL_python cfg h1 h2 ss]
theorem confH_python (cfg : Cfg) (h1 : cfg.loopElsePropagates = true) (h2 : cfg.withNested = true) :
    ∀ hs, confH cfg hs = true
  | [] => by simp [confH]
  | .mk _ _ b :: hs => by simp [confH, confL_python cfg h1 h2 b, confH_python cfg h1 h2 hs]
end

/-- **Full statement** for the repaired handlers: with both deviation flags on, every program CPython accepts is
executed exactly as Python executes it (no fragment hypothesis left). -/
theorem C02_full (sub : Nat → Nat → Bool) (n : Nat) (body : List Stmt) (w : World) (hs : freeJumpL body = false) :
    toCall (PS.bodyStmts Cfg.python sub n body w) = Py.callBody sub n body w :=
  C02_call_partial Cfg.python sub n body w (confL_python Cfg.python rfl rfl body) hs

/-- **Today's code** (`Current.cfg`: after the `fix:` commits both handlers have their Python shape): every function body
that CPython's compiler accepts is executed exactly as Python executes it – no fragment hypothesis. -/
theorem C02_current (sub : Nat → Nat → Bool) (n : Nat) (body : List Stmt) (w : World) (hs : freeJumpL body = false) :
    toCall (PS.bodyStmts Current.cfg sub n body w) = Py.callBody sub n body w :=
  C02_call_partial Current.cfg sub n body w (confL_python Current.cfg rfl rfl body) hs

/-- the handlers as they were before the `fix:` commits: agreement only without a jump in a loop's `else` clause and
with single-manager `with` statements whose `__enter__` does not raise -/
theorem C02_prefix_partial (sub : Nat → Nat → Bool) (n : Nat) (body : List Stmt) (w : World)
    (hc : confL Cfg.preFix body = true) (hs : freeJumpL body = false) :
    toCall (PS.bodyStmts Cfg.preFix sub n body w) = Py.callBody sub n body w :=
  C02_call_partial Cfg.preFix sub n body w hc hs

/-- **No marker leaks.**  For accepted bodies a break/continue marker never reaches the function boundary. -/
theorem C02_marker_inv (sub : Nat → Nat → Bool) (n : Nat) (body : List Stmt) (w : World)
    (hs : freeJumpL body = false) : (Py.callBody sub n body w).1 ≠ none := by
  induction body generalizing w with
  | nil => simp [Py.callBody]
  | cons s ss ih =>
    simp only [freeJumpL, Bool.or_eq_false_iff] at hs
    simp only [Py.callBody]
    have hnj := (nj_all sub n).1 none s w hs.1
    rcases hps : Py.exec sub n none s w with ⟨o, w'⟩
    rw [hps] at hnj
    cases o with
    | normal => exact ih w' hs.2
    | brk => simp [NoJumpOut] at hnj
    | cont => simp [NoJumpOut] at hnj
    | ret v => simp
    | raise e => simp

/-! ### regression witnesses: the handler shapes removed by the `fix:` commits (`Cfg.preFix`) still deviate -/

def eqSub : Nat → Nat → Bool := fun a b => a == b

/-- `while c: (while c': T(1) else: break); T(2)` – Python leaves the outer loop, pyscript drops the marker -/
def cexLoopElse : List Stmt := [.while_ 10 [.while_ 11 [.tick 1] [.brk], .tick 2] [], .tick 3]
theorem C02_regress_loop_else_break :
    (PS.bodyStmts Cfg.preFix eqSub 20 cexLoopElse { tape := [1, 0, 0] }).2.log ≠ (Py.callBody eqSub 20 cexLoopElse { tape := [1, 0, 0] }).2.log := by decide

/-- `with A, B: raise E` where B suppresses: Python's A sees no exception; pyscript hands the exception to both -/
def cexWithSuppress : List Stmt :=
  [.with_ [{ id := 1 }, { id := 2, suppress := true }] [.raise 7 none], .tick 3]
theorem C02_regress_with_inner_suppression :
    (PS.bodyStmts Cfg.preFix eqSub 20 cexWithSuppress {}).2.log ≠ (Py.callBody eqSub 20 cexWithSuppress {}).2.log := by decide

/-- `with A: …` where `A.__enter__` raises: Python does not call `__exit__`, pyscript does -/
def cexWithEnter : List Stmt := [.with_ [{ id := 1, enterRaises := some 7 }] [.tick 1]]
theorem C02_regress_with_failed_enter_exited :
    (PS.bodyStmts Cfg.preFix eqSub 20 cexWithEnter {}).2.log ≠ (Py.callBody eqSub 20 cexWithEnter {}).2.log := by decide

/-- `with A, B:` – pyscript evaluates both context expressions before entering A -/
def cexWithOrder : List Stmt := [.with_ [{ id := 1 }, { id := 2 }] [.tick 1]]
theorem C02_regress_with_two_managers_order :
    (PS.bodyStmts Cfg.preFix eqSub 20 cexWithOrder {}).2.log ≠ (Py.callBody eqSub 20 cexWithOrder {}).2.log := by decide

/-- a failing store to the `as` target happens inside the guarded region: the manager is exited with that exception and
may suppress it (`with A as (a, b): …` where `A.__enter__()` is not iterable) – the models agree on it by `C02_current`;
this is what it looks like -/
def withBindFails : List Stmt :=
  [.with_ [{ id := 1 }, { id := 2, suppress := true, bindRaises := some 102 }] [.tick 1], .tick 2]
theorem C02_with_bind_failure_is_guarded :
    (PS.bodyStmts Current.cfg eqSub 20 withBindFails {}).2.log
      = [.init 1, .enter 1, .init 2, .enter 2, .exit 2 (some 102), .exit 1 none, .tick 2] ∧
    (PS.bodyStmts Current.cfg eqSub 20 withBindFails {}).2.log = (Py.callBody eqSub 20 withBindFails {}).2.log := by decide

/-- `except` clauses are reached one by one: the type expression of the second clause (a tracer) is not evaluated when the
first clause matches, and a clause whose expression raises replaces the exception – both models agree (`C02_current`);
the `finally` block still runs -/
def lazyClauses : List Stmt :=
  [.try_ [.raise 11 none] [.mk (some [11]) (.tick 1) [.tick 2], .mk (some [12]) (.tick 3) [.tick 4]] [] [.tick 5],
   .try_ [.try_ [.raise 11 none] [.mk (some [12]) (.raises 6 12) [.tick 7], .mk (some [11]) .plain [.tick 8]] [] [.tick 9]]
         [.mk (some [12]) .plain [.tick 10]] [] []]
theorem C02_except_clauses_lazy :
    (PS.bodyStmts Current.cfg eqSub 20 lazyClauses {}).2.log = [.tick 1, .tick 2, .tick 5, .tick 6, .tick 9, .tick 10] ∧
    (PS.bodyStmts Current.cfg eqSub 20 lazyClauses {}).2.log = (Py.callBody eqSub 20 lazyClauses {}).2.log := by decide

/-- an `__exit__` that raises on the clean path is called once, its exception propagates (no second `__exit__` call, no
suppression of its own failure) -/
def exitRaisesClean : List Stmt :=
  [.try_ [.with_ [{ id := 1, suppress := true, exitRaises := some 12 }] [.tick 1], .tick 2] [.mk (some [12]) .plain [.tick 3]] [] []]
theorem C02_clean_exit_raising :
    (PS.bodyStmts Current.cfg eqSub 20 exitRaisesClean {}).2.log = [.init 1, .enter 1, .tick 1, .exit 1 none, .tick 3] ∧
    (PS.bodyStmts Current.cfg eqSub 20 exitRaisesClean {}).2.log = (Py.callBody eqSub 20 exitRaisesClean {}).2.log := by decide

/-- non-vacuity: a program using every construct lies in today's fragment and is accepted -/
def sample : List Stmt :=
  [.for_ 1 [.try_ [.ite 2 [.raise 5 (some 6)] [.cont], .tick 3] [.mk (some [5]) (.tick 40) [.tick 4, .reraise], .mk none .plain [.brk]]
              [.tick 5] [.tick 6, .assert_ 7]] [.tick 8],
   .with_ [{ id := 1, suppress := true }] [.while_ 9 [.ret 3] []], .ret 4]
example : confL Cfg.preFix sample = true ∧ freeJumpL sample = false := by decide

/-- **Tie (translator).**  The statement handlers this model mirrors exist in the extracted source tree (dispatch in
`aeval` is by handler name). -/
theorem C02_handlers_present :
    ∀ h ∈ ["ast_if", "ast_for", "ast_while", "ast_try", "ast_raise", "ast_with", "ast_assert", "ast_break", "ast_continue",
           "ast_return", "ast_pass", "ast_expr", "ast_asyncfor", "ast_asyncwith"], h ∈ Gen.AST_HANDLERS := by decide

end PsModel.C02
