import PsModel.Lemmas.C19
import PsModel.Model.C19Sched
/-!
# C19 – property theorems (kernel framing, authentication, reply correlation)

Only property statements live here; helper lemmas are in `Lemmas/C19.lean`.
-/
namespace PsModel.C19
open PsModel.Gen

/-- **Fragmentation independence.**  However TCP chunks the byte stream, `recv_multipart` returns the same frames
(or the same error) and leaves the same bytes unread. -/
theorem C19_fragment (cs cs' : List Bytes) (h : cs.flatten = cs'.flatten) :
    flatRes (recvMultipart cs) = flatRes (recvMultipart cs') := by
  have tl : ∀ c : List Bytes, totalLen c = c.flatten.length := by
    intro c; simp [totalLen, List.length_flatten]
  unfold recvMultipart
  rw [recvLoop_flat, recvLoop_flat, tl, tl, h]

/-- **Lossless framing.**  Any non-empty list of frames of any lengths below 2^64 written by `send_multipart`,
followed by arbitrary further bytes, delivered in arbitrary chunks, is read back identically, and exactly the
further bytes remain. -/
theorem C19_roundtrip (ps : List Bytes) (rest : Bytes) (chunks : List Bytes)
    (hne : ps ≠ []) (hlen : ∀ p ∈ ps, p.length < 2 ^ 64)
    (hchunks : chunks.flatten = encodeMultipart ps ++ rest) :
    flatRes (recvMultipart chunks) = .ok (ps, rest) := by
  have tl : totalLen chunks = chunks.flatten.length := by simp [totalLen, List.length_flatten]
  have hge : ∀ qs : List Bytes, qs.length ≤ (encodeMultipart qs).length := by
    intro qs
    induction qs with
    | nil => simp
    | cons q rs ih =>
      cases rs with
      | nil => simp only [encodeMultipart, encFrame]; split <;> simp
      | cons r ts =>
        simp only [encodeMultipart, List.length_append, List.length_cons] at ih ⊢
        have : 1 ≤ (encFrame false q).length := by
          simp only [encFrame]; split <;> simp
        omega
  unfold recvMultipart
  rw [recvLoop_flat, hchunks]
  have := recvFlat_multipart ps (totalLen chunks + 1) [] rest hne hlen
    (by rw [tl, hchunks, List.length_append]; have := hge ps; omega)
  simpa using this

/-- boundary instances named by the property (the general theorem covers all lengths) -/
theorem C19_boundaries (b : Nat) (n : Nat) (hn : n ∈ [0, 1, 255, 256, 65535, 65536]) (rest : Bytes) :
    flatRes (recvMultipart [encodeMultipart [List.replicate n b, []] ++ rest]) = .ok ([List.replicate n b, []], rest) := by
  apply C19_roundtrip _ _ _ (by simp)
  · intro p hp
    simp only [List.mem_cons, List.mem_nil_iff, or_false] at hp hn
    rcases hp with rfl | rfl
    · simp only [List.length_replicate]; rcases hn with rfl | rfl | rfl | rfl | rfl | rfl <;> decide
    · decide
  · simp

/-- **Heartbeat echo.**  What `send(msg)` writes, `recv()` reads back as `msg` under any chunking. -/
theorem C19_single (m rest : Bytes) (chunks : List Bytes) (hm : m.length < 2 ^ 64)
    (hchunks : chunks.flatten = encodeSingle m ++ rest) :
    (match recvSingle chunks with
     | .ok (x, r) => x = m ∧ r.flatten = rest
     | .error _ => False) := by
  have henc : encodeSingle m = encodeMultipart [[], m] := by
    simp only [encodeSingle, encodeMultipart, encFrame, sendShortMax, sendMultipartShortMax, flagMore, flagLast,
      flagLongInc, sendLongLenBytes]
    by_cases h : m.length ≤ 255 <;> simp [h]
  have h := C19_roundtrip [[], m] rest chunks (by simp)
    (by intro p hp; simp at hp; rcases hp with rfl | rfl <;> simp [hm]) (by rw [hchunks, henc])
  unfold recvSingle
  unfold flatRes at h
  split at h
  · rename_i ps cs heq
    rw [heq]
    simp only [Except.ok.injEq, Prod.mk.injEq] at h
    obtain ⟨h1, h2⟩ := h
    subst h1
    simp [h2]
  · simp at h

/-- **Consecutive messages.**  Two messages written back to back are received as two messages. -/
theorem C19_sequence (ps qs : List Bytes) (rest : Bytes) (chunks : List Bytes)
    (hp : ps ≠ []) (hq : qs ≠ []) (hlp : ∀ p ∈ ps, p.length < 2 ^ 64) (hlq : ∀ p ∈ qs, p.length < 2 ^ 64)
    (hchunks : chunks.flatten = encodeMultipart ps ++ encodeMultipart qs ++ rest) :
    ∃ cs1, recvMultipart chunks = .ok (ps, cs1) ∧ flatRes (recvMultipart cs1) = .ok (qs, rest) := by
  have h1 := C19_roundtrip ps (encodeMultipart qs ++ rest) chunks hp hlp (by simpa using hchunks)
  unfold flatRes at h1
  split at h1
  · rename_i ps' cs1 heq
    simp only [Except.ok.injEq, Prod.mk.injEq] at h1
    obtain ⟨e1, e2⟩ := h1
    subst e1
    exact ⟨cs1, heq, C19_roundtrip qs rest cs1 hq hlq e2⟩
  · simp at h1

/-- **Unauthenticated requests are never executed and never answered**: with a signature that is not the MAC of the
four message frames under the session key the step produces no output and no new state (the listener raises). -/
theorem C19_auth (sign : List Bytes → Bytes) (run : Nat → CellResult) (s : KState) (r : Request)
    (h : r.sig ≠ sign r.frames) : shellStep sign run s r = .rejected := by
  unfold shellStep
  have : ¬ sign r.frames = r.sig := fun e => h e.symm
  simp [this]

def Replied : MsgType → Bool
  | .execute | .kernelInfo | .complete | .isComplete | .commInfo | .history => true
  | .comm | .unknown => false

/-- **Valid requests**: bracketed by busy … idle on iopub, every emission carries the request header as parent, and
requests of a replied type get exactly one reply on the shell socket, addressed to the requester's identities. -/
theorem C19_reply (sign : List Bytes → Bytes) (run : Nat → CellResult) (s : KState) (r : Request)
    (h : r.sig = sign r.frames) :
    shellStep sign run s r = .handled (handleValid run s r).1 (handleValid run s r).2 ∧
      (handleValid run s r).2.head? = some (iopub r "status:busy") ∧
      (handleValid run s r).2.getLast? = some (iopub r "status:idle") ∧
      (∀ o ∈ (handleValid run s r).2, o.parent = r.header ∧ o.signedWithKey = true) ∧
      (∀ o ∈ (handleValid run s r).2, o.stream = "shell" → o.idents = r.idents) ∧
      ((handleValid run s r).2.filter (fun o => o.stream = "shell")).length = (if Replied r.mtype then 1 else 0) := by
  refine ⟨by simp [shellStep, h], ?_⟩
  cases hm : r.mtype
  case execute =>
    cases hr : run r.cell <;> simp [handleValid, hm, hr, iopub, reply, Replied]
  all_goals simp [handleValid, hm, iopub, reply, Replied]

/-- fold of the shell step over a request sequence (all valid) -/
def runAll (run : Nat → CellResult) : KState → List Request → KState
  | s, [] => s
  | s, r :: rs => runAll run (handleValid run s r).1 rs

/-- **Execution counter and order**: after any sequence of valid requests the counter is one more than the number of
history-storing execute requests, and the cells were executed exactly once each, in request order. -/
theorem C19_counter (run : Nat → CellResult) (rs : List Request) (s : KState) :
    (runAll run s rs).count = s.count + (rs.filter (fun r => r.mtype = .execute ∧ r.storeHistory)).length ∧
    (runAll run s rs).executed = s.executed ++ (rs.filter (fun r => r.mtype = .execute)).map (·.cell) := by
  induction rs generalizing s with
  | nil => simp [runAll]
  | cons r rs ih =>
    simp only [runAll]
    obtain ⟨h1, h2⟩ := ih (handleValid run s r).1
    rw [h1, h2]
    cases hm : r.mtype <;> cases hs : r.storeHistory <;>
      simp [handleValid, hm, hs, bump] <;>
      (try (cases run r.cell <;> simp)) <;> omega

/-- the count reported in an execute reply is the counter *before* the request -/
theorem C19_reply_count (run : Nat → CellResult) (s : KState) (r : Request) (h : r.mtype = .execute) :
    ∀ o ∈ (handleValid run s r).2, o.stream = "shell" → o.count = some s.count := by
  intro o ho hs
  simp only [handleValid, h] at ho
  cases hr : run r.cell <;> simp [hr, iopub, reply] at ho <;>
    (rcases ho with rfl | rfl | rfl | rfl | rfl <;> simp_all)

/-- non-vacuity: a concrete two-frame message with a long frame, delivered in three chunks -/
example : flatRes (recvMultipart [[1, 2, 7], [9, 0], [0], [5, 5]]) = .ok ([[7, 9], []], [5, 5]) := by rfl

/-! ## (d) replies and broadcasts carry their own request's header under EVERY interleaving of connections -/

theorem step_correlated (s : SchedState) (i : Nat) (h : ∀ m ∈ s.out, m.1 = m.2) :
    ∀ m ∈ (step true s i).out, m.1 = m.2 := by
  unfold step
  cases hi : s.acts[i]? with
  | none => simpa using h
  | some a =>
    simp only [stepAct]
    split
    · simpa using h
    · split
      · intro m hm
        simp only [List.mem_append, List.mem_singleton] at hm
        rcases hm with hm | hm
        · exact h m hm
        · subst hm; simp
      · simpa using h

/-- **Correlation for every schedule.**  Whatever the activations are (any number of connections and requests, any number
of sends each) and in whatever order the scheduler lets them proceed, every message sent carries the header of the
request whose activation sent it – because each send names its own request's header. -/
theorem C19_correlated_any_schedule (acts : List Activation) (sched : List Nat) :
    ∀ m ∈ (run true { acts := acts } sched).out, m.1 = m.2 := by
  have key : ∀ (sched : List Nat) (s : SchedState), (∀ m ∈ s.out, m.1 = m.2) → ∀ m ∈ (run true s sched).out, m.1 = m.2 := by
    intro sched
    induction sched with
    | nil => intro s h; simpa [run] using h
    | cons i rest ih =>
      intro s h
      simp only [run, List.foldl_cons]
      exact ih (step true s i) (step_correlated s i h)
  exact key sched { acts := acts } (by simp)

/-- the code as it is has that shape (the flag is extracted from `Kernel.shell_handler` / `Kernel.send` on every run) -/
theorem C19_correlated_current (acts : List Activation) (sched : List Nat) :
    Current.explicitParent = true ∧ ∀ m ∈ (run Current.explicitParent { acts := acts } sched).out, m.1 = m.2 :=
  ⟨rfl, C19_correlated_any_schedule acts sched⟩

/-- with the shared field instead, two interleaved activations are enough to mis-attribute a reply: activation 7 stores the
field, activation 9 stores it, activation 7 sends -/
theorem C19_regress_shared_parent :
    (run false { acts := [{ id := 7, sends := 2 }, { id := 9, sends := 1 }] } [0, 1, 0]).out = [(7, 9)] ∧
    (run true { acts := [{ id := 7, sends := 2 }, { id := 9, sends := 1 }] } [0, 1, 0]).out = [(7, 7)] := by decide

/-! ## (e) several tasks sending on one socket: every message arrives whole -/

/-- **A stream of messages decodes message by message**, for any number of messages, any fragmentation of the stream into
chunks, any trailing bytes. -/
theorem C19_stream (ms : List (List Bytes)) (rest : Bytes) :
    ∀ (chunks : List Bytes), (∀ m ∈ ms, m ≠ []) → (∀ m ∈ ms, ∀ p ∈ m, p.length < 2 ^ 64) →
      chunks.flatten = (ms.map encodeMultipart).flatten ++ rest → recvN ms.length chunks = .ok (ms, rest) := by
  induction ms with
  | nil => intro chunks _ _ h; simp [recvN, h]
  | cons m ms ih =>
    intro chunks hne hlen h
    have h1 := C19_roundtrip m ((ms.map encodeMultipart).flatten ++ rest) chunks (hne m (by simp))
      (hlen m (by simp)) (by simpa [List.append_assoc] using h)
    unfold flatRes at h1
    split at h1
    · rename_i ps' cs1 heq
      simp only [Except.ok.injEq, Prod.mk.injEq] at h1
      obtain ⟨e1, e2⟩ := h1
      subst e1
      have := ih cs1 (fun m' hm' => hne m' (by simp [hm'])) (fun m' hm' => hlen m' (by simp [hm'])) e2
      simp [recvN, heq, this]
    · simp at h1

/-- what the writes still to come look like when every sender writes its message in one piece -/
def WholePending (msgs : List (List Bytes)) (pending : List (List Bytes)) : Prop :=
  ∀ j, pending[j]? = some [encodeMultipart (msgs.getD j [])] ∨ pending[j]? = some [] ∨ pending[j]? = none

theorem wire_whole (msgs : List (List Bytes)) : ∀ (sched : List Nat) (pending : List (List Bytes)), WholePending msgs pending →
    ∃ order : List Nat, wire pending sched = (order.map fun i => encodeMultipart (msgs.getD i [])).flatten := by
  intro sched
  induction sched with
  | nil => intro _ _; exact ⟨[], by simp [wire]⟩
  | cons i rest ih =>
    intro pending hw
    rcases hw i with h | h | h
    · -- sender i writes its whole message now
      have hw' : WholePending msgs (pending.set i []) := by
        intro j
        by_cases hj : i = j
        · subst hj
          have hlt : i < pending.length := by
            rcases Nat.lt_or_ge i pending.length with hl | hl
            · exact hl
            · rw [List.getElem?_eq_none hl] at h; simp at h
          exact Or.inr (Or.inl (by simp [List.getElem?_set, hlt]))
        · rw [List.getElem?_set_ne hj]; exact hw j
      obtain ⟨order, ho⟩ := ih (pending.set i []) hw'
      exact ⟨i :: order, by simp [wire, h, ho]⟩
    · obtain ⟨order, ho⟩ := ih pending hw
      exact ⟨order, by simp [wire, h, ho]⟩
    · obtain ⟨order, ho⟩ := ih pending hw
      exact ⟨order, by simp [wire, h, ho]⟩

/-- **Concurrent senders.**  However many tasks send on one socket and in whatever order the scheduler lets them write, the
bytes on the wire are a concatenation of WHOLE encoded messages (so by `C19_stream` the peer reads exactly those messages) –
because `send_multipart` hands each message to the transport in one write. -/
theorem C19_concurrent_senders (msgs : List (List Bytes)) (sched : List Nat) :
    ∃ order : List Nat, wire (msgs.map (senderWrites true)) sched = (order.map fun i => encodeMultipart (msgs.getD i [])).flatten := by
  apply wire_whole
  intro j
  rcases Nat.lt_or_ge j msgs.length with hl | hl
  · left
    simp [senderWrites, List.getElem?_map, List.getElem?_eq_getElem hl, List.getD_eq_getElem?_getD]
  · right; right
    simp [List.getElem?_eq_none, hl]

/-- the code as it is has that shape (flag extracted from `ZmqSocket.send_multipart` on every run) -/
theorem C19_concurrent_senders_current (msgs : List (List Bytes)) (sched : List Nat) :
    Current.oneWrite = true ∧
    ∃ order : List Nat, wire (msgs.map (senderWrites Current.oneWrite)) sched = (order.map fun i => encodeMultipart (msgs.getD i [])).flatten :=
  ⟨rfl, C19_concurrent_senders msgs sched⟩

/-- with one write per frame two senders' frames interleave: the peer reads two messages that were never sent -/
theorem C19_regress_frame_by_frame_writes :
    (recvN 2 [wire ([[[1], [2]], [[3], [4]]].map (senderWrites false)) [0, 1, 0, 1]]).toOption = some ([[[1], [3], [2]], [[4]]], []) ∧
    (recvN 2 [wire ([[[1], [2]], [[3], [4]]].map (senderWrites true)) [0, 1, 0, 1]]).toOption = some ([[[1], [2]], [[3], [4]]], []) := by
  decide

end PsModel.C19
