import PsModel.Lemmas.C19
import PsModel.Lemmas.C19Kernel
import PsModel.Model.C19Sched
/-!
# C19 – property theorems (kernel framing, authentication, reply correlation)

Only property statements live here; helper lemmas are in `Lemmas/C19.lean`.
-/
namespace PsModel.C19
open PsModel.Gen

/-- **Fragmentation independence.**  However TCP chunks the byte stream, `recv_multipart` returns the same frames
(or the same error) and leaves the same bytes unread. -/
theorem C19_fragment (cs cs' : List Bytes) (h : cs.flatten = cs'.flatten) :
    flatRes (recvMultipart cs) = flatRes (recvMultipart cs') := by
  have tl : ∀ c : List Bytes, totalLen c = c.flatten.length := by
    intro c; simp [totalLen, List.length_flatten]
  unfold recvMultipart
  rw [recvLoop_flat, recvLoop_flat, tl, tl, h]

/-- **Lossless framing.**  Any non-empty list of frames of any lengths below 2^64 written by `send_multipart`,
followed by arbitrary further bytes, delivered in arbitrary chunks, is read back identically, and exactly the
further bytes remain. -/
theorem C19_roundtrip (ps : List Bytes) (rest : Bytes) (chunks : List Bytes)
    (hne : ps ≠ []) (hlen : ∀ p ∈ ps, p.length < 2 ^ 64)
    (hchunks : chunks.flatten = encodeMultipart ps ++ rest) :
    flatRes (recvMultipart chunks) = .ok (ps, rest) := by
  have tl : totalLen chunks = chunks.flatten.length := by simp [totalLen, List.length_flatten]
  have hge : ∀ qs : List Bytes, qs.length ≤ (encodeMultipart qs).length := by
    intro qs
    induction qs with
    | nil => simp
    | cons q rs ih =>
      cases rs with
      | nil => simp only [encodeMultipart, encFrame]; split <;> simp
      | cons r ts =>
        simp only [encodeMultipart, List.length_append, List.length_cons] at ih ⊢
        have : 1 ≤ (encFrame false q).length := by
          simp only [encFrame]; split <;> simp
        omega
  unfold recvMultipart
  rw [recvLoop_flat, hchunks]
  have := recvFlat_multipart ps (totalLen chunks + 1) [] rest hne hlen
    (by rw [tl, hchunks, List.length_append]; have := hge ps; omega)
  simpa using this

/-- boundary instances named by the property (the general theorem covers all lengths) -/
theorem C19_boundaries (b : Nat) (n : Nat) (hn : n ∈ [0, 1, 255, 256, 65535, 65536]) (rest : Bytes) :
    flatRes (recvMultipart [encodeMultipart [List.replicate n b, []] ++ rest]) = .ok ([List.replicate n b, []], rest) := by
  apply C19_roundtrip _ _ _ (by simp)
  · intro p hp
    simp only [List.mem_cons, List.mem_nil_iff, or_false] at hp hn
    rcases hp with rfl | rfl
    · simp only [List.length_replicate]; rcases hn with rfl | rfl | rfl | rfl | rfl | rfl <;> decide
    · decide
  · simp

/-- **Heartbeat echo.**  What `send(msg)` writes, `recv()` reads back as `msg` under any chunking. -/
theorem C19_single (m rest : Bytes) (chunks : List Bytes) (hm : m.length < 2 ^ 64)
    (hchunks : chunks.flatten = encodeSingle m ++ rest) :
    (match recvSingle chunks with
     | .ok (x, r) => x = m ∧ r.flatten = rest
     | .error _ => False) := by
  have henc : encodeSingle m = encodeMultipart [[], m] := by
    simp only [encodeSingle, encodeMultipart, encFrame, sendShortMax, sendMultipartShortMax, flagMore, flagLast,
      flagLongInc, sendLongLenBytes]
    by_cases h : m.length ≤ 255 <;> simp [h]
  have h := C19_roundtrip [[], m] rest chunks (by simp)
    (by intro p hp; simp at hp; rcases hp with rfl | rfl <;> simp [hm]) (by rw [hchunks, henc])
  unfold recvSingle
  unfold flatRes at h
  split at h
  · rename_i ps cs heq
    rw [heq]
    simp only [Except.ok.injEq, Prod.mk.injEq] at h
    obtain ⟨h1, h2⟩ := h
    subst h1
    simp [h2]
  · simp at h

/-- **Consecutive messages.**  Two messages written back to back are received as two messages. -/
theorem C19_sequence (ps qs : List Bytes) (rest : Bytes) (chunks : List Bytes)
    (hp : ps ≠ []) (hq : qs ≠ []) (hlp : ∀ p ∈ ps, p.length < 2 ^ 64) (hlq : ∀ p ∈ qs, p.length < 2 ^ 64)
    (hchunks : chunks.flatten = encodeMultipart ps ++ encodeMultipart qs ++ rest) :
    ∃ cs1, recvMultipart chunks = .ok (ps, cs1) ∧ flatRes (recvMultipart cs1) = .ok (qs, rest) := by
  have h1 := C19_roundtrip ps (encodeMultipart qs ++ rest) chunks hp hlp (by simpa using hchunks)
  unfold flatRes at h1
  split at h1
  · rename_i ps' cs1 heq
    simp only [Except.ok.injEq, Prod.mk.injEq] at h1
    obtain ⟨e1, e2⟩ := h1
    subst e1
    exact ⟨cs1, heq, C19_roundtrip qs rest cs1 hq hlq e2⟩
  · simp at h1

/-- **Unauthenticated requests are never executed and never answered**: with a signature that is not the MAC of the
four message frames under the session key the step produces no output and no new state (the listener raises). -/
theorem C19_auth (sign : List Bytes → Bytes) (run : Nat → CellResult) (s : KState) (r : Request)
    (h : r.sig ≠ sign r.frames) : shellStep sign run s r = .rejected := by
  unfold shellStep
  have : ¬ sign r.frames = r.sig := fun e => h e.symm
  simp [this]

def Replied : MsgType → Bool
  | .execute | .kernelInfo | .complete | .isComplete | .commInfo | .history => true
  | .comm | .unknown => false

/-- **Valid requests**: bracketed by busy … idle on iopub, every emission carries the request header as parent, and
requests of a replied type get exactly one reply on the shell socket, addressed to the requester's identities. -/
theorem C19_reply (sign : List Bytes → Bytes) (run : Nat → CellResult) (s : KState) (r : Request)
    (h : r.sig = sign r.frames) :
    shellStep sign run s r = .handled (handleValid run s r).1 (handleValid run s r).2 ∧
      (handleValid run s r).2.head? = some (iopub r "status:busy") ∧
      (handleValid run s r).2.getLast? = some (iopub r "status:idle") ∧
      (∀ o ∈ (handleValid run s r).2, o.parent = r.header ∧ o.signedWithKey = true) ∧
      (∀ o ∈ (handleValid run s r).2, o.stream = "shell" → o.idents = r.idents) ∧
      ((handleValid run s r).2.filter (fun o => o.stream = "shell")).length = (if Replied r.mtype then 1 else 0) := by
  refine ⟨by simp [shellStep, h], ?_⟩
  cases hm : r.mtype
  case execute =>
    cases hr : run r.cell <;> simp [handleValid, hm, hr, iopub, reply, Replied]
  all_goals simp [handleValid, hm, iopub, reply, Replied]

/-- fold of the shell step over a request sequence (all valid) -/
def runAll (run : Nat → CellResult) : KState → List Request → KState
  | s, [] => s
  | s, r :: rs => runAll run (handleValid run s r).1 rs

/-- **Execution counter and order**: after any sequence of valid requests the counter is one more than the number of
history-storing execute requests, and the cells were executed exactly once each, in request order. -/
theorem C19_counter (run : Nat → CellResult) (rs : List Request) (s : KState) :
    (runAll run s rs).count = s.count + (rs.filter (fun r => r.mtype = .execute ∧ r.storeHistory)).length ∧
    (runAll run s rs).executed = s.executed ++ (rs.filter (fun r => r.mtype = .execute)).map (·.cell) := by
  induction rs generalizing s with
  | nil => simp [runAll]
  | cons r rs ih =>
    simp only [runAll]
    obtain ⟨h1, h2⟩ := ih (handleValid run s r).1
    rw [h1, h2]
    cases hm : r.mtype <;> cases hs : r.storeHistory <;>
      simp [handleValid, hm, hs, bump] <;>
      (try (cases run r.cell <;> simp)) <;> omega

/-- the count reported in an execute reply is the counter *before* the request -/
theorem C19_reply_count (run : Nat → CellResult) (s : KState) (r : Request) (h : r.mtype = .execute) :
    ∀ o ∈ (handleValid run s r).2, o.stream = "shell" → o.count = some s.count := by
  intro o ho hs
  simp only [handleValid, h] at ho
  cases hr : run r.cell <;> simp [hr, iopub, reply] at ho <;>
    (rcases ho with rfl | rfl | rfl | rfl | rfl <;> simp_all)

/-- non-vacuity: a concrete two-frame message with a long frame, delivered in three chunks -/
example : flatRes (recvMultipart [[1, 2, 7], [9, 0], [0], [5, 5]]) = .ok ([[7, 9], []], [5, 5]) := by rfl

/-! ## (d) replies and broadcasts carry their own request's header under EVERY interleaving of connections -/

theorem step_correlated (s : SchedState) (i : Nat) (h : ∀ m ∈ s.out, m.1 = m.2) :
    ∀ m ∈ (step true s i).out, m.1 = m.2 := by
  unfold step
  cases hi : s.acts[i]? with
  | none => simpa using h
  | some a =>
    simp only [stepAct]
    split
    · simpa using h
    · split
      · intro m hm
        simp only [List.mem_append, List.mem_singleton] at hm
        rcases hm with hm | hm
        · exact h m hm
        · subst hm; simp
      · simpa using h

/-- **Correlation for every schedule.**  Whatever the activations are (any number of connections and requests, any number
of sends each) and in whatever order the scheduler lets them proceed, every message sent carries the header of the
request whose activation sent it – because each send names its own request's header. -/
theorem C19_correlated_any_schedule (acts : List Activation) (sched : List Nat) :
    ∀ m ∈ (run true { acts := acts } sched).out, m.1 = m.2 := by
  have key : ∀ (sched : List Nat) (s : SchedState), (∀ m ∈ s.out, m.1 = m.2) → ∀ m ∈ (run true s sched).out, m.1 = m.2 := by
    intro sched
    induction sched with
    | nil => intro s h; simpa [run] using h
    | cons i rest ih =>
      intro s h
      simp only [run, List.foldl_cons]
      exact ih (step true s i) (step_correlated s i h)
  exact key sched { acts := acts } (by simp)

/-- the code as it is has that shape (the flag is extracted from `Kernel.shell_handler` / `Kernel.send` on every run) -/
theorem C19_correlated_current (acts : List Activation) (sched : List Nat) :
    Current.explicitParent = true ∧ ∀ m ∈ (run Current.explicitParent { acts := acts } sched).out, m.1 = m.2 :=
  ⟨rfl, C19_correlated_any_schedule acts sched⟩

/-- with the shared field instead, two interleaved activations are enough to mis-attribute a reply: activation 7 stores the
field, activation 9 stores it, activation 7 sends -/
theorem C19_regress_shared_parent :
    (run false { acts := [{ id := 7, sends := 2 }, { id := 9, sends := 1 }] } [0, 1, 0]).out = [(7, 9)] ∧
    (run true { acts := [{ id := 7, sends := 2 }, { id := 9, sends := 1 }] } [0, 1, 0]).out = [(7, 7)] := by decide

/-! ## (e) several tasks sending on one socket: every message arrives whole -/

/-- **A stream of messages decodes message by message**, for any number of messages, any fragmentation of the stream into
chunks, any trailing bytes. -/
theorem C19_stream (ms : List (List Bytes)) (rest : Bytes) :
    ∀ (chunks : List Bytes), (∀ m ∈ ms, m ≠ []) → (∀ m ∈ ms, ∀ p ∈ m, p.length < 2 ^ 64) →
      chunks.flatten = (ms.map encodeMultipart).flatten ++ rest → recvN ms.length chunks = .ok (ms, rest) := by
  induction ms with
  | nil => intro chunks _ _ h; simp [recvN, h]
  | cons m ms ih =>
    intro chunks hne hlen h
    have h1 := C19_roundtrip m ((ms.map encodeMultipart).flatten ++ rest) chunks (hne m (by simp))
      (hlen m (by simp)) (by simpa [List.append_assoc] using h)
    unfold flatRes at h1
    split at h1
    · rename_i ps' cs1 heq
      simp only [Except.ok.injEq, Prod.mk.injEq] at h1
      obtain ⟨e1, e2⟩ := h1
      subst e1
      have := ih cs1 (fun m' hm' => hne m' (by simp [hm'])) (fun m' hm' => hlen m' (by simp [hm'])) e2
      simp [recvN, heq, this]
    · simp at h1

/-- what the writes still to come look like when every sender writes its message in one piece -/
def WholePending (msgs : List (List Bytes)) (pending : List (List Bytes)) : Prop :=
  ∀ j, pending[j]? = some [encodeMultipart (msgs.getD j [])] ∨ pending[j]? = some [] ∨ pending[j]? = none

theorem wire_whole (msgs : List (List Bytes)) : ∀ (sched : List Nat) (pending : List (List Bytes)), WholePending msgs pending →
    ∃ order : List Nat, wire pending sched = (order.map fun i => encodeMultipart (msgs.getD i [])).flatten := by
  intro sched
  induction sched with
  | nil => intro _ _; exact ⟨[], by simp [wire]⟩
  | cons i rest ih =>
    intro pending hw
    rcases hw i with h | h | h
    · -- sender i writes its whole message now
      have hw' : WholePending msgs (pending.set i []) := by
        intro j
        by_cases hj : i = j
        · subst hj
          have hlt : i < pending.length := by
            rcases Nat.lt_or_ge i pending.length with hl | hl
            · exact hl
            · rw [List.getElem?_eq_none hl] at h; simp at h
          exact Or.inr (Or.inl (by simp [List.getElem?_set, hlt]))
        · rw [List.getElem?_set_ne hj]; exact hw j
      obtain ⟨order, ho⟩ := ih (pending.set i []) hw'
      exact ⟨i :: order, by simp [wire, h, ho]⟩
    · obtain ⟨order, ho⟩ := ih pending hw
      exact ⟨order, by simp [wire, h, ho]⟩
    · obtain ⟨order, ho⟩ := ih pending hw
      exact ⟨order, by simp [wire, h, ho]⟩

/-- **Concurrent senders.**  However many tasks send on one socket and in whatever order the scheduler lets them write, the
bytes on the wire are a concatenation of WHOLE encoded messages (so by `C19_stream` the peer reads exactly those messages) –
because `send_multipart` hands each message to the transport in one write. -/
theorem C19_concurrent_senders (msgs : List (List Bytes)) (sched : List Nat) :
    ∃ order : List Nat, wire (msgs.map (senderWrites true)) sched = (order.map fun i => encodeMultipart (msgs.getD i [])).flatten := by
  apply wire_whole
  intro j
  rcases Nat.lt_or_ge j msgs.length with hl | hl
  · left
    simp [senderWrites, List.getElem?_map, List.getElem?_eq_getElem hl, List.getD_eq_getElem?_getD]
  · right; right
    simp [List.getElem?_eq_none, hl]

/-- the code as it is has that shape (flag extracted from `ZmqSocket.send_multipart` on every run) -/
theorem C19_concurrent_senders_current (msgs : List (List Bytes)) (sched : List Nat) :
    Current.oneWrite = true ∧
    ∃ order : List Nat, wire (msgs.map (senderWrites Current.oneWrite)) sched = (order.map fun i => encodeMultipart (msgs.getD i [])).flatten :=
  ⟨rfl, C19_concurrent_senders msgs sched⟩

/-- with one write per frame two senders' frames interleave: the peer reads two messages that were never sent -/
theorem C19_regress_frame_by_frame_writes :
    (recvN 2 [wire ([[[1], [2]], [[3], [4]]].map (senderWrites false)) [0, 1, 0, 1]]).toOption = some ([[[1], [3], [2]], [[4]]], []) ∧
    (recvN 2 [wire ([[[1], [2]], [[3], [4]]].map (senderWrites true)) [0, 1, 0, 1]]).toOption = some ([[[1], [2]], [[3], [4]]], []) := by
  decide

/-! # Round 4: the rest of the kernel (greeting, wire messages, every message type, control, heartbeat, shutdown) -/

/-! ## (f) the ZMTP greeting -/

/-- **The handshake never reads past the greeting** and is independent of how TCP fragments it: given 64 greeting bytes
followed by anything, an accepting handshake leaves exactly what follows the greeting unread, has written the kernel's
own greeting and the READY command, and a handshake that does not look at the bytes (`validate = false`) accepts. -/
theorem C19_handshake_reads_exactly (validate : Bool) (ty g rest : Bytes) (chunks : List Bytes)
    (hg : g.length = 64) (hc : chunks.flatten = g ++ rest) :
    ((handshake validate ty chunks).status = .ok →
        (handshake validate ty chunks).rest.flatten = rest ∧
        (handshake validate ty chunks).written = HS_WRITES.flatten ++ readyCmd ty) ∧
    (validate = false → (handshake validate ty chunks).status = .ok) := by
  obtain ⟨d0, d1, d2, rfl, h0, h1, h2⟩ := split64 g hg
  have hk := handshake_cases validate ty d0 d1 d2 rest chunks h0 h1 h2 hc
  refine ⟨?_, ?_⟩
  · intro hok
    split at hk
    · rw [hk] at hok; exact absurd hok (by simp)
    · exact ⟨hk.2.2, hk.2.1⟩
  · intro hv
    subst hv
    simpa using hk.1

/-- **The handshake accepts exactly the greetings of the grammar** – for a handshake that validates (signature bytes,
major version ≥ 3, mechanism NULL), under every fragmentation. -/
theorem C19_handshake_exact (ty g rest : Bytes) (chunks : List Bytes) (hg : g.length = 64) (hc : chunks.flatten = g ++ rest) :
    (handshake true ty chunks).status = .ok ↔ ValidGreeting g := by
  obtain ⟨d0, d1, d2, rfl, h0, h1, h2⟩ := split64 g hg
  rw [← stages_iff_valid d0 d1 d2 h0 h1 h2]
  have hk := handshake_cases true ty d0 d1 d2 rest chunks h0 h1 h2 hc
  cases s0 : stageOk 0 d0 <;> cases s1 : stageOk 1 d1 <;> cases s2 : stageOk 2 d2 <;> simp [s0, s1, s2] at hk ⊢ <;> simp [hk]

/-- a stream that ends inside the greeting is never accepted -/
theorem C19_handshake_truncated (validate : Bool) (ty : Bytes) (chunks : List Bytes) (h : chunks.flatten.length < 64) :
    (handshake validate ty chunks).status ≠ .ok := handshake_short validate ty chunks h

/-- **The code as it is** accepts every greeting of the grammar (whatever it validates) … -/
theorem C19_handshake_partial (ty g rest : Bytes) (chunks : List Bytes) (hg : g.length = 64)
    (hc : chunks.flatten = g ++ rest) (hv : ValidGreeting g) :
    (handshake Current.validate ty chunks).status = .ok ∧ (handshake Current.validate ty chunks).rest.flatten = rest := by
  have hok : (handshake Current.validate ty chunks).status = .ok := by
    cases hcv : Current.validate
    · exact (C19_handshake_reads_exactly false ty g rest chunks hg hc).2 rfl
    · exact (C19_handshake_exact ty g rest chunks hg hc).2 hv
  exact ⟨hok, ((C19_handshake_reads_exactly _ ty g rest chunks hg hc).1 hok).1⟩

/-- … what the kernel itself writes is a greeting of the grammar … -/
theorem C19_own_greeting_valid : ValidGreeting HS_WRITES.flatten :=
  ⟨[0, 0, 0, 0, 0, 0, 0, 1], 3, 0, List.replicate 32 0, by decide, by decide, by decide, by decide⟩

/-- … and its READY command (for the three socket types the kernel uses) is a well-formed command frame that its own
receive routine parses and skips: a message following it is received intact. -/
theorem C19_ready_skipped (ty : Bytes) (hty : ty ∈ [HS_ROUTER, [82, 69, 80], [80, 85, 66]])
    (ps : List Bytes) (rest : Bytes) (chunks : List Bytes)
    (hne : ps ≠ []) (hlen : ∀ p ∈ ps, p.length < 2 ^ 64) (hc : chunks.flatten = readyCmd ty ++ encodeMultipart ps ++ rest) :
    flatRes (recvMultipart chunks) = .ok (ps, rest) := by
  have hb : readyCmd ty = [4, (cmdBody HS_CMD (readyParams ty)).length] ++ cmdBody HS_CMD (readyParams ty)
      ∧ cmdOk (cmdBody HS_CMD (readyParams ty)) = true := by
    simp only [List.mem_cons, List.mem_nil_iff, or_false] at hty
    rcases hty with rfl | rfl | rfl <;> decide
  obtain ⟨hb1, hb2⟩ := hb
  have hge : ∀ qs : List Bytes, qs.length ≤ (encodeMultipart qs).length := by
    intro qs
    induction qs with
    | nil => simp
    | cons q rs ih =>
      cases rs with
      | nil => simp only [encodeMultipart, encFrame]; split <;> simp
      | cons r ts =>
        simp only [encodeMultipart, List.length_append, List.length_cons] at ih ⊢
        have : 1 ≤ (encFrame false q).length := by
          simp only [encFrame]; split <;> simp
        omega
  have tl : totalLen chunks = chunks.flatten.length := by simp [totalLen, List.length_flatten]
  unfold recvMultipart
  rw [recvLoop_flat, hc, hb1, List.append_assoc, recvFlat_cmd, hb2, if_pos rfl]
  have hfuel : ps.length ≤ totalLen chunks := by
    rw [tl, hc]; simp only [List.length_append]; have := hge ps; omega
  have := recvFlat_multipart ps (totalLen chunks) [] rest hne hlen hfuel
  simpa using this

/-- **The full statement fails for the code as it is**: `handshake` does not look at the bytes it reads, so 64 zero
bytes – no ZMTP signature, version 0, no mechanism – are accepted (open finding C19-F2). -/
theorem C19_handshake_cex :
    Current.validate = false ∧ (handshake Current.validate HS_ROUTER [List.replicate 64 0]).status = .ok ∧
    ¬ ValidGreeting (List.replicate 64 0) := by
  refine ⟨by decide, by decide, ?_⟩
  rintro ⟨pad, major, minor, tail, hg, _, _, _⟩
  have := congrArg (fun l => l.head?) hg
  simp at this

/-! ## (g) wire messages: identities, delimiter, signature, four frames -/

/-- **deserialize ∘ serialize = id** for every identity list (none of which is the delimiter itself), any number of
frames ≥ 4 (extra buffers included): the delimiter may sit at any position. -/
theorem C19_deserialize_serialize (sign : List Bytes → Bytes) (jsonOk : Bytes → Bool) (ids frames : List Bytes)
    (hid : DELIM ∉ ids) (hlen : 4 ≤ frames.length) (hj : ∀ f ∈ frames.take 4, jsonOk f = true) :
    deserialize sign jsonOk (serialize sign ids frames) = .ok (ids, frames) := by
  unfold deserialize serialize
  have : ids ++ [DELIM, sign frames] ++ frames = ids ++ DELIM :: (sign frames :: frames) := by simp
  rw [this, splitDelim_serial ids _ hid]
  simp [decodeFrames_ok jsonOk 4 frames hlen hj]

/-- a frame list without the delimiter is rejected -/
theorem C19_deserialize_no_delim (sign : List Bytes → Bytes) (jsonOk : Bytes → Bool) (wire : List Bytes) (h : DELIM ∉ wire) :
    deserialize sign jsonOk wire = .error .noDelim := by
  unfold deserialize; rw [splitDelim_none wire h]

/-- **Only well-formed, correctly signed messages are accepted**: whatever `deserialize` accepts is
`identities ++ [DELIM, MAC(frames)] ++ frames` with at least four decodable frames and the delimiter not among the
identities – so a list without delimiter, with fewer than four frames after the signature, with a frame that does not
decode or with a signature that is not the MAC of ALL the frames is rejected. -/
theorem C19_deserialize_accepts_only (sign : List Bytes → Bytes) (jsonOk : Bytes → Bool) (wire ids frames : List Bytes)
    (h : deserialize sign jsonOk wire = .ok (ids, frames)) :
    wire = serialize sign ids frames ∧ DELIM ∉ ids ∧ 4 ≤ frames.length ∧ ∀ f ∈ frames.take 4, jsonOk f = true := by
  unfold deserialize at h
  cases hs : splitDelim wire with
  | none => simp [hs] at h
  | some p =>
    obtain ⟨ids', after⟩ := p
    obtain ⟨hw, hn⟩ := splitDelim_inv wire ids' after hs
    cases after with
    | nil => simp [hs] at h
    | cons sg fr =>
      simp only [hs] at h
      cases hd : decodeFrames jsonOk 4 fr with
      | some e => simp [hd] at h
      | none =>
        simp only [hd] at h
        by_cases hsig : sign fr = sg
        · simp only [hsig, if_true, Except.ok.injEq, Prod.mk.injEq] at h
          obtain ⟨rfl, rfl⟩ := h
          obtain ⟨h1, h2⟩ := decodeFrames_none_inv jsonOk 4 fr hd
          exact ⟨by rw [hw, ← hsig]; simp [serialize], hn, h1, h2⟩
        · simp [hsig] at h

/-- fewer than four frames after the signature (or no signature frame at all): rejected -/
theorem C19_deserialize_short (sign : List Bytes → Bytes) (jsonOk : Bytes → Bool) (ids after : List Bytes)
    (hid : DELIM ∉ ids) (h : after.length < 5) :
    ∃ e, deserialize sign jsonOk (ids ++ DELIM :: after) = .error e := by
  cases hd : deserialize sign jsonOk (ids ++ DELIM :: after) with
  | error e => exact ⟨e, rfl⟩
  | ok p =>
    obtain ⟨ids', frames⟩ := p
    obtain ⟨hw, hn, hl, _⟩ := C19_deserialize_accepts_only sign jsonOk _ ids' frames hd
    have h1 := splitDelim_serial ids after hid
    have h2 : splitDelim (ids ++ DELIM :: after) = some (ids', sign frames :: frames) := by
      rw [hw]; unfold serialize
      have : ids' ++ [DELIM, sign frames] ++ frames = ids' ++ DELIM :: (sign frames :: frames) := by simp
      rw [this]; exact splitDelim_serial ids' _ hn
    rw [h1] at h2
    simp only [Option.some.injEq, Prod.mk.injEq] at h2
    obtain ⟨_, rfl⟩ := h2
    simp only [List.length_cons] at h
    omega

/-- non-vacuity: two identities, a delimiter, and a second delimiter among the extra buffers -/
example : deserialize (fun _ => [7]) (fun _ => true) [[1], [2], DELIM, [7], [3], [4], [5], [6], DELIM] =
    .ok ([[1], [2]], [[3], [4], [5], [6], DELIM]) := by rfl

/-! ## (h) every message type of the shell channel -/

/-- the names in the tables read off `shell_handler` / `control_listen` pair every request type with ITS reply type -/
theorem C19_reply_table_matching : ∀ p ∈ SHELL_REPLY_TABLE ++ CONTROL_REPLY_TABLE, p.2 = matchingReply p.1 := by decide

/-- the shape the model of the handlers relies on, read off the source on every run: every one-reply branch sends exactly
once on the requesting socket with the request's identities and header, busy is sent first and idle last, the silent
branches send nothing, and the send sites of the execute branch are the ones `shellHandle` has. -/
theorem C19_handler_shape_tied :
    SHELL_BRANCH_SHAPE_OK = true ∧ SHELL_BUSY_FIRST = true ∧ SHELL_IDLE_LAST = true ∧
    SHELL_SILENT = [N_comm_close, N_comm_msg, N_comm_open] ∧
    EXEC_SENDS = [(N_execute_input, false, true), (N_execute_reply, true, true), (N_error, false, true), (N_status, false, true),
                  (N_execute_result, false, true), (N_execute_reply, true, true)] ∧
    CONTROL_REPLY_QUEUES_SHUTDOWN = true ∧ Current.catchAll = true := by decide

def RepliedShell (m : Bytes) : Bool := (SHELL_REPLY_TABLE.lookup m).isSome

/-- what one handled shell request must look like on the wire -/
structure ShellOK (ids : List Bytes) (i : Info) (outs : List KOut) : Prop where
  busy : outs.head? = some (pub i N_status .busy)
  idle : outs.getLast? = some (pub i N_status .idle)
  parent : ∀ o ∈ outs, o.parent = i.header
  chans : ∀ o ∈ outs, o.chan = .shell ∨ (o.chan = .iopub ∧ o.idents = [])
  reply : (outs.filter (fun o => o.chan = .shell)).map (fun o => (o.mtype, o.idents)) =
            if RepliedShell i.mtype then [(matchingReply i.mtype, ids)] else []

/-- **Every request type**: a handled shell request – whatever its type, whatever the interpreter or the parser did – is
bracketed by busy … idle on iopub, every emission carries the request's header as parent, and there is exactly one message
on the requesting socket, of the matching `*_reply` type and addressed to the request's identities, when the type is one
the kernel answers; none for `comm_*` and for unknown types. -/
theorem C19_shell_every_type (catchAll : Bool) (run : Nat → CellResult) (s : KState) (ids : List Bytes) (i : Info)
    (hc : (shellHandle catchAll run s ids i).crashed = false) :
    ShellOK ids i (shellHandle catchAll run s ids i).outs := by
  have m1 : matchingReply N_execute_request = N_execute_reply := by decide
  have m2 : matchingReply N_is_complete_request = N_is_complete_reply := by decide
  have r1 : RepliedShell N_execute_request = true := by decide
  have r2 : RepliedShell N_is_complete_request = true := by decide
  by_cases he : i.mtype = N_execute_request
  · rw [shellHandle_exec _ _ _ _ _ he]
    cases hr : run i.cell <;>
      exact ⟨by simp, by simp, by simp [pub, rep], by simp [pub, rep], by simp [pub, rep, he, r1, m1]⟩
  · by_cases hi : i.mtype = N_is_complete_request
    · rw [shellHandle_isc _ _ _ _ _ hi] at hc ⊢
      cases hq : isComplete catchAll i.code i.parse with
      | crash => simp [hq] at hc
      | complete => exact ⟨by simp, by simp, by simp [pub, rep], by simp [pub, rep], by simp [pub, rep, hi, r2, m2]⟩
      | incomplete n => exact ⟨by simp, by simp, by simp [pub, rep], by simp [pub, rep], by simp [pub, rep, hi, r2, m2]⟩
      | invalid => exact ⟨by simp, by simp, by simp [pub, rep], by simp [pub, rep], by simp [pub, rep, hi, r2, m2]⟩
    · rw [shellHandle_tbl _ _ _ _ _ he hi]
      cases hl : SHELL_REPLY_TABLE.lookup i.mtype with
      | none =>
        exact ⟨by simp, by simp, by simp [pub], by simp [pub], by simp [pub, RepliedShell, hl]⟩
      | some ty =>
        have hm : ty = matchingReply i.mtype :=
          C19_reply_table_matching (i.mtype, ty) (List.mem_append_left _ (lookup_mem _ _ _ hl))
        exact ⟨by simp, by simp, by simp [pub, rep], by simp [pub, rep], by simp [pub, rep, RepliedShell, hl, hm]⟩

/-- line numbers the parser reports lie inside the source (assumption about CPython, checked on every generated code) -/
def LinenoSane (code : List Nat) : ParseOutcome → Prop
  | .ok => True
  | .exc _ _ none => True
  | .exc _ _ (some none) => False
  | .exc _ _ (some (some n)) => n ≤ (splitNl code).length

/-- **`is_complete_request` is total over the parse outcomes**: parsed → complete / incomplete (indent of the last line);
ANY exception whose text is not an end-of-input message – a SyntaxError as well as a RecursionError, MemoryError or
UnicodeEncodeError from the parser – → invalid; an end-of-input message → incomplete.  Never an exception out of the
handler when every exception is caught (the code as it is). -/
theorem C19_is_complete_total (code : List Nat) (p : ParseOutcome) (hl : LinenoSane code p) :
    isComplete true code p ≠ .crash ∧
    (p = .ok → isComplete true code p = if lastIndent code = 0 then .complete else .incomplete (lastIndent code)) ∧
    (∀ sy ln, p = .exc sy false ln → isComplete true code p = .invalid) ∧
    (∀ sy ln, p = .exc sy true ln → ∃ n, isComplete true code p = .incomplete n ∧ lastIndent code ≤ n) := by
  refine ⟨?_, ?_, ?_, ?_⟩
  · cases p with
    | ok => simp only [isComplete]; split <;> simp
    | exc sy eo ln =>
      cases eo
      · simp [isComplete]
      · rcases ln with _ | _ | n
        · simp [isComplete]
        · exact absurd hl (by simp [LinenoSane])
        · cases n with
          | zero => simp only [isComplete]; simp; split <;> simp
          | succ n =>
            have hn : n < (splitNl code).length := by simp only [LinenoSane] at hl; omega
            simp only [isComplete]
            simp [List.getElem?_eq_getElem hn]
            split <;> simp
  · intro hp; subst hp; simp [isComplete]
  · intro sy ln hp; subst hp; simp [isComplete]
  · intro sy ln hp; subst hp
    rcases ln with _ | _ | n
    · exact ⟨_, by simp [isComplete], Nat.le_refl _⟩
    · exact absurd hl (by simp [LinenoSane])
    · cases n with
      | zero =>
        simp only [isComplete]; simp
        split
        · exact ⟨_, rfl, by omega⟩
        · exact ⟨_, rfl, Nat.le_refl _⟩
      | succ n =>
        have hn : n < (splitNl code).length := by simp only [LinenoSane] at hl; omega
        simp only [isComplete]
        simp [List.getElem?_eq_getElem hn]
        split
        · exact ⟨_, rfl, by omega⟩
        · exact ⟨_, rfl, Nat.le_refl _⟩

/-- so the handler of the code as it is never lets an exception of the parser escape … -/
theorem C19_shell_never_crashes (run : Nat → CellResult) (s : KState) (ids : List Bytes) (i : Info)
    (hl : LinenoSane i.code i.parse) : (shellHandle Current.catchAll run s ids i).crashed = false := by
  have hc : Current.catchAll = true := by decide
  rw [hc]
  by_cases he : i.mtype = N_execute_request
  · rw [shellHandle_exec _ _ _ _ _ he]; cases run i.cell <;> rfl
  · by_cases hi : i.mtype = N_is_complete_request
    · rw [shellHandle_isc _ _ _ _ _ hi]
      have := (C19_is_complete_total i.code i.parse hl).1
      cases hq : isComplete true i.code i.parse <;> simp_all
    · rw [shellHandle_tbl _ _ _ _ _ he hi]
      cases SHELL_REPLY_TABLE.lookup i.mtype <;> rfl

/-- … whereas a handler for SyntaxError only lets a RecursionError through: busy is broadcast, then no reply and no idle -/
theorem C19_regress_narrow_except (run : Nat → CellResult) (s : KState) (ids : List Bytes) :
    let i : Info := { header := 1, mtype := N_is_complete_request, parse := .exc false false none }
    (shellHandle false run s ids i).crashed = true ∧ (shellHandle false run s ids i).outs = [pub i N_status .busy] ∧
    (shellHandle true run s ids i).outs = [pub i N_status .busy, rep .shell ids i N_is_complete_reply .invalid, pub i N_status .idle] := by
  refine ⟨?_, ?_, ?_⟩ <;> simp [shellHandle, isComplete, isCompleteSub, show N_is_complete_request ≠ N_execute_request by decide]

/-- the indentation loop computes the leading blanks of the text after the last newline -/
example : lastIndent [105, 102, 32, 120, 58, 10, 32, 32, 121] = 2 ∧ specIndent [105, 102, 32, 120, 58, 10, 32, 32, 121] = 2 := by decide

/-! ## (i) control, heartbeat -/

/-- **Control channel**: a request of a type in the control table gets exactly one reply, of the matching type, on the
control socket, addressed to the request's identities with its header as parent – and queues the session shutdown; any
other type gets nothing. -/
theorem C19_control_reply (ids : List Bytes) (i : Info) :
    (i.mtype = N_shutdown_request →
      controlHandle ids i = ([rep .control ids i (matchingReply i.mtype)], true)) ∧
    (i.mtype ≠ N_shutdown_request → controlHandle ids i = ([], false)) := by
  have hl : CONTROL_REPLY_TABLE.lookup N_shutdown_request = some N_shutdown_reply := by decide
  have hm : matchingReply N_shutdown_request = N_shutdown_reply := by decide
  have hq : CONTROL_REPLY_QUEUES_SHUTDOWN = true := by decide
  constructor
  · intro h
    simp only [controlHandle, h, hl, hm, hq]
  · intro h
    unfold controlHandle
    have : CONTROL_REPLY_TABLE.lookup i.mtype = none := by
      simp only [CONTROL_REPLY_TABLE, List.lookup]
      have : (i.mtype == [115, 104, 117, 116, 100, 111, 119, 110, 95, 114, 101, 113, 117, 101, 115, 116]) = false := by
        simpa [N_shutdown_request] using h
      simp [this]
    rw [this]

/-- **Heartbeat**: the echo of a REQ ping (`[empty delimiter, payload]`, however fragmented) is byte-identical to the ping -/
theorem C19_heartbeat_echo (m rest : Bytes) (chunks : List Bytes) (hm : m.length < 2 ^ 64)
    (hc : chunks.flatten = encodeMultipart [[], m] ++ rest) :
    ∃ cs', hbEcho chunks = .ok (encodeMultipart [[], m], cs') ∧ cs'.flatten = rest := by
  have henc : encodeSingle m = encodeMultipart [[], m] := by
    simp only [encodeSingle, encodeMultipart, encFrame, sendShortMax, sendMultipartShortMax, flagMore, flagLast,
      flagLongInc, sendLongLenBytes]
    by_cases h : m.length ≤ 255 <;> simp [h]
  have h := C19_single m rest chunks hm (by rw [hc, henc])
  unfold hbEcho
  cases hr : recvSingle chunks with
  | error e => simp [hr] at h
  | ok p =>
    obtain ⟨x, r⟩ := p
    simp only [hr] at h
    obtain ⟨rfl, h2⟩ := h
    exact ⟨r, by simp only [henc], h2⟩

/-! ## (j) the session: every sequence of messages on every channel, and its end -/

/-- what a history entry must look like -/
def EntryOK (E : Env) (t : Entry) : Prop :=
  (t.before.up = false → t.outs = [] ∧ t.after.up = false) ∧
  (t.before.up = true → (t.ch = .iopub ∨ t.ch = .stdin ∨ t.ch = .hb) → t.outs = [] ∧ t.after.up = true) ∧
  (t.before.up = true → (t.ch = .shell ∨ t.ch = .control) →
    match deserialize E.sign E.jsonOk t.wire with
    | .error _ => t.outs = [] ∧ t.after.up = false ∧ t.after.k = t.before.k       -- never executed, never answered
    | .ok (ids, frames) =>
      if t.ch = .shell then
        (shellHandle E.catchAll E.run t.before.k ids (E.info frames)).crashed = false →
          ShellOK ids (E.info frames) t.outs ∧ t.after.up = true
      else
        t.after.k = t.before.k ∧
        ((E.info frames).mtype = N_shutdown_request →
          t.outs = [rep .control ids (E.info frames) N_shutdown_reply] ∧ t.after.up = false) ∧
        ((E.info frames).mtype ≠ N_shutdown_request → t.outs = [] ∧ t.after.up = true))

theorem chanStep_ok (E : Env) (s : Sess) (ch : Chan) (w : List Bytes) (h : SessInv s) :
    EntryOK E ⟨s, ch, w, (chanStep E s ch w).2, (chanStep E s ch w).1⟩ := by
  refine ⟨?_, ?_, ?_⟩
  · intro hu
    simp only at hu
    simp only [chanStep_down E s ch w hu]
    exact ⟨by trivial, hu⟩
  · intro hu hch
    simp only at hu hch
    simp only [chanStep_other E s ch w hch]
    exact ⟨by trivial, hu⟩
  · intro hu hch
    simp only at hu hch ⊢
    rcases hch with rfl | rfl
    · rw [chanStep_shell E s w hu]
      cases hd : deserialize E.sign E.jsonOk w with
      | error e => exact ⟨rfl, hkStep_shutdown_down s h, by simp⟩
      | ok p =>
        obtain ⟨ids, frames⟩ := p
        simp only [if_true]
        intro hc
        simp only [hc]
        exact ⟨C19_shell_every_type _ _ _ _ _ hc, hu⟩
    · rw [chanStep_control E s w hu]
      cases hd : deserialize E.sign E.jsonOk w with
      | error e => exact ⟨rfl, hkStep_shutdown_down s h, by simp⟩
      | ok p =>
        obtain ⟨ids, frames⟩ := p
        simp only [show (Chan.control = Chan.shell) = False by simp, if_false]
        have hm : matchingReply N_shutdown_request = N_shutdown_reply := by decide
        refine ⟨?_, ?_, ?_⟩
        · split <;> simp
        · intro ht
          have := (C19_control_reply ids (E.info frames)).1 ht
          simp only [this]
          exact ⟨by rw [ht, hm], hkStep_shutdown_down s h⟩
        · intro ht
          have := (C19_control_reply ids (E.info frames)).2 ht
          simp only [this]
          exact ⟨by trivial, hu⟩

/-- **Every sequence of messages.**  For ANY sequence of multipart messages arriving on the shell, control, iopub and stdin
connections of a session, every entry of the history is as it must be: a message that does not deserialize (no delimiter,
too few frames, undecodable frame, wrong signature) is never executed and never answered (and ends the session, as coded);
every accepted shell request gets its busy … idle bracket and exactly one reply of the matching type addressed to its own
identities (none for `comm_*` / unknown types); `shutdown_request` on control gets exactly one `shutdown_reply` on control
and ends the session, other control types and everything on iopub / stdin get nothing; after the end nothing is sent. -/
theorem C19_session_every_sequence (E : Env) (msgs : List (Chan × List Bytes)) (s : Sess) (h : SessInv s) :
    ∀ t ∈ trace E s msgs, EntryOK E t := by
  induction msgs generalizing s with
  | nil => simp [trace]
  | cons m rest ih =>
    obtain ⟨ch, w⟩ := m
    intro t ht
    simp only [trace, List.mem_cons] at ht
    rcases ht with rfl | ht
    · exact chanStep_ok E s ch w h
    · exact ih _ (chanStep_inv E s ch w h) t ht

/-- **Execution counter over every sequence**: after any sequence of messages on any channels the counter has advanced by
exactly the number of accepted `execute_request`s with `store_history` handled while the session was up – rejected
messages, every other type (known, `comm_*`, unknown), and everything on the other channels leave it alone. -/
theorem C19_session_counter (E : Env) (msgs : List (Chan × List Bytes)) (s : Sess) :
    (finalSess E s msgs).k.count = s.k.count + ((trace E s msgs).filter (countsExecute E)).length := by
  induction msgs generalizing s with
  | nil => simp [finalSess, trace]
  | cons m rest ih =>
    obtain ⟨ch, w⟩ := m
    simp only [finalSess, trace, List.filter_cons]
    rw [ih, chanStep_count E s ch w]
    split <;> simp <;> omega

/-! ## (k) shutdown ends the session exactly once -/

/-- **Shutdown ends the session exactly once.**  Whatever is put on the housekeeping queue (registrations, EOFs of
connections, stdout, any number of `shutdown` messages from the control channel, from listeners that met an exception and
from the start-up timeout) and however often `session_shutdown()` is called from outside, in any order: the body of
`session_shutdown` (delete the context, close the servers, cancel the tasks) has run exactly once if the session is down
and not at all if it is up; and one `shutdown` message or one outside call anywhere in the sequence is enough to end it. -/
theorem C19_shutdown_once (evs : List SessEv) :
    (sessRun {} evs).shutdowns = (if (sessRun {} evs).up then 0 else 1) ∧
    ((SessEv.hk .shutdown ∈ evs ∨ SessEv.external ∈ evs) → (sessRun {} evs).up = false ∧ (sessRun {} evs).shutdowns = 1) := by
  have hinv0 : SessInv ({} : Sess) := ⟨by simp, by simp⟩
  have hinv := sessRun_inv evs {} hinv0
  refine ⟨hinv.2, ?_⟩
  intro hm
  have key : ∀ (evs : List SessEv) (s : Sess), SessInv s → (SessEv.hk .shutdown ∈ evs ∨ SessEv.external ∈ evs) →
      (sessRun s evs).up = false := by
    intro evs
    induction evs with
    | nil => intro s _ h; simp at h
    | cons e rest ih =>
      intro s hs h
      by_cases he : e = SessEv.hk .shutdown ∨ e = SessEv.external
      · show (sessRun (sessEv s e) rest).up = false
        apply sessRun_down_stays rest
        rcases he with rfl | rfl
        · exact hkStep_shutdown_down s hs
        · exact (sessionShutdown_inv s hs).2
      · show (sessRun (sessEv s e) rest).up = false
        apply ih _ (sessEv_inv s e hs)
        simp only [List.mem_cons] at h
        rcases h with (h | h) | (h | h)
        · exact absurd (Or.inl h.symm) he
        · exact Or.inl h
        · exact absurd (Or.inr h.symm) he
        · exact Or.inr h
  have hd := key evs {} hinv0 hm
  exact ⟨hd, by rw [hinv.2, hd]; rfl⟩

/-- the same at the level of messages: however many shutdown requests, bad messages and crashes a session meets, its end
happens once, and afterwards it stays down -/
theorem C19_session_ends_once (E : Env) (msgs : List (Chan × List Bytes)) (s : Sess) (h : SessInv s) :
    SessInv (finalSess E s msgs) ∧ (s.up = false → (finalSess E s msgs).up = false) := by
  induction msgs generalizing s with
  | nil => exact ⟨h, fun hu => hu⟩
  | cons m rest ih =>
    obtain ⟨ch, w⟩ := m
    simp only [finalSess]
    obtain ⟨i1, i2⟩ := ih _ (chanStep_inv E s ch w h)
    refine ⟨i1, fun hu => i2 ?_⟩
    rw [chanStep_down E s ch w hu]; exact hu

/-- non-vacuity of the session theorems: the initial state satisfies the invariant -/
example : SessInv ({} : Sess) := ⟨by simp, by simp⟩

end PsModel.C19
