import PsModel.Lemmas.C15
/-!
# C15 – property theorems: `task.wait_until` returns for the first qualifying trigger and always cleans up

`Legacy.run cfg q tb v0 call hist` / `New.run …` = (exit, tables afterwards) of one call with arguments `cfg`, fresh
queue `q`, tables `tb` before, current value `v0` of the watched variable, at instant `call`, followed by the timed
history `hist` (state changes, events, cancellation of the waiter).  `Spec.first` = the first of {check-now, first
decisive occurrence, deadline anchored at the call}.  Only property statements live here.

The FULL statements ("for every argument combination the exit is `Spec.first`", "on every exit the tables are what
they were") do NOT hold for the code as it is; each `_partial` theorem states the exact fragment that is proved and
each `_cex` theorem is a kernel-checked witness that is replayed on the real code by the check (findings C15-F1…F6).
-/
namespace PsModel.C15
open Spec

/-! ## first-of -/

/-- **First qualifying trigger (legacy).**  For all well-formed arguments whose time trigger is not relative to `now`,
all current values, all call instants and all time-ordered histories: the call ends exactly as specified – with the
first decisive occurrence or the deadline (time instant / timeout after `T`), immediately on a true check-now, with
`none` iff nothing can ever happen, and it keeps waiting otherwise. -/
theorem C15_first_legacy_partial (cfg : Cfg) (hwf : WellFormed cfg) (hrel : NotRel cfg.time) (q : Nat) (tb : Tables)
    (v0 call : Nat) (hist : Hist) (hm : Mono call hist) (hnt : NoTies cfg call hist) :
    (Legacy.run cfg q tb v0 call hist).1 = first cfg v0 call hist :=
  legacy_first cfg hwf hrel q tb v0 call hist hm hnt

/-- **Witness (legacy), finding C15-F6.**  `time_trigger="once(now + 3s)"` with a non-qualifying event after 2 s: every
wake-up of the loop re-anchors `now`, the call returns at 5 s instead of 3 s. -/
theorem C15_first_cex_legacy_reanchor :
    let cfg : Cfg := { state := Option.none, time := .rel 3000, mqtt := Option.none, timeout := Option.none,
                       event := some { filt := some (fun d => some (decide (d = 1))), parseOK := true } }
    let tb : Tables := { stSubs := [], evSubs := [], evListeners := 0, mqSubs := [], mqListeners := 0, tasks := 0 }
    let hist : Hist := [(2001, .event 0)]
    (Legacy.run cfg 7 tb 0 1 hist).1 = .ret 5001 (.time 5001) ∧ first cfg 0 1 hist = .ret 3001 (.time 3001) ∧
    (New.run cfg 7 tb 0 1 hist).1 = .ret 3001 (.time 3001) := by
  decide

/-- **First qualifying trigger (new).**  Same statement for the new subsystem, for all well-formed arguments with a
timeout other than 0 and no time trigger without future instant next to other conditions. -/
theorem C15_first_new_partial (cfg : Cfg) (call : Nat) (hwf : WellFormed cfg) (htz : cfg.timeout ≠ some 0)
    (hdead : hasTime cfg = true →
      (timeNext cfg.time call).isSome = true ∨ (hasListen cfg = false ∧ cfg.timeout = Option.none))
    (q : Nat) (tb : Tables) (v0 : Nat) (hist : Hist) (hm : Mono call hist) :
    (New.run cfg q tb v0 call hist).1 = first cfg v0 call hist :=
  new_first cfg hwf htz hdead q tb v0 hist hm

/-- **Witness (new), finding C15-F3 (#23).**  `task.wait_until(event_trigger="e", timeout=0)`: specified (and legacy)
exit is `timeout` at once; the new subsystem never returns (and with `timeout=0` alone it raises). -/
theorem C15_first_cex_new_timeout0 :
    let cfg : Cfg := { state := Option.none, time := .none, mqtt := Option.none, timeout := some 0,
                       event := some { filt := Option.none, parseOK := true } }
    let only : Cfg := { state := Option.none, time := .none, mqtt := Option.none, timeout := some 0, event := Option.none }
    let tb : Tables := { stSubs := [], evSubs := [], evListeners := 0, mqSubs := [], mqListeners := 0, tasks := 0 }
    first cfg 0 1 [] = .ret 1 .timeout ∧ (Legacy.run cfg 7 tb 0 1 []).1 = .ret 1 .timeout ∧
    (New.run cfg 7 tb 0 1 []).1 = .waiting ∧
    (New.run cfg 7 tb 0 1 [(500, .event 3)]).1 = .ret 500 (.event 3) ∧
    (Legacy.run only 7 tb 0 1 []).1 = .ret 1 .timeout ∧ (New.run only 7 tb 0 1 []).1 = .exc 1 .runtime := by
  decide

/-- **Witness (new), finding C15-F5.**  A time trigger without any future instant next to an event trigger: the new
subsystem returns `none` at once instead of waiting for the event (legacy and the specification wait). -/
theorem C15_first_cex_new_none_early :
    let cfg : Cfg := { state := Option.none, time := .abs 0, mqtt := Option.none, timeout := Option.none,
                       event := some { filt := Option.none, parseOK := true } }
    let tb : Tables := { stSubs := [], evSubs := [], evListeners := 0, mqSubs := [], mqListeners := 0, tasks := 0 }
    let hist : Hist := [(1001, .event 4)]
    first cfg 0 1 hist = .ret 1001 (.event 4) ∧ (Legacy.run cfg 7 tb 0 1 hist).1 = .ret 1001 (.event 4) ∧
    (New.run cfg 7 tb 0 1 hist).1 = .ret 1 .none := by
  decide

/-! ## occurrences before the call or after the return -/

/-- **Before the call.**  The whole timeline before the call matters only through the value the watched variable has
at the call (which the check-now reads): two timelines that agree after the call and on that value give the same
exit and the same tables – events and state changes before the call are not seen (nothing is subscribed yet). -/
theorem C15_before (cfg : Cfg) (q : Nat) (tb : Tables) (v v' call : Nat) (full full' : Hist)
    (hafter : after call full = after call full') (hval : valueAt v call full = valueAt v' call full') :
    Legacy.runAt cfg q tb v call full = Legacy.runAt cfg q tb v' call full' ∧
    New.runAt cfg q tb v call full = New.runAt cfg q tb v' call full' := by
  unfold Legacy.runAt New.runAt
  rw [hafter, hval]
  exact ⟨rfl, rfl⟩

/-- **After the return (legacy).**  Whatever happens after the instant of the exit (return, exception or
cancellation) changes neither the exit nor the tables. -/
theorem C15_after_legacy (cfg : Cfg) (q : Nat) (tb : Tables) (v0 call : Nat) (hist later : Hist)
    (hne : (Legacy.run cfg q tb v0 call hist).1 ≠ .waiting)
    (hl : ∀ p ∈ later, exitTime (Legacy.run cfg q tb v0 call hist).1 < p.1) :
    Legacy.run cfg q tb v0 call (hist ++ later) = Legacy.run cfg q tb v0 call hist :=
  legacy_run_after cfg q tb v0 call hist later hne hl

/-- **After the return (new).** -/
theorem C15_after_new (cfg : Cfg) (q : Nat) (tb : Tables) (v0 call : Nat) (hist later : Hist)
    (hne : (New.run cfg q tb v0 call hist).1 ≠ .waiting)
    (hl : ∀ p ∈ later, exitTime (New.run cfg q tb v0 call hist).1 < p.1) :
    New.run cfg q tb v0 call (hist ++ later) = New.run cfg q tb v0 call hist :=
  new_run_after cfg q tb v0 call hist later hne hl

/-! ## clean-up -/

/-- **Clean-up (legacy), the fragment that holds.**  For ALL arguments (also ill-formed ones), tables, values and
histories: whenever the call ends by returning or by raising – except for a non-parsing MQTT/webhook filter next to an
event trigger – every table is exactly what it was before the call. -/
theorem C15_cleanup_legacy_partial (cfg : Cfg) (q : Nat) (tb : Tables) (v0 call : Nat) (hist : Hist)
    (hf : Fresh q tb) (hleak : ¬ LeakyParse cfg)
    (hexit : (Legacy.run cfg q tb v0 call hist).1.leavesRunning = false) :
    (Legacy.run cfg q tb v0 call hist).2 = tb :=
  legacy_cleanup cfg q tb v0 call hist hf hleak hexit

/-- **Clean-up (new), the fragment that holds.**  Every exit by return or exception (including parse errors, which
are found before anything is started) leaves every table as it was. -/
theorem C15_cleanup_new_partial (cfg : Cfg) (q : Nat) (tb : Tables) (v0 call : Nat) (hist : Hist)
    (hf : q ∉ tb.stSubs) (hexit : (New.run cfg q tb v0 call hist).1.leavesRunning = false) :
    (New.run cfg q tb v0 call hist).2 = tb :=
  new_cleanup cfg q tb v0 call hist hf hexit

/-- **Witness (legacy), finding C15-F1 (#20).**  The waiter is cancelled while waiting (what `task.unique` does): the
state subscription, the event subscription and its bus listener stay behind. -/
theorem C15_cex_cancel_leaks_legacy :
    let cfg : Cfg := { state := some { expr := fun v => some (decide (v = 5)), checkNow := true, parseOK := true },
                       time := .none, mqtt := Option.none, timeout := Option.none,
                       event := some { filt := Option.none, parseOK := true } }
    let tb : Tables := { stSubs := [], evSubs := [], evListeners := 0, mqSubs := [], mqListeners := 0, tasks := 0 }
    Legacy.run cfg 7 tb 0 1 [(1001, .cancel)] =
      (.cancelled 1001, { stSubs := [7], evSubs := [7], evListeners := 1, mqSubs := [], mqListeners := 0, tasks := 0 }) := by
  decide

/-- **Witness (new), finding C15-F2 (#20).**  Same scenario: the state subscription, the decorator's bus listener
and the background task of the state trigger stay behind. -/
theorem C15_cex_cancel_leaks_new :
    let cfg : Cfg := { state := some { expr := fun v => some (decide (v = 5)), checkNow := true, parseOK := true },
                       time := .none, mqtt := Option.none, timeout := Option.none,
                       event := some { filt := Option.none, parseOK := true } }
    let tb : Tables := { stSubs := [], evSubs := [], evListeners := 0, mqSubs := [], mqListeners := 0, tasks := 0 }
    New.run cfg 7 tb 0 1 [(1001, .cancel)] =
      (.cancelled 1001, { stSubs := [7], evSubs := [], evListeners := 1, mqSubs := [], mqListeners := 0, tasks := 1 }) := by
  decide

/-- **Cancellation at ANY instant keeps every subscription (legacy) – the general form of C15-F1.**  For all
arguments and histories: if the call ends by cancellation (at whatever step of the wait), the tables afterwards are
the tables with all subscriptions of the call still in place – different from the tables before as soon as any
state / event / MQTT trigger was given. -/
theorem C15_cancel_leaks_legacy_all (cfg : Cfg) (q : Nat) (tb : Tables) (v0 call : Nat) (hist : Hist) (t : Nat)
    (hf : Fresh q tb) (hl : hasListen cfg = true)
    (hc : (Legacy.run cfg q tb v0 call hist).1 = .cancelled t) :
    (Legacy.run cfg q tb v0 call hist).2 = Legacy.subscribed cfg q tb ∧
    (Legacy.run cfg q tb v0 call hist).2 ≠ tb := by
  have h := legacy_cancel_keeps cfg q tb v0 call hist t hc
  exact ⟨h, by rw [h]; exact legacy_subscribed_ne cfg q tb hf hl⟩

/-- **Cancellation at ANY instant stops nothing (new) – the general form of C15-F2.**  If the call ends by
cancellation, everything the successful `start` took (`New.applied`: state subscription, listeners, background
tasks of every started decorator) is still there. -/
theorem C15_cancel_leaks_new_all (cfg : Cfg) (q : Nat) (tb : Tables) (v0 call : Nat) (hist : Hist) (t : Nat)
    (hf : q ∉ tb.stSubs) (hc : (New.run cfg q tb v0 call hist).1 = .cancelled t) :
    ∃ s, (New.run cfg q tb v0 call hist).2 = New.applied q s tb ∧
      New.start cfg q tb v0 call = .ok (s, New.applied q s tb) :=
  new_cancel_keeps cfg q tb v0 call hist t hf hc

/-- **Witness (legacy), finding C15-F4.**  `event_trigger="e"` together with an MQTT trigger whose filter does not
parse: the `SyntaxError` leaves the event subscription and its bus listener behind (only the state subscription is
removed on that path); the new subsystem validates first and leaves nothing. -/
theorem C15_cex_parse_leaks_legacy :
    let cfg : Cfg := { state := Option.none, time := .none, mqtt := some { parseOK := false }, timeout := Option.none,
                       event := some { filt := Option.none, parseOK := true } }
    let tb : Tables := { stSubs := [], evSubs := [], evListeners := 0, mqSubs := [], mqListeners := 0, tasks := 0 }
    Legacy.run cfg 7 tb 0 1 [] =
      (.exc 1 .parse, { stSubs := [], evSubs := [7], evListeners := 1, mqSubs := [], mqListeners := 0, tasks := 0 }) ∧
    New.run cfg 7 tb 0 1 [] = (.exc 1 .parse, tb) := by
  decide

/-! ## non-vacuity -/

/-- the hypotheses of the first-of theorems are satisfiable by a scenario in which every kind of condition is
present: state trigger (check-now false, later true), absolute time trigger, event trigger with filter, timeout;
the state change at 2.5 s wins -/
example :
    let cfg : Cfg := { state := some { expr := fun v => some (decide (v > 3)), checkNow := true, parseOK := true },
                       time := .abs 9000, mqtt := some { parseOK := true }, timeout := some 8000,
                       event := some { filt := some (fun d => some (decide (d = 1))), parseOK := true } }
    let tb : Tables := { stSubs := [3], evSubs := [], evListeners := 0, mqSubs := [4], mqListeners := 1, tasks := 2 }
    let hist : Hist := [(501, .event 0), (1501, .state 2), (2501, .state 7), (3001, .event 1)]
    WellFormed cfg ∧ NotRel cfg.time ∧ Fresh 7 tb ∧
    Legacy.run cfg 7 tb 0 1 hist = (.ret 2501 (.state (some 7)), tb) ∧
    New.run cfg 7 tb 0 1 hist = (.ret 2501 (.state (some 7)), tb) ∧
    first cfg 0 1 hist = .ret 2501 (.state (some 7)) := by
  refine ⟨by simp [WellFormed, New.parseAll], by simp [NotRel], by simp [Fresh], by decide, by decide, by decide⟩

end PsModel.C15
