import PsModel.Lemmas.C15
/-!
# C15 – property theorems: `task.wait_until` returns for the first qualifying trigger and always cleans up

`Legacy.run fl cfg q tb v0 call hist` / `New.run fl …` = (exit, tables afterwards) of one call with arguments `cfg`,
fresh queue `q`, tables `tb` before, current value `v0` of the watched variable, at instant `call`, followed by the
timed history `hist` (state changes, events, cancellation of the waiter).  `Spec.first` = the first of {check-now,
first decisive occurrence, deadline anchored at the call}.  Only property statements live here.

`fl : Flags` chooses between the code before and after the five `fix:` commits of /repo:
`Flags.current` (d8d17a4 stop-on-cancel, 74d9745 timeout=0, 28f0376 anchored `now`, 3b0ef9c `none` only for a lone
expired time trigger, a3cf272 legacy unsubscribe in a `finally`) is what the check ties to the working tree; `Flags.preFix` is the tree before them.  The `_flags` theorems are proved for EVERY flag value with
the fragment depending on the flag; the unsuffixed ones are their instances at `Flags.current`; the `_regress_`
theorems are kernel-checked witnesses that the pre-fix shapes violate what now holds (they would fail to build if
somebody re-introduced the old shape as current and kept the full theorems).

No finding is open any more: the first-of statement and the clean-up statement (every exit path, cancellation at
every instant included) are FULL for both subsystems; the six former deviations survive as `_regress_` witnesses.

Scope of the first-of / before-after theorems: calls WITHOUT `state_hold` / `state_hold_false` (`NoHolds`).  Calls
with a hold run the executable hold machines `Legacy.loopH` / `New.loopH`, which mirror the hold variables of the
code and are tied to it by the correspondence check and judged by the Python timeline oracle; only the clean-up
theorems (which do not look inside the wait) and the sanity examples at the end cover them.
-/
namespace PsModel.C15
open Spec

/-! ## first-of -/

/-- **First qualifying trigger (legacy), every flag value.**  For all well-formed arguments, all current values, all
call instants and all time-ordered histories: the call ends exactly as specified – with the first decisive
occurrence or the deadline (time instant / timeout after `T`), immediately on a true check-now, with `none` iff
nothing can ever happen, and it keeps waiting otherwise – provided the time trigger is anchored at the call
(`Anchored`: always for the repaired loop; for the pre-fix loop only when it is not now-relative). -/
theorem C15_first_legacy_flags (fl : Flags) (cfg : Cfg) (hwf : WellFormed cfg) (hnh : NoHolds cfg) (hanch : Anchored fl cfg.time)
    (hpos : PosRel cfg.time) (q : Nat) (tb : Tables) (v0 call : Nat) (hist : Hist) (hm : Mono call hist)
    (hnt : NoTies cfg call hist) :
    (Legacy.run fl cfg q tb v0 call hist).1 = first cfg v0 call hist :=
  legacy_first fl cfg hwf hnh hanch hpos q tb v0 call hist hm hnt

/-- **First qualifying trigger (legacy), the code as it is now.**  Also for now-relative time triggers
(`once(now + d)`, `d > 0`): no hypothesis about the shape of the time trigger is left. -/
theorem C15_first_legacy (cfg : Cfg) (hwf : WellFormed cfg) (hnh : NoHolds cfg) (hpos : PosRel cfg.time) (q : Nat) (tb : Tables)
    (v0 call : Nat) (hist : Hist) (hm : Mono call hist) (hnt : NoTies cfg call hist) :
    (Legacy.run Flags.current cfg q tb v0 call hist).1 = first cfg v0 call hist :=
  legacy_first Flags.current cfg hwf hnh (by intro h; cases h) hpos q tb v0 call hist hm hnt

/-- **Regression witness (legacy), fixed finding C15-F6 (28f0376).**  `time_trigger="once(now + 3s)"` with a
non-qualifying event after 2 s: the pre-fix loop re-anchors `now` and returns at 5 s; the repaired loop returns at
3 s as specified. -/
theorem C15_first_regress_legacy_reanchor :
    let cfg : Cfg := { state := Option.none, time := .rel 3000, mqtt := Option.none, timeout := Option.none,
                       event := some { filt := some (fun d => some (decide (d = 1))), parseOK := true } }
    let tb : Tables := { stSubs := [], evSubs := [], evListeners := 0, mqSubs := [], mqListeners := 0, tasks := 0 }
    let hist : Hist := [(2001, .event 0)]
    (Legacy.run Flags.preFix cfg 7 tb 0 1 hist).1 = .ret 5001 (.time 5001) ∧
    first cfg 0 1 hist = .ret 3001 (.time 3001) ∧
    (Legacy.run Flags.current cfg 7 tb 0 1 hist).1 = .ret 3001 (.time 3001) := by
  decide

/-- **First qualifying trigger (new), every flag value.**  Same statement for the new subsystem; only for the
pre-fix shapes: the timeout is not 0 (`timeout0Absent`) and a time trigger without future instant is not combined
with anything else (`noneEager`). -/
theorem C15_first_new_flags (fl : Flags) (cfg : Cfg) (call : Nat) (hwf : WellFormed cfg) (hnh : NoHolds cfg)
    (htz : fl.timeout0Absent = true → cfg.timeout ≠ some 0)
    (hdead : fl.noneEager = true → hasTime cfg = true →
      (timeNext cfg.time call).isSome = true ∨ (hasListen cfg = false ∧ cfg.timeout = Option.none))
    (q : Nat) (tb : Tables) (v0 : Nat) (hist : Hist) (hm : Mono call hist) :
    (New.run fl cfg q tb v0 call hist).1 = first cfg v0 call hist :=
  new_first fl cfg hwf hnh htz hdead q tb v0 hist hm

/-- **First qualifying trigger (new), FULL statement, the code as it is now.**  For ALL well-formed arguments – every
timeout including 0, every time trigger including expired ones next to other conditions –, all current values, call
instants and time-ordered histories the call ends exactly as specified. -/
theorem C15_first_new (cfg : Cfg) (call : Nat) (hwf : WellFormed cfg) (hnh : NoHolds cfg)
    (q : Nat) (tb : Tables) (v0 : Nat) (hist : Hist) (hm : Mono call hist) :
    (New.run Flags.current cfg q tb v0 call hist).1 = first cfg v0 call hist :=
  new_first Flags.current cfg hwf hnh (by intro h; cases h) (by intro h; cases h) q tb v0 hist hm

/-- **Regression witness (new), fixed finding C15-F3 (#23, 74d9745).**  `task.wait_until(event_trigger="e",
timeout=0)`: the pre-fix shape never returns (and `timeout=0` alone raises); the repaired shape returns `timeout` at
once, like legacy and the specification. -/
theorem C15_first_regress_new_timeout0 :
    let cfg : Cfg := { state := Option.none, time := .none, mqtt := Option.none, timeout := some 0,
                       event := some { filt := Option.none, parseOK := true } }
    let only : Cfg := { state := Option.none, time := .none, mqtt := Option.none, timeout := some 0, event := Option.none }
    let tb : Tables := { stSubs := [], evSubs := [], evListeners := 0, mqSubs := [], mqListeners := 0, tasks := 0 }
    first cfg 0 1 [] = .ret 1 .timeout ∧ first only 0 1 [] = .ret 1 .timeout ∧
    (New.run Flags.preFix cfg 7 tb 0 1 []).1 = .waiting ∧
    (New.run Flags.preFix cfg 7 tb 0 1 [(500, .event 3)]).1 = .ret 500 (.event 3) ∧
    (New.run Flags.preFix only 7 tb 0 1 []).1 = .exc 1 .runtime ∧
    New.run Flags.current cfg 7 tb 0 1 [(500, .event 3)] = (.ret 1 .timeout, tb) ∧
    New.run Flags.current only 7 tb 0 1 [] = (.ret 1 .timeout, tb) ∧
    (Legacy.run Flags.current cfg 7 tb 0 1 []).1 = .ret 1 .timeout := by
  decide

/-- **Regression witness (new), fixed finding C15-F5 (3b0ef9c).**  A time trigger without any future instant next to
an event trigger (or a timeout): the pre-fix shape returns `none` at once; the repaired shape waits for the event /
the timeout like legacy and the specification, and still answers `none` when the expired time trigger is alone. -/
theorem C15_first_regress_new_none_early :
    let cfg : Cfg := { state := Option.none, time := .abs 0, mqtt := Option.none, timeout := Option.none,
                       event := some { filt := Option.none, parseOK := true } }
    let withTo : Cfg := { state := Option.none, time := .abs 0, mqtt := Option.none, timeout := some 2000, event := Option.none }
    let alone : Cfg := { state := Option.none, time := .abs 0, mqtt := Option.none, timeout := Option.none, event := Option.none }
    let tb : Tables := { stSubs := [], evSubs := [], evListeners := 0, mqSubs := [], mqListeners := 0, tasks := 0 }
    let hist : Hist := [(1001, .event 4)]
    first cfg 0 1 hist = .ret 1001 (.event 4) ∧
    (Legacy.run Flags.current cfg 7 tb 0 1 hist).1 = .ret 1001 (.event 4) ∧
    (New.run Flags.preFix cfg 7 tb 0 1 hist).1 = .ret 1 .none ∧
    New.run Flags.current cfg 7 tb 0 1 hist = (.ret 1001 (.event 4), tb) ∧
    first withTo 0 1 [] = .ret 2001 .timeout ∧
    (New.run { Flags.current with noneEager := true } withTo 7 tb 0 1 []).1 = .ret 1 .none ∧
    New.run Flags.current withTo 7 tb 0 1 [] = (.ret 2001 .timeout, tb) ∧
    New.run Flags.current alone 7 tb 0 1 hist = (.ret 1 .none, tb) ∧ first alone 0 1 hist = .ret 1 .none := by
  decide

/-! ## `"startup"` / `"shutdown"` entries of the time_trigger list -/

/-- **The entries are ignored (both subsystems, current code)**, whatever the arguments, the timeline and the entries:
a call whose `time_trigger` list holds `"startup"` / `"shutdown"` (or is empty) behaves exactly like the call with
the remaining specifications – so every theorem of this file about `runAt` speaks about such calls too. -/
theorem C15_entries_ignored (en : Entries) (fl : Flags) (cfg : Cfg) (q : Nat) (tb : Tables) (v call : Nat) (full : Hist) :
    Legacy.runAtE en fl cfg q tb v call full = Legacy.runAt fl cfg q tb v call full ∧
    New.runAtE entriesActedCurrent en fl cfg q tb v call full = New.runAt fl cfg q tb v call full := by
  constructor
  · rfl
  · simp [New.runAtE, New.exitWithEntries, entriesActedCurrent]

/-- **Regression witness (new), fixed finding C15-F8.**  `time_trigger=["startup"]` next to an event trigger: the
pre-fix shape returns a `time` result at the call; `time_trigger=["shutdown"]` next to an event trigger: the pre-fix
shape replaces the event that ends the wait (and a timeout likewise) by a `time` result; the repaired shape returns
the event / the timeout like legacy and the specification.  A check-now hit still wins in the pre-fix shape. -/
theorem C15_first_regress_new_entries :
    let cfg : Cfg := { state := Option.none, time := .abs 0, mqtt := Option.none, timeout := Option.none,
                       event := some { filt := Option.none, parseOK := true } }
    let withTo : Cfg := { cfg with timeout := some 500 }
    let chk : Cfg := { cfg with state := some { expr := fun v => some (decide (v = 5)), checkNow := true, parseOK := true } }
    let tb : Tables := { stSubs := [], evSubs := [], evListeners := 0, mqSubs := [], mqListeners := 0, tasks := 0 }
    let hist : Hist := [(1001, .event 4)]
    let su : Entries := { startup := true, shutdown := false }
    let sd : Entries := { startup := false, shutdown := true }
    first cfg 0 1 hist = .ret 1001 (.event 4) ∧
    (Legacy.runAtE su Flags.current cfg 7 tb 0 1 hist).1 = .ret 1001 (.event 4) ∧
    (New.runAtE entriesActedPreFix su Flags.current cfg 7 tb 0 1 hist).1 = .ret 1 (.time 1) ∧
    (New.runAtE entriesActedPreFix sd Flags.current cfg 7 tb 0 1 hist).1 = .ret 1001 (.time 1001) ∧
    (New.runAtE entriesActedPreFix sd Flags.current withTo 7 tb 0 1 hist).1 = .ret 501 (.time 501) ∧
    (New.runAtE entriesActedPreFix su Flags.current chk 7 tb 5 1 hist).1 = .ret 1 (.state Option.none) ∧
    New.runAtE entriesActedCurrent su Flags.current cfg 7 tb 0 1 hist = (.ret 1001 (.event 4), tb) ∧
    New.runAtE entriesActedCurrent sd Flags.current cfg 7 tb 0 1 hist = (.ret 1001 (.event 4), tb) ∧
    New.runAtE entriesActedCurrent sd Flags.current withTo 7 tb 0 1 hist = (.ret 501 .timeout, tb) := by
  decide

/-! ## occurrences before the call or after the return -/

/-- **Before the call.**  The whole timeline before the call matters only through the value the watched variable has
at the call (which the check-now reads): two timelines that agree after the call and on that value give the same
exit and the same tables – events and state changes before the call are not seen (nothing is subscribed yet). -/
theorem C15_before (fl : Flags) (cfg : Cfg) (q : Nat) (tb : Tables) (v v' call : Nat) (full full' : Hist)
    (hafter : after call full = after call full') (hval : valueAt v call full = valueAt v' call full') :
    Legacy.runAt fl cfg q tb v call full = Legacy.runAt fl cfg q tb v' call full' ∧
    New.runAt fl cfg q tb v call full = New.runAt fl cfg q tb v' call full' := by
  unfold Legacy.runAt New.runAt
  rw [hafter, hval]
  exact ⟨rfl, rfl⟩

/-- **After the return (legacy).**  Whatever happens after the instant of the exit (return, exception or
cancellation) changes neither the exit nor the tables. -/
theorem C15_after_legacy (fl : Flags) (cfg : Cfg) (hnh : NoHolds cfg) (q : Nat) (tb : Tables) (v0 call : Nat) (hist later : Hist)
    (hne : (Legacy.run fl cfg q tb v0 call hist).1 ≠ .waiting)
    (hl : ∀ p ∈ later, exitTime (Legacy.run fl cfg q tb v0 call hist).1 < p.1) :
    Legacy.run fl cfg q tb v0 call (hist ++ later) = Legacy.run fl cfg q tb v0 call hist :=
  legacy_run_after fl cfg hnh q tb v0 call hist later hne hl

/-- **After the return (new).** -/
theorem C15_after_new (fl : Flags) (cfg : Cfg) (hnh : NoHolds cfg) (q : Nat) (tb : Tables) (v0 call : Nat) (hist later : Hist)
    (hne : (New.run fl cfg q tb v0 call hist).1 ≠ .waiting)
    (hl : ∀ p ∈ later, exitTime (New.run fl cfg q tb v0 call hist).1 < p.1) :
    New.run fl cfg q tb v0 call (hist ++ later) = New.run fl cfg q tb v0 call hist :=
  new_run_after fl cfg hnh q tb v0 call hist later hne hl

/-! ## clean-up -/

/-- **Clean-up (legacy), every flag value.**  For ALL arguments (also ill-formed ones), tables, values and histories:
whenever the subscriptions are not kept (`Legacy.keeps`: still waiting; cancelled waiter only in the pre-fix shape)
– and, only in the pre-fix shape, the exit is not a non-parsing MQTT/webhook filter next to an event trigger – every
table is exactly what it was before the call. -/
theorem C15_cleanup_legacy_flags (fl : Flags) (cfg : Cfg) (q : Nat) (tb : Tables) (v0 call : Nat) (hist : Hist)
    (hf : Fresh q tb) (hleak : fl.legacyNoFinally = true → ¬ LeakyParse cfg)
    (hexit : Legacy.keeps fl (Legacy.run fl cfg q tb v0 call hist).1 = false) :
    (Legacy.run fl cfg q tb v0 call hist).2 = tb :=
  legacy_cleanup fl cfg q tb v0 call hist hf hleak hexit

/-- **Clean-up (legacy), FULL statement, the code as it is now.**  For ALL arguments (also ill-formed ones), tables,
values and histories, on EVERY exit path – return, exception in a condition, filter that does not parse, and
cancellation of the waiting task at every instant – all subscriptions and listeners the call created are released. -/
theorem C15_cleanup_legacy (cfg : Cfg) (q : Nat) (tb : Tables) (v0 call : Nat) (hist : Hist)
    (hf : Fresh q tb) (hended : (Legacy.run Flags.current cfg q tb v0 call hist).1 ≠ .waiting) :
    (Legacy.run Flags.current cfg q tb v0 call hist).2 = tb := by
  apply legacy_cleanup Flags.current cfg q tb v0 call hist hf (by intro h; cases h)
  cases h : (Legacy.run Flags.current cfg q tb v0 call hist).1 with
  | waiting => exact absurd h hended
  | ret t r => rfl
  | exc t k => rfl
  | cancelled t => rfl

/-- **Clean-up (new), every flag value.**  Whenever the manager is not kept (`New.keeps`: still waiting; cancelled
waiter only in the pre-fix shape), every table is exactly what it was before the call. -/
theorem C15_cleanup_new_flags (fl : Flags) (cfg : Cfg) (q : Nat) (tb : Tables) (v0 call : Nat) (hist : Hist)
    (hf : q ∉ tb.stSubs) (hexit : New.keeps fl (New.run fl cfg q tb v0 call hist).1 = false) :
    (New.run fl cfg q tb v0 call hist).2 = tb :=
  new_cleanup fl cfg q tb v0 call hist hf hexit

/-- **Clean-up (new), FULL statement, the code as it is now.**  For ALL arguments (also ill-formed ones), tables,
values and histories, on EVERY exit path – return, exception in a condition, parse error, and cancellation of the
waiting task at every instant – all subscriptions, listeners and background tasks the call created are released. -/
theorem C15_cleanup_new (cfg : Cfg) (q : Nat) (tb : Tables) (v0 call : Nat) (hist : Hist)
    (hf : q ∉ tb.stSubs) (hended : (New.run Flags.current cfg q tb v0 call hist).1 ≠ .waiting) :
    (New.run Flags.current cfg q tb v0 call hist).2 = tb := by
  apply new_cleanup Flags.current cfg q tb v0 call hist hf
  cases h : (New.run Flags.current cfg q tb v0 call hist).1 with
  | waiting => exact absurd h hended
  | ret t r => rfl
  | exc t k => rfl
  | cancelled t => rfl

/-- **Regression witness (legacy), fixed finding C15-F1 (#20, a3cf272).**  The waiter is cancelled while waiting
(what `task.unique` does): in the pre-fix shape the state subscription, the event subscription and its bus listener
stay behind; the repaired shape leaves the tables as they were. -/
theorem C15_cleanup_regress_legacy_cancel :
    let cfg : Cfg := { state := some { expr := fun v => some (decide (v = 5)), checkNow := true, parseOK := true },
                       time := .none, mqtt := Option.none, timeout := Option.none,
                       event := some { filt := Option.none, parseOK := true } }
    let tb : Tables := { stSubs := [], evSubs := [], evListeners := 0, mqSubs := [], mqListeners := 0, tasks := 0 }
    Legacy.run Flags.preFix cfg 7 tb 0 1 [(1001, .cancel)] =
      (.cancelled 1001, { stSubs := [7], evSubs := [7], evListeners := 1, mqSubs := [], mqListeners := 0, tasks := 0 }) ∧
    Legacy.run Flags.current cfg 7 tb 0 1 [(1001, .cancel)] = (.cancelled 1001, tb) := by
  decide

/-- **Regression witness (new), fixed finding C15-F2 (#20, d8d17a4).**  Same scenario: in the pre-fix shape the state
subscription, the decorator's bus listener and the background task of the state trigger stay behind; the repaired
shape leaves the tables as they were. -/
theorem C15_cleanup_regress_new_cancel :
    let cfg : Cfg := { state := some { expr := fun v => some (decide (v = 5)), checkNow := true, parseOK := true },
                       time := .none, mqtt := Option.none, timeout := Option.none,
                       event := some { filt := Option.none, parseOK := true } }
    let tb : Tables := { stSubs := [], evSubs := [], evListeners := 0, mqSubs := [], mqListeners := 0, tasks := 0 }
    New.run Flags.preFix cfg 7 tb 0 1 [(1001, .cancel)] =
      (.cancelled 1001, { stSubs := [7], evSubs := [], evListeners := 1, mqSubs := [], mqListeners := 0, tasks := 1 }) ∧
    New.run Flags.current cfg 7 tb 0 1 [(1001, .cancel)] = (.cancelled 1001, tb) := by
  decide

/-- **Regression (legacy), the general form of the fixed C15-F1.**  In every shape without the `finally`
(`legacyNoFinally`), for all arguments and histories: if the call ends by cancellation (at whatever step of the
wait), the tables afterwards are the tables with all subscriptions of the call still in place – different from the
tables before as soon as any state / event / MQTT trigger was given. -/
theorem C15_cleanup_regress_legacy_cancel_all (fl : Flags) (hflag : fl.legacyNoFinally = true) (cfg : Cfg) (q : Nat)
    (tb : Tables) (v0 call : Nat) (hist : Hist) (t : Nat) (hf : Fresh q tb) (hl : hasListen cfg = true)
    (hc : (Legacy.run fl cfg q tb v0 call hist).1 = .cancelled t) :
    (Legacy.run fl cfg q tb v0 call hist).2 = Legacy.subscribed cfg q tb ∧
    (Legacy.run fl cfg q tb v0 call hist).2 ≠ tb := by
  have h := legacy_cancel_keeps fl cfg q tb v0 call hist t hflag hc
  exact ⟨h, by rw [h]; exact legacy_subscribed_ne cfg q tb hf hl⟩

/-- **Regression (new), the general form of the fixed C15-F2.**  In every shape that does not stop on cancellation
(`cancelNoStop`), a call that ends by cancellation leaves everything the successful `start` took in place. -/
theorem C15_cleanup_regress_new_cancel_all (fl : Flags) (hflag : fl.cancelNoStop = true) (cfg : Cfg) (q : Nat)
    (tb : Tables) (v0 call : Nat) (hist : Hist) (t : Nat)
    (hf : q ∉ tb.stSubs) (hc : (New.run fl cfg q tb v0 call hist).1 = .cancelled t) :
    ∃ s, (New.run fl cfg q tb v0 call hist).2 = New.applied q s tb ∧
      New.start fl cfg q tb v0 call = .ok (s, New.applied q s tb) :=
  new_cancel_keeps fl cfg q tb v0 call hist t hflag hf hc

/-- **Regression witness (legacy), fixed finding C15-F4 (a3cf272).**  `event_trigger="e"` together with an MQTT trigger
whose filter does not parse: in the pre-fix shape the `SyntaxError` leaves the event subscription and its bus
listener behind (only the state subscription is removed on that path); the repaired shape leaves nothing, like the
new subsystem, which validates first. -/
theorem C15_cleanup_regress_legacy_parse :
    let cfg : Cfg := { state := Option.none, time := .none, mqtt := some { parseOK := false }, timeout := Option.none,
                       event := some { filt := Option.none, parseOK := true } }
    let tb : Tables := { stSubs := [], evSubs := [], evListeners := 0, mqSubs := [], mqListeners := 0, tasks := 0 }
    Legacy.run Flags.preFix cfg 7 tb 0 1 [] =
      (.exc 1 .parse, { stSubs := [], evSubs := [7], evListeners := 1, mqSubs := [], mqListeners := 0, tasks := 0 }) ∧
    Legacy.run Flags.current cfg 7 tb 0 1 [] = (.exc 1 .parse, tb) ∧
    New.run Flags.current cfg 7 tb 0 1 [] = (.exc 1 .parse, tb) := by
  decide

/-! ## non-vacuity -/

/-- the hypotheses of the first-of theorems are satisfiable by a scenario in which every kind of condition is
present: state trigger (check-now false, later true), now-relative time trigger, event trigger with filter, timeout;
the state change at 2.5 s wins -/
example :
    let cfg : Cfg := { state := some { expr := fun v => some (decide (v > 3)), checkNow := true, parseOK := true },
                       time := .rel 9000, mqtt := some { parseOK := true }, timeout := some 8000,
                       event := some { filt := some (fun d => some (decide (d = 1))), parseOK := true } }
    let tb : Tables := { stSubs := [3], evSubs := [], evListeners := 0, mqSubs := [4], mqListeners := 1, tasks := 2 }
    let hist : Hist := [(501, .event 0), (1501, .state 2), (2501, .state 7), (3001, .event 1)]
    WellFormed cfg ∧ PosRel cfg.time ∧ Fresh 7 tb ∧
    Legacy.run Flags.current cfg 7 tb 0 1 hist = (.ret 2501 (.state (some 7)), tb) ∧
    New.run Flags.current cfg 7 tb 0 1 hist = (.ret 2501 (.state (some 7)), tb) ∧
    first cfg 0 1 hist = .ret 2501 (.state (some 7)) := by
  refine ⟨by simp [WellFormed, New.parseAll], by simp [PosRel], by simp [Fresh], by decide, by decide, by decide⟩

/-- the hold machines on the two scenarios of the seeded changes C15_3 / C15_4: a `state_hold` longer than the timeout
ends with `timeout` (not `state`) in both subsystems; after a too-short false period a true→true change does not
end a `state_hold_false` wait, the next sufficiently long false period does -/
example :
    let tb : Tables := { stSubs := [], evSubs := [], evListeners := 0, mqSubs := [], mqListeners := 0, tasks := 0 }
    let holdCfg : Cfg := { state := some { expr := fun v => some (decide (v > 3)), checkNow := true, parseOK := true,
                                           hold := some 5000 },
                           time := .none, mqtt := Option.none, timeout := some 400, event := Option.none }
    let hfCfg : Cfg := { state := some { expr := fun v => some (decide (v ≥ 10)), checkNow := false, parseOK := true,
                                         holdFalse := some 500 },
                         time := .none, mqtt := Option.none, timeout := some 10000, event := Option.none }
    let hist : Hist := [(101, .state 5), (201, .state 11), (1001, .state 12), (1101, .state 5), (1801, .state 13)]
    Legacy.run Flags.current holdCfg 7 tb 7 1 [] = (.ret 401 .timeout, tb) ∧
    New.run Flags.current holdCfg 7 tb 7 1 [] = (.ret 401 .timeout, tb) ∧
    Legacy.run Flags.current holdCfg 7 tb 0 1 [(101, .state 5)] = (.ret 401 .timeout, tb) ∧
    Legacy.run Flags.current hfCfg 7 tb 20 1 hist = (.ret 1801 (.state (some 13)), tb) ∧
    New.run Flags.current hfCfg 7 tb 20 1 hist = (.ret 1801 (.state (some 13)), tb) := by
  decide

end PsModel.C15
