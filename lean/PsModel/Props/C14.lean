import PsModel.Lemmas.C14
import PsModel.Props.C13
/-!
# C14 – property theorems: every run is an independent task whose exit always cleans up

`run cfg ops` is the state of `function.py`'s registries after the atomic steps `ops` (any number of tasks, any
interleaving of task creation, body segments, `task.add_done_callback` / `remove_done_callback` / `task.cancel` /
`task.unique`, reaper deliveries, and the step-by-step `finally` of `run_coro`).  `current` is the code as it is now
(after the `fix:` commits e4231d2, 83f57a2, f683cd7, 48c341a, a0b69d9 of /repo), `preFix` the code before them; the
`_regress_` theorems show that the pre-fix configuration reproduces the fixed defects and the current one does not.
Theorems over `run cfg ops` are proved by induction over `ops`.
-/
namespace PsModel.C14
open PsModel.C13 (Task upd upd_same upd_other upd_apply MapsInv)

set_option linter.unusedSectionVars false
variable {κ : Type} [DecidableEq κ]

/-- everything the model knows about one task -/
def view (s : St κ) (b : Task) :=
  (s.phase b, s.outcome b, s.result b, s.cb b, s.hctx b, s.idx b, s.loopDone b, s.leaked b, s.bailed b,
   s.u.ours b, s.u.live b, s.u.names b, s.u.entry b, s.u.cancelReq b, s.u.parked b)

/-- **Independence.**  Whatever happens in the life cycle of task `a` – its start, its body returning, raising or being
cancelled, each of its done-callbacks (starting, returning, raising, cancelled), its clean-up or an aborted `finally` – no other
task's state changes: `b` is neither delayed (not parked, nothing queued for it, no cancel delivered) nor terminated,
and none of its callbacks runs.  (A task that sleeps or waits takes no step at all.) -/
theorem C14_independent (cfg : Cfg) (s : St κ) (op : Op κ) (a b : Task)
    (hop : lifecycleOf op = some a) (hb : b ≠ a) :
    view (step cfg s op) b = view s b ∧ ranOf (step cfg s op) b = ranOf s b ∧
    (step cfg s op).u.reaperQ = s.u.reaperQ := by
  have hexit : ∀ u : C13.St κ, (C13.exitStep u a).ours b = u.ours b ∧ (C13.exitStep u a).live b = u.live b ∧
      (C13.exitStep u a).names b = u.names b ∧ (C13.exitStep u a).entry b = u.entry b ∧
      (C13.exitStep u a).cancelReq b = u.cancelReq b ∧ (C13.exitStep u a).parked b = u.parked b ∧
      (C13.exitStep u a).reaperQ = u.reaperQ := by
    intro u
    unfold C13.exitStep
    split
    · simp
    · split
      · split <;> simp [upd_other _ _ _ _ hb]
      · simp [upd_other _ _ _ _ hb]
  have hfinish : ∀ (s : St κ) (r : Res), view (finish s a r) b = view s b ∧ ranOf (finish s a r) b = ranOf s b ∧
      (finish s a r).u.reaperQ = s.u.reaperQ := by
    intro s r
    obtain ⟨e1, e2, e3, e4, e5, e6, e7⟩ := hexit s.u
    exact ⟨by simp [finish, view, upd_other _ _ _ _ hb, e1, e2, e3, e4, e5, e6], rfl, e7⟩
  have habort : ∀ (s : St κ) (r : Res), view (bail cfg s a r) b = view s b ∧ ranOf (bail cfg s a r) b = ranOf s b ∧
      (bail cfg s a r).u.reaperQ = s.u.reaperQ := by
    intro s r
    unfold bail
    split
    · obtain ⟨x1, x2, x3⟩ := hfinish { s with bailed := upd s.bailed a (some r) } r
      exact ⟨x1.trans (by simp [view, upd_other _ _ _ _ hb]), x2.trans rfl, x3⟩
    · simp [abort, view, ranOf, upd_other _ _ _ _ hb]
  cases op with
  | create t wc pre => simp [lifecycleOf] at hop
  | addCb x t c args => simp [lifecycleOf] at hop
  | removeCb x t c => simp [lifecycleOf] at hop
  | cancel x tg => simp [lifecycleOf] at hop
  | unique t k km => simp [lifecycleOf] at hop
  | reap => simp [lifecycleOf] at hop
  | start t =>
    simp only [lifecycleOf, Option.some.injEq] at hop; subst hop
    simp only [step, startStep]
    split
    · exact ⟨rfl, rfl, rfl⟩
    · split
      · exact ⟨by simp [killUnstarted, view, upd_other _ _ _ _ hb], rfl, rfl⟩
      refine ⟨?_, rfl, ?_⟩
      · simp only [view, upd_other _ _ _ _ hb, C13.spawnStep]
        have : (if s.withCtx t then ensureEntry s.cb t else s.cb) b = s.cb b := by
          split
          · exact ensureEntry_other _ _ _ hb
          · rfl
        rw [this]
        split <;> simp [upd_other _ _ _ _ hb]
      · simp only [C13.spawnStep]; split <;> rfl
  | storeCtx t =>
    simp only [lifecycleOf, Option.some.injEq] at hop; subst hop
    simp only [step, storeCtxStep]
    split
    · exact ⟨by simp [view, upd_other _ _ _ _ hb], rfl, rfl⟩
    · exact ⟨rfl, rfl, rfl⟩
  | endBody t oc =>
    simp only [lifecycleOf, Option.some.injEq] at hop; subst hop
    simp only [step, endBodyStep]
    split
    · exact ⟨rfl, rfl, rfl⟩
    · exact ⟨by simp [view, upd_other _ _ _ _ hb], rfl, rfl⟩
  | cbBegin t =>
    simp only [lifecycleOf, Option.some.injEq] at hop; subst hop
    simp only [step, cbBeginStep]
    split
    · exact ⟨rfl, rfl, rfl⟩
    · split
      · exact ⟨rfl, rfl, rfl⟩
      · split
        · exact ⟨rfl, rfl, rfl⟩
        · split
          · exact habort s _
          · split
            · exact ⟨rfl, rfl, rfl⟩
            · rename_i c a' _
              refine ⟨by simp [view, upd_other _ _ _ _ hb], ?_, rfl⟩
              rw [ranOf_append s t b c a' _ rfl]; simp [hb]
  | cbEnd t r =>
    simp only [lifecycleOf, Option.some.injEq] at hop; subst hop
    simp only [step, cbEndStep]
    split
    · exact ⟨rfl, rfl, rfl⟩
    · split
      · exact ⟨rfl, rfl, rfl⟩
      · cases r with
        | ok => exact ⟨by simp [view], rfl, rfl⟩
        | raises =>
          simp only []
          split
          · exact ⟨by simp [view], rfl, rfl⟩
          · exact ⟨by simp [view, upd_other _ _ _ _ hb], rfl, rfl⟩
        | cancelled =>
          obtain ⟨x1, x2, x3⟩ := habort { s with inCb := upd s.inCb t false } Res.cancelled
          exact ⟨x1.trans (by simp [view]), x2.trans rfl, x3⟩
  | cleanup t =>
    simp only [lifecycleOf, Option.some.injEq] at hop; subst hop
    simp only [step, cleanupStep]
    split
    · exact ⟨rfl, rfl, rfl⟩
    · split
      · exact ⟨rfl, rfl, rfl⟩
      · split
        · exact ⟨rfl, rfl, rfl⟩
        · split
          · exact habort s _
          · exact hfinish s _

/-- **Callbacks, safety part (all schedules, all faults, every configuration).**  The callbacks that ran for a task are a
prefix of its callback list at the end of its body – registration order, latest arguments, removed ones never, and
(the keys being distinct) no function twice.  With the repaired snapshot iteration this needs no proviso; with the
pre-fix live-dict iteration it holds as long as nobody adds/removes callbacks of a task whose `finally` already runs. -/
theorem C14_callbacks_prefix (cfg : Cfg) (ops : List (Op κ)) (t : Task)
    (hp : (run cfg ops).phase t = .finalizing ∨ (run cfg ops).phase t = .done)
    (ht : cfg.snapshotIter = true ∨ (run cfg ops).touched t = false) :
    ranOf (run cfg ops) t = (specRan (run cfg ops) t).take ((run cfg ops).idx t) ∧
    ((specRan (run cfg ops) t).map (·.1)).Nodup :=
  ⟨((invC_run cfg ops).ran t hp ht).1, (invC_run cfg ops).atEndKeys t⟩

/-- before a task's body has ended none of its callbacks has run -/
theorem C14_callbacks_not_early (cfg : Cfg) (ops : List (Op κ)) (t : Task)
    (hp : (run cfg ops).phase t = .none ∨ (run cfg ops).phase t = .created ∨ (run cfg ops).phase t = .running) :
    ranOf (run cfg ops) t = [] :=
  (invC_run cfg ops).pre t hp

/-- **Callbacks, exactly once – for every configuration.**  A finished task whose callback loop was not left by an
exception ran every callback exactly once, provided (pre-fix `break` only) none of them raised and (pre-fix live-dict
iteration only) its dict was not modified while its `finally` ran. -/
theorem C14_callbacks_partial (cfg : Cfg) (ops : List (Op κ)) (t : Task)
    (hd : (run cfg ops).phase t = .done) (hb : (run cfg ops).bailed t = none)
    (ht : cfg.snapshotIter = true ∨ (run cfg ops).touched t = false)
    (hr : cfg.cbContinues = true ∨ (run cfg ops).cbRaised t = false) :
    ranOf (run cfg ops) t = specRan (run cfg ops) t := by
  have hc := invC_run cfg ops
  obtain ⟨a, _⟩ := hc.ran t (Or.inr hd) ht
  have := hc.full t hd ht hb hr
  rw [a, this]; exact List.take_length

/-- **Callbacks, exactly once – the code as it is now.**  Every finished task ran each callback registered at the end
of its body exactly once, in order, with its latest arguments – whether or not callbacks raised or (de)registered
callbacks meanwhile – unless a cancellation was delivered inside one of its callbacks (`bailed`, see
`C14_cancel_inside_callback`). -/
theorem C14_callbacks_current (ops : List (Op κ)) (t : Task)
    (hd : (run current ops).phase t = .done) (hb : (run current ops).bailed t = none) :
    ranOf (run current ops) t = specRan (run current ops) t :=
  C14_callbacks_partial current ops t hd hb (Or.inl rfl) (Or.inl rfl)

/-- **One entry per callback function, replaceable, removable** (`dict[callback] = …`, `dict.pop(callback)`). -/
theorem C14_callback_table (l : List (Cb × Args)) (c : Cb) (a a' : Args) (h : (l.map (·.1)).Nodup) :
    ((setCb l c a).map (·.1)).Nodup ∧ (c, a) ∈ setCb l c a ∧
    (c ∈ l.map (·.1) → (setCb l c a).map (·.1) = l.map (·.1)) ∧
    setCb (setCb l c a) c a' = setCb l c a' ∧ c ∉ (delCb l c).map (·.1) ∧
    (∀ p ∈ delCb l c, p ∈ l) := by
  refine ⟨nodup_setCb l c a h, ?_, ?_, ?_, not_mem_delCb l c, ?_⟩
  · induction l with
    | nil => simp [setCb]
    | cons p l ih =>
      obtain ⟨c', x⟩ := p
      simp only [setCb]
      split
      · simp
      · exact List.mem_cons_of_mem _ (ih (List.nodup_cons.1 h).2)
  · intro hc; rw [keys_setCb]; simp [hc]
  · clear h
    induction l with
    | nil => simp [setCb]
    | cons p l ih =>
      obtain ⟨c', x⟩ := p
      simp only [setCb]
      by_cases e : c' = c
      · simp [e, setCb]
      · simp [e, setCb, ih]
  · intro p hp; exact (List.mem_filter.1 hp).1

/-- a clean-up is skipped only without the inner `try … finally` (pre-fix) or for a task that was cancelled before
its first segment (`stillborn`: `run_coro` never ran, so neither did its `finally`) -/
theorem leaked_false (cfg : Cfg) (ops : List (Op κ)) (t : Task)
    (hl : cfg.cleanupAlways = true ∧ (run cfg ops).stillborn t = false ∨ (run cfg ops).leaked t = false) :
    (run cfg ops).leaked t = false := by
  rcases hl with ⟨e1, e2⟩ | e
  · cases hk : (run cfg ops).leaked t with
    | false => rfl
    | true =>
      rcases ((invL_run cfg ops).leak t hk).1 with a | a
      · rw [e1] at a; cases a
      · rw [e2] at a; cases a
  · exact e

/-- the code as it is now never cancels a task before its first segment: the reaper waits for it (/repo ca978a8) -/
theorem stillborn_current (ops : List (Op κ)) (t : Task) : (run current ops).stillborn t = false := by
  cases h : (run current ops).stillborn t with
  | false => rfl
  | true => have := (invS_run current ops).still t h; cases this

/-- **Clean-up, every configuration.**  A finished task whose clean-up was not skipped is in no registry and owns no
unique name; with `cleanupAlways` (the repaired code) the clean-up is skipped only for a task that was cancelled
before its first segment. -/
theorem C14_cleanup_partial (cfg : Cfg) (ops : List (Op κ)) (t : Task)
    (hd : (run cfg ops).phase t = .done)
    (hl : cfg.cleanupAlways = true ∧ (run cfg ops).stillborn t = false ∨ (run cfg ops).leaked t = false) :
    Clean (run cfg ops) t := by
  have h := invR_run cfg ops
  have hl : (run cfg ops).leaked t = false := leaked_false cfg ops t hl
  have hnl : ¬ Live (run cfg ops) t := by unfold Live; rw [hd]; simp
  have no : ∀ {p : Prop}, (p → Live (run cfg ops) t ∨ (run cfg ops).leaked t = true) → ¬ p := by
    intro p f hp
    rcases f hp with a | a
    · exact hnl a
    · rw [hl] at a; cases a
  have hentry : (run cfg ops).u.entry t = false := C13.not_true_false (no (h.entry t))
  have hown : ∀ k, (run cfg ops).u.owner k ≠ some t := by
    intro k e
    have := (h.maps.own k t e).2
    rw [hentry] at this; cases this
  have hours : (run cfg ops).u.ours t = false := by
    cases ho : (run cfg ops).u.ours t with
    | false => rfl
    | true =>
      rcases h.ours t ho with a | a | a
      · rw [hd] at a; cases a
      · exact absurd a hnl
      · rw [hl] at a; cases a
  refine ⟨hours, ?_, C13.not_true_false (no (h.hctx t)), ?_, hentry, hown⟩
  · cases hc : (run cfg ops).cb t with
    | none => rfl
    | some l =>
      have : (run cfg ops).cb t ≠ none := by rw [hc]; simp
      rcases h.cb t this with a | a | a
      · rw [hd] at a; cases a
      · exact absurd a hnl
      · rw [hl] at a; cases a
  · apply List.eq_nil_iff_forall_not_mem.2
    intro k hk
    exact hown k (h.maps.names_own k t hk)

/-- **Clean-up – the code as it is now: every finished task**, however it ended (returned, raised, cancelled in its
body, inside a done-callback, or right after it was created), is in no registry and owns no unique name. -/
theorem C14_cleanup (ops : List (Op κ)) (t : Task) (hd : (run current ops).phase t = .done) :
    Clean (run current ops) t :=
  C14_cleanup_partial current ops t hd (Or.inl ⟨rfl, stillborn_current ops t⟩)

/-- **Regression statement about the pre-fix shape**: the clean-up can only be skipped without the inner
`try … finally` (`cleanupAlways = false`), and then only by a cancellation delivered inside a callback or by the
callback dict of the task being modified while its `finally` runs. -/
theorem C14_regress_leak_causes (cfg : Cfg) (ops : List (Op κ)) (t : Task) (hl : (run cfg ops).leaked t = true) :
    (cfg.cleanupAlways = false ∨ (run cfg ops).stillborn t = true) ∧ (run cfg ops).phase t = .done ∧
    ((run cfg ops).touched t = true ∨ (run cfg ops).result t = some .cancelled) := by
  have h := invL_run cfg ops
  obtain ⟨a, b, c⟩ := h.leak t hl
  refine ⟨a, b, ?_⟩
  cases hb : (run cfg ops).bailed t with
  | none => exact absurd hb c
  | some r =>
    obtain ⟨_, e, f⟩ := h.bail t r hb
    rcases f with f | ⟨_, f, _⟩
    · subst f; exact Or.inr e
    · exact Or.inl f

/-- the code as it is now never skips a clean-up -/
theorem C14_never_leaks (ops : List (Op κ)) (t : Task) : (run current ops).leaked t = false :=
  leaked_false current ops t (Or.inl ⟨rfl, stillborn_current ops t⟩)

/-- **Quiescence, every configuration**: all created tasks finished and no clean-up skipped ⇒ all registries empty. -/
theorem C14_quiescent_empty_partial (cfg : Cfg) (ops : List (Op κ))
    (hq : ∀ t, (run cfg ops).phase t = .none ∨ (run cfg ops).phase t = .done)
    (hl : (cfg.cleanupAlways = true ∧ ∀ t, (run cfg ops).stillborn t = false) ∨
          ∀ t, (run cfg ops).leaked t = false) :
    (∀ t, (run cfg ops).u.ours t = false ∧ (run cfg ops).cb t = none ∧ (run cfg ops).hctx t = false ∧
          (run cfg ops).u.entry t = false ∧ (run cfg ops).u.names t = []) ∧
    (∀ k, (run cfg ops).u.owner k = none) := by
  have h := invR_run cfg ops
  have hl : ∀ t, (run cfg ops).leaked t = false := by
    intro t
    rcases hl with ⟨e1, e2⟩ | e
    · exact leaked_false cfg ops t (Or.inl ⟨e1, e2 t⟩)
    · exact e t
  have hnl : ∀ t, ¬ Live (run cfg ops) t := by
    intro t hl
    rcases hq t with e | e <;> (unfold Live at hl; rw [e] at hl; simp at hl)
  have no : ∀ t {p : Prop}, (p → Live (run cfg ops) t ∨ (run cfg ops).leaked t = true) → ¬ p := by
    intro t p f hp
    rcases f hp with a | a
    · exact hnl t a
    · rw [hl t] at a; cases a
  have hentry : ∀ t, (run cfg ops).u.entry t = false := fun t => C13.not_true_false (no t (h.entry t))
  have hown : ∀ k, (run cfg ops).u.owner k = none := by
    intro k
    cases e : (run cfg ops).u.owner k with
    | none => rfl
    | some t =>
      have := (h.maps.own k t e).2
      rw [hentry t] at this; cases this
  have hours : ∀ t, (run cfg ops).u.ours t = false := by
    intro t
    cases ho : (run cfg ops).u.ours t with
    | false => rfl
    | true =>
      rcases h.ours t ho with a | a | a
      · rcases hq t with e | e <;> (rw [e] at a; cases a)
      · exact absurd a (hnl t)
      · rw [hl t] at a; cases a
  refine ⟨fun t => ⟨hours t, ?_, C13.not_true_false (no t (h.hctx t)), hentry t, ?_⟩, hown⟩
  · cases hc : (run cfg ops).cb t with
    | none => rfl
    | some l =>
      have : (run cfg ops).cb t ≠ none := by rw [hc]; simp
      rcases h.cb t this with a | a | a
      · rcases hq t with e | e <;> (rw [e] at a; cases a)
      · exact absurd a (hnl t)
      · rw [hl t] at a; cases a
  · apply List.eq_nil_iff_forall_not_mem.2
    intro k hk
    have := h.maps.names_own k t hk
    rw [hown k] at this; cases this

/-- **Quiescence – the code as it is now.**  For every step sequence after which every task that was ever created has
finished – in whatever way – all registries are empty. -/
theorem C14_quiescent_empty (ops : List (Op κ))
    (hq : ∀ t, (run current ops).phase t = .none ∨ (run current ops).phase t = .done) :
    (∀ t, (run current ops).u.ours t = false ∧ (run current ops).cb t = none ∧ (run current ops).hctx t = false ∧
          (run current ops).u.entry t = false ∧ (run current ops).u.names t = []) ∧
    (∀ k, (run current ops).u.owner k = none) :=
  C14_quiescent_empty_partial current ops hq (Or.inl ⟨rfl, stillborn_current ops⟩)

/-- **Result.**  A task whose callback loop was not left by an exception finishes with the outcome of its body:
`ok v` ↦ `v`, an exception ↦ logged and `None`, cancelled ↦ cancelled. -/
theorem C14_result (cfg : Cfg) (ops : List (Op κ)) (t : Task)
    (hd : (run cfg ops).phase t = .done) (hb : (run cfg ops).bailed t = none) :
    (run cfg ops).result t = some (specResult (run cfg ops) t) :=
  (invL_run cfg ops).res t hd hb

/-- **The remaining excluded case, now harmless**: in the code as it is now the only exception that leaves a callback
loop is a cancellation delivered inside a done-callback; the task then ends as *cancelled* (it was cancelled), the
callbacks not yet started are skipped (`C14_callbacks_prefix`), and it is cleaned up like every other task. -/
theorem C14_cancel_inside_callback (ops : List (Op κ)) (t : Task) (r : Res)
    (hb : (run current ops).bailed t = some r) :
    r = .cancelled ∧ (run current ops).result t = some .cancelled ∧ Clean (run current ops) t := by
  obtain ⟨a, b, c⟩ := (invL_run current ops).bail t r hb
  have hr : r = .cancelled := by
    rcases c with c | ⟨_, _, c⟩
    · exact c
    · cases c
  subst hr
  exact ⟨rfl, b, C14_cleanup ops t a⟩

/-- the unique-name maps stay mutually inverse through every schedule, aborted `finally`s included -/
theorem C14_maps_inv (cfg : Cfg) (ops : List (Op κ)) (k : κ) (t : Task) :
    (run cfg ops).u.owner k = some t ↔ k ∈ (run cfg ops).u.names t :=
  ⟨fun e => ((invR_run cfg ops).maps.own k t e).1, (invR_run cfg ops).maps.names_own k t⟩

/-! ### regression theorems: the pre-fix configuration reproduces the fixed defects, the current one does not -/

/-- #19 / C14-F1, fixed by /repo e4231d2.  Pre-fix: the first of two callbacks raises – the second never runs.
Now: both run. -/
theorem C14_regress_callback_raises_skips_rest :
    let ops : List (Op Nat) := [.create 0 true true, .start 0, .addCb 0 0 1 10, .addCb 0 0 2 20,
                                .endBody 0 (.ok 5), .cbBegin 0, .cbEnd 0 .raises, .cbBegin 0, .cbEnd 0 .ok, .cleanup 0]
    (run preFix ops).phase 0 = .done ∧ specRan (run preFix ops) 0 = [(1, 10), (2, 20)] ∧
    ranOf (run preFix ops) 0 = [(1, 10)] ∧ (run preFix ops).result 0 = some (.value 5) ∧
    ranOf (run current ops) 0 = [(1, 10), (2, 20)] ∧ (run current ops).result 0 = some (.value 5) ∧
    (run current ops).phase 0 = .done := by
  decide

/-- C14-F2, fixed by /repo f683cd7.  Pre-fix: a cancellation delivered inside a done-callback leaves the `finally`:
the task stays in `our_tasks`, `task2cb`, `task2context` and keeps its unique name.  Now: same schedule, the task is
cancelled and forgotten (the second callback is still skipped and the result is still `cancelled`). -/
theorem C14_regress_cancel_during_callback_leaks_registries :
    let ops : List (Op Nat) := [.create 0 true true, .start 0, .storeCtx 0, .unique 0 7 false, .addCb 0 0 1 10,
                                .addCb 0 0 2 20, .endBody 0 (.ok 5), .cbBegin 0, .create 1 true true, .start 1,
                                .cancel 1 (some 0), .reap, .cbEnd 0 .cancelled]
    ((run preFix ops).phase 0 = .done ∧ (run preFix ops).leaked 0 = true ∧ (run preFix ops).u.ours 0 = true ∧
     (run preFix ops).cb 0 ≠ none ∧ (run preFix ops).hctx 0 = true ∧ (run preFix ops).u.owner 7 = some 0) ∧
    ((run current ops).phase 0 = .done ∧ (run current ops).leaked 0 = false ∧ (run current ops).u.ours 0 = false ∧
     (run current ops).cb 0 = none ∧ (run current ops).hctx 0 = false ∧ (run current ops).u.owner 7 = none ∧
     ranOf (run current ops) 0 = [(1, 10)] ∧ (run current ops).result 0 = some .cancelled) := by
  decide

/-- C14-F3, fixed by /repo 83f57a2.  Pre-fix: a done-callback that registers another callback on its own task makes
the dict iterator raise `RuntimeError`; the remaining callback is skipped, nothing is cleaned.  Now: the loop runs over
the snapshot – both registered callbacks run, the late one does not, the task ends with its value and is forgotten. -/
theorem C14_regress_callback_mutates_dict_leaks :
    let ops : List (Op Nat) := [.create 0 true true, .start 0, .addCb 0 0 1 10, .addCb 0 0 2 20, .endBody 0 (.ok 5),
                                .cbBegin 0, .addCb 0 0 3 30, .cbEnd 0 .ok, .cbBegin 0, .cbEnd 0 .ok, .cleanup 0]
    ((run preFix ops).phase 0 = .done ∧ (run preFix ops).leaked 0 = true ∧ (run preFix ops).u.ours 0 = true ∧
     (run preFix ops).cb 0 ≠ none ∧ ranOf (run preFix ops) 0 = [(1, 10)] ∧
     (run preFix ops).result 0 = some .error) ∧
    ((run current ops).phase 0 = .done ∧ (run current ops).u.ours 0 = false ∧ (run current ops).cb 0 = none ∧
     ranOf (run current ops) 0 = [(1, 10), (2, 20)] ∧ (run current ops).result 0 = some (.value 5)) := by
  decide

/-- #24 / C14-F4, fixed by /repo 48c341a + a0b69d9.  Pre-fix: a `@service` task is created without an evaluator
context, has no `task2cb` entry, and `task.add_done_callback(task.current_task(), …)` inside it raises `KeyError`.
Now the entry exists and the callback is registered. -/
theorem C14_regress_service_task_has_no_callback_entry :
    let go := fun (cfg : Cfg) =>
      step cfg (step cfg (createService cfg (init : St Nat) 0) (.start 0)) (.addCb 0 0 1 10)
    ((go preFix).errs = 1 ∧ (go preFix).cb 0 = none) ∧
    ((go current).errs = 0 ∧ (go current).cb 0 = some [(1, 10)]) := by
  decide

/-- C14-F5, fixed by /repo e8a0175.  Pre-fix: `task.cancel(t)` of a task that was created but has not run its first
segment raised `TypeError` (`our_tasks` was filled by `run_coro` only) and nothing was queued.  Now the task is one of
ours from `create_task` on: the cancel is queued and, once the task has run its first segment, delivered. -/
theorem C14_regress_cancel_before_start_raises :
    let ops : List (Op Nat) := [.create 0 true true, .start 0, .create 1 true true, .cancel 0 (some 1)]
    ((run preFix ops).errs = 1 ∧ (run preFix ops).u.reaperQ = []) ∧
    ((run current ops).errs = 0 ∧ (run current ops).u.reaperQ = [1] ∧
     (run current (ops ++ [.reap])).u.reaperQ = [1] ∧
     (run current (ops ++ [.reap, .start 1, .reap])).u.reaperQ = [] ∧
     (run current (ops ++ [.reap, .start 1, .reap])).u.cancelReq 1 = true ∧
     (run current (ops ++ [.reap, .start 1, .reap])).phase 1 = .running) := by
  decide

/-- C14-F7, opened by e8a0175 and fixed by /repo ca978a8.  In between (`preF7`) the reaper, when it was already working
through its queue, called `cancel()` on a new task before that task's first step: the step then threw `CancelledError`
into the not yet started `run_coro`, no statement of it ran, so its `finally` did not either – the done-callback
registered on the task never ran and its `task2cb` entry stayed for ever.  Now the same `reap` waits, the task starts,
the next `reap` cancels it, and its body ends cancelled, its callback runs and it is forgotten. -/
theorem C14_regress_cancel_before_first_segment :
    let pre : List (Op Nat) := [.create 0 true true, .start 0, .create 1 true true, .addCb 0 1 2 7,
                                .cancel 0 (some 1), .reap, .start 1]
    let post : List (Op Nat) := [.reap, .endBody 1 .cancelled, .cbBegin 1, .cbEnd 1 .ok, .cleanup 1]
    ((run preF7 pre).phase 1 = .done ∧ (run preF7 pre).stillborn 1 = true ∧
     (run preF7 pre).result 1 = some .cancelled ∧ (run preF7 pre).cb 1 = some [(2, 7)] ∧
     ranOf (run preF7 pre) 1 = [] ∧ specRan (run preF7 pre) 1 = [(2, 7)] ∧ (run preF7 pre).leaked 1 = true) ∧
    ((run current pre).phase 1 = .running ∧ (run current pre).u.reaperQ = [1] ∧
     (run current (pre ++ post)).phase 1 = .done ∧ (run current (pre ++ post)).result 1 = some .cancelled ∧
     ranOf (run current (pre ++ post)) 1 = [(2, 7)] ∧ (run current (pre ++ post)).cb 1 = none ∧
     (run current (pre ++ post)).u.ours 1 = false) := by
  decide

/-- **A task can be cancelled from the moment it exists** (the code as it is now): in any state, once `create_task`
has made task `t`, `task.cancel(t)` by a running task raises nothing and puts `t` on the reaper queue. -/
theorem C14_cancel_created_task (s : St κ) (a t : Task) (wc pre : Bool)
    (hp : s.phase t = .none) (ha : active s a = true) (hne : a ≠ t) :
    let s1 := step current s (.create t wc pre)
    (step current s1 (.cancel a (some t))).errs = s.errs ∧
    t ∈ (step current s1 (.cancel a (some t))).u.reaperQ := by
  have hact : active (createStep current s t wc pre) a = true := by
    unfold active at ha ⊢
    unfold createStep
    simp only [hp, ne_eq, not_true_eq_false, if_false, upd_other _ _ _ _ hne, current_eq, if_true]
    exact ha
  simp only [step, cancelStep, hact, Bool.not_true, Bool.false_eq_true, if_false, Option.getD_some]
  have hours : (createStep current s t wc pre).u.ours t = true := by
    unfold createStep
    simp [hp, current_eq]
  simp only [hours, Bool.not_true, Bool.false_eq_true, if_false, Option.isNone_some]
  constructor
  · unfold createStep; simp [hp]
  · simp [C13.enqueue]

/-- C14-F6, fixed by /repo 32185a9.  Pre-fix: **the one shared await** – the reaper awaited every task it cancelled, so
while a cancelled task 0 was still inside a (sleeping) done-callback the reaper was busy and the cancellation that the
unrelated task 1 had queued (`task.cancel()` of itself) was not delivered until task 0's `finally` was over.  Now the
same `reap` delivers it at once. -/
theorem C14_regress_reaper_serialises_cancellations :
    let pre : List (Op Nat) := [.create 0 true true, .start 0, .addCb 0 0 3 1, .create 2 true true, .start 2,
                                .cancel 2 (some 0), .reap, .endBody 0 .cancelled, .cbBegin 0,
                                .create 1 true true, .start 1, .cancel 1 none]
    (C13.busy (run preFix (pre ++ [.reap])).u = true ∧ (run preFix (pre ++ [.reap])).u.reaperQ = [1] ∧
     (run preFix (pre ++ [.reap])).u.cancelReq 1 = false ∧ (run preFix (pre ++ [.reap])).inCb 0 = true ∧
     (run preFix (pre ++ [.cbEnd 0 .ok, .cleanup 0, .reap])).u.cancelReq 1 = true) ∧
    ((run current (pre ++ [.reap])).u.reaperQ = [] ∧ (run current (pre ++ [.reap])).u.cancelReq 1 = true ∧
     (run current (pre ++ [.reap])).inCb 0 = true) := by
  decide

/-- **The reaper never waits for a task's clean-up or done-callbacks** (the code as it is now): in any state, whatever
any other task is doing, one reaper iteration takes the head of the queue and – if that task is still running – cancels
it.  The only thing it waits for is the *first statement* of a task that has not started yet (`headUnstarted`: that
task is already on the ready queue, so the wait is one loop iteration): then the step changes nothing, and as soon as
the task has started the first clause applies. -/
theorem C14_reaper_never_blocks (s : St κ) (h : Task) (q : List Task) (hq : s.u.reaperQ = h :: q) :
    (s.phase h ≠ .created →
      (step current s .reap).u.reaperQ = q ∧
      (s.u.live h = true → (step current s .reap).u.cancelReq h = true)) ∧
    (s.phase h = .created → step current s .reap = s) := by
  constructor
  · intro hs
    have hu : headUnstarted s = false := by
      unfold headUnstarted; rw [hq]
      simp only [beq_eq_false_iff_ne, ne_eq]; exact hs
    simp only [step, reapStep, hu, Bool.false_eq_true, if_false, C13.reapStepCfg, current_eq, Bool.not_true,
      Bool.false_and, hq]
    constructor
    · split <;> rfl
    · intro hl; simp [hl]
  · intro hs
    have hu : headUnstarted s = true := by unfold headUnstarted; rw [hq]; simp [hs]
    simp [step, reapStep, hu, current_eq]


/-! ### the tie to the source: shape tables extracted from function.py / eval.py / decorators/service.py -/

/-- **The extracted shapes are the modelled shapes**: `current` is DEFINED from the extracted configuration flags (a
pre-fix shape that the extractor recognises turns the corresponding flag and with it the replayed model; these theorems
then stop building); the remaining shape facts – loop under `if task in task2cb`, each callback awaited with its own
`(ast_ctx, args, kwargs)`, first segment adds to `our_tasks` and makes the `task2cb` entry, result = the body's value,
`CancelledError` re-raised, other exceptions logged, `unstarted_tasks` tracked iff the reaper waits for it, entry kept
when present, add = dict store / remove = pop, `task.cancel` = default to self + `our_tasks` check + reaper + park,
release in a `finally` without await, one FIFO reaper queue – are all as modelled. -/
theorem C14_shape_tie : current = ⟨true, true, true, true, true, true, true⟩ ∧ shapeFacts.all id = true ∧
    C13.Shape.extracted = C13.Shape.proved :=
  ⟨rfl, by decide, C13.C13_shape_tie.1⟩

/-- the release block assembled from the extracted order table is `finish` -/
theorem C14_shape_finish (s : St κ) (t : Task) (r : Res) : finishSh C13.Shape.proved s t r = finish s t r := by
  unfold finishSh finish
  rw [C13.C13_shape_release]
  simp [C13.Shape.proved]

/-- **The model the driver replays observed runs with is the model of the theorems.** -/
theorem C14_shape_step (s : St κ) (op : Op κ) : stepSh C13.Shape.extracted current s op = step current s op := by
  rw [C14_shape_tie.2.2]
  have hb : ∀ (s : St κ) (t : Task) (r : Res), bailSh C13.Shape.proved current s t r = bail current s t r := by
    intro s t r; unfold bailSh bail; rw [C14_shape_finish]
  cases op with
  | unique t k km =>
    simp only [stepSh, step, uniqueStepSh, uniqueStep]
    rw [C13.C13_shape_unique]
  | cbBegin t => simp only [stepSh, step, cbBeginStepSh, cbBeginStep, hb]
  | cbEnd t r => simp only [stepSh, step, cbEndStepSh, cbEndStep, hb]
  | cleanup t => simp only [stepSh, step, cleanupStepSh, cleanupStep, hb, C14_shape_finish]
  | create t wc pre => rfl
  | start t => rfl
  | storeCtx t => rfl
  | addCb a t c args => rfl
  | removeCb a t c => rfl
  | cancel a tg => rfl
  | reap => rfl
  | endBody t oc => rfl

/-! non-vacuity -/
example : let s := run current [.create 0 true true, .start 0, .storeCtx 0, .unique 0 7 false, .addCb 0 0 1 10,
                                .addCb 0 0 2 20, .addCb 0 0 1 11, .removeCb 0 0 2, .endBody 0 .exc, .cbBegin 0,
                                .cbEnd 0 .raises, (.cleanup 0 : Op Nat)]
    s.phase 0 = .done ∧ s.bailed 0 = none ∧ s.cbRaised 0 = true ∧
    ranOf s 0 = [(1, 11)] ∧ s.result 0 = some .noneVal ∧ s.u.owner 7 = none ∧ s.u.ours 0 = false := by
  decide

end PsModel.C14
