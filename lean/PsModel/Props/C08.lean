import PsModel.Lemmas.C08
/-!
# C08 – property theorems: event, MQTT and webhook triggers deliver each message exactly once

`exec cfg s` runs an ARBITRARY schedule `s` (any finite interleaving of occurrences handed over by Home Assistant,
dequeue / callback steps of every trigger, emissions and terminations of runs) from the state produced by the
subscription code.  `Spec.expected d log` = the occurrences of `log` that qualify for decorator `d`, in order, each
mapped to the keyword dictionary of its run.  Only property statements live here; helpers are in `Lemmas/C08.lean`.
-/
namespace PsModel.C08

/-! ## legacy subsystem -/

/-- **Queue invariant, every schedule.**  At every moment, for every decorator: the runs already started followed by
the runs still owed by the messages waiting in the trigger's queue are exactly the qualifying occurrences so far, in
order – nothing is lost, duplicated, reordered or invented by any interleaving of listeners and watch loops. -/
theorem C08_legacy_invariant (units : List Legacy.LUnit) (hok : Legacy.UnitsOK units) (s : List Step)
    (u : Nat) (k : Kind) (d : Dec) (hd : Legacy.unitDec units u k = some d) :
    Legacy.startedOf (Legacy.exec units s) u k ++ Legacy.pendingList d k ((Legacy.exec units s).queues u)
      = Spec.expected d (Legacy.exec units s).log :=
  (Legacy.inv_exec units hok s).2 u k d hd

/-- **Exactly once, in order (legacy).**  Once the queues have been worked off, the runs started for a decorator are
precisely its qualifying occurrences, in firing order, each exactly once, with the specified keywords. -/
theorem C08_legacy (units : List Legacy.LUnit) (hok : Legacy.UnitsOK units) (s : List Step)
    (hq : Legacy.Quiescent (Legacy.exec units s))
    (u : Nat) (k : Kind) (d : Dec) (hd : Legacy.unitDec units u k = some d) :
    Legacy.startedOf (Legacy.exec units s) u k = Spec.expected d (Legacy.exec units s).log := by
  have h := C08_legacy_invariant units hok s u k d hd
  rw [hq u] at h
  simpa [Legacy.pendingList] using h

/-- **Safety at every instant (legacy).**  What has been started so far is always a prefix of what is due: never a
duplicate, never out of order, never a run for a non-qualifying occurrence. -/
theorem C08_legacy_prefix (units : List Legacy.LUnit) (hok : Legacy.UnitsOK units) (s : List Step)
    (u : Nat) (k : Kind) (d : Dec) (hd : Legacy.unitDec units u k = some d) :
    Legacy.startedOf (Legacy.exec units s) u k <+: Spec.expected d (Legacy.exec units s).log :=
  ⟨_, C08_legacy_invariant units hok s u k d hd⟩

/-- **No message stays queued for ever (legacy).**  Every schedule can be completed – by dequeue steps only, without
any further occurrence – to a quiescent one; hence under fair scheduling every qualifying occurrence gets its run. -/
theorem C08_legacy_complete (units : List Legacy.LUnit) (hok : Legacy.UnitsOK units) (s : List Step) :
    ∃ s', Legacy.Quiescent (Legacy.exec units (s ++ s')) ∧
      (Legacy.exec units (s ++ s')).log = (Legacy.exec units s).log := by
  obtain ⟨m, hm⟩ := Legacy.bound_exists (Legacy.exec units s).queues units.length
  have hs := Legacy.supp_exec units hok s
  have hb : ∀ u, ((Legacy.exec units s).queues u).length ≤ m := by
    intro u
    by_cases h : u < units.length
    · exact hm u h
    · rw [hs u (by omega)]; simp
  have h := Legacy.drain_queues units (List.range units.length) m (Legacy.exec units s) hb
  refine ⟨Legacy.drainSched (List.range units.length) m, ?_, ?_⟩
  · intro u
    unfold Legacy.exec at h ⊢
    rw [List.foldl_append, h.1 u]
    by_cases hu : u < units.length
    · simp [hu]
    · simp only [List.mem_range, hu, if_false]
      exact hs u (by omega)
  · unfold Legacy.exec at h ⊢
    rw [List.foldl_append, h.2]

/-- **Stacked decorators (legacy).**  `trigger_init` puts the `i`-th decorator of every kind of a function into the
function's `i`-th trigger unit – every decorator sits in exactly one slot, and a slot only holds its own kind. -/
theorem C08_legacy_units (decs : List Dec) (fs : List (List Dec)) :
    (∀ u k, Legacy.unitDec (Legacy.mkUnits decs) u k = Legacy.nthOfKind decs k u) ∧
    Legacy.UnitsOK (Legacy.mkUnits decs) ∧ Legacy.UnitsOK (Legacy.allUnits fs) :=
  ⟨Legacy.unitDec_mkUnits decs, Legacy.unitsOK_mkUnits decs, Legacy.unitsOK_allUnits fs⟩

/-- **Subscription tables (legacy).**  After start-up, a unit's queue is subscribed under a key exactly when the
unit has a decorator of that kind with that key, and no queue is subscribed twice. -/
theorem C08_legacy_tables (units : List Legacy.LUnit) (s : List Step) (u : Nat) (k : Kind) (key : String) :
    (u ∈ (Legacy.exec units s).notify k key ↔ ∃ d, Legacy.unitDec units u k = some d ∧ d.key = key) ∧
    ((Legacy.exec units s).notify k key).Nodup := by
  have h : ∀ (s : List Step) (st : Legacy.State), Legacy.WF units st.notify →
      Legacy.WF units (s.foldl (Legacy.step units) st).notify := by
    intro s
    induction s with
    | nil => intro st h; exact h
    | cons x r ih =>
      intro st h
      apply ih
      cases x with
      | fire e => exact h
      | take u0 => show Legacy.WF units (Legacy.take units st u0).notify; rw [(Legacy.take_log units st u0).2]; exact h
      | emit r ek name kw => simp only [Legacy.step, Legacy.emit]; cases ek <;> exact h
      | finish r => exact h
  have := h s _ (Legacy.init_WF units)
  exact ⟨this.2 u k key, this.1 k key⟩

/-! ## new subsystem

A decorator of the new subsystem is served iff its listener got registered at start-up (`New.registered`).  The
machine takes deviation flags: `New.Flags.preFix` is the code before the repair of finding C08-F1 (a function whose
`@webhook_trigger` names a webhook id that already has a handler FAILS to start and loses ALL its triggers),
`New.Flags.current` the repaired code (the decorators of one webhook id share one Home Assistant registration).
The `fl`-theorems hold for every flag value and speak about registered decorators; at `Flags.current` EVERY decorator
is registered (`C08_new_all_registered`), which gives the full statements `C08_new`, `C08_new_invariant_full`,
`C08_new_prefix_full`; `C08_new_regress_shared_webhook` shows the pre-fix shape deviating. -/

/-- **Callback-queue invariant, every schedule (new, every flag value).** -/
theorem C08_new_invariant (fl : New.Flags) (fs : List (List Dec)) (s : List Step) (i : Nat) (d : Dec)
    (hd : fs.flatten[i]? = some d) (hreg : New.registered fl fs i d) :
    New.startedOf (New.exec fl fs s) i ++ New.pendingList d i (New.exec fl fs s).ready
      = Spec.expected d (New.exec fl fs s).log := by
  have h := New.inv_exec fl fs s
  exact h.1.2.1 i d hd (by rw [h.2]; exact hreg)

/-- **Exactly once, in order (new, every flag value) – for every decorator whose function started.** -/
theorem C08_new_partial (fl : New.Flags) (fs : List (List Dec)) (s : List Step)
    (hq : New.Quiescent (New.exec fl fs s))
    (i : Nat) (d : Dec) (hd : fs.flatten[i]? = some d) (hreg : New.registered fl fs i d) :
    New.startedOf (New.exec fl fs s) i = Spec.expected d (New.exec fl fs s).log := by
  have h := C08_new_invariant fl fs s i d hd hreg
  rw [hq] at h
  simpa [New.pendingList] using h

/-- **Safety at every instant (new, every flag value).** -/
theorem C08_new_prefix (fl : New.Flags) (fs : List (List Dec)) (s : List Step) (i : Nat) (d : Dec)
    (hd : fs.flatten[i]? = some d) (hreg : New.registered fl fs i d) :
    New.startedOf (New.exec fl fs s) i <+: Spec.expected d (New.exec fl fs s).log :=
  ⟨_, C08_new_invariant fl fs s i d hd hreg⟩

/-- **Nothing is ever started for a decorator that is not registered (new, every flag value).** -/
theorem C08_new_unregistered (fl : New.Flags) (fs : List (List Dec)) (s : List Step) (i : Nat) (d : Dec)
    (hd : fs.flatten[i]? = some d) (hreg : ¬ New.registered fl fs i d) :
    New.startedOf (New.exec fl fs s) i = [] := by
  have h := New.inv_exec fl fs s
  unfold New.startedOf
  rw [List.map_eq_nil_iff, List.filter_eq_nil_iff]
  intro r hr hdec
  simp only [decide_eq_true_eq] at hdec
  obtain ⟨d', hd', hmem⟩ := h.1.2.2.2 r hr
  rw [hdec, hd] at hd'
  cases hd'
  apply hreg
  unfold New.registered
  rw [← h.2, ← hdec]
  exact hmem

/-- **Which decorators are registered (new, every flag value).**  Every function whose decorators all start is
registered completely – pre-fix: when no `@webhook_trigger` id of the function is already taken. -/
theorem C08_new_registered_of_start (fl : New.Flags) (i0 : Nat) (f : List Dec) (n n' : Table)
    (hs : New.startDecs fl i0 f n = some n') (j : Nat) (d : Dec) (hj : f[j]? = some d) :
    (i0 + j) ∈ n' d.kind d.key :=
  New.startDecs_mem fl i0 f n n' hs j d hj

/-- **Repaired code: every decorator of every function is registered** – whatever webhook ids are shared. -/
theorem C08_new_all_registered (fs : List (List Dec)) (i : Nat) (d : Dec) (hd : fs.flatten[i]? = some d) :
    New.registered New.Flags.current fs i d := by
  have := New.setupFuncs_current_mem fs 0 Table.empty i d hd
  simpa [New.registered, New.init] using this

/-- **Listener tables of the repaired code.**  After start-up (and for ever) decorator `i` listens under a key
exactly when it is a decorator of that kind with that key – webhook ids included, several decorators per id – and
no decorator is listed twice. -/
theorem C08_new_tables (fs : List (List Dec)) (s : List Step) (i : Nat) (k : Kind) (key : String) :
    (i ∈ (New.exec New.Flags.current fs s).listeners k key ↔
      ∃ d, fs.flatten[i]? = some d ∧ d.kind = k ∧ d.key = key) ∧
    ((New.exec New.Flags.current fs s).listeners k key).Nodup := by
  have h := New.inv_exec New.Flags.current fs s
  refine ⟨⟨fun hi => h.1.1.2 i k key hi, ?_⟩, h.1.1.1 k key⟩
  rintro ⟨d, hd, rfl, rfl⟩
  rw [h.2]
  exact C08_new_all_registered fs i d hd

/-- **Callback-queue invariant for EVERY decorator (new, current code).** -/
theorem C08_new_invariant_full (fs : List (List Dec)) (s : List Step) (i : Nat) (d : Dec)
    (hd : fs.flatten[i]? = some d) :
    New.startedOf (New.exec New.Flags.current fs s) i ++ New.pendingList d i (New.exec New.Flags.current fs s).ready
      = Spec.expected d (New.exec New.Flags.current fs s).log :=
  C08_new_invariant _ fs s i d hd (C08_new_all_registered fs i d hd)

/-- **Exactly once, in order (new) – FULL statement**: for every decorator of every function, shared webhook ids
included, once the callbacks have run the runs started are precisely the qualifying occurrences, in order. -/
theorem C08_new (fs : List (List Dec)) (s : List Step) (hq : New.Quiescent (New.exec New.Flags.current fs s))
    (i : Nat) (d : Dec) (hd : fs.flatten[i]? = some d) :
    New.startedOf (New.exec New.Flags.current fs s) i = Spec.expected d (New.exec New.Flags.current fs s).log :=
  C08_new_partial _ fs s hq i d hd (C08_new_all_registered fs i d hd)

/-- **Safety at every instant for every decorator (new, current code).** -/
theorem C08_new_prefix_full (fs : List (List Dec)) (s : List Step) (i : Nat) (d : Dec)
    (hd : fs.flatten[i]? = some d) :
    New.startedOf (New.exec New.Flags.current fs s) i <+: Spec.expected d (New.exec New.Flags.current fs s).log :=
  ⟨_, C08_new_invariant_full fs s i d hd⟩

/-- **Regression witness of finding C08-F1 (fixed).**  Two functions use webhook id `"h"`; the second one also has
`@event_trigger("e")`.  Pre-fix shape: the event `e` qualifies for that trigger and the webhook request for both
webhook triggers, yet nothing is ever started for the second function (it failed to start).  Repaired shape: the
event starts its run and the request starts one run for EACH of the two webhook triggers – as the legacy machine
does on the same configuration. -/
theorem C08_new_regress_shared_webhook :
    let w1 : Dec := { kind := .webhook, key := "h", filt := Option.none, kwargs := [] }
    let w2 : Dec := { kind := .webhook, key := "h", filt := Option.none, kwargs := [] }
    let e2 : Dec := { kind := .event, key := "e", filt := Option.none, kwargs := [] }
    let fs := [[w1], [e2, w2]]
    let s : List Step := [.fire (.event "e" []), .fire (.webhook "h" true .dnil []), .take 0, .take 0, .take 0]
    let pre := New.exec New.Flags.preFix fs s
    let cur := New.exec New.Flags.current fs s
    (Spec.expected e2 pre.log).length = 1 ∧ (Spec.expected w2 pre.log).length = 1 ∧ pre.ready.length = 0 ∧
    New.startedOf pre 1 = [] ∧ New.startedOf pre 2 = [] ∧ (New.startedOf pre 0).length = 1 ∧
    cur.ready.length = 0 ∧ (New.startedOf cur 0).length = 1 ∧ (New.startedOf cur 1).length = 1 ∧
    (New.startedOf cur 2).length = 1 ∧
    (Legacy.startedOf (Legacy.exec (Legacy.allUnits fs) (s ++ [.take 1, .take 1])) 0 .webhook).length = 1 ∧
    (Legacy.startedOf (Legacy.exec (Legacy.allUnits fs) (s ++ [.take 1, .take 1])) 1 .event).length = 1 ∧
    (Legacy.startedOf (Legacy.exec (Legacy.allUnits fs) (s ++ [.take 1, .take 1])) 1 .webhook).length = 1 := by
  decide

/-- **No callback stays pending for ever (new).** -/
theorem C08_new_complete (fl : New.Flags) (fs : List (List Dec)) (s : List Step) :
    ∃ s', New.Quiescent (New.exec fl fs (s ++ s')) ∧ (New.exec fl fs (s ++ s')).log = (New.exec fl fs s).log := by
  have h := New.takeN fs.flatten (New.exec fl fs s).ready.length (New.exec fl fs s)
  refine ⟨List.replicate (New.exec fl fs s).ready.length (Step.take 0), ?_, ?_⟩
  · unfold New.Quiescent
    unfold New.exec at h ⊢
    rw [List.foldl_append, h.1]
    simp
  · unfold New.exec at h ⊢
    rw [List.foldl_append, h.2]

/-! ## keyword arguments, both subsystems (they share `funcArgs` / `runArgs`) -/

/-- **Keywords of a run.**  The dictionary a run receives holds, for every key, the decorator's `kwargs` value if
there is one, else the event data's, else the fixed keyword (trigger_type, event_type/topic/webhook_id, context,
payload, payload_obj when the MQTT payload is JSON, …) – and every key once. -/
theorem C08_kwargs (d : Dec) (o : Occ) (k : String) :
    (runArgs d (funcArgs o)).get k = Spec.kwLookup (Spec.fixedOf o) (Spec.dataOf o) d.kwargs k ∧
    (runArgs d (funcArgs o)).keys.Nodup := by
  have key : ∀ (base : Dict), base.keys.Nodup → ∀ data : Dict,
      ((base.update data).update d.kwargs).get k = Spec.kwLookup base data d.kwargs k ∧
      ((base.update data).update d.kwargs).keys.Nodup := by
    intro base hb data
    refine ⟨?_, Dict.nodup_update _ _ (Dict.nodup_update _ _ hb)⟩
    rw [Dict.get_update, Dict.get_update, Dict.get_eq_lastOf base hb]
    rfl
  have upd_nil : ∀ b : Dict, b.update [] = b := fun _ => rfl
  cases o with
  | event t data c =>
    exact key [("trigger_type", .str "event"), ("event_type", .str t), ("context", .ctx c)] (by simp [Dict.keys]) data
  | mqtt sub t p q r j =>
    have e : funcArgs (.mqtt sub t p q r j) = Spec.fixedOf (.mqtt sub t p q r j) := by
      cases j <;> simp [funcArgs, mqttArgs, Spec.fixedOf, Dict.set]
    have hn : (Spec.fixedOf (.mqtt sub t p q r j)).keys.Nodup := by
      cases j <;> simp [Spec.fixedOf, Dict.keys]
    have := key (Spec.fixedOf (.mqtt sub t p q r j)) hn []
    rw [e]
    rw [upd_nil] at this
    exact this
  | webhook w isJson body form =>
    have e : funcArgs (.webhook w isJson body form) = Spec.fixedOf (.webhook w isJson body form) := by
      simp [funcArgs, webhookArgs, Spec.fixedOf, Dict.set]
    have := key (Spec.fixedOf (.webhook w isJson body form)) (by simp [Spec.fixedOf, Dict.keys]) []
    rw [e]
    rw [upd_nil] at this
    exact this

/-- **Webhook form payload**: every form field once, with its first value. -/
theorem C08_form (form : Dict) (k : String) :
    (formDict form).get k = form.get k ∧ (formDict form).keys.Nodup := by
  refine ⟨?_, Dict.form_fold_nodup form form [] (by simp [Dict.keys])⟩
  unfold formDict
  rw [Dict.form_fold form form [] (fun kv h => Dict.get_isSome_of_mem form kv h)]
  by_cases h : k ∈ form.map (·.1)
  · simp [h]
  · simp only [h, if_false, Dict.get]
    exact (Dict.get_none_of_not_mem form k h).symm

/-! ## runs are independent tasks -/

/-- **Independence (legacy).**  Whether, when and in which order earlier runs finish has no influence on anything else:
deleting every termination step from any schedule (all runs sleep for ever) leaves queues, started runs, their
keywords and contexts, the log and the emissions unchanged – the watch loop never waits for a run. -/
theorem C08_independent_legacy (units : List Legacy.LUnit) (s : List Step) :
    Legacy.eraseFin (Legacy.exec units s) = Legacy.exec units (s.filter Legacy.notFinish) :=
  Legacy.eraseFin_foldl units s (Legacy.init units)

/-- **Independence (new).** -/
theorem C08_independent_new (fl : New.Flags) (fs : List (List Dec)) (s : List Step) :
    New.eraseFin (New.exec fl fs s) = New.exec fl fs (s.filter Legacy.notFinish) :=
  New.eraseFin_foldl fs.flatten s (New.init fl fs)

/-! ## event.fire and contexts -/

/-- **`event.fire`.**  The emitted event carries exactly the given parameters and the right context: an explicit
`context=` that is a Context becomes the event's context and is not a parameter; otherwise every parameter is kept
and the context is the one stored for the running task. -/
theorem C08_fire (t2c : T2C) (task : Nat) (ek : EmitKind) (name : String) (kw : Dict) (hkw : kw.keys.Nodup) :
    (eventFire t2c task ek name kw).name = name ∧
    (∀ k, (eventFire t2c task ek name kw).data.get k = Spec.fireData kw k) ∧
    (eventFire t2c task ek name kw).ctx = Spec.fireCtx kw (t2c.get task) := by
  unfold eventFire Spec.fireData Spec.fireCtx
  cases h : kw.get "context" with
  | none => simp
  | some v =>
    cases v with
    | ctx c => simp [Dict.get_erase kw hkw]
    | _ => simp

/-- **Parent contexts (legacy).**  In every reachable state every started run `r` has its own context stored for its
task; its parent is the id of the context of the occurrence that started it (when the occurrence carries one); and
everything the run emits without an explicit context – events, state changes, service calls – carries that context. -/
theorem C08_parent_legacy (units : List Legacy.LUnit) (s : List Step) (r : Nat) (run : Run)
    (hr : (Legacy.exec units s).started[r]? = some run) (ek : EmitKind) (name : String) (kw : Dict) :
    run.ctx.parent = Spec.parentOf run.args ∧
    (eventFire (Legacy.exec units s).t2c r ek name kw).ctx = Spec.fireCtx kw (some run.ctx) := by
  have h := Legacy.ctxInv_exec units s
  refine ⟨h.2 r run hr, ?_⟩
  have h1 := h.1 r
  rw [hr] at h1
  unfold eventFire Spec.fireCtx
  cases hk : kw.get "context" with
  | none => simp [h1]
  | some v =>
    cases v with
    | ctx c => simp
    | _ => simp [h1]

/-- **Parent contexts (new).** -/
theorem C08_parent_new (fl : New.Flags) (fs : List (List Dec)) (s : List Step) (r : Nat) (run : Run)
    (hr : (New.exec fl fs s).started[r]? = some run) (ek : EmitKind) (name : String) (kw : Dict) :
    run.ctx.parent = Spec.parentOf run.args ∧
    (eventFire (New.exec fl fs s).t2c r ek name kw).ctx = Spec.fireCtx kw (some run.ctx) := by
  have h := New.ctxInv_exec fl fs s
  refine ⟨h.2 r run hr, ?_⟩
  have h1 := h.1 r
  rw [hr] at h1
  unfold eventFire Spec.fireCtx
  cases hk : kw.get "context" with
  | none => simp [h1]
  | some v =>
    cases v with
    | ctx c => simp
    | _ => simp [h1]

/-! ## non-vacuity -/

/-- a configuration with a filter, stacked decorators of one kind and a mixed unit; a schedule with interleaved
occurrences, dequeues and an emission; the hypotheses of the theorems above are satisfiable and the result is not
empty -/
example :
    let f : Dict → Option Bool := fun a => match a.get "x" with | some (.int n) => some (decide (n > 3)) | _ => Option.none
    let d0 : Dec := { kind := .event, key := "e", filt := some f, kwargs := [("tag", .int 0)] }
    let d1 : Dec := { kind := .event, key := "e", filt := Option.none, kwargs := [] }
    let d2 : Dec := { kind := .mqtt, key := "t", filt := Option.none, kwargs := [] }
    let units := Legacy.allUnits [[d0, d1, d2]]
    let s : List Step := [.fire (.event "e" [("x", .int 5)]), .take 1, .fire (.event "e" [("x", .int 1)]),
                          .fire (.mqtt "t" "t" "p" 0 false Option.none), .take 0, .take 0, .take 0, .take 1,
                          .emit 0 .event "e" [("x", .int 9)], .take 0, .take 1, .finish 0]
    (Legacy.startedOf (Legacy.exec units s) 0 .event).length = 2 ∧
    (Legacy.startedOf (Legacy.exec units s) 1 .event).length = 3 ∧
    (Legacy.startedOf (Legacy.exec units s) 0 .mqtt).length = 1 ∧
    (New.startedOf (New.exec New.Flags.current [[d0, d1, d2]] s) 0).length = 2 ∧
    (New.startedOf (New.exec New.Flags.preFix [[d0, d1, d2]] s) 0).length = 2 := by
  decide

/-- non-vacuity of the full statement with a shared webhook id: three decorators on id `"h"` in two functions, two
requests, a quiescent schedule – each decorator gets both requests, in order -/
example :
    let w : Nat → Dec := fun t => { kind := .webhook, key := "h", filt := Option.none, kwargs := [("tag", .int t)] }
    let fs := [[w 0, w 1], [w 2]]
    let s : List Step := [.fire (.webhook "h" true (.dcons "a" (.int 1) .dnil) []), .take 0,
                          .fire (.webhook "h" false .none [("a", .str "2")]), .take 0, .take 0, .take 0, .take 0, .take 0]
    (New.exec New.Flags.current fs s).ready.length = 0 ∧
    (New.startedOf (New.exec New.Flags.current fs s) 0).length = 2 ∧
    (New.startedOf (New.exec New.Flags.current fs s) 1).length = 2 ∧
    (New.startedOf (New.exec New.Flags.current fs s) 2).length = 2 ∧
    (New.exec New.Flags.current fs s).listeners .webhook "h" = [0, 1, 2] := by
  decide

end PsModel.C08
