import PsModel.Lemmas.C04
/-!
# C04 – property theorems: state triggers run the function for exactly the qualifying state changes

Only property statements live here; helper lemmas are in `Lemmas/C04.lean`.

`cfgs` is the list of all started `@state_trigger` decorators (index = subscription order), `cfgs[i]? = some c` picks
one of them.  A *schedule* is an arbitrary list of atomic steps `Step.op o` (Home Assistant applies an operation and
pyscript's listener fans the event out to the queues) and `Step.deq j` (decorator j's loop takes one message).  The
trigger expression `c.expr` is an arbitrary function of its environment.

Hypotheses that are *not* decoration but delimit where the code as it is satisfies the property:
* `WfCfg c`   – every name of the expression is watched (always true without `watch=`), names have ≤ 4 parts;
* `Primed`    – every entity the expression mentions has been notified once or does not exist (`C04_*_cex_burst`
                shows the race that happens otherwise – both subsystems);
The new subsystem's former side condition `NoExprOK` is gone since fix `5a43b84` (`C04_new_regress_noexpr` keeps the
pre-fix behaviour on record as a theorem about `New.handlePreFix`).
Settled schedules (`settled`) need no priming.
-/
namespace PsModel.C04
open Spec

/-- **Environment equality.**  For every hub state reachable with `notify_var_last` consistent (`Good`) and primed,
every operation that causes an event, and every decorator: the bindings the expression is evaluated on – whenever
the queued message is finally handled, i.e. for EVERY later live state – are the spec environment of that event. -/
theorem C04_env (cfgs : List STCfg) (c : STCfg) (hc : c ∈ cfgs) (wf : WfCfg c) (h h' : Hub) (o : Op) (ev : Ev)
    (ha : Hub.apply cfgs h o = (h', some ev)) (hg : Good cfgs h) (hp : Primed c h) (live : Store) :
    envFor c (mkMsg c h' ev).vars live = Spec.env c h'.live ev := by
  obtain ⟨_, hev, hhub⟩ := apply_some ha
  have hnew : h'.live.get ev.e = ev.new := by rw [hhub, hev]; simp [Store.get_put]
  exact envFor_msg wf (good_apply ha hg) (primed_apply hc wf ha hp) hnew live

/-- **Environment equality, settled.**  Without priming: if the message is handled before the state machine changes
again, the expression still sees the spec environment (names left unbound are read live, and live = snapshot). -/
theorem C04_env_settled (cfgs : List STCfg) (c : STCfg) (wf : WfCfg c) (h h' : Hub) (o : Op) (ev : Ev)
    (ha : Hub.apply cfgs h o = (h', some ev)) (hg : Good cfgs h) :
    envFor c (mkMsg c h' ev).vars h'.live = Spec.env c h'.live ev := by
  obtain ⟨_, hev, hhub⟩ := apply_some ha
  have hnew : h'.live.get ev.e = ev.new := by rw [hhub, hev]; simp [Store.get_put]
  exact envFor_msg_settled wf (good_apply ha hg) hnew

/-- an initial system: nothing queued, nothing run yet -/
def start (hub : Hub) : Sys := ⟨hub, fun _ => ⟨[], []⟩, []⟩

/-- **Legacy subsystem, all interleavings.**  From any good, primed hub, along ANY schedule: the runs decorator `i` has
started so far, followed by the runs its queued messages will produce, are exactly the spec's runs of the operations
issued so far – in event order, none lost, none duplicated, each with the kwargs of its own event overridden by the
decorator's `kwargs`. -/
theorem C04_legacy (cfgs : List STCfg) (i : Nat) (c : STCfg) (hi : cfgs[i]? = some c) (wf : WfCfg c) (hub : Hub)
    (hg : Good cfgs hub) (hp : Primed c hub) (steps : List Step) :
    let s := exec Legacy.handle cfgs (start hub) steps
    runsOf i s.log ++ pendRuns Legacy.handle c (s.ts i).q = stRuns c hub.live (opsOf steps) := by
  have inv0 : Inv Legacy.handle cfgs i c (start hub) [] [] :=
    ⟨hg, hp, by intro m hm; simp [start] at hm, by simp [start, runsOf, pendRuns], by simp [start, pendEvals]⟩
  have := (inv_exec hi (legacy_handlerOK cfgs c wf) wf steps _ _ _ inv0).runs
  simpa [start] using this

/-- … hence, once the queue has been drained (any schedule that leaves it empty), runs = spec runs. -/
theorem C04_legacy_quiescent (cfgs : List STCfg) (i : Nat) (c : STCfg) (hi : cfgs[i]? = some c) (wf : WfCfg c)
    (hub : Hub) (hg : Good cfgs hub) (hp : Primed c hub) (steps : List Step)
    (hq : ((exec Legacy.handle cfgs (start hub) steps).ts i).q = []) :
    runsOf i (exec Legacy.handle cfgs (start hub) steps).log = stRuns c hub.live (opsOf steps) := by
  have := C04_legacy cfgs i c hi wf hub hg hp steps
  simp only [hq, pendRuns, List.filterMap_nil, List.append_nil] at this
  exact this

/-- **New subsystem, all interleavings** (code after fix `5a43b84`): the same full statement as for legacy. -/
theorem C04_new (cfgs : List STCfg) (i : Nat) (c : STCfg) (hi : cfgs[i]? = some c) (wf : WfCfg c)
    (hub : Hub) (hg : Good cfgs hub) (hp : Primed c hub) (steps : List Step) :
    let s := exec New.handle cfgs (start hub) steps
    runsOf i s.log ++ pendRuns New.handle c (s.ts i).q = stRuns c hub.live (opsOf steps) := by
  have inv0 : Inv New.handle cfgs i c (start hub) [] [] :=
    ⟨hg, hp, by intro m hm; simp [start] at hm, by simp [start, runsOf, pendRuns], by simp [start, pendEvals]⟩
  have := (inv_exec hi (new_handlerOK cfgs c wf) wf steps _ _ _ inv0).runs
  simpa [start] using this

theorem C04_new_quiescent (cfgs : List STCfg) (i : Nat) (c : STCfg) (hi : cfgs[i]? = some c) (wf : WfCfg c)
    (hub : Hub) (hg : Good cfgs hub) (hp : Primed c hub) (steps : List Step)
    (hq : ((exec New.handle cfgs (start hub) steps).ts i).q = []) :
    runsOf i (exec New.handle cfgs (start hub) steps).log = stRuns c hub.live (opsOf steps) := by
  have := C04_new cfgs i c hi wf hub hg hp steps
  simp only [hq, pendRuns, List.filterMap_nil, List.append_nil] at this
  exact this

/-- **Settled histories, legacy**: no priming needed when every operation is handled before the next is issued. -/
theorem C04_legacy_settled (cfgs : List STCfg) (i : Nat) (c : STCfg) (hi : cfgs[i]? = some c) (wf : WfCfg c)
    (hub : Hub) (hg : Good cfgs hub) (ops : List Op) :
    runsOf i (exec Legacy.handle cfgs (start hub) (settled cfgs.length ops)).log = stRuns c hub.live ops := by
  have := (settled_exec hi (legacy_handlerSettledOK cfgs c wf) ops (start hub) hg rfl).1
  simpa [start, runsOf] using this

/-- **Settled histories, new subsystem.** -/
theorem C04_new_settled (cfgs : List STCfg) (i : Nat) (c : STCfg) (hi : cfgs[i]? = some c) (wf : WfCfg c)
    (hub : Hub) (hg : Good cfgs hub) (ops : List Op) :
    runsOf i (exec New.handle cfgs (start hub) (settled cfgs.length ops)).log = stRuns c hub.live ops := by
  have := (settled_exec hi (new_handlerSettledOK cfgs c wf) ops (start hub) hg rfl).1
  simpa [start, runsOf] using this

/-- **No other evaluations** (both subsystems, all interleavings): the expression is evaluated exactly for the watched
changes that do not already match an any-change form, on the spec environment – so never for an unwatched entity and
never for an attribute-only update of a value-watched entity (next two theorems spell these out). -/
theorem C04_no_other (h : Handler) (hh : h = Legacy.handle ∨ h = New.handle) (cfgs : List STCfg) (i : Nat) (c : STCfg)
    (hi : cfgs[i]? = some c) (wf : WfCfg c) (hub : Hub) (hg : Good cfgs hub) (hp : Primed c hub)
    (steps : List Step) :
    let s := exec h cfgs (start hub) steps
    (s.ts i).evals ++ pendEvals h c (s.ts i).q = stEvals c hub.live (opsOf steps) := by
  have hok : HandlerOK h cfgs c := by
    rcases hh with rfl | rfl
    · exact legacy_handlerOK cfgs c wf
    · exact new_handlerOK cfgs c wf
  have inv0 : Inv h cfgs i c (start hub) [] [] :=
    ⟨hg, hp, by intro m hm; simp [start] at hm, by simp [start, runsOf, pendRuns], by simp [start, pendEvals]⟩
  have := (inv_exec hi hok wf steps _ _ _ inv0).evals
  simpa [start] using this

/-- an event on an entity the decorator does not watch never reaches its queue: no evaluation, no run -/
theorem C04_unwatched_untouched (h : Handler) (cfgs : List STCfg) (i : Nat) (c : STCfg) (hi : cfgs[i]? = some c)
    (s : Sys) (o : Op) (hs : c.subscribed o.e = false) :
    (step h cfgs s (.op o)).ts i = s.ts i ∧ (step h cfgs s (.op o)).log = s.log := by
  simp only [step]
  cases ha : Hub.apply cfgs s.hub o with
  | mk hub' oev =>
    cases oev with
    | none => exact ⟨rfl, rfl⟩
    | some ev =>
      obtain ⟨_, hev, _⟩ := apply_some ha
      have : ev.e = o.e := by rw [hev]
      exact ⟨by simp [enqueue, hi, this, hs], rfl⟩

/-- an attribute-only update (same state string) of an entity whose VALUE is watched (`d.e` / `d.e.old` names only)
is dequeued and dropped by both loops: no evaluation, no run – whatever the expression and the live state are -/
theorem C04_attr_only_no_eval (c : STCfg) (live : Store) (m : Msg)
    (hsame : m.ev.new.map (·.state) = m.ev.old.map (·.state))
    (hval : ∀ n ∈ c.ident, n.e = m.ev.e → n.rest = [] ∨ n.rest = ["old"])
    (hany : ∀ n ∈ c.anyNames, n.e = m.ev.e → n.rest = []) :
    Legacy.handle c live m = ⟨none, none⟩ ∧ New.handle c live m = ⟨none, none⟩ := by
  have hvc : ¬ valueChanged m.ev := by simp [valueChanged, hsame]
  have hany' : c.anyNames.any (matchesAny m.ev) = false := by
    rw [List.any_eq_false]
    intro n hn
    by_cases he : n.e = m.ev.e
    · simp [matchesAny, hany n hn he, hvc]
    · simp [matchesAny, he]
  have hchg : c.ident.any (changes m.ev) = false := by
    rw [List.any_eq_false]
    intro n hn
    by_cases he : n.e = m.ev.e
    · rcases hval n hn he with h | h <;> simp [changes, h, hvc]
    · simp [changes, he]
  constructor
  · simp [Legacy.handle, identAny_eq, identChanged_eq, hany', hchg]
  · simp [New.handle, New.handleF, identAny_eq, identChanged_eq, hany', hchg]

/-- **Several decorators on one function** (both subsystems, all interleavings): each decorator is its own trigger
(own queue, own loop); the function's runs are the runs of its decorators, and projecting the function-level sequence
on one decorator gives that decorator's run sequence – so the function-level sequence is an interleaving of the
per-decorator spec sequences (each in event order, `C04_legacy` / `C04_new`). -/
theorem C04_multi (cfgs : List STCfg) (i : Nat) (c : STCfg) (hi : cfgs[i]? = some c) (log : List (Nat × Run)) :
    ((log.filter (ofFunc cfgs c.func)).filter (fun p => p.1 == i)).map (·.2) = runsOf i log := by
  unfold runsOf
  rw [List.filter_filter]
  congr 1
  apply List.filter_congr
  intro p _
  by_cases hp : p.1 = i
  · simp [hp, hi, ofFunc]
  · simp [hp]

/-- **Several decorators on one function, settled histories (legacy)**: handled one at a time, the function's runs
start in event order (within one event: decorator order), each with the kwargs of the decorator that fired – the
whole function-level sequence equals the spec's. -/
theorem C04_multi_settled_legacy (cfgs : List STCfg) (hwf : ∀ c ∈ cfgs, WfCfg c) (hub : Hub) (hg : Good cfgs hub)
    (ops : List Op) (f : Nat) :
    funcRuns cfgs f (exec Legacy.handle cfgs (start hub) (settled cfgs.length ops)).log =
      Spec.funcRuns cfgs f hub.live ops := by
  have hok : AllSettledOK Legacy.handle cfgs :=
    fun j c hc => legacy_handlerSettledOK cfgs c (hwf c (List.mem_of_getElem? hc))
  have := settled_log hok ops (start hub) hg (fun _ => rfl)
  simp only [start, List.nil_append] at this
  unfold funcRuns Spec.funcRuns
  rw [show (exec Legacy.handle cfgs (start hub) (settled cfgs.length ops)).log = Spec.log cfgs hub.live ops from this]

/-- **Several decorators on one function, settled histories (new subsystem).** -/
theorem C04_multi_settled_new (cfgs : List STCfg) (hwf : ∀ c ∈ cfgs, WfCfg c)
    (hub : Hub) (hg : Good cfgs hub) (ops : List Op) (f : Nat) :
    funcRuns cfgs f (exec New.handle cfgs (start hub) (settled cfgs.length ops)).log =
      Spec.funcRuns cfgs f hub.live ops := by
  have hok : AllSettledOK New.handle cfgs :=
    fun j c hc => new_handlerSettledOK cfgs c (hwf c (List.mem_of_getElem? hc))
  have := settled_log hok ops (start hub) hg (fun _ => rfl)
  simp only [start, List.nil_append] at this
  unfold funcRuns Spec.funcRuns
  rw [show (exec New.handle cfgs (start hub) (settled cfgs.length ops)).log = Spec.log cfgs hub.live ops from this]

/-- **Re-subscription** (both subsystems, all interleavings).  A first life along ANY schedule `life1` (which may end
with operations issued while nobody is subscribed), then every subscriber goes away and comes back (`relife`: fresh
queues; `State.notify` keeps its entries and `State.notify_var_last` its values), then a second life along ANY schedule:
the runs of the second life are exactly the spec's runs of its operations from the snapshot it starts on – in
particular a burst right after re-subscription is evaluated on the values AT each event, because a variable notified
(or recorded while unsubscribed) in the first life is still primed. -/
theorem C04_resubscribed (h : Handler) (hh : h = Legacy.handle ∨ h = New.handle) (cfgs : List STCfg) (i : Nat)
    (c : STCfg) (hi : cfgs[i]? = some c) (wf : WfCfg c) (hub : Hub) (hg : Good cfgs hub) (hp : Primed c hub)
    (life1 life2 : List Step) :
    let s1 := exec h cfgs (start hub) life1
    let s2 := exec h cfgs (relife s1) life2
    runsOf i s2.log ++ pendRuns h c (s2.ts i).q = runsOf i s1.log ++ stRuns c s1.hub.live (opsOf life2) ∧
      (s2.ts i).evals ++ pendEvals h c (s2.ts i).q = (s1.ts i).evals ++ stEvals c s1.hub.live (opsOf life2) := by
  have hok : HandlerOK h cfgs c := by
    rcases hh with rfl | rfl
    · exact legacy_handlerOK cfgs c wf
    · exact new_handlerOK cfgs c wf
  have inv0 : Inv h cfgs i c (start hub) [] [] :=
    ⟨hg, hp, by intro m hm; simp [start] at hm, by simp [start, runsOf, pendRuns], by simp [start, pendEvals]⟩
  have inv1 := inv_exec hi hok wf life1 _ _ _ inv0
  have inv1' : Inv h cfgs i c (relife (exec h cfgs (start hub) life1))
      (runsOf i (exec h cfgs (start hub) life1).log) ((exec h cfgs (start hub) life1).ts i).evals :=
    ⟨inv1.good, inv1.primed, by intro m hm; simp [relife] at hm, by simp [relife, pendRuns],
      by simp [relife, pendEvals]⟩
  have inv2 := inv_exec hi hok wf life2 _ _ _ inv1'
  exact ⟨by simpa [relife] using inv2.runs, by simpa [relife] using inv2.evals⟩

/-- **The keyword arguments of a run depend only on its own decorator and its own event** (both subsystems, all
interleavings, any number of decorators and functions on the same entity): every run in the log of decorator `j` is
`mkRun cⱼ ev` for an event `ev` – the event's `trigger_type`, `var_name`, `value`, `old_value` overridden by `cⱼ`'s own
`kwargs`, never another subscriber's (each queue gets its own message, `enqueue`). -/
theorem C04_run_kwargs_own (h : Handler) (hh : h = Legacy.handle ∨ h = New.handle) (cfgs : List STCfg)
    (steps : List Step) :
    ∀ s : Sys, (∀ p ∈ s.log, ∃ c ev, cfgs[p.1]? = some c ∧ p.2 = mkRun c ev) →
      ∀ p ∈ (exec h cfgs s steps).log, ∃ c ev, cfgs[p.1]? = some c ∧ p.2 = mkRun c ev := by
  have hown' : ∀ (c : STCfg) (live : Store) (m : Msg),
      (h c live m).run = none ∨ (h c live m).run = some (mkRun c m.ev) := by
    intro c live m
    rcases hh with rfl | rfl
    · unfold Legacy.handle
      split
      · split
        · left; rfl
        · split
          · dsimp only
            split
            · right; rfl
            · left; rfl
          · left; rfl
      · right; rfl
    · have hb : ∀ (b : Bool) (x : Run), (if b = true then some x else none) = none ∨
          (if b = true then some x else none) = some x := by intro b x; cases b <;> simp
      unfold New.handle New.handleF
      exact hb _ _
  have hown : ∀ (c : STCfg) (live : Store) (m : Msg) (r : Run), (h c live m).run = some r → r = mkRun c m.ev := by
    intro c live m r hr
    rcases hown' c live m with h0 | h0
    · rw [h0] at hr; simp at hr
    · rw [h0] at hr; exact (Option.some.inj hr).symm
  induction steps with
  | nil => intro s hs; simpa [exec] using hs
  | cons st rest ih =>
    intro s hs
    simp only [exec, List.foldl_cons]
    apply ih
    cases st with
    | op o =>
      simp only [step]
      cases Hub.apply cfgs s.hub o with
      | mk hub' oev => cases oev <;> exact hs
    | deq j =>
      simp only [step]
      cases hj : cfgs[j]? with
      | none => exact hs
      | some cj =>
        cases hq : (s.ts j).q with
        | nil => exact hs
        | cons m q =>
          intro p hp
          simp only [logRun] at hp
          cases hr : (h cj s.hub.live m).run with
          | none => rw [hr] at hp; exact hs p hp
          | some r =>
            rw [hr] at hp
            rcases List.mem_append.mp hp with h1 | h1
            · exact hs p h1
            · have : p = (j, r) := by simpa using h1
              subst this
              exact ⟨cj, m.ev, hj, hown cj _ m r hr⟩

/-- **kwargs of a run delayed by `state_hold`** (both subsystems): the delayed run receives exactly what an immediate
run for the same event receives – trigger_type, var_name, value, old_value of the event that started the hold,
overridden / extended by the decorator's `kwargs`.  (In the legacy loop this needs BOTH update sites: merging only in
front of `call_action` would deliver the bare event arguments – second part.) -/
theorem C04_held_kwargs (c : STCfg) (ev : Ev) :
    Legacy.heldRun c ev = mkRun c ev ∧ New.heldRun c ev = mkRun c ev ∧
      Legacy.heldRunF false c ev = ⟨ev.ctx, baseArgs ev⟩ := by
  refine ⟨?_, ?_, ?_⟩ <;> simp [Legacy.heldRun, Legacy.heldRunF, New.heldRun, mkRun, dictUpdate]

/-! ## Witnesses of the deviations of the code as it is (replayed on the real code by the check) -/

def nA : Name := ⟨"pyscript.a", []⟩
def nB : Name := ⟨"pyscript.b", []⟩
def sv (s : String) : Option SVal := some ⟨s, []⟩

/-- `@state_trigger("pyscript.a == '1' and pyscript.b == '0'")` – as an environment function -/
def cexExpr : Env → Bool := fun env =>
  env.lookup nA == some (Val.sv ⟨"1", []⟩) && env.lookup nB == some (Val.sv ⟨"0", []⟩)

def cexCfg : STCfg := ⟨some cexExpr, [nA, nB], [], none, [], 0⟩

/-- `pyscript.b` exists before the trigger starts and has never been notified: a burst `a := 1; b := 5` is evaluated
AFTER both operations, `pyscript.b` is read live (`'5'`) – the run the spec demands for `a := 1` (when `b` was still
`'0'`) is lost.  Same in both subsystems. -/
def cexBurst : List Step := [.op ⟨"pyscript.a", sv "1", 1⟩, .op ⟨"pyscript.b", sv "5", 2⟩, .deq 0, .deq 0]

theorem C04_cex_burst_legacy :
    let s := exec Legacy.handle [cexCfg] (start ⟨[("pyscript.b", sv "0")], []⟩) cexBurst
    (s.ts 0).q = [] ∧ runsOf 0 s.log = [] ∧
      (stRuns cexCfg [("pyscript.b", sv "0")] (opsOf cexBurst)).length = 1 := by
  decide

theorem C04_cex_burst_new :
    let s := exec New.handle [cexCfg] (start ⟨[("pyscript.b", sv "0")], []⟩) cexBurst
    (s.ts 0).q = [] ∧ runsOf 0 s.log = [] ∧
      (stRuns cexCfg [("pyscript.b", sv "0")] (opsOf cexBurst)).length = 1 := by
  decide

/-- the same history settled one at a time runs as the spec demands (non-vacuity of `C04_legacy_settled`) -/
example :
    (runsOf 0 (exec Legacy.handle [cexCfg] (start ⟨[("pyscript.b", sv "0")], []⟩)
      (settled 1 (opsOf cexBurst))).log).length = 1 := by decide

/-- regression (fixed by `5a43b84`): `@state_trigger("pyscript.a", watch=["pyscript.a", "pyscript.b"])` – no
expression, `pyscript.b` watched but not an any-change form.  BEFORE the fix a change of `pyscript.b` ran the function
in the new subsystem (`_is_trig_ok` returned `True` without expression, `New.handlePreFix`); the code as it is now,
the legacy loop and the spec do not. -/
def cexNoExpr : STCfg := ⟨none, [], [nA], some [nA, nB], [], 0⟩

theorem C04_new_regress_noexpr :
    let steps : List Step := [.op ⟨"pyscript.b", sv "5", 1⟩, .deq 0]
    (runsOf 0 (exec New.handlePreFix [cexNoExpr] (start ⟨[], []⟩) steps).log).length = 1 ∧
      runsOf 0 (exec New.handle [cexNoExpr] (start ⟨[], []⟩) steps).log = [] ∧
      runsOf 0 (exec Legacy.handle [cexNoExpr] (start ⟨[], []⟩) steps).log = [] ∧
      stRuns cexNoExpr [] (opsOf steps) = [] := by
  decide

/-- `@state_trigger("pyscript.a != '7' and pyscript.c != '2'", watch=["pyscript.a"])` with `pyscript.c` undefined: the
name is not in `watch`, so `notify_var_get` never binds it to `None`; evaluating it raises `NameError` (`Val.undef`)
instead of reading as `None` – both subsystems. -/
def nC : Name := ⟨"pyscript.c", []⟩

theorem C04_cex_unwatched_undefined :
    let m := mkMsg ⟨none, [nA, nC], [], some [nA], [], 0⟩ ⟨[("pyscript.a", sv "1")], [("pyscript.a", sv "1")]⟩
      ⟨"pyscript.a", sv "1", none, 1⟩
    resolve m.vars [("pyscript.a", sv "1")] nC = Val.undef ∧
      envVal [("pyscript.a", sv "1")] ⟨"pyscript.a", sv "1", none, 1⟩ nC = Val.none := by
  decide

/-- stacked decorators in a burst: `@state_trigger("pyscript.a == '2'")` over `@state_trigger("pyscript.a == '1'")` on
one function, burst `a := 1; a := 2`.  Each decorator's task drains its whole queue before the next one runs, so the
function starts for `a := 2` (ctx 2) before `a := 1` (ctx 1) – in both subsystems; the spec demands event order. -/
def cexTop : STCfg := ⟨some (fun env => env.lookup nA == some (Val.sv ⟨"2", []⟩)), [nA], [], none, [], 0⟩
def cexBot : STCfg := ⟨some (fun env => env.lookup nA == some (Val.sv ⟨"1", []⟩)), [nA], [], none, [], 0⟩

theorem C04_cex_multi_burst_order :
    let steps : List Step :=
      [.op ⟨"pyscript.a", sv "1", 1⟩, .op ⟨"pyscript.a", sv "2", 2⟩, .deq 0, .deq 0, .deq 1, .deq 1]
    (funcRuns [cexTop, cexBot] 0 (exec Legacy.handle [cexTop, cexBot] (start ⟨[], []⟩) steps).log).map (·.ctx) = [2, 1] ∧
      (funcRuns [cexTop, cexBot] 0 (exec New.handle [cexTop, cexBot] (start ⟨[], []⟩) steps).log).map (·.ctx) = [2, 1] ∧
      (Spec.funcRuns [cexTop, cexBot] 0 [] (opsOf steps)).map (·.ctx) = [1, 2] := by
  decide

/-- **`@state_trigger(expr, kwargs=None)`** – the value the documentation shows as the default – **means no extra
keywords** (both subsystems, every history; code since the fix of C04-F5, `… .get("kwargs") or {}`): the function runs for
exactly the qualifying changes, in order, and the expression is evaluated for every delivered watched change. -/
theorem C04_kwargs_none (qs : List Bool) (ctxs : List Nat) (hl : qs.length = ctxs.length) :
    Legacy.kwNoneRuns qs ctxs = ((qs.zip ctxs).filter (·.1)).map (·.2) ∧
      New.kwNoneRuns qs ctxs = ((qs.zip ctxs).filter (·.1)).map (·.2) ∧
      Legacy.kwNoneEvals qs = qs.length ∧ New.kwNoneEvals qs = qs.length ∧ kwOr none = [] := by
  have h1 : Gen.KWARGS_NONE_IS_EMPTY_LEGACY = true := by decide
  have h2 : Gen.KWARGS_NONE_IS_EMPTY_NEW = true := by decide
  have hk : ∀ (qs : List Bool) (ctxs : List Nat), qs.length = ctxs.length →
      kwRuns qs ctxs = ((qs.zip ctxs).filter (·.1)).map (·.2) := by
    intro qs
    induction qs with
    | nil => intro ctxs _; simp [kwRuns]
    | cons q qs ih =>
      intro ctxs hl
      cases ctxs with
      | nil => simp at hl
      | cons c cs =>
        have hl' : qs.length = cs.length := by simpa using hl
        cases q <;> simp [kwRuns, ih cs hl']
  unfold Legacy.kwNoneRuns New.kwNoneRuns Legacy.kwNoneEvals New.kwNoneEvals
  rw [h1, h2]
  simp [Legacy.kwNoneRunsF, New.kwNoneRunsF, Legacy.kwNoneEvalsF, New.kwNoneEvalsF, hk qs ctxs hl, kwOr]

/-- regression (C04-F5): BEFORE the fix both subsystems never ran such a function (legacy: the trigger task died with a
`TypeError` at the first qualifying change, after evaluating up to it; new: the decorator was rejected at validation). -/
theorem C04_regress_kwargs_none :
    let qs := [false, true, false, true]
    let ctxs := [1, 2, 3, 4]
    Legacy.kwNoneRunsF false qs ctxs = [] ∧ New.kwNoneRunsF false qs ctxs = [] ∧ Legacy.kwNoneEvalsF false qs = 2 ∧
      New.kwNoneEvalsF false qs = 0 ∧ Legacy.kwNoneRunsF true qs ctxs = [2, 4] ∧ New.kwNoneRunsF true qs ctxs = [2, 4] := by
  decide

/-- **The shapes of `State.update` / `State.notify_del` the hub model relies on**, read off the source on every run
(`tools/extractors/C04.py`): every subscriber queue gets its own copy of `func_args` (`enqueue`, `C04_run_kwargs_own`),
`notify_var_last` is recorded for every key of `State.notify` (`Hub.apply`), and `notify_del` removes only the queue –
the entity's entry and its last value survive a period without subscribers (`relife`, `C04_resubscribed`). -/
theorem C04_hub_shapes : hubShapeOK = true := by decide


/-- the situation `C04_resubscribed` excludes, as a closed witness: had the last values been forgotten when the last
subscriber left (hub `⟨live, []⟩` for the second life), the burst `a := 1; b := 5` right after re-subscription would lose
the run for `a := 1` (`b` was still `'0'`) – with the values kept it runs. -/
theorem C04_resubscribed_witness :
    let life1 : List Step := [.op ⟨"pyscript.a", sv "0", 1⟩, .deq 0, .op ⟨"pyscript.b", sv "0", 2⟩, .deq 0]
    let s1 := exec Legacy.handle [cexCfg] (start ⟨[], []⟩) life1
    let burst : List Step := [.op ⟨"pyscript.a", sv "1", 3⟩, .op ⟨"pyscript.b", sv "5", 4⟩, .deq 0, .deq 0]
    (runsOf 0 (exec Legacy.handle [cexCfg] (relife s1) burst).log).map (·.ctx) = [3] ∧
      (runsOf 0 (exec New.handle [cexCfg] (relife (exec New.handle [cexCfg] (start ⟨[], []⟩) life1)) burst).log).map
        (·.ctx) = [3] ∧
      runsOf 0 (exec Legacy.handle [cexCfg] (start ⟨s1.hub.live, []⟩) burst).log = [] := by
  decide

/-- non-vacuity of `C04_run_kwargs_own`: two decorators on one entity, the first with `kwargs` overriding `value` – the
second decorator's run for the same event carries the event's own value -/
example :
    let c1 : STCfg := ⟨none, [], [nA], none, [("value", "forced"), ("tag", "held")], 0⟩
    let c2 : STCfg := ⟨none, [], [nA], none, [], 1⟩
    (exec Legacy.handle [c1, c2] (start ⟨[], []⟩) [.op ⟨"pyscript.a", sv "1", 1⟩, .deq 0, .deq 1]).log =
      [(0, mkRun c1 ⟨"pyscript.a", sv "1", none, 1⟩), (1, mkRun c2 ⟨"pyscript.a", sv "1", none, 1⟩)] := by
  decide

/-- non-vacuity of the hypotheses of `C04_legacy`: a fresh start where the expression's entities do not exist yet -/
example : Good [cexCfg] ⟨[], []⟩ ∧ Primed cexCfg ⟨[], []⟩ ∧ WfCfg cexCfg := by
  refine ⟨?_, ?_, ⟨?_, ?_⟩⟩
  · intro e v h; simp at h
  · intro n _ _; right; rfl
  · intro n hn; simpa [STCfg.ident, cexCfg] using hn
  · intro n hn
    simp only [cexCfg, List.mem_cons, List.not_mem_nil, or_false] at hn
    rcases hn with rfl | rfl <;> decide

end PsModel.C04
