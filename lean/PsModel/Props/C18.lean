import PsModel.Lemmas.C18
/-!
# C18 – property theorems (error attribution and containment)

Only property statements live here; helper lemmas are in `Lemmas/C18.lean`.
-/
namespace PsModel.C18

/-! ## attribution -/

/-- **The reconstructed traceback names Python's own (file, function, line) triples** – for every chain of
activations of any depth, any number of nested `aeval` frames and ignored interpreter frames per activation, reached
through call expressions or called directly, on any evaluators – as long as no two *consecutive* activations are of
the same function of the same file (`_partial`: see `C18_cex_recursion`).  Holds for both shapes of the `aeval` branch
(before and after the repair of C18-F3). -/
theorem C18_fmt_partial (c : Cfg) (chain : List Act) (h : NoAdj chain) : fmtC c (framesOf chain) = pyTraceback chain := by
  unfold fmtC pyTraceback
  have := (run_chain c chain {} h (by intro a r _ e R hR; cases hR)).1
  rw [this]
  simp

/-- the same below a module body (an error while a file is loaded, or in a Jupyter cell): the module body
contributes its file, the context name as "function" and its current line, then the chain follows -/
theorem C18_fmt_module_partial (c : Cfg) (m : ModAct) (chain : List Act) (h : NoAdj chain) (hfirst : FirstOk m chain) :
    fmtC c (modFrames m ++ framesOf chain) = modTriple m :: pyTraceback chain := by
  unfold fmtC pyTraceback
  rw [run_append, run_mod_fresh c m {} rfl rfl (enterCtx_first c {} m.ctx rfl) (by intro e R hR; cases hR)]
  have := (run_chain c chain (afterMod m []) h (by
    intro a r ha e R hR
    simp only [afterMod, List.cons.injEq] at hR
    obtain ⟨rfl, _⟩ := hR
    exact hfirst a r ha)).1
  rw [this]
  simp [afterMod, List.reverse_append]

/-- **Imports are attributed to the imported file (the full statement finding C18-F3 blocked; current code).**  A file
body `m0` with its chain of functions, below it ANY number of nested imports – each one the real frames of the import
machinery, the body of the imported file on its own evaluator, and the chain of functions that body calls: every
file body is reported under its OWN file with its own line, every function as Python reports it. -/
theorem C18_fmt_imports (m0 : ModAct) (pre : List Act) (segs : List Seg) (hpre : NoAdj pre) (hfirst : FirstOk m0 pre)
    (hsegs : SegsOk (lastCtx m0.ctx pre) segs) :
    fmt (modFrames m0 ++ framesOf pre ++ segs.flatMap segFrames) = modTriple m0 :: pyTraceback pre ++ pyImports segs := by
  unfold fmt fmtC pyTraceback pyImports
  rw [run_append, run_append,
    run_mod_fresh Cfg.current m0 {} rfl rfl (enterCtx_first _ {} m0.ctx rfl) (by intro e R hR; cases hR)]
  have hch := run_chain Cfg.current pre (afterMod m0 []) hpre (by
    intro a r ha e R hR
    simp only [afterMod, List.cons.injEq] at hR
    obtain ⟨rfl, _⟩ := hR
    exact hfirst a r ha)
  rw [run_segs segs _ _ (hch.2 m0.ctx ⟨rfl, rfl⟩) hsegs, hch.1]
  simp [afterMod, List.reverse_append]

/-- the same when the outermost activation is a function called by an entry point (trigger, service, task) and a
function of the chain imports lazily -/
theorem C18_fmt_lazy_imports (a : Act) (pre : List Act) (segs : List Seg) (hpre : NoAdj (a :: pre))
    (hsegs : SegsOk (lastCtx a.ctx pre) segs) :
    fmt (framesOf (a :: pre) ++ segs.flatMap segFrames) = pyTraceback (a :: pre) ++ pyImports segs := by
  unfold fmt fmtC pyTraceback pyImports
  rw [run_append]
  have hch := run_chain Cfg.current (a :: pre) {} hpre (by intro a r _ e R hR; cases hR)
  have hinv : Inv (runC Cfg.current {} (framesOf (a :: pre))) (lastCtx a.ctx pre) := by
    unfold framesOf
    simp only [List.map_cons, List.flatten_cons]
    rw [run_append, run_act Cfg.current a {} (by intro e R hR; cases hR)]
    have hn' : NoAdj pre := by
      cases pre with
      | nil => trivial
      | cons b t => exact hpre.2
    have := (run_chain Cfg.current pre (afterAct a []) hn' (by
      intro b t hb e R hR
      subst hb
      simp only [afterAct, List.cons.injEq] at hR
      obtain ⟨rfl, _⟩ := hR
      intro hh
      rcases hpre.1 with h1 | h1
      · exact h1 hh.1
      · have := hh.2
        simp only [triple, Option.some.injEq] at this
        exact h1 this)).2 a.ctx ⟨rfl, rfl⟩
    unfold framesOf at this
    exact this
  rw [run_segs segs _ _ hinv hsegs, hch.1]
  simp [List.reverse_append]

/-- non-vacuity of `SegsOk`: `a.py` imports `m.py` whose body imports `n.py` whose body calls `g` -/
example : SegsOk (lastCtx 1 [])
    [⟨[⟨"global_ctx.py", "module_import", 238⟩, ⟨"global_ctx.py", "load_file", 385⟩], ⟨2, "modules/m.py", "modules.m", [], 2, 1⟩, []⟩,
     ⟨[⟨"global_ctx.py", "module_import", 238⟩, ⟨"global_ctx.py", "load_file", 385⟩], ⟨3, "modules/n.py", "modules.n", [], 4, 1⟩,
      [⟨"modules/n.py", "g", 3, "modules/n.py", "modules.n", [], 2, true, 1⟩]⟩] := by
  simp [SegsOk, SegOk, FirstOk, NoAdj, lastCtx, entryFunc]

/-- **Finding #21 / C18-F1 (witness).**  Direct recursion `f → f → f`: three activations, ONE reported frame (with the
innermost line) – every `aeval` frame of the inner activations replaces the entry of the outer one. -/
theorem C18_cex_recursion :
    fmt (framesOf [⟨"a.py", "f", 1, "a.py", "file.a", [4], 5, true, 1⟩, ⟨"a.py", "f", 1, "a.py", "file.a", [4], 5, true, 1⟩,
                   ⟨"a.py", "f", 1, "a.py", "file.a", [2], 3, true, 1⟩])
      = [{ file := "a.py", func := some "f", line := 3, isReal := false }] ∧
    pyTraceback [⟨"a.py", "f", 1, "a.py", "file.a", [4], 5, true, 1⟩, ⟨"a.py", "f", 1, "a.py", "file.a", [4], 5, true, 1⟩,
                 ⟨"a.py", "f", 1, "a.py", "file.a", [2], 3, true, 1⟩]
      = [{ file := "a.py", func := some "f", line := 5, isReal := false },
         { file := "a.py", func := some "f", line := 5, isReal := false },
         { file := "a.py", func := some "f", line := 3, isReal := false }] := by
  constructor <;> decide

/-- **Regression witness for the repaired finding C18-F3.**  Before the repair `current_filename` was set by the first
`aeval` frame only: when file `a.py` imports module `m.py` at load time and `m.py` raises, the frames of `m`'s module
body were attributed to `a.py` (file name and source line of `a.py`, line NUMBER of `m.py`) – `Cfg.preF3`; the
current shape names `modules/m.py`. -/
theorem C18_regress_nested_load :
    fmtC Cfg.preF3 [.aeval 1 "a.py" "file.a" (some 2), .other, .real "global_ctx.py" "module_import" 231,
         .real "global_ctx.py" "load_file" 378, .other, .aeval 2 "modules/m.py" "modules.m" (some 7)]
      = [{ file := "a.py", func := some "file.a", line := 2, isReal := false },
         { file := "global_ctx.py", func := some "module_import", line := 231, isReal := true },
         { file := "global_ctx.py", func := some "load_file", line := 378, isReal := true },
         { file := "a.py", func := some "modules.m", line := 7, isReal := false }] ∧
    fmt [.aeval 1 "a.py" "file.a" (some 2), .other, .real "global_ctx.py" "module_import" 231,
         .real "global_ctx.py" "load_file" 378, .other, .aeval 2 "modules/m.py" "modules.m" (some 7)]
      = [{ file := "a.py", func := some "file.a", line := 2, isReal := false },
         { file := "global_ctx.py", func := some "module_import", line := 231, isReal := true },
         { file := "global_ctx.py", func := some "load_file", line := 378, isReal := true },
         { file := "modules/m.py", func := some "modules.m", line := 7, isReal := false }] := by
  constructor <;> decide

/-- the same for a lazy import inside a function: before the repair the module body's line was reported as a line of
the importing FUNCTION -/
theorem C18_regress_lazy_import :
    fmtC Cfg.preF3 [.callFunc "f0", .evalFuncCall "f0" "a.py", .aeval 1 "a.py" "file.a.f0" (some 2),
         .real "global_ctx.py" "load_file" 378, .aeval 2 "modules/m.py" "modules.m" (some 3)]
      = [{ file := "a.py", func := some "f0", line := 2, isReal := false },
         { file := "global_ctx.py", func := some "load_file", line := 378, isReal := true },
         { file := "a.py", func := some "f0", line := 3, isReal := false }] ∧
    fmt [.callFunc "f0", .evalFuncCall "f0" "a.py", .aeval 1 "a.py" "file.a.f0" (some 2),
         .real "global_ctx.py" "load_file" 378, .aeval 2 "modules/m.py" "modules.m" (some 3)]
      = [{ file := "a.py", func := some "f0", line := 2, isReal := false },
         { file := "global_ctx.py", func := some "load_file", line := 378, isReal := true },
         { file := "modules/m.py", func := some "modules.m", line := 3, isReal := false }] := by
  constructor <;> decide

/-! ## the last line -/

/-- **The report ends with Python's own `Type: message` line** – whatever class, wherever `__str__` is defined (builtin
or in the script), whether it returns a text (also the empty one), raises or returns a non-string – except a script
`__str__` that WAITS for something before it returns (`_partial`: see `C18_last_line_cex`). -/
theorem C18_last_line_partial (name : String) (i : StrImpl) (h : ∀ t, i ≠ .script (.suspends t)) :
    lastLine true name i = pyLastLine name i := by
  cases i with
  | native r => rfl
  | script r =>
    cases r with
    | returns t => rfl
    | raises => rfl
    | nonString => rfl
    | suspends t => exact absurd rfl (h t)

/-- non-vacuity -/
example : ∀ t, StrImpl.script (.returns "custom text") ≠ .script (.suspends t) := by intro t h; cases h

/-- a script `__str__` that waits (`task.sleep`) cannot be completed from the synchronous formatter: the report says
`<exception str() failed>` where Python would print the text -/
theorem C18_last_line_cex :
    lastLine true "Cus" (.script (.suspends "late")) = "Cus: <exception str() failed>" ∧
    pyLastLine "Cus" (.script (.suspends "late")) = "Cus: late" := by
  constructor <;> decide

/-- **Regression witness for the repaired finding C18-F9.**  Before the repair the text of EVERY `__str__` defined in a
script was lost (`str()` got a coroutine). -/
theorem C18_regress_script_str :
    lastLine false "Cus" (.script (.returns "custom text")) = "Cus: <exception str() failed>" ∧
    lastLine true "Cus" (.script (.returns "custom text")) = "Cus: custom text" ∧
    pyLastLine "Cus" (.script (.returns "custom text")) = "Cus: custom text" := by
  refine ⟨?_, ?_, ?_⟩ <;> decide

/-! ## containment -/

/-- **An `Exception` in user code is contained**: whatever the trigger expression, the `@state_active`
expression and the function body of an occurrence do (return or raise), serving the occurrence returns normally
(the function is total: nothing propagates), consumes the occurrence, leaves the trigger's subscriptions/timers
unchanged, and logs exactly the first failure – one record, on the script's logger, with the script traceback –
in BOTH trigger subsystems (and for services, expressions, `task.create`, which are the `caught` shape too). -/
theorem C18_contained (sub : Subsys) (lg : String) (s : Loop) (o : Occ) :
    (serve (fnCaught sub) lg s o).subs = s.subs ∧
    (serve (fnCaught sub) lg s o).served = s.served + 1 ∧
    (serve (fnCaught sub) lg s o).log = s.log ++ (specRecs o).map (scriptRec lg) ∧
    (specRecs o).length ≤ 1 := by
  have hc : fnCaught sub = true := by cases sub <;> rfl
  rw [hc]
  refine ⟨(serve_spec true lg s o).1, (serve_spec true lg s o).2.1, serve_log_caught lg s o, ?_⟩
  unfold specRecs
  cases o.expr <;> cases o.exprTrue <;> cases o.active <;> cases o.activeTrue <;> cases o.body <;> simp

/-- **The loop survives any sequence of failures**: after any list of occurrences, every one has been served,
the subscriptions are unchanged, the function ran exactly for the qualifying occurrences, and the log holds exactly
one record per failing occurrence, in order. -/
theorem C18_loop_survives (sub : Subsys) (lg : String) (os : List Occ) (s : Loop) :
    (serveAll (fnCaught sub) lg s os).subs = s.subs ∧
    (serveAll (fnCaught sub) lg s os).served = s.served + os.length ∧
    (serveAll (fnCaught sub) lg s os).runs = s.runs + (os.filter specRuns).length ∧
    (serveAll (fnCaught sub) lg s os).done = s.done + (os.filter (fun o => specRuns o && o.body == Res.ok)).length ∧
    (serveAll (fnCaught sub) lg s os).log = s.log ++ (os.flatMap specRecs).map (scriptRec lg) := by
  have hc : fnCaught sub = true := by cases sub <;> rfl
  rw [hc]
  induction os generalizing s with
  | nil => simp [serveAll]
  | cons o r ih =>
    have h1 := serve_spec true lg s o
    have h2 := serve_log_caught lg s o
    have := ih (serve true lg s o)
    simp only [serveAll, List.foldl_cons] at this ⊢
    obtain ⟨a, b, c, c2, d⟩ := this
    refine ⟨by rw [a, h1.1], by rw [b, h1.2.1]; simp; omega, ?_, ?_, ?_⟩
    · rw [c, h1.2.2.1]
      cases hs : specRuns o <;> simp [hs] <;> omega
    · rw [c2, h1.2.2.2]
      cases hs : (specRuns o && o.body == Res.ok) <;> simp [hs] <;> omega
    · rw [d, h2]
      simp [List.flatMap_cons]

/-- **Regression witness for the repaired finding C18-F2.**  If a trigger function is awaited WITHOUT a handler (the
shape of `FunctionDecoratorManager._call` before commit b73983a), its exception is still contained (loop state as
above) but it is reported by `Function.run_coro` on the integration's generic logger with a Python traceback – not on
the script's logger, and without script file/function/line.  The current code no longer has this shape
(`fnCaught .new = true`); the entry family checks that on every run. -/
theorem C18_regress_uncaught_trigger_function (lg : String) (s : Loop) (e : Nat) :
    (serve false lg s ⟨.ok, true, .ok, true, .raise e⟩).log = s.log ++ [{ logger := "function", exc := e, scriptTb := false }] ∧
    (serve false lg s ⟨.ok, true, .ok, true, .raise e⟩).subs = s.subs ∧
    (serve false lg s ⟨.ok, true, .ok, true, .raise e⟩).served = s.served + 1 := by
  simp [serve, contain, callAction]

/-- **Load isolation**: after a load pass over any list of planned files, exactly the files that did not raise
are registered, in order – each of them is loaded no matter how many others failed – every failing file has
exactly one record on its own logger, and NO function of a file that failed to load is run by the clean-up (the full
statement finding C18-F10 blocked). -/
theorem C18_load_isolated (files : List SrcFile) (s : Loaded) :
    (loadAll files s).contexts = s.contexts ++ specContexts files ∧
    ((loadAll files s).log.filter (·.scriptTb)).map (·.logger)
      = (s.log.filter (·.scriptTb)).map (·.logger) ++ (failing files).map (·.name) ∧
    (loadAll files s).ran = s.ran := by
  induction files generalizing s with
  | nil => simp [loadAllC, specContexts, failing]
  | cons f r ih =>
    cases hf : f.loads with
    | ok =>
      have := ih { s with contexts := s.contexts ++ [f.name] }
      simp only [loadAllC, hf]
      rw [this.1, this.2.1, this.2.2]
      simp [specContexts, failing, hf]
    | raise e =>
      have := ih { s with ran := s.ran ++ stopUnstarted true f,
                          log := s.log ++ [{ logger := f.name, exc := e, scriptTb := true },
                                           { logger := "pyscript", exc := e, scriptTb := false }] }
      simp only [loadAllC, hf]
      rw [this.1, this.2.1, this.2.2]
      simp [specContexts, failing, hf, stopUnstarted]

/-- **Regression witness for the repaired finding C18-F10.**  Before the repair the clean-up after a failed load ran the
`@time_trigger("shutdown")` functions the file had defined before it raised (legacy subsystem) – code of a file that
"failed to load" was executed. -/
theorem C18_regress_failed_load_runs_shutdown :
    (loadAllC false [⟨"file.a", .ok, 0⟩, ⟨"file.bad", .raise 1, 1⟩, ⟨"file.good", .ok, 0⟩] ⟨[], [], []⟩).ran = ["file.bad"] ∧
    (loadAll [⟨"file.a", .ok, 0⟩, ⟨"file.bad", .raise 1, 1⟩, ⟨"file.good", .ok, 0⟩] ⟨[], [], []⟩).ran = [] ∧
    (loadAllC false [⟨"file.a", .ok, 0⟩, ⟨"file.bad", .raise 1, 1⟩, ⟨"file.good", .ok, 0⟩] ⟨[], [], []⟩).contexts
      = ["file.a", "file.good"] := by
  refine ⟨?_, ?_, ?_⟩ <;> decide

/-- non-vacuity: a chain of depth 3 across two files without adjacent equal activations -/
example : NoAdj [⟨"a.py", "f", 1, "a.py", "file.a", [4], 5, false, 1⟩, ⟨"m.py", "g", 1, "a.py", "file.a", [], 9, true, 2⟩,
                 ⟨"a.py", "f", 1, "a.py", "file.a", [2], 3, true, 0⟩] := by
  simp [NoAdj]


/-- **Finding C18-F4 (witness).**  The traceback of a chained cause begins inside a function body (at the `try` that
caught it): no `EvalFunc.call` frame, so the entry names the evaluator (`file.a.f0`) and the evaluator's file, not
the function `f1` of `modules/m.py` in which line 3 was executed. -/
theorem C18_chained_cause_cex :
    fmt [.other, .aeval 1 "a.py" "file.a.f0" (some 3), .other, .aeval 1 "a.py" "file.a.f0" (some 3)]
      = [{ file := "a.py", func := some "file.a.f0", line := 3, isReal := false }] := by decide

/-- **Finding C18-F5 (witness).**  A decorator's wrapper carries the decorated function's name: wrapper (line 3) and
function (line 8) are two activations of the same (file, name) and are merged. -/
theorem C18_decorator_cex :
    fmt (framesOf [⟨"a.py", "f0", 1, "a.py", "file.a", [], 3, true, 1⟩, ⟨"a.py", "f0", 1, "a.py", "file.a", [], 8, true, 1⟩])
      = [{ file := "a.py", func := some "f0", line := 8, isReal := false }] := by decide

end PsModel.C18
