import PsModel.Lemmas.C18
/-!
# C18 – property theorems (error attribution and containment)

Only property statements live here; helper lemmas are in `Lemmas/C18.lean`.
-/
namespace PsModel.C18

/-! ## attribution -/

/-- **The reconstructed traceback names Python's own (file, function, line) triples** – for every chain of
activations of any depth, any number of nested `aeval` frames and ignored interpreter frames per activation, reached
through call expressions or called directly, on any evaluators – as long as no two *consecutive* activations are of
the same function of the same file (`_partial`: see `C18_cex_recursion`). -/
theorem C18_fmt_partial (chain : List Act) (h : NoAdj chain) : fmt (framesOf chain) = pyTraceback chain := by
  unfold fmt pyTraceback
  have := run_chain chain {} h (by intro a r _ e R hR; cases hR)
  rw [this]
  simp

/-- the same below a module body (an error while a file is loaded, or in a Jupyter cell): the module body
contributes its file, the context name as "function" and its current line, then the chain follows -/
theorem C18_fmt_module_partial (m : ModAct) (chain : List Act) (h : NoAdj chain)
    (hfirst : ∀ a r, chain = a :: r → ¬(m.file = a.file ∧ (if m.file ≠ m.ctxName then some m.ctxName else none) = some a.func)) :
    fmt (modFrames m ++ framesOf chain) = modTriple m :: pyTraceback chain := by
  unfold fmt pyTraceback
  rw [run_append]
  -- the module body: first aeval sets the file and pushes, the others refine
  have hmod : run {} (modFrames m)
      = { curFunc := none, curFile := some m.file, line := m.last, rstack := [modTriple m] } := by
    unfold modFrames
    cases hls : m.lines ++ [m.last] with
    | nil => simp at hls
    | cons l r =>
      simp only [aevals, run_cons]
      have h1 : step {} (.aeval m.file m.ctxName (some l))
          = { curFunc := none, curFile := some m.file, line := l,
              rstack := [{ file := m.file, func := entryFunc none m.file m.ctxName, line := l, isReal := false }] } := by
        simp [step, astFrame, entryFunc]
      rw [h1]
      obtain ⟨l', h', hl'⟩ := run_aevals_refine m.file none m.file m.ctxName m.noise r
        { curFunc := none, curFile := some m.file, line := l,
          rstack := [{ file := m.file, func := entryFunc none m.file m.ctxName, line := l, isReal := false }] }
        { file := m.file, func := entryFunc none m.file m.ctxName, line := l, isReal := false } [] rfl rfl rfl rfl rfl rfl rfl
      rw [h']
      have : l' = m.last := by
        rw [hl']
        have h2 : (l :: r).getLast? = some m.last := by rw [← hls]; simp
        cases r with
        | nil => simp at h2 ⊢; exact h2
        | cons y ys => rw [List.getLast?_cons_cons] at h2; simp [h2]
      subst this
      rfl
  rw [hmod]
  have := run_chain chain { curFunc := none, curFile := some m.file, line := m.last, rstack := [modTriple m] } h (by
    intro a r ha e R hR
    simp only [List.cons.injEq] at hR
    obtain ⟨rfl, _⟩ := hR
    exact hfirst a r ha)
  rw [this]
  simp [List.reverse_append]

/-- **Finding #21 / C18-F1 (witness).**  Direct recursion `f → f → f`: three activations, ONE reported frame (with the
innermost line) – every `aeval` frame of the inner activations replaces the entry of the outer one. -/
theorem C18_cex_recursion :
    fmt (framesOf [⟨"a.py", "f", "a.py", "file.a", [4], 5, true, 1⟩, ⟨"a.py", "f", "a.py", "file.a", [4], 5, true, 1⟩,
                   ⟨"a.py", "f", "a.py", "file.a", [2], 3, true, 1⟩])
      = [{ file := "a.py", func := some "f", line := 3, isReal := false }] ∧
    pyTraceback [⟨"a.py", "f", "a.py", "file.a", [4], 5, true, 1⟩, ⟨"a.py", "f", "a.py", "file.a", [4], 5, true, 1⟩,
                 ⟨"a.py", "f", "a.py", "file.a", [2], 3, true, 1⟩]
      = [{ file := "a.py", func := some "f", line := 5, isReal := false },
         { file := "a.py", func := some "f", line := 5, isReal := false },
         { file := "a.py", func := some "f", line := 3, isReal := false }] := by
  constructor <;> decide

/-- **Finding C18-F3 (witness).**  `current_filename` is set by the first `aeval` frame only.  When file `a.py`
imports module `m.py` at load time and `m.py` raises, the frames of `m`'s module body are attributed to `a.py`
(file name and source line of `a.py`, line NUMBER of `m.py`). -/
theorem C18_nested_load_cex :
    fmt [.aeval "a.py" "file.a" (some 2), .other, .real "global_ctx.py" "module_import" 231,
         .real "global_ctx.py" "load_file" 378, .other, .aeval "modules/m.py" "modules.m" (some 7)]
      = [{ file := "a.py", func := some "file.a", line := 2, isReal := false },
         { file := "global_ctx.py", func := some "module_import", line := 231, isReal := true },
         { file := "global_ctx.py", func := some "load_file", line := 378, isReal := true },
         { file := "a.py", func := some "modules.m", line := 7, isReal := false }] := by decide

/-! ## containment -/

/-- **An `Exception` in user code is contained**: whatever the trigger expression, the `@state_active`
expression and the function body of an occurrence do (return or raise), serving the occurrence returns normally
(the function is total: nothing propagates), consumes the occurrence, leaves the trigger's subscriptions/timers
unchanged, and logs exactly the first failure – one record, on the script's logger, with the script traceback –
in BOTH trigger subsystems (and for services, expressions, `task.create`, which are the `caught` shape too). -/
theorem C18_contained (sub : Subsys) (lg : String) (s : Loop) (o : Occ) :
    (serve (fnCaught sub) lg s o).subs = s.subs ∧
    (serve (fnCaught sub) lg s o).served = s.served + 1 ∧
    (serve (fnCaught sub) lg s o).log = s.log ++ (specRecs o).map (scriptRec lg) ∧
    (specRecs o).length ≤ 1 := by
  have hc : fnCaught sub = true := by cases sub <;> rfl
  rw [hc]
  refine ⟨(serve_spec true lg s o).1, (serve_spec true lg s o).2.1, serve_log_caught lg s o, ?_⟩
  unfold specRecs
  cases o.expr <;> cases o.exprTrue <;> cases o.active <;> cases o.activeTrue <;> cases o.body <;> simp

/-- **The loop survives any sequence of failures**: after any list of occurrences, every one has been served,
the subscriptions are unchanged, the function ran exactly for the qualifying occurrences, and the log holds exactly
one record per failing occurrence, in order. -/
theorem C18_loop_survives (sub : Subsys) (lg : String) (os : List Occ) (s : Loop) :
    (serveAll (fnCaught sub) lg s os).subs = s.subs ∧
    (serveAll (fnCaught sub) lg s os).served = s.served + os.length ∧
    (serveAll (fnCaught sub) lg s os).runs = s.runs + (os.filter specRuns).length ∧
    (serveAll (fnCaught sub) lg s os).done = s.done + (os.filter (fun o => specRuns o && o.body == Res.ok)).length ∧
    (serveAll (fnCaught sub) lg s os).log = s.log ++ (os.flatMap specRecs).map (scriptRec lg) := by
  have hc : fnCaught sub = true := by cases sub <;> rfl
  rw [hc]
  induction os generalizing s with
  | nil => simp [serveAll]
  | cons o r ih =>
    have h1 := serve_spec true lg s o
    have h2 := serve_log_caught lg s o
    have := ih (serve true lg s o)
    simp only [serveAll, List.foldl_cons] at this ⊢
    obtain ⟨a, b, c, c2, d⟩ := this
    refine ⟨by rw [a, h1.1], by rw [b, h1.2.1]; simp; omega, ?_, ?_, ?_⟩
    · rw [c, h1.2.2.1]
      cases hs : specRuns o <;> simp [hs] <;> omega
    · rw [c2, h1.2.2.2]
      cases hs : (specRuns o && o.body == Res.ok) <;> simp [hs] <;> omega
    · rw [d, h2]
      simp [List.flatMap_cons]

/-- **Regression witness for the repaired finding C18-F2.**  If a trigger function is awaited WITHOUT a handler (the
shape of `FunctionDecoratorManager._call` before commit b73983a), its exception is still contained (loop state as
above) but it is reported by `Function.run_coro` on the integration's generic logger with a Python traceback – not on
the script's logger, and without script file/function/line.  The current code no longer has this shape
(`fnCaught .new = true`); the entry family checks that on every run. -/
theorem C18_regress_uncaught_trigger_function (lg : String) (s : Loop) (e : Nat) :
    (serve false lg s ⟨.ok, true, .ok, true, .raise e⟩).log = s.log ++ [{ logger := "function", exc := e, scriptTb := false }] ∧
    (serve false lg s ⟨.ok, true, .ok, true, .raise e⟩).subs = s.subs ∧
    (serve false lg s ⟨.ok, true, .ok, true, .raise e⟩).served = s.served + 1 := by
  simp [serve, contain, callAction]

/-- **Load isolation**: after a load pass over any list of planned files, exactly the files that did not raise
are registered, in order – each of them is loaded no matter how many others failed – and every failing file has
exactly one record on its own logger. -/
theorem C18_load_isolated (files : List SrcFile) (s : Loaded) :
    (loadAll files s).contexts = s.contexts ++ specContexts files ∧
    ((loadAll files s).log.filter (·.scriptTb)).map (·.logger)
      = (s.log.filter (·.scriptTb)).map (·.logger) ++ (failing files).map (·.name) := by
  induction files generalizing s with
  | nil => simp [loadAll, specContexts, failing]
  | cons f r ih =>
    cases hf : f.loads with
    | ok =>
      have := ih { s with contexts := s.contexts ++ [f.name] }
      simp only [loadAll, hf]
      rw [this.1, this.2]
      simp [specContexts, failing, hf]
    | raise e =>
      have := ih { s with log := s.log ++ [{ logger := f.name, exc := e, scriptTb := true },
                                         { logger := "pyscript", exc := e, scriptTb := false }] }
      simp only [loadAll, hf]
      rw [this.1, this.2]
      simp [specContexts, failing, hf]

/-- non-vacuity: a chain of depth 3 across two files without adjacent equal activations -/
example : NoAdj [⟨"a.py", "f", "a.py", "file.a", [4], 5, false, 1⟩, ⟨"m.py", "g", "a.py", "file.a", [], 9, true, 2⟩,
                 ⟨"a.py", "f", "a.py", "file.a", [2], 3, true, 0⟩] := by
  simp [NoAdj]


/-- **Finding C18-F4 (witness).**  The traceback of a chained cause begins inside a function body (at the `try` that
caught it): no `EvalFunc.call` frame, so the entry names the evaluator (`file.a.f0`) and the evaluator's file, not
the function `f1` of `modules/m.py` in which line 3 was executed. -/
theorem C18_chained_cause_cex :
    fmt [.other, .aeval "a.py" "file.a.f0" (some 3), .other, .aeval "a.py" "file.a.f0" (some 3)]
      = [{ file := "a.py", func := some "file.a.f0", line := 3, isReal := false }] := by decide

/-- **Finding C18-F5 (witness).**  A decorator's wrapper carries the decorated function's name: wrapper (line 3) and
function (line 8) are two activations of the same (file, name) and are merged. -/
theorem C18_decorator_cex :
    fmt (framesOf [⟨"a.py", "f0", "a.py", "file.a", [], 3, true, 1⟩, ⟨"a.py", "f0", "a.py", "file.a", [], 8, true, 1⟩])
      = [{ file := "a.py", func := some "f0", line := 8, isReal := false }] := by decide

end PsModel.C18
