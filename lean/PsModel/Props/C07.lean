import PsModel.Lemmas.C07
/-!
# C07 – property theorems (`@state_active`, `@time_active`, `hold_off` gate every trigger correctly)

Only property statements live here; helpers are in `Lemmas/C07.lean`.  `Legacy.*` mirrors `trigger.py`, `New.*` the
decorator subsystem; `Flags.current` is the code as it is today (after the fixes e0254f9, 07af69d, 4801d95; the early
hold-off stamp C07-F2 is left), `Flags.preFix` the code before those fixes (kept for the `_regress_` theorems),
`Flags.repaired` with every deviation switched off (see `findings.d/C07.json`).
-/
namespace PsModel.C07

/-! ## windows -/

/-- **Window combination.**  For every list of specifications (any length, any mix of signs) and every time,
`timer_active_check` returns: an exception iff some entry's dates do not exist, otherwise
"(no positive entry, or some positive entry matches) and no negated entry matches". -/
theorem C07_window (P : Params) (specs : List ASpec) (now startup : Time) :
    activeCheck P specs now startup =
      if Spec.resolves P now startup specs then some (Spec.window P specs now startup) else none :=
  activeCheck_eq P specs now startup

/-- only negated entries (or none at all): active exactly when none of them matches -/
theorem C07_only_negatives (P : Params) (specs : List ASpec) (now startup : Time)
    (hneg : ∀ a ∈ specs, a.neg = true) (hres : Spec.resolves P now startup specs = true) :
    activeCheck P specs now startup = some (specs.all (fun a => !Spec.hitB P now startup a)) := by
  rw [C07_window, hres]
  have h1 : specs.filter (fun a => !a.neg) = [] := by
    apply List.filter_eq_nil_iff.mpr
    intro a ha; simp [hneg a ha]
  have h2 : specs.filter (fun a => a.neg) = specs := by
    apply List.filter_eq_self.mpr
    intro a ha; simp [hneg a ha]
  simp [Spec.window, h1, h2]

/-- **`range()` includes both end points** and nothing outside them (start ≤ end) -/
theorem C07_range_inclusive (s e now : Int) (h : s ≤ e) :
    (rangeTest s e now = true ↔ s ≤ now ∧ now ≤ e) ∧
    rangeTest s e s = true ∧ rangeTest s e e = true ∧
    rangeTest s e (s - 1) = false ∧ rangeTest s e (e + 1) = false := by
  refine ⟨by simp [rangeTest, h], by simp [rangeTest, h], by simp [rangeTest, h], ?_, ?_⟩
  · simp only [rangeTest, h, if_true, Bool.and_eq_false_iff, decide_eq_false_iff_not]; omega
  · simp only [rangeTest, h, if_true, Bool.and_eq_false_iff, decide_eq_false_iff_not]; omega

/-- **a range whose end precedes its start wraps**: everything except the open gap between end and start -/
theorem C07_range_wrap (s e now : Int) (h : e < s) :
    (rangeTest s e now = true ↔ ¬(e < now ∧ now < s)) ∧
    rangeTest s e s = true ∧ rangeTest s e e = true ∧
    (e + 1 < s → rangeTest s e (e + 1) = false ∧ rangeTest s e (s - 1) = false) := by
  have hn : ¬ s ≤ e := by omega
  refine ⟨?_, by simp [rangeTest, hn], by simp [rangeTest, hn], ?_⟩
  · simp only [rangeTest, hn, if_false, Bool.or_eq_true, decide_eq_true_eq, ge_iff_le]; omega
  · intro hgap
    simp only [rangeTest, hn, if_false, Bool.or_eq_false_iff, decide_eq_false_iff_not, ge_iff_le]; omega

/-- **Daily windows denote times of day.**  `range(h1:m1:s1, h2:m2:s2)` (no dates) matches at `now` iff the time of day
of `now` lies in `[a, b]`, or – when `b < a` – at or after `a` or at or before `b` ("wraps around midnight"),
whatever the date.  Goes through `parse_date_time` and the proved calendar round trip. -/
theorem C07_daily_window (P : Params) (h1 m1 u1 h2 m2 u2 : Int) (now startup : Time)
    (hday : dayInRange (dayOf now))
    (ha0 : 0 ≤ u1 + usMin * (m1 + 60 * h1)) (ha1 : u1 + usMin * (m1 + 60 * h1) < usDay) :
    let a := u1 + usMin * (m1 + 60 * h1)
    let b := u2 + usMin * (m2 + 60 * h2)
    thisMatch P (.range (.at .none (.hms h1 m1 u1) 0) (.at .none (.hms h2 m2 u2) 0)) now startup =
      some (decide (if a ≤ b then a ≤ todOf now ∧ todOf now ≤ b else a ≤ todOf now ∨ todOf now ≤ b)) := by
  intro a b
  have hs : parseDT P (.at .none (.hms h1 m1 u1) 0) 0 now startup = some (midnight (dayOf now) + a, false) := by
    rw [parseDT_noDate P _ _ _ _ _ hday]
    simp [finishDT, timeStage, a]
  have hd : dayOf (midnight (dayOf now) + a) = dayOf now := dayOf_midnight_add _ _ ha0 ha1
  have he : parseDT P (.at .none (.hms h2 m2 u2) 0) 0 (midnight (dayOf now) + a) startup
      = some (midnight (dayOf now) + b, false) := by
    rw [parseDT_noDate P _ _ _ _ _ (by rw [hd]; exact hday), hd]
    simp [finishDT, timeStage, b]
  simp only [thisMatch, hs, rangeEnd, he, rangeTest]
  have hsplit := time_split now
  have hb := todOf_bounds now
  generalize todOf now = tod at *
  generalize dayOf now = d at *
  simp only [midnight, usDay] at *
  subst hsplit
  by_cases hab : a ≤ b
  · have : d * 86400000000 + a ≤ d * 86400000000 + b := by omega
    simp only [this, hab, if_true, Option.some.injEq]
    rw [Bool.eq_iff_iff]
    simp only [Bool.and_eq_true, decide_eq_true_eq]
    constructor
    · intro h
      have q1 := of_decide_eq_true h.1
      have q2 := of_decide_eq_true h.2
      omega
    · intro h
      exact ⟨decide_eq_true (by omega), decide_eq_true (by omega)⟩
  · have : ¬ d * 86400000000 + a ≤ d * 86400000000 + b := by omega
    simp only [this, hab, if_false, Option.some.injEq, ge_iff_le]
    rw [Bool.eq_iff_iff]
    simp only [Bool.or_eq_true, decide_eq_true_eq]
    constructor
    · intro h
      rcases h with h | h
      · omega
      · have q := of_decide_eq_true h; omega
    · intro h
      rcases h with h | h
      · exact Or.inl (by omega)
      · exact Or.inr (decide_eq_true (by omega))

/-! ## legacy subsystem -/

/-- **Legacy gates correctly whenever `AstEval.eval` resets its table on an empty dictionary** (any flag value with
`staleLocals = false`).  For every configuration and every sequence of trigger occurrences and direct calls on a monotonic
clock, the function runs for exactly the occurrences the specification accepts: trigger condition held, `@state_active`
truthy on the triggering values, window admits the occurrence time, and no accepted occurrence less than `hold_off` before. -/
theorem C07_legacy_repaired (F : Flags) (hF : F.staleLocals = false) (P : Params) (cfg : Cfg) (es : List Ev)
    (hm : Mono es none) :
    Legacy.run F P cfg es GState.init = Spec.runs P cfg es [] := by
  rw [Legacy.run_eq]
  exact runWith_spec P cfg (NoStale F) _ (Legacy.stepOK F P cfg) es GState.init [] none
    (allOcc_of_mem _ es (fun _ _ => by intro h; simp [hF] at h)) hm (inv_init cfg)

/-- **The legacy subsystem as it is gates correctly** – full statement, no fragment (since fix 4801d95). -/
theorem C07_legacy (P : Params) (cfg : Cfg) (es : List Ev) (hm : Mono es none) :
    Legacy.run Flags.current P cfg es GState.init = Spec.runs P cfg es [] :=
  C07_legacy_repaired Flags.current rfl P cfg es hm

/-- **Legacy, several trigger decorators of one type** (one `TrigInfo` task per k-th decorator, each with its own
`last_trig_time`): the function is gated like the specification demands – every task applies the same `@state_active` /
`@time_active` guards to its occurrences – as long as all occurrences come from one task, or no `hold_off` is given. -/
theorem C07_legacy_groups_partial (P : Params) (cfg : Cfg) (es : List (Nat × Ev)) (hm : Mono (es.map (·.2)) none)
    (h : (∃ k, ∀ e ∈ es, e.1 = k) ∨ cfg.timeActive = false ∨ cfg.holdOff = none) :
    Legacy.runGroups Flags.current P cfg es (fun _ => GState.init) = Spec.runs P cfg (es.map (·.2)) [] := by
  rcases h with ⟨k, hk⟩ | hh
  · rw [Legacy.runGroups_single Flags.current P cfg k es _ hk]
    exact C07_legacy P cfg _ hm
  · rw [Legacy.runGroups_holdfree Flags.current rfl P cfg hh es _ GState.init]
    exact C07_legacy P cfg _ hm

/-! ## new subsystem -/

/-- **The fully repaired new subsystem gates correctly** – additionally `last_trig_time` stamped only when every handler
passed. -/
theorem C07_new_repaired (P : Params) (cfg : Cfg) (es : List Ev) (hm : Mono es none) :
    New.run Flags.repaired P cfg es GState.init = Spec.runs P cfg es [] := by
  rw [New.run_eq]
  refine runWith_spec P cfg (New.Good Flags.repaired P cfg) _ (New.stepOK _ P cfg ?_) es GState.init [] none
    (allOcc_of_mem _ es ?_) hm (inv_init cfg)
  · intro h; simp [Flags.repaired, Flags.current] at h
  · intro o _
    exact ⟨by intro h; simp [Flags.repaired, Flags.current] at h, by intro h; simp [Flags.repaired, Flags.current] at h,
      by intro h; simp [Flags.repaired, Flags.current] at h⟩

/-- **The new subsystem as it is** (after the fixes e0254f9, 07af69d, 4801d95 and the fix of C07-F2: `last_trig_time` is stamped
by `dispatch_accepted` once every handler has passed) gates correctly for every configuration – whatever the order of the guard
decorators –, every specification list, every `@state_active` value and every history. -/
theorem C07_new (P : Params) (cfg : Cfg) (es : List Ev) (hm : Mono es none) :
    New.run Flags.current P cfg es GState.init = Spec.runs P cfg es [] :=
  C07_new_repaired P cfg es hm

/-- **The new subsystem before the fix of C07-F2** (`last_trig_time` stamped inside the time handler) gated correctly only on the
configurations in which the early stamp cannot show: `@state_active` listed above `@time_active`, or absent, or no positive
`hold_off`. -/
theorem C07_new_partial (P : Params) (cfg : Cfg) (es : List Ev) (hm : Mono es none)
    (hord : cfg.saFirst = true ∨ cfg.stateActive = false ∨ Spec.holdN cfg = 0) :
    New.run Flags.preFixStamp P cfg es GState.init = Spec.runs P cfg es [] := by
  rw [New.run_eq]
  refine runWith_spec P cfg (New.Good Flags.preFixStamp P cfg) _ (New.stepOK _ P cfg (fun _ => hord)) es GState.init [] none
    (allOcc_of_mem _ es ?_) hm (inv_init cfg)
  intro o _
  exact ⟨by intro h; simp [Flags.preFixStamp] at h, by intro h; simp [Flags.preFixStamp] at h,
    by intro h; simp [Flags.preFixStamp] at h⟩

/-- 2024-06-03 12:00:00 (a Monday) -/
def wNoon : Int := 1717416000000000

def wRange (h1 m1 h2 m2 : Int) (neg : Bool) : ASpec :=
  ⟨neg, .range (.at .none (.hms h1 m1 0) 0) (.at .none (.hms h2 m2 0) 0)⟩

/-- an occurrence at 12:00 whose trigger condition held and whose variable dictionary is non-empty -/
def wOcc (id t : Nat) (sa : AVal) : Ev := .occ ⟨id, t, wNoon, true, true, sa, []⟩

/-- regression for C07-F1 (fixed by e0254f9): `@time_active("range(11:00,13:00)", "not range(11:30,12:30)")` at 12:00 – the
pre-fix code checked each argument alone and ran the function; the code as it is does not, like the spec and legacy. -/
theorem C07_new_regress_mixed_sign :
    let cfg : Cfg := ⟨false, true, [wRange 11 0 13 0 false, wRange 11 30 12 30 true], none, false, wNoon⟩
    New.run Flags.preFix Params.trivial cfg [wOcc 1 1000 .truthy] GState.init = [true] ∧
    New.run Flags.current Params.trivial cfg [wOcc 1 1000 .truthy] GState.init = [false] ∧
    Spec.runs Params.trivial cfg [wOcc 1 1000 .truthy] [] = [false] ∧
    Legacy.run Flags.current Params.trivial cfg [wOcc 1 1000 .truthy] GState.init = [false] := by
  decide

/-- regression for C07-F1, second shape: two negated windows, the time lies in the first. -/
theorem C07_new_regress_two_negatives :
    let cfg : Cfg := ⟨false, true, [wRange 11 30 12 30 true, wRange 13 0 14 0 true], none, false, wNoon⟩
    New.run Flags.preFix Params.trivial cfg [wOcc 1 1000 .truthy] GState.init = [true] ∧
    New.run Flags.current Params.trivial cfg [wOcc 1 1000 .truthy] GState.init = [false] ∧
    Spec.runs Params.trivial cfg [wOcc 1 1000 .truthy] [] = [false] := by
  decide

/-- regression for C07-F3 (fixed by 07af69d): a `@state_active` expression evaluating to `0` / `None` / `""` let the pre-fix
dispatch go on (`is False`); now it stops it. -/
theorem C07_new_regress_falsy_state_active :
    let cfg : Cfg := ⟨true, false, [], none, true, wNoon⟩
    New.run Flags.preFix Params.trivial cfg [wOcc 1 1000 .falsy] GState.init = [true] ∧
    New.run Flags.current Params.trivial cfg [wOcc 1 1000 .falsy] GState.init = [false] ∧
    Spec.runs Params.trivial cfg [wOcc 1 1000 .falsy] [] = [false] ∧
    Legacy.run Flags.current Params.trivial cfg [wOcc 1 1000 .falsy] GState.init = [false] := by
  decide

/-- regression for C07-F2 (fixed): `@time_active(hold_off=10)` above `@state_active`: before the fix an occurrence rejected by
`@state_active` at 1 s stamped `last_trig_time` and the first acceptable occurrence at 6 s was suppressed although nothing had
been accepted before; the code as it is runs the function at 6 s and 17 s, like the legacy subsystem and the specification. -/
theorem C07_new_regress_early_stamp :
    let cfg : Cfg := ⟨true, true, [], some 10000, false, wNoon⟩
    let es := [wOcc 1 1000 .isFalse, wOcc 2 6000 .truthy, wOcc 3 11000 .truthy, wOcc 4 17000 .truthy]
    New.run Flags.preFixStamp Params.trivial cfg es GState.init = [false, false, true, false] ∧
    New.run Flags.current Params.trivial cfg es GState.init = [false, true, false, true] ∧
    Spec.runs Params.trivial cfg es [] = [false, true, false, true] ∧
    Legacy.run Flags.current Params.trivial cfg es GState.init = [false, true, false, true] := by
  decide

/-- regression for C07-F4 (fixed by 4801d95, both subsystems): `@state_active("pyscript.en != '1'")`.  First occurrence: the
entity does not exist, the dictionary `{pyscript.en: None}` is loaded, the value is truthy, the function runs.  Second
occurrence: the entity now exists with value `'1'`, the dictionary is empty – the pre-fix code kept the old table, still saw
`None` and ran the function; now the table is reset and the function does not run. -/
theorem C07_regress_stale_locals :
    let cfg : Cfg := ⟨true, false, [], none, true, wNoon⟩
    let es := [Ev.occ ⟨1, 500, wNoon, true, true, .truthy, []⟩, Ev.occ ⟨2, 1750, wNoon, true, false, .isFalse, [(1, .truthy)]⟩]
    Legacy.run Flags.preFix Params.trivial cfg es GState.init = [true, true] ∧
    New.run Flags.preFix Params.trivial cfg es GState.init = [true, true] ∧
    Legacy.run Flags.current Params.trivial cfg es GState.init = [true, false] ∧
    New.run Flags.current Params.trivial cfg es GState.init = [true, false] ∧
    Spec.runs Params.trivial cfg es [] = [true, false] := by
  decide

/-- finding C07-F5 (legacy): `@time_active(hold_off=5)` on a function with two `@state_trigger` decorators – the second
decorator lives in a second task with its own `last_trig_time`: its occurrence at 2 s runs although the function ran at 1 s
(the new subsystem and the specification ignore it). -/
theorem C07_legacy_cex_hold_off_per_task :
    let cfg : Cfg := ⟨false, true, [], some 5000, true, wNoon⟩
    let o1 : Ev := .occ ⟨1, 1000, wNoon, true, true, .truthy, []⟩
    let o2 : Ev := .occ ⟨2, 2000, wNoon, true, true, .truthy, []⟩
    Legacy.runGroups Flags.current Params.trivial cfg [(0, o1), (1, o2)] (fun _ => GState.init) = [true, true] ∧
    New.run Flags.current Params.trivial cfg [o1, o2] GState.init = [true, false] ∧
    Spec.runs Params.trivial cfg [o1, o2] [] = [true, false] := by
  decide

/-! ## guards never start a run; direct calls -/

/-- **Runs only come from triggers** (legacy, any flag setting): every run belongs to an event that is a direct call or a
trigger whose own condition held; there is one flag per event. -/
theorem C07_guards_never_start_legacy (F : Flags) (P : Params) (cfg : Cfg) (es : List Ev) (g : GState) :
    (Legacy.run F P cfg es g).length = es.length ∧
    ∀ i : Nat, (Legacy.run F P cfg es g)[i]? = some true → ∃ e : Ev, es[i]? = some e ∧ e.triggered = true := by
  rw [Legacy.run_eq]
  exact ⟨runWith_length _ es g, fun i h => runWith_triggered _ (Legacy.step_triggered F P cfg) es g i h⟩

/-- **Runs only come from triggers** (new subsystem, any flag setting) -/
theorem C07_guards_never_start_new (F : Flags) (P : Params) (cfg : Cfg) (es : List Ev) (g : GState) :
    (New.run F P cfg es g).length = es.length ∧
    ∀ i : Nat, (New.run F P cfg es g)[i]? = some true → ∃ e : Ev, es[i]? = some e ∧ e.triggered = true := by
  rw [New.run_eq]
  exact ⟨runWith_length _ es g, fun i h => runWith_triggered _ (New.step_triggered F P cfg) es g i h⟩

/-- **Direct calls bypass the guards** (legacy): a direct call always runs, and removing the direct calls from a
history changes nothing for the trigger occurrences. -/
theorem C07_direct_legacy (F : Flags) (P : Params) (cfg : Cfg) (es : List Ev) (g : GState) :
    (∀ i : Nat, es[i]? = some Ev.direct → (Legacy.run F P cfg es g)[i]? = some true) ∧
    occFlags es (Legacy.run F P cfg es g) = Legacy.run F P cfg (es.filter (fun e => !e.isDirect)) g := by
  rw [Legacy.run_eq, Legacy.run_eq]
  exact ⟨fun i h => runWith_direct _ es g i h, runWith_dropDirect _ es g⟩

/-- **Direct calls bypass the guards** (new subsystem, any flag setting) -/
theorem C07_direct_new (F : Flags) (P : Params) (cfg : Cfg) (es : List Ev) (g : GState) :
    (∀ i : Nat, es[i]? = some Ev.direct → (New.run F P cfg es g)[i]? = some true) ∧
    occFlags es (New.run F P cfg es g) = New.run F P cfg (es.filter (fun e => !e.isDirect)) g := by
  rw [New.run_eq, New.run_eq]
  exact ⟨fun i h => runWith_direct _ es g i h, runWith_dropDirect _ es g⟩

/-! ## a guard decorator used twice -/

/-- **One guard decorator of each kind per function** (legacy; documented: "only a single `@state_active` / `@time_active`
decorator can be used per function"): with two of a kind `trigger_init` refuses the function – no trigger occurrence ever starts
it, direct calls still run; with at most one of each, `runFn` is the guarded trigger loop the other theorems talk about.  (The new
subsystem: `C07_new_repeated_guard_refused`.) -/
theorem C07_legacy_repeated_guard_refused (F : Flags) (P : Params) (cfg : Cfg) (nSA nTA : Nat) (es : List (Nat × Ev)) :
    ((1 < nSA ∨ 1 < nTA) → (Legacy.runFn F P cfg nSA nTA es).length = es.length ∧
        ∀ i : Nat, (Legacy.runFn F P cfg nSA nTA es)[i]? = some true ↔ (es[i]?).map (·.2) = some Ev.direct) ∧
    (nSA ≤ 1 → nTA ≤ 1 → Legacy.runFn F P cfg nSA nTA es = Legacy.runGroups F P cfg es (fun _ => GState.init)) := by
  refine ⟨fun h => ?_, fun h1 h2 => ?_⟩
  · have hc : (decide (nSA > 1) || decide (nTA > 1)) = true := by
      rcases h with h | h <;> simp [h]
    unfold Legacy.runFn
    rw [if_pos hc]
    refine ⟨List.length_map _, fun i => ?_⟩
    rw [List.getElem?_map]
    cases hi : es[i]? with
    | none => simp
    | some e =>
      obtain ⟨k, ev⟩ := e
      cases ev <;> simp
  · unfold Legacy.runFn
    have hc : ¬ ((decide (nSA > 1) || decide (nTA > 1)) = true) := by
      simp; omega
    rw [if_neg hc]

/-- **…and in the new subsystem** (since the fix of C07-F6, `TriggerHandlerDecorator.validate`): with two `@state_active` or two
`@time_active` the function is refused – no occurrence ever starts it, direct calls still run; with at most one of each, `runFn` is
the guarded dispatch the other theorems talk about. -/
theorem C07_new_repeated_guard_refused (F : Flags) (P : Params) (cfg : Cfg) (nSA nTA : Nat) (es : List Ev) :
    ((1 < nSA ∨ 1 < nTA) → (New.runFn false F P cfg nSA nTA es).length = es.length ∧
        ∀ i : Nat, (New.runFn false F P cfg nSA nTA es)[i]? = some true ↔ es[i]? = some Ev.direct) ∧
    (nSA ≤ 1 → nTA ≤ 1 → New.runFn false F P cfg nSA nTA es = New.run F P cfg es GState.init) := by
  refine ⟨fun h => ?_, fun h1 h2 => ?_⟩
  · have hc : (!false && (decide (nSA > 1) || decide (nTA > 1))) = true := by
      rcases h with h | h <;> simp [h]
    unfold New.runFn
    rw [if_pos hc]
    refine ⟨List.length_map _, fun i => ?_⟩
    rw [List.getElem?_map]
    cases hi : es[i]? with
    | none => simp
    | some e => cases e <;> simp
  · unfold New.runFn
    have hc : ¬ ((!false && (decide (nSA > 1) || decide (nTA > 1))) = true) := by
      simp; omega
    rw [if_neg hc]

/-- regression for C07-F6 (fixed): before the fix the new subsystem installed both `@state_active` handlers and ran the function
whenever both were truthy; now the function is refused as under the legacy subsystem. -/
theorem C07_new_regress_repeated_guard :
    let cfg : Cfg := ⟨true, false, [], none, true, wNoon⟩
    New.runFn true Flags.current Params.trivial cfg 2 1 [wOcc 1 1000 .truthy, .direct] = [true, true] ∧
    New.runFn false Flags.current Params.trivial cfg 2 1 [wOcc 1 1000 .truthy, .direct] = [false, true] ∧
    Legacy.runFn Flags.current Params.trivial cfg 2 1 [(0, wOcc 1 1000 .truthy), (0, .direct)] = [false, true] := by
  decide

/-! ## non-vacuity of the hypotheses -/

example : Mono [wOcc 1 1000 .truthy, .direct, wOcc 2 6000 .isFalse, wOcc 3 6000 .truthy] none := by
  simp [Mono, wOcc]

example : dayInRange (dayOf wNoon) := by unfold dayInRange; decide

/-- the partial theorem's fragment is inhabited by a configuration using all three guards and mixed-sign windows -/
example :
    let cfg : Cfg := ⟨true, true, [wRange 11 0 13 0 false, wRange 9 0 10 0 true], some 10000, true, wNoon⟩
    (cfg.saFirst = true ∨ cfg.stateActive = false ∨ Spec.holdN cfg = 0) ∧
    New.run Flags.current Params.trivial cfg
        [wOcc 1 1000 .truthy, wOcc 2 2000 .truthy, wOcc 3 11000 .isFalse, wOcc 4 12000 .truthy] GState.init
      = [true, false, false, true] := by
  decide

end PsModel.C07
