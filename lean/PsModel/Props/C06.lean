import PsModel.Lemmas.C06
/-!
# C06 – property theorems (time triggers fire at exactly the instants their specification denotes)

`timerNext` mirrors `TrigTime.timer_trigger_next`, `parseDT` mirrors `parse_date_time` (Model/C06, Model/C07).
`IsNext D now r` (Spec/C06): `r` is the least instant of the denoted set `D` strictly after `now`, or `none` if there is none.
`TFlags.current` is the code as it is (since fix c80f3bb the ticks of `period()` are computed with exact timedelta
arithmetic – no assumption about floats is left); `TFlags.preFix` is the float computation before that fix, kept for
`C06_regress_period_float`.
Hypotheses that recur: `dayInRange (dayOf now)` – `now` lies in the years 1…9999; `CronForward P` – croniter moves forward.
-/
namespace PsModel.C06
open PsModel.C07

/-! ## calendar and unit table -/

/-- **Calendar round trip.**  Every day number converts to a civil date `datetime(y, m, d)` accepts, and converting that
date back gives the same day number (all of 0001-01-01 … 9999-12-31); weekdays advance by one per day. -/
theorem C06_calendar_roundtrip (z : Int) (hlo : minDay ≤ z) (hhi : z ≤ maxDay) :
    validDate (civilFromDays z).y (civilFromDays z).m (civilFromDays z).d = true ∧
    daysFromCivil (civilFromDays z).y (civilFromDays z).m (civilFromDays z).d = z ∧
    weekday (z + 1) = (weekday z + 1) % 7 := by
  refine ⟨validDate_civilFromDays z hlo hhi, daysFromCivil_civilFromDays z, ?_⟩
  simp only [weekday]; omega

/-- **…and back.**  Every civil date `datetime(y, m, d)` accepts converts to a day number whose civil date is the same
(month lengths, leap years and the 400-year rule included). -/
theorem C06_calendar_roundtrip_civil (y m d : Int) (hv : validDate y m d = true) :
    civilFromDays (daysFromCivil y m d) = ⟨y, m, d⟩ :=
  civilFromDays_daysFromCivil y m d hv

/-- **The unit table of `parse_time_offset`** (extracted from the source on every run) is the documented one. -/
theorem C06_units :
    (∀ u ∈ ["", "s", "sec", "second", "seconds"], unitScale u = 1) ∧
    (∀ u ∈ ["m", "min", "mins", "minute", "minutes"], unitScale u = 60) ∧
    (∀ u ∈ ["h", "hr", "hour", "hours"], unitScale u = 3600) ∧
    (∀ u ∈ ["d", "day", "days"], unitScale u = 86400) ∧
    (∀ u ∈ ["w", "week", "weeks"], unitScale u = 604800) ∧
    offUs ⟨true, 15, 1, "hr"⟩ = -5400000000 ∧ offUs ⟨false, 25, 1, "min"⟩ = 150000000 := by
  decide

/-! ## once -/

/-- **`once(time ± offset)` fires every day.**  For every time of day, offset, current time and start-up time the answer is
the earliest daily occurrence strictly after now (the day-offset re-parse always lands on it) – the only exception being the
start-up rule shared with every other form: asked AT start-up, an occurrence equal to the start-up time is announced itself
(full since the fix of C06-F3: the re-parse is suppressed only when `now == this_t == startup_time`, no longer whenever the first
parse merely equals the start-up time; `C06_regress_startup_coincidence`). -/
theorem C06_once_daily (F : TFlags) (hF : F.startupByValue = false) (P : Params) (time : TimeSpec) (x off now st : Int)
    (h : Spec.fixedTod time = some x) (hd : dayInRange (dayOf now)) (hns : ¬ (now = midnight (dayOf now) + x + off ∧ now = st)) :
    ∃ t, timerNext1 F P (.once (.at .none time off)) now st = some (some t) ∧ IsNext (Spec.daily (x + off)) now (some t) := by
  obtain ⟨t, h1, h2⟩ := onceCand_daily P time x off now st h hd hns
  exact ⟨t, by simp [timerNext1, specStep, hF, h1, NT.take], h2⟩

/-- **`once(now ± offset)`** denotes the single instant start-up ± offset. -/
theorem C06_once_now (F : TFlags) (P : Params) (off now st : Int) (hns : ¬ (now = st + off ∧ now = st)) :
    ∃ r, timerNext1 F P (.once (.now off)) now st = some r ∧ IsNext (Spec.single (st + off)) now r := by
  have hc := onceCand_const F.startupByValue P (.now off) now st (st + off) true (fun k => parse_now P.base off k now st)
  have hb : (now == st + off && now == st) = false := by
    cases h1 : now == st + off <;> cases h2 : now == st <;> simp_all
  refine ⟨if now < st + off then some (st + off) else none, ?_, isNext_single _ _⟩
  by_cases hlt : now < st + off
  · simp [timerNext1, specStep, hc, hb, hlt, NT.take]
  · simp [timerNext1, specStep, hc, hb, hlt]

/-- at start-up `once(now)` answers the start-up instant itself -/
theorem C06_once_now_startup (F : TFlags) (P : Params) (st : Int) : timerNext1 F P (.once (.now 0)) st st = some (some st) := by
  have hc := onceCand_const F.startupByValue P (.now 0) st st (st + 0) true (fun k => parse_now P.base 0 k st st)
  simp [timerNext1, specStep, hc, NT.take]

/-- **`once(Y/M/D time ± offset)`** denotes that single instant. -/
theorem C06_once_full (F : TFlags) (P : Params) (time : TimeSpec) (x off y m d now st : Int) (h : Spec.fixedTod time = some x)
    (hv : validDate y m d = true) (hns : ¬ (now = midnight (daysFromCivil y m d) + x + off ∧ now = st)) :
    ∃ r, timerNext1 F P (.once (.at (.full y m d) time off)) now st = some r ∧
      IsNext (Spec.single (midnight (daysFromCivil y m d) + x + off)) now r := by
  have hc := onceCand_const F.startupByValue P (.at (.full y m d) time off) now st _ true
    (fun k => parse_full P.base time x off k y m d now st h hv)
  have hb : (now == midnight (daysFromCivil y m d) + x + off && now == st) = false := by
    cases h1 : now == midnight (daysFromCivil y m d) + x + off <;> cases h2 : now == st <;> simp_all
  refine ⟨if now < midnight (daysFromCivil y m d) + x + off then some (midnight (daysFromCivil y m d) + x + off) else none,
    ?_, isNext_single _ _⟩
  by_cases hlt : now < midnight (daysFromCivil y m d) + x + off
  · simp [timerNext1, specStep, hc, hb, hlt, NT.take]
  · simp [timerNext1, specStep, hc, hb, hlt]

/-- **`once(weekday time ± offset)`, partial.**  While this week's occurrence (the first such weekday on or after today)
is still ahead, and time ± offset stays inside that day, it is the earliest weekly occurrence after now. -/
theorem C06_once_weekly_partial (F : TFlags) (P : Params) (time : TimeSpec) (x off j now st : Int) (h : Spec.fixedTod time = some x)
    (hd : dayInRange (dayOf now)) (h0 : 0 ≤ j) (h6 : j ≤ 6) (hc0 : 0 ≤ x + off) (hc1 : x + off < usDay)
    (hlt : now < midnight (dayOf now + dowOffset j (weekday (dayOf now))) + (x + off)) :
    ∃ t, timerNext1 F P (.once (.at (.dow j) time off)) now st = some (some t) ∧
      IsNext (Spec.weekly j (x + off)) now (some t) := by
  have hc := onceCand_const F.startupByValue P (.at (.dow j) time off) now st _ true
    (fun k => parse_dow P.base time x off k j now st h hd)
  have e : midnight (dayOf now + dowOffset j (weekday (dayOf now))) + x + off
      = midnight (dayOf now + dowOffset j (weekday (dayOf now))) + (x + off) := by omega
  refine ⟨_, ?_, isNext_weekly j (x + off) now h0 h6 hc0 hc1 hlt⟩
  rw [e] at hc
  simp [timerNext1, specStep, hc, hlt, NT.take]

/-- **`once(M/D time ± offset)`, partial.**  While this year's occurrence is still ahead (and time ± offset stays inside
its day) it is the earliest yearly occurrence after now. -/
theorem C06_once_yearly_partial (F : TFlags) (P : Params) (time : TimeSpec) (x off m d now st : Int) (h : Spec.fixedTod time = some x)
    (hd : dayInRange (dayOf now)) (hv : validDate (civilFromDays (dayOf now)).y m d = true)
    (hc0 : 0 ≤ x + off) (hc1 : x + off < usDay)
    (hlt : now < midnight (daysFromCivil (civilFromDays (dayOf now)).y m d) + (x + off)) :
    ∃ t, timerNext1 F P (.once (.at (.monthDay m d) time off)) now st = some (some t) ∧
      IsNext (Spec.yearly m d (x + off)) now (some t) := by
  have hc := onceCand_const F.startupByValue P (.at (.monthDay m d) time off) now st _ true
    (fun k => parse_monthDay P.base time x off k m d now st h hv)
  have e : midnight (daysFromCivil (civilFromDays (dayOf now)).y m d) + x + off
      = midnight (daysFromCivil (civilFromDays (dayOf now)).y m d) + (x + off) := by omega
  refine ⟨_, ?_, isNext_yearly m d (x + off) now hd hc0 hc1 hv hlt⟩
  rw [e] at hc
  simp [timerNext1, specStep, hc, hlt, NT.take]

/-- 2024-06-03 is a Monday; 10:00:01 local time that day -/
def wMon1000 : Int := 1717408801000000

/-- finding C06-F2 (design #16): `once(mon 10:00)` asked on a Monday just after 10:00 answers `none`, although next
Monday 10:00 is denoted. -/
theorem C06_cex_weekly_same_day_after :
    let P : Params := ⟨C07.Params.trivial, fun a p => a / p, fun _ t => t + 1, fun _ => 0⟩
    timerNext1 TFlags.current P (.once (.at (.dow 1) (.hms 10 0 0) 0)) wMon1000 0 = some none ∧
    Spec.weekly 1 (10 * usHour) (midnight (dayOf wMon1000 + 7) + 10 * usHour) ∧
    wMon1000 < midnight (dayOf wMon1000 + 7) + 10 * usHour := by
  refine ⟨by decide, ⟨dayOf wMon1000 + 7, by decide, rfl⟩, by decide⟩

/-- finding C06-F2 (design #16): `once(3/1 10:00)` asked on 1 March 2024 at 10:00:01 answers `none`, although
1 March 2025 10:00 is denoted. -/
theorem C06_cex_yearly_after :
    let P : Params := ⟨C07.Params.trivial, fun a p => a / p, fun _ t => t + 1, fun _ => 0⟩
    let now : Int := 1709287201000000
    timerNext1 TFlags.current P (.once (.at (.monthDay 3 1) (.hms 10 0 0) 0)) now 0 = some none ∧
    Spec.yearly 3 1 (10 * usHour) (midnight (daysFromCivil 2025 3 1) + 10 * usHour) ∧
    now < midnight (daysFromCivil 2025 3 1) + 10 * usHour := by
  refine ⟨by decide, ⟨2025, by decide, rfl⟩, by decide⟩

/-- fixed finding C06-F10 (b7a2f54): before the fix `once(2/29 8:00)` asked on 31 December 2023 raised (`datetime(2023, 2, 29)`
does not exist) and in a list took the other entries with it; the code as it is skips the entry – alone it announces nothing, in a
list the other entry's instant (tomorrow's noon) is announced. -/
theorem C06_regress_feb29_common_year :
    let P : Params := ⟨C07.Params.trivial, fun a p => a / p, fun _ t => t + 1, fun _ => 0⟩
    let now : Int := 1704063540000000
    timerNext1 TFlags.preFixSkip P (.once (.at (.monthDay 2 29) (.hms 8 0 0) 0)) now 0 = none ∧
    timerNext TFlags.preFixSkip P [.once (.at .none .noon 0), .once (.at (.monthDay 2 29) (.hms 8 0 0) 0)] now 0 = none ∧
    timerNext1 TFlags.current P (.once (.at (.monthDay 2 29) (.hms 8 0 0) 0)) now 0 = some none ∧
    timerNext TFlags.current P [.once (.at .none .noon 0), .once (.at (.monthDay 2 29) (.hms 8 0 0) 0)] now 0
      = some ⟨some 1704110400000000, some 1704110400000000⟩ := by
  refine ⟨by decide, by decide, by decide, by decide⟩

/-- fixed finding C06-F9 (b7a2f54): a crontab day that never exists (`cron(0 0 30 2 *)`) – croniter's iterator raises instead of
advancing (here: `cronNext id t = t`, `cronLoop` never gets a positive distance).  Before the fix the whole list raised; the code
as it is skips the entry and announces today's noon, the other entry's instant. -/
theorem C06_regress_cron_impossible_day :
    let P : Params := ⟨C07.Params.trivial, fun a p => a / p, fun _ t => t, fun _ => 0⟩
    timerNext TFlags.preFixSkip P [.cron 0, .once (.at .none .noon 0)] wMon1000 0 = none ∧
    timerNext TFlags.current P [.cron 0, .once (.at .none .noon 0)] wMon1000 0 = some ⟨some 1717416000000000, some 1717416000000000⟩ ∧
    timerNext TFlags.current P [.cron 0] wMon1000 0 = some ⟨none, none⟩ := by
  refine ⟨by decide, by decide, by decide⟩

/-- **An entry that denotes no instant contributes nothing** (since fix b7a2f54, for every list position and accumulator): a
`once(...)` whose date does not exist in the year of `now` (first `parse_date_time` raises `ValueError`) and a `cron(...)` whose
iterator raises leave the accumulated answer as it is – so by `C06_min` the list's answer is the minimum over the OTHER entries. -/
theorem C06_no_instant_skipped (P : Params) (now st : Int) (s : NT) :
    (∀ d : DTSpec, parseDT P.base d 0 now st = none → specStep TFlags.current P now st s (.once d) = some s) ∧
    (∀ id : Nat, cronLoop P id now cronFuel now = none → specStep TFlags.current P now st s (.cron id) = some s) ∧
    (∀ (a : DTSpec) (per : Int) (stop : Option DTSpec), parseDT P.base a 0 now st = none →
        specStep TFlags.current P now st s (.period a per stop) = some s) ∧
    (∀ (a b : DTSpec) (per : Int), parseDT P.base b 0 now st = none →
        specStep TFlags.current P now st s (.period a per (some b)) = some s) := by
  refine ⟨fun d h => ?_, fun id h => ?_, fun a per stop h => ?_, fun a b per h => ?_⟩
  · simp [specStep, onceCand, h, TFlags.current]
  · simp [specStep, h, TFlags.current]
  · simp [specStep, periodStep, h, TFlags.current]
  · simp only [specStep, periodStep]
    cases parseDT P.base a 0 now st with
    | none => simp [TFlags.current]
    | some x => by_cases hp : per ≤ 0 <;> simp [hp, h, TFlags.current]

/-- regression for C06-F11 (fixed; what b7a2f54 had left): the start and end of `period(...)` used to be parsed outside any `try`:
`period(2/29 8:00, 1 h)` / `period(noon, 1 h, 2/29 noon)` asked on 31 December 2023 raised and took the list with them; the code as
it is skips the entry and announces the other entry's instant (tomorrow's noon). -/
theorem C06_regress_period_feb29_common_year :
    let P : Params := ⟨C07.Params.trivial, fun a p => a / p, fun _ t => t + 1, fun _ => 0⟩
    let now : Int := 1704063540000000
    timerNext TFlags.preFixPeriod P [.once (.at .none .noon 0), .period (.at (.monthDay 2 29) (.hms 8 0 0) 0) usHour none] now 0 = none ∧
    timerNext TFlags.preFixPeriod P [.once (.at .none .noon 0), .period (.at .none .noon 0) usHour (some (.at (.monthDay 2 29) .noon 0))] now 0 = none ∧
    timerNext TFlags.current P [.once (.at .none .noon 0), .period (.at (.monthDay 2 29) (.hms 8 0 0) 0) usHour none] now 0
      = some ⟨some 1704110400000000, some 1704110400000000⟩ ∧
    timerNext TFlags.current P [.once (.at .none .noon 0), .period (.at .none .noon 0) usHour (some (.at (.monthDay 2 29) .noon 0))] now 0
      = some ⟨some 1704110400000000, some 1704110400000000⟩ := by
  refine ⟨by decide, by decide, by decide, by decide⟩

/-- regression for C06-F3 (fixed): `once(10:00)` whose trigger was started at exactly 10:00:00.000000 – asked five seconds later the
pre-fix code answered `none` (the `this_t != startup_time` test suppressed the day offset) although tomorrow 10:00 is denoted; the
code as it is answers tomorrow 10:00, and at start-up itself still the start-up instant. -/
theorem C06_regress_startup_coincidence :
    let P : Params := ⟨C07.Params.trivial, fun a p => a / p, fun _ t => t + 1, fun _ => 0⟩
    let st : Int := 1709287200000000
    timerNext1 TFlags.preFixPeriod P (.once (.at .none (.hms 10 0 0) 0)) (st + 5000000) st = some none ∧
    timerNext1 TFlags.current P (.once (.at .none (.hms 10 0 0) 0)) (st + 5000000) st = some (some (st + usDay)) ∧
    timerNext1 TFlags.current P (.once (.at .none (.hms 10 0 0) 0)) st st = some (some st) ∧
    Spec.daily (10 * usHour) (st + usDay) := by
  refine ⟨by decide, by decide, by decide, ⟨dayOf 1709287200000000 + 1, by decide⟩⟩

/-- regression for C06-F3 (fixed) through an offset that crosses midnight (pre-fix answer `none`, now today's noon): `once(midnight - 12 hour)` started on 2024-10-07 at 12:00:00.000000 –
the next morning (06:00) the first parse, today's midnight − 12 h, IS the start-up time, the day-offset re-parse is suppressed and
the answer is `none`, although today's noon is denoted and still ahead; asked at start-up the same instant was announced. -/
theorem C06_regress_startup_coincidence_offset :
    let P : Params := ⟨C07.Params.trivial, fun a p => a / p, fun _ t => t + 1, fun _ => 0⟩
    let st : Int := 1728302400000000
    timerNext1 TFlags.preFixPeriod P (.once (.at .none .midnight (-12 * usHour))) (st + 18 * usHour) st = some none ∧
    timerNext1 TFlags.current P (.once (.at .none .midnight (-12 * usHour))) (st + 18 * usHour) st = some (some (st + usDay)) ∧
    timerNext1 TFlags.current P (.once (.at .none .midnight (-12 * usHour))) st st = some (some (st + usDay)) ∧
    Spec.daily (-12 * usHour) (st + usDay) ∧ st + 18 * usHour < st + usDay := by
  refine ⟨by decide, by decide, by decide, ⟨dayOf 1728302400000000 + 2, by decide⟩, by decide⟩

/-! ## period -/

/-- **`period(start, interval)` with a start that does not move** (full date, or `now ± offset`): the answer is the
earliest `start + n·interval` strictly after now – for every interval > 0 (exact arithmetic since fix c80f3bb: no hypothesis
about the division is left). -/
theorem C06_period_noend (P : Params) (startSpec : DTSpec) (S per now st : Int) (fx : Bool)
    (hS : parseDT P.base startSpec 0 now st = some (S, fx)) (hp : 0 < per) (hns : ¬ (now = S ∧ now = st)) :
    ∃ r, timerNext1 TFlags.current P (.period startSpec per none) now st = some r ∧ IsNext (Spec.progression S per) now r := by
  refine ⟨(periodNoEnd TFlags.current P S per now st ⟨none, none⟩).next, ?_,
    periodNoEnd_next TFlags.current P (FloatOK_current P) S per now st hp hns⟩
  have hnp : ¬ per ≤ 0 := by omega
  simp [timerNext1, specStep, periodStep, hS, hnp]

/-- the hypothesis of `C06_period_noend` holds for dated and for start-up relative starts -/
example (P : Params) (time : TimeSpec) (x off y m d now st : Int) (h : Spec.fixedTod time = some x)
    (hv : validDate y m d = true) :
    parseDT P.base (.at (.full y m d) time off) 0 now st = some (midnight (daysFromCivil y m d) + x + off, true) :=
  parse_full P.base time x off 0 y m d now st h hv

/-- **`period(time, interval)` with a time-only start** that is self-consistent (start < interval, interval divides a
day): the answer is the earliest element strictly after now of the one progression `start + n·interval` over all days. -/
theorem C06_period_noend_daily (P : Params) (time : TimeSpec) (x off per k now st : Int)
    (h : Spec.fixedTod time = some x) (hd : dayInRange (dayOf now)) (hp : 0 < per) (hk : usDay = k * per)
    (hs0 : 0 ≤ x + off) (hs1 : x + off < per) (hns : ¬ (now = midnight (dayOf now) + x + off ∧ now = st)) :
    ∃ t, timerNext1 TFlags.current P (.period (.at .none time off) per none) now st = some (some t) ∧
      IsNext (Spec.dailyProgression (x + off) per) now (some t) := by
  have hS := parse_noDate P.base time x off 0 now st h hd
  simp only [Int.add_zero] at hS
  obtain ⟨r, h1, h2⟩ := C06_period_noend P _ _ per now st false hS hp hns
  have hnow : midnight (dayOf now) ≤ now := by
    have := time_split now; have := todOf_bounds now; omega
  cases r with
  | none =>
    -- there is always a tick after now
    exfalso
    obtain ⟨n, hn⟩ := tick_nat (midnight (dayOf now) + x + off) per (max now (midnight (dayOf now) + x + off)) hp (by omega)
    have := (tick_least (midnight (dayOf now) + x + off) per (max now (midnight (dayOf now) + x + off)) hp (by omega)).1
    exact h2 _ ⟨n, hn⟩ (by omega)
  | some t =>
    refine ⟨t, h1, ?_⟩
    have e : midnight (dayOf now) + x + off = midnight (dayOf now) + (x + off) := by omega
    rw [e] at h2
    exact isNext_dailyProgression (x + off) per k (dayOf now) now t hp hk hs0 hs1 hnow h2

/-- **`period(start, interval, end)` with dated start and end**: the earliest `start + n·interval` strictly after now that
is not beyond `end`, or `none`. -/
theorem C06_period_end_dated (P : Params) (startSpec stopSpec : DTSpec) (S E per now st : Int)
    (hS : ∀ k, parseDT P.base startSpec k now st = some (S, true))
    (hEn : ∀ k, parseDT P.base stopSpec k now st = some (E, true)) (hp : 0 < per) (hns : ¬ (now = S ∧ now = st)) :
    ∃ r, timerNext1 TFlags.current P (.period startSpec per (some stopSpec)) now st = some r ∧
      IsNext (Spec.progressionTo S per E) now r := by
  obtain ⟨r, h1, h2⟩ := dither_dated TFlags.current P (FloatOK_current P) startSpec stopSpec S E per now st true true hp hS hEn hns
  refine ⟨r.next, ?_, h2⟩
  have hnp : ¬ per ≤ 0 := by omega
  simp [timerNext1, specStep, periodStep, hS 0, hEn 0, hnp, periodWithEnd, h1]

/-- regression for C06-F1 (design #15, fixed by c80f3bb): `period(2024/6/3 12:00, 0.1s)` asked at 12:00:00.3.  In double
arithmetic `floor(0.3 / 0.1) = 2` (`ieee` below is what IEEE doubles give for these operands), the pre-fix candidate was
12:00:00.3 itself, not after now, the answer `none` – the trigger ended.  The code as it is answers 12:00:00.4. -/
theorem C06_regress_period_float :
    let ieee : Int → Int → Int := fun a p => if a = 300000 ∧ p = 100000 then 2 else a / p
    let P : Params := ⟨C07.Params.trivial, ieee, fun _ t => t + 1, fun _ => 0⟩
    let noon : Int := 1717416000000000
    let spec : TSpec := .period (.at (.full 2024 6 3) (.hms 12 0 0) 0) 100000 none
    timerNext1 TFlags.preFix P spec (noon + 300000) 0 = some none ∧
    timerNext1 TFlags.current P spec (noon + 300000) 0 = some (some (noon + 400000)) ∧
    Spec.progression noon 100000 (noon + 400000) := by
  refine ⟨by decide, by decide, ⟨4, by decide⟩⟩

/-! ## lists, monotonicity, cron -/

/-- **Several specifications: the minimum.**  For every list, the answer is the minimum of the answers of the single
specifications (and it raises iff one of them does). -/
theorem C06_min (F : TFlags) (P : Params) (specs : List TSpec) (now st : Int) :
    (timerNext F P specs now st).map (·.next) = (singles F P now st specs).map (fun l => l.foldl minOpt none) :=
  specsLoop_min F P now st specs ⟨none, none⟩

/-- **Never in the past.**  Whatever the list, an announced instant is strictly after now – or it is the start-up instant
announced at start-up. -/
theorem C06_strict (P : Params) (hC : CronForward P) (specs : List TSpec) (now st : Int) (r : NT) (t : Int)
    (h : timerNext TFlags.current P specs now st = some r) (ht : r.next = some t) : now < t ∨ (t = now ∧ now = st) :=
  specsLoop_future TFlags.current P (FloatOK_current P) hC now st specs ⟨none, none⟩ r (fun _ h' => by simp at h') h t ht

/-- **No instant skipped, none repeated.**  Whenever an answer is "the earliest denoted instant after now" (all theorems
above), asking again anywhere before that instant gives the same answer, and asking at or after it gives a strictly later
one – so successive trigger times strictly increase and hit every denoted instant once. -/
theorem C06_idem {D : Int → Prop} {now now' t : Int} {r' : Option Int} (h : IsNext D now (some t)) :
    (now ≤ now' → now' < t → IsNext D now' r' → r' = some t) ∧
    (t ≤ now' → IsNext D now' r' → ∀ t', r' = some t' → t < t') :=
  ⟨fun h1 h2 h3 => IsNext.unique h3 (IsNext.shift h h1 h2), fun h1 h3 => IsNext.later h3 h1⟩

/-- **The wait-and-fire loops run the function once per denoted instant.**  If from some time on the answers of
`timer_trigger_next` are "the earliest instant of D after now" (the theorems above), then whatever the wake-up latencies –
as long as the clock moves on and no further instant falls inside a latency – the `trigger_time`s of the successive runs
are instants of D, strictly increasing, with no instant of D between two neighbours: none skipped, none repeated, and the
same list for every latency sequence. -/
theorem C06_loop (F : TFlags) (P : Params) (specs : List TSpec) (st : Int) (D : Int → Prop) (lat : Nat → Int) (lo : Int)
    (hnext : ∀ now, lo ≤ now → ∃ r, timerNext F P specs now st = some r ∧ IsNext D now r.next)
    (hlat1 : ∀ i, 1 ≤ lat i) (hlat2 : ∀ i t t', D t → D t' → ¬ (t < t' ∧ t' ≤ t + lat i))
    (n : Nat) (now : Int) (hlo : lo ≤ now) : Succs D (timeLoop F P specs st lat n now) :=
  (timeLoop_succs F P specs st D lat lo hnext hlat1 hlat2 n now hlo).1

/-- **startup / shutdown entries.**  For every argument list (any number and order of `"startup"`, `"shutdown"` and time
specifications) both subsystems run the function at definition iff there is a `"startup"` entry or the decorator has no
arguments at all, at removal iff there is a `"shutdown"` entry – a decorator naming only `"shutdown"` does NOT run at
definition – and hand exactly the time specifications, in order, to the wait loop.  (The one place where the subsystems
differ is `@time_trigger()` with empty parentheses: no startup run in legacy.) -/
theorem C06_startup_shutdown (args : Option (List TArg)) (h : args ≠ some []) :
    (Legacy.normalize args).runOnStartup = wantsStartup args ∧ (New.normalize args).runOnStartup = wantsStartup args ∧
    (Legacy.normalize args).runOnShutdown = wantsShutdown args ∧ (New.normalize args).runOnShutdown = wantsShutdown args ∧
    (Legacy.normalize args).specs = specsOf (args.getD []) ∧ (New.normalize args).specs = specsOf (args.getD []) := by
  cases args with
  | none => simp [Legacy.normalize, New.normalize, wantsStartup, wantsShutdown, specsOf]
  | some l =>
    cases l with
    | nil => exact absurd rfl h
    | cons a rest =>
      have e1 := strip_fst .startup (a :: rest)
      have e2 := strip_fst .shutdown (strip .startup (a :: rest)).2
      have e3 := strip_contains_other .startup .shutdown (by decide) (a :: rest)
      have e4 := specsOf_strip .shutdown (by intro s; simp) (strip .startup (a :: rest)).2
      have e5 := specsOf_strip .startup (by intro s; simp) (a :: rest)
      simp only [Legacy.normalize, New.normalize, wantsStartup, wantsShutdown, Option.getD_some, e1, e2, e3, e4, e5, and_self]

/-- the runs of a function over its life: the startup entry first (once, iff wanted), then the loop's instants, the shutdown
entry last (once, iff wanted) -/
theorem C06_startup_shutdown_runs (F : TFlags) (P : Params) (cfg : TrigCfg) (st : Int) (lat : Nat → Int) (n : Nat) :
    (funcRuns F P cfg st lat n).count Run.startup = (if cfg.runOnStartup then 1 else 0) ∧
    (funcRuns F P cfg st lat n).count Run.shutdown = (if cfg.runOnShutdown then 1 else 0) ∧
    (cfg.runOnStartup = true → ∃ l, funcRuns F P cfg st lat n = Run.startup :: l) ∧
    (cfg.runOnShutdown = true → ∃ l, funcRuns F P cfg st lat n = l ++ [Run.shutdown]) := by
  have hat : ∀ (l : List Int) (r : Run), (∀ t, r ≠ Run.at t) → (l.map Run.at).count r = 0 := by
    intro l r hr
    apply List.count_eq_zero.mpr
    intro hmem
    obtain ⟨t, _, ht⟩ := List.mem_map.mp hmem
    exact hr t ht.symm
  have h1 := hat (timeLoop F P cfg.specs st lat n st) Run.startup (by intro t; simp)
  have h2 := hat (timeLoop F P cfg.specs st lat n st) Run.shutdown (by intro t; simp)
  simp only [funcRuns]
  refine ⟨?_, ?_, ?_, ?_⟩
  · cases cfg.runOnStartup <;> cases cfg.runOnShutdown <;> simp [List.count_append, h1]
  · cases cfg.runOnStartup <;> cases cfg.runOnShutdown <;> simp [List.count_append, h2]
  · intro h; simp only [h, if_true]; exact ⟨_, rfl⟩
  · intro h; simp only [h, if_true]; exact ⟨_, rfl⟩

/-- **cron and daylight saving.**  The cron answer is a local time strictly after now whose distance to now in UTC is
positive, and `next_time_adj - now` is exactly that real distance (so the wait is right across a DST change) – whenever the entry
announces anything (an expression whose iterator raises is skipped since b7a2f54: `C06_no_instant_skipped`). -/
theorem C06_cron_dst (F : TFlags) (P : Params) (hC : CronForward P) (id : Nat) (now st : Int) (r : NT)
    (h : specStep F P now st ⟨none, none⟩ (.cron id) = some r) (hn : r.next ≠ none) :
    ∃ val adj, r.next = some val ∧ r.adj = some adj ∧ now < val ∧ 0 < adj - now ∧
      adj - now = (val - P.utcOff val) - (now - P.utcOff now) := by
  simp only [specStep] at h
  cases hc : cronLoop P id now cronFuel now with
  | none =>
    simp only [hc] at h
    split at h
    · simp at h
    · simp only [Option.some.injEq] at h; subst h; exact absurd rfl hn
  | some v =>
    simp only [hc, Option.some.injEq] at h
    subst h
    obtain ⟨h1, h2, h3⟩ := cronLoop_spec P hC id now cronFuel now v.1 v.2 (Int.le_refl _) hc
    exact ⟨v.1, now + v.2, by simp [NT.take], by simp [NT.take], h1, by omega, by omega⟩

/-! ## the wait across a daylight-saving change (real time vs. wall clock) -/

/-- **The re-check of both loops fires when the wall clock reads the instant.**  After the first sleep both loops (legacy
`trigger_watch`; `TimeTriggerDecorator._cycle` since fix 0421163) compare the wall clock with `time_next` and sleep the
difference.  If the first sleep ended with the wall clock at or before the instant (always the case for cron, whose
`next_time_adj` is the exact real distance, and for once()/period() on a day made longer by a fall-back) and the zone offset
does not change during the remaining wait, the function runs exactly when the wall clock reads `time_next` – whatever
`time_next_adj` was.  Holds for every flag value that re-checks against `time_next`, in particular for both loops as they are. -/
theorem C06_wait_on_time (W : WFlags) (hW : W.recheckAdj = false) (hs : 0 ≤ W.slack) (Z : Zone) (next adj r1 : Int) (n : Nat)
    (hle : wallAt Z r1 ≤ next) (hstable : Z.offReal (r1 + (next - wallAt Z r1)) = Z.offReal r1) :
    next - W.slack ≤ wallAt Z (waitFire W Z next adj (n + 1) r1) ∧ wallAt Z (waitFire W Z next adj (n + 1) r1) ≤ next := by
  simp only [waitFire, hW, Bool.false_eq_true, if_false]
  by_cases hlt : wallAt Z r1 + W.slack < next
  · simp only [hlt, if_true]
    have hw : wallAt Z (r1 + (next - wallAt Z r1)) = next := by
      simp only [wallAt] at hstable ⊢
      rw [hstable]; omega
    cases n with
    | zero => simp only [waitFire, hw]; omega
    | succ k =>
      have hno : ¬ next + W.slack < next := by omega
      simp only [waitFire, hW, Bool.false_eq_true, if_false, hw, hno]
      omega
  · simp only [hlt, if_false]
    omega

/-- the two loops as they are: the legacy loop runs the function exactly when the wall clock reads the instant, the new one
at most one microsecond before (`if timeout <= 1e-6: break`) – never a millisecond early, which is what makes the next
computation see a `now` not before the instant (seeded change C06_6 widened that slack to 1 ms and got every instant twice) -/
theorem C06_wait_on_time_both (Z : Zone) (next adj r1 : Int) (n : Nat)
    (hle : wallAt Z r1 ≤ next) (hstable : Z.offReal (r1 + (next - wallAt Z r1)) = Z.offReal r1) :
    wallAt Z (waitFire WFlags.legacy Z next adj (n + 1) r1) = next ∧
    next - 1 ≤ wallAt Z (waitFire WFlags.new Z next adj (n + 1) r1) ∧ wallAt Z (waitFire WFlags.new Z next adj (n + 1) r1) ≤ next := by
  have h1 := C06_wait_on_time WFlags.legacy rfl (by decide) Z next adj r1 n hle hstable
  have h2 := C06_wait_on_time WFlags.new rfl (by decide) Z next adj r1 n hle hstable
  simp only [WFlags.legacy, WFlags.new] at h1 h2 ⊢
  omega

/-- America/Los_Angeles around 2024-11-03 09:00 UTC (fall-back): wall clock = real time − 7 h before, − 8 h after -/
def zFall : Zone := ⟨fun r => if r < 1730624400000000 then -25200000000 else -28800000000⟩
/-- … around 2024-03-10 10:00 UTC (spring-forward): − 8 h before, − 7 h after -/
def zSpring : Zone := ⟨fun r => if r < 1710064800000000 then -28800000000 else -25200000000⟩

/-- regression for C06-F5 (new subsystem, fixed by 0421163): `cron(0 6 * * *)`, last run Saturday 2024-11-02 06:00 PDT;
`time_next` = Sunday 06:00, `time_next_adj` = 07:00 (25 real hours).  After the 25 h sleep the wall clock reads 06:00.
`TimeTriggerDecorator._cycle` used to compare it with `time_next_adj`, slept another hour and ran the function when the wall
clock read 07:00; now – like the legacy loop – it compares with `time_next` and runs the function at 06:00. -/
theorem C06_regress_new_cron_fall_back :
    let next : Int := 1730613600000000
    let adj : Int := 1730617200000000
    let r1 : Int := 1730552400000000 + (adj - 1730527200000000)
    wallAt zFall (waitFire WFlags.newPreFix zFall next adj 4 r1) = next + 3600000000 ∧
    wallAt zFall (waitFire WFlags.new zFall next adj 4 r1) = next ∧
    wallAt zFall (waitFire WFlags.legacy zFall next adj 4 r1) = next := by
  decide

/-- finding C06-F6 (both subsystems): `once(06:30)`, last run Saturday 2024-03-09 06:30 PST; `time_next = time_next_adj` =
Sunday 06:30 – the sleep is the naive difference, 24 real hours, but that night has only 23: the wall clock reads 07:30 when
the function runs. -/
theorem C06_cex_once_spring_forward :
    let next : Int := 1710052200000000
    let r1 : Int := 1709994600000000 + (next - 1709965800000000)
    wallAt zSpring (waitFire WFlags.legacy zSpring next next 4 r1) = next + 3600000000 ∧
    wallAt zSpring (waitFire WFlags.new zSpring next next 4 r1) = next + 3600000000 := by
  decide

/-- regression for C06-F8 (new subsystem, fixed): `period(2024/6/3 12:00:01, 5s)` started at 12:00:00.25 on a wall clock that runs 1 ppm
slower than the clock asyncio sleeps on.  The 0.75 s sleep ends with the wall clock at 12:00:00.999999; `timeout <= 1e-6` lets
the function run, the next computation starts from a `now` that is still before 12:00:01 and announces 12:00:01 again: the same
`trigger_time` was dispatched twice (`WFlags.newPreFloor`).  The loop as it is computes from `max(dt_now(), 12:00:01)` and goes on to
12:00:06, like the legacy loop (`actual_now < time_next`: sleeps the last microsecond). -/
theorem C06_regress_new_early_by_one_us_twice :
    let P : Params := ⟨C07.Params.trivial, fun a p => a / p, fun _ t => t + 1, fun _ => 0⟩
    let st : Int := 1717416000250000
    let Z : Zone := ⟨fun x => -(((x - st) * 1 + 500000) / 1000000)⟩
    let spec : TSpec := .period (.at (.full 2024 6 3) (.hms 12 0 1000000) 0) 5000000 none
    (dstLoop WFlags.newPreFloor TFlags.current P [spec] st Z 2 st).map (fun x => (x.1, x.2.1)) =
      [(1717416001000000, 1717416000999999), (1717416001000000, 1717416001000000)] ∧
    (dstLoop WFlags.new TFlags.current P [spec] st Z 2 st).map (fun x => x.1) = [1717416001000000, 1717416006000000] ∧
    (dstLoop WFlags.legacy TFlags.current P [spec] st Z 2 st).map (fun x => (x.1, x.2.1)) =
      [(1717416001000000, 1717416001000000), (1717416006000000, 1717416006000000)] := by
  decide

/-- **The new loop never announces the instant it has just dispatched again** (since the fix of C06-F8): the next computation
starts from `max(dt_now(), time_last)`, so – whatever the wall clock reads at the wake-up, for every zone, slack and list – the next
`trigger_time` is strictly later than the last one, as soon as the wall clock has moved past the start-up time. -/
theorem C06_new_floor_no_repeat (W : WFlags) (hW : W.nowFloor = true) (P : Params) (hC : CronForward P) (specs : List TSpec)
    (st l w : Int) (hw : st < w) (r : NT) (t : Int)
    (h : timerNext TFlags.current P specs (floorNow W (some l) w) st = some r) (ht : r.next = some t) : l < t := by
  have hfl : l ≤ floorNow W (some l) w ∧ w ≤ floorNow W (some l) w := by
    simp only [floorNow, hW, Bool.true_and]
    split <;> rename_i hc <;> simp only [decide_eq_true_eq] at hc <;> omega
  rcases C06_strict P hC specs _ st r t h ht with h1 | ⟨_, h2⟩
  · omega
  · omega

/-! ## non-vacuity -/

example : dayInRange (dayOf wMon1000) := by unfold dayInRange; decide

example : CronForward ⟨C07.Params.trivial, fun a p => a / p, fun _ t => t + 1, fun _ => 0⟩ := fun _ t => by
  show t < t + 1
  omega

/-- a list of three specifications evaluated on a Tuesday 09:00: daily 10:00, a period and a weekly entry -/
example :
    let P : Params := ⟨C07.Params.trivial, fun a p => a / p, fun _ t => t + 1, fun _ => 0⟩
    let now : Int := 1717491600000000
    (timerNext TFlags.current P [.once (.at .none (.hms 10 0 0) 0), .period (.at .none (.hms 0 0 0) 0) (6 * usHour) none,
        .once (.at (.dow 1) .noon 0)] now 0).map (·.next) = some (some (now + usHour)) := by
  decide

end PsModel.C06
