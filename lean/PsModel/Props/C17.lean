import PsModel.Lemmas.C17
/-!
# C17 – property theorems (import and builtin restrictions)

Only property statements live here; helper lemmas are in `Lemmas/C17.lean`.  Everything is stated over the
generated tables `Gen.ALLOWED_IMPORTS`, `Gen.BUILTIN_EXCLUDE`, `Gen.BUILTIN_AST_FUNCS`, for every environment
(files below the pyscript folder, host modules, context kind), every name, every alias list.
-/
namespace PsModel.C17
open PsModel

/-- **`import` follows the reference exactly** (deny and allow in one statement): a single `import name [as x]`
does what `specImport1` says, where "allowed" is `Importable` – pyscript module visible, or the whole dotted name on
the allow-list, or `allow_all_imports`. -/
theorem C17_import_spec (env : Env) (a : Alias) (σ : Bindings) (allowed : Bool)
    (h : allowed = true ↔ Importable env a.name) :
    execImport env [a] σ = specImport1 env allowed a σ := by
  have hr := resolve_spec env a.name
  unfold Importable at h
  cases allowed with
  | true =>
    have hc := h.1 rfl
    simp only [hc, if_true] at hr
    cases ht : target env a.name with
    | none => simp [execImport, specImport1, hr, ht]
    | some m => simp [execImport, specImport1, hr, ht]
  | false =>
    have hc : ¬ ((pysLookup env a.name).isSome = true ∨ a.name ∈ Gen.ALLOWED_IMPORTS ∨ env.allowAll = true) :=
      fun x => by have := h.2 x; cases this
    simp only [hc, if_false] at hr
    simp [execImport, specImport1, hr]

/-- **Deny, every statement form.**  Without `allow_all_imports`, for a name that is not on the allow-list and not a
visible pyscript module: `import name`, `import name as x`, `import …, name, …` at any position, and every
non-relative `from name import …` (any names, `*`, `as`) raise the "not allowed" ModuleNotFoundError; the symbol
table keeps exactly what it had (plus what earlier names of the same `import` list had bound), and the host's import
system is never asked (the result does not depend on `env.host`). -/
theorem C17_deny (env : Env) (name : String) (hflag : env.allowAll = false) (hlist : name ∉ Gen.ALLOWED_IMPORTS)
    (hpys : pysLookup env name = none) (asn : Option String) (σ : Bindings) :
    (∀ rest, execImport env (⟨name, asn⟩ :: rest) σ = { binds := σ, err := some .notAllowed }) ∧
    (∀ pre rest, (execImport env pre σ).err = none →
        execImport env (pre ++ ⟨name, asn⟩ :: rest) σ =
          { binds := (execImport env pre σ).binds, err := some .notAllowed }) ∧
    (isStubs name = false → ∀ names, execImportFrom env (some name) 0 names σ = { binds := σ, err := some .notAllowed }) := by
  have hres : resolve env name = .error .notAllowed := by
    rw [resolve_spec]
    have : ¬ ((pysLookup env name).isSome = true ∨ name ∈ Gen.ALLOWED_IMPORTS ∨ env.allowAll = true) := by
      rw [hpys, hflag]; simp [hlist]
    simp only [this, if_false]
  have h1 : ∀ rest τ, execImport env (⟨name, asn⟩ :: rest) τ = { binds := τ, err := some .notAllowed } := by
    intro rest τ; simp [execImport, hres]
  refine ⟨fun rest => h1 rest σ, ?_, ?_⟩
  · intro pre rest hpre
    rw [execImport_append, if_pos hpre, h1]
  · intro hs names
    simp [execImportFrom, findFrom, hs, hres]

/-- **Allow.**  A visible pyscript module wins whatever the flag, the allow-list or the host say (the lookup
precedes the check); otherwise an allow-listed name, or any name under `allow_all_imports`, binds the host's module
under the dotted name or the `as` name; `from … import` then binds exactly the requested attributes. -/
theorem C17_allow (env : Env) (name : String) (m : ModInfo) (asn : Option String) (σ : Bindings)
    (h : pysLookup env name = some m ∨
         (pysLookup env name = none ∧ (name ∈ Gen.ALLOWED_IMPORTS ∨ env.allowAll = true) ∧ env.host name = some m)) :
    execImport env [⟨name, asn⟩] σ = { binds := σ ++ [(asn.getD name, .mod m.id)], err := none } ∧
    (isStubs name = false → ∀ names, execImportFrom env (some name) 0 names σ = bindFrom m names σ) := by
  have hres : resolve env name = .ok m := by
    rw [resolve_spec]
    rcases h with h | ⟨h1, h2, h3⟩
    · simp [h, target]
    · rcases h2 with h2 | h2 <;> simp [target, h1, h3, h2]
  constructor
  · simp [execImport, hres, Alias.key]
  · intro hs names
    simp [execImportFrom, findFrom, hs, hres]

/-- what a permitted from-import binds: only attributes of that module, a `*` never a name starting with `_`, and
older bindings are kept -/
theorem C17_from_binds (m : ModInfo) (names : List Alias) (σ : Bindings) :
    ∃ τ, (bindFrom m names σ).binds = σ ++ τ ∧
      ∀ kv ∈ τ, ∃ a ∈ names, ∃ n ∈ m.attrs, kv.2 = .attr m.id n ∧
        ((a.name = "*" ∧ kv.1 = n ∧ n.front ≠ '_') ∨ (a.name ≠ "*" ∧ a.name = n ∧ kv.1 = a.key)) :=
  bindFrom_adds m names σ

/-- **No prefix / suffix / parent matching.**  The allow test is membership of the WHOLE dotted name: any extension
of an allow-listed name (`json.evil`, `re2`), and any proper part of one (`homeassistant` for `homeassistant.const`),
is refused unless it is itself on the list. -/
theorem C17_no_prefix (env : Env) (hflag : env.allowAll = false) (a s : String) (σ : Bindings) (asn : Option String) :
    (a ∈ Gen.ALLOWED_IMPORTS → (a ++ s) ∉ Gen.ALLOWED_IMPORTS → pysLookup env (a ++ s) = none →
      execImport env [⟨a ++ s, asn⟩] σ = { binds := σ, err := some .notAllowed }) ∧
    ((a ++ s) ∈ Gen.ALLOWED_IMPORTS → a ∉ Gen.ALLOWED_IMPORTS → pysLookup env a = none →
      execImport env [⟨a, asn⟩] σ = { binds := σ, err := some .notAllowed }) ∧
    (pysLookup env a = none → ((execImport env [⟨a, asn⟩] σ).err = some .notAllowed ↔ a ∉ Gen.ALLOWED_IMPORTS)) := by
  refine ⟨?_, ?_, ?_⟩
  · intro _ h2 h3; exact (C17_deny env (a ++ s) hflag h2 h3 asn σ).1 []
  · intro _ h2 h3; exact (C17_deny env a hflag h2 h3 asn σ).1 []
  · intro h3
    constructor
    · intro herr hmem
      have hr := resolve_spec env a
      have : (pysLookup env a).isSome = true ∨ a ∈ Gen.ALLOWED_IMPORTS ∨ env.allowAll = true := Or.inr (Or.inl hmem)
      simp only [this, if_true] at hr
      cases ht : target env a with
      | none => simp [execImport, hr, ht] at herr
      | some m => simp [execImport, hr, ht] at herr
    · intro h2; rw [(C17_deny env a hflag h2 h3 asn σ).1 []]

/-- **`from stubs… import` is ignored** – in every environment, relative or not: nothing is bound, nothing is looked
up; only the `as` form is rejected. -/
theorem C17_stubs_ignored (env : Env) (mname : String) (hs : isStubs mname = true) (level : Nat) (names : List Alias)
    (σ : Bindings) :
    execImportFrom env (some mname) level names σ =
      if names.any (fun a => a.asname.isSome) then { binds := σ, err := some .stubsAs } else { binds := σ, err := none } := by
  simp [execImportFrom, hs]

/-- **Relative imports stay inside the package, or obey the allow test.**  For `from .…m import …` with one or more
leading dots exactly one of four things happens: the module is a file below the importing package and its names are
bound; the context has no parent package (ImportError); the dots climb out of the package (ImportError); or no such
file exists and the BARE name `m` is treated like an absolute import – allow test first, then the host. -/
theorem C17_relative (env : Env) (mname : String) (level : Nat) (hl : level ≠ 0) (hs : isStubs mname = false)
    (names : List Alias) (σ : Bindings) :
    execImportFrom env (some mname) level names σ =
      match relLookup env level mname with
      | .found m => bindFrom m names σ
      | .noParent => { binds := σ, err := some .relNoParent }
      | .above => { binds := σ, err := some .relAbove }
      | .missing =>
        match hostImport env mname with
        | .ok m => bindFrom m names σ
        | .error e => { binds := σ, err := some e } := by
  simp only [execImportFrom, hs, Bool.false_eq_true, if_false, findFrom, hl]
  cases relLookup env level mname <;> simp only []
  cases hostImport env mname <;> rfl

/-- hence a relative from-import of a name that is neither allow-listed nor found below the package binds nothing
and fails, whatever the host has – in particular the host is never asked -/
theorem C17_relative_deny (env : Env) (mname : String) (level : Nat) (hl : level ≠ 0) (hs : isStubs mname = false)
    (hflag : env.allowAll = false) (hlist : mname ∉ Gen.ALLOWED_IMPORTS)
    (hnf : ∀ m, relLookup env level mname ≠ .found m) (names : List Alias) (σ : Bindings) :
    (execImportFrom env (some mname) level names σ).binds = σ ∧
    ((execImportFrom env (some mname) level names σ).err = some .relNoParent ∨
     (execImportFrom env (some mname) level names σ).err = some .relAbove ∨
     (execImportFrom env (some mname) level names σ).err = some .notAllowed) := by
  rw [C17_relative env mname level hl hs]
  cases h : relLookup env level mname with
  | found m => exact absurd h (hnf m)
  | noParent => simp
  | above => simp
  | missing =>
    have : hostImport env mname = .error .notAllowed := by
      simp [hostImport, hflag, allowListed_false mname hlist]
    simp [this]

/-- a module found by a relative import is one of the files below the pyscript folder -/
theorem C17_relative_found_is_file (env : Env) (level : Nat) (name : String) (m : ModInfo)
    (h : relLookup env level name = .found m) : ∃ p, lookupFile env.files p = some m := by
  unfold relLookup at h
  split at h
  · cases h
  · split at h
    · cases h
    · split at h
      · next hf => cases h; exact firstFile_some _ _ _ hf
      · cases h

/-- **Same verdicts through `exec`**, at any nesting depth, and inside a function, a class body, a `try` or
`eval("exec(…)")`: the statement inside behaves as if written directly. -/
theorem C17_eval_exec (env : Env) (p : Prog) (σ : Bindings) : run env p σ = execStmt env p.inner σ := by
  induction p with
  | stmt s => rfl
  | exec p ih => simpa [run, Prog.inner] using ih
  | within w p ih => simpa [run, Prog.inner] using ih

/-- **The option is read when the statement executes, not when the context was made.**  In a sequence of statements run
by one long-lived evaluator with the option changed in between (any values, any number of changes), every step does
exactly what a fresh run under the option value OF THAT MOMENT does on the symbol table the earlier steps left. -/
theorem C17_option_is_live (env : Env) (pre rest : List (Bool × Prog)) (a : Bool) (p : Prog) (σ : Bindings) :
    runSeq env (pre ++ (a, p) :: rest) σ =
      runSeq env pre σ ++ run { env with allowAll := a } p (seqBinds env pre σ) ::
        runSeq env rest (run { env with allowAll := a } p (seqBinds env pre σ)).binds := by
  induction pre generalizing σ with
  | nil => rfl
  | cons x xs ih =>
    obtain ⟨b, q⟩ := x
    simp only [List.cons_append, runSeq, seqBinds, ih]

/-- hence a refused name is refused in every import form as soon as the option is off – whatever the option was when
the context was created or during earlier statements (in particular after `true → false`), binding nothing new; and
with the option on the same statement imports (`false → true`). -/
theorem C17_deny_after_option_change (env : Env) (pre : List (Bool × Prog)) (name : String)
    (hlist : name ∉ Gen.ALLOWED_IMPORTS) (hpys : pysLookup env name = none) (asn : Option String) (σ : Bindings) :
    (runSeq env (pre ++ [(false, .stmt (.imp [⟨name, asn⟩]))]) σ).getLast? =
      some { binds := seqBinds env pre σ, err := some .notAllowed } ∧
    (isStubs name = false → ∀ names,
      (runSeq env (pre ++ [(false, .stmt (.impFrom (some name) 0 names))]) σ).getLast? =
        some { binds := seqBinds env pre σ, err := some .notAllowed }) ∧
    (∀ m, env.host name = some m →
      (runSeq env (pre ++ [(true, .stmt (.imp [⟨name, asn⟩]))]) σ).getLast? =
        some { binds := seqBinds env pre σ ++ [(asn.getD name, .mod m.id)], err := none }) := by
  have hd := C17_deny { env with allowAll := false } name rfl hlist hpys asn (seqBinds env pre σ)
  refine ⟨?_, ?_, ?_⟩
  · rw [C17_option_is_live]
    simp only [runSeq, List.getLast?_append, List.getLast?_singleton, Option.some_or, run, execStmt]
    rw [hd.1 []]
  · intro hs names
    rw [C17_option_is_live]
    simp only [runSeq, List.getLast?_append, List.getLast?_singleton, Option.some_or, run, execStmt]
    rw [hd.2.2 hs names]
  · intro m hm
    rw [C17_option_is_live]
    simp only [runSeq, List.getLast?_append, List.getLast?_singleton, Option.some_or, run, execStmt]
    rw [(C17_allow { env with allowAll := true } name m asn (seqBinds env pre σ)
      (Or.inr ⟨hpys, Or.inr rfl, hm⟩)).1]

/-- non-vacuity: `import os` is permitted while the option is on, refused by the SAME evaluator after it was switched
off (the earlier binding stays), and `from os import *` binds nothing then -/
example :
    let host : String → Option ModInfo := fun n => some { id := "host:" ++ n, attrs := ["getcwd", "_x"] }
    let env : Env := { allowAll := true, relPath := none, ctxName := "file.t", files := [], host := host }
    runSeq env [(true, .stmt (.imp [⟨"os", none⟩])), (false, .stmt (.imp [⟨"os", some "o"⟩])),
                (false, .exec (.stmt (.impFrom (some "os") 0 [⟨"*", none⟩])))] [] =
      [{ binds := [("os", .mod "host:os")], err := none }, { binds := [("os", .mod "host:os")], err := some .notAllowed },
       { binds := [("os", .mod "host:os")], err := some .notAllowed }] := by decide

/-- **Excluded builtins are never the host's.**  For every name in `BUILTIN_EXCLUDE`, and every name starting with
`_` (`__import__`, `__builtins__`, …), plain-name lookup never yields the host builtin, whatever else is defined. -/
theorem C17_builtins (ne : NameEnv) (x : String) (h : x ∈ Gen.BUILTIN_EXCLUDE ∨ x.front = '_') :
    lookupName ne x ≠ .host := by
  unfold lookupName
  have hc : (ne.hostBuiltin x && !Gen.BUILTIN_EXCLUDE.contains x && x.front != '_') = false := by
    rcases h with h | h
    · have : Gen.BUILTIN_EXCLUDE.contains x = true := by simpa using h
      rw [this]; simp only [Bool.not_true, Bool.and_false, Bool.false_and]
    · have : (x.front != '_') = false := by rw [h]; decide
      rw [this]; simp only [Bool.and_false]
  simp only [hc, Bool.false_eq_true, if_false]
  split
  · simp
  · split
    · simp
    · split <;> simp

/-- the builtins the property names are in the extracted exclude set (checked against the code's table on every run) -/
theorem C17_named_excluded : ∀ x ∈ namedExcluded, x ∈ Gen.BUILTIN_EXCLUDE := by decide

/-- **`print` is the pyscript function** (the script logger's `debug`) whenever the script has not rebound it; and
pyscript's own `eval`/`exec`/`globals`/`locals` shadow the host's. -/
theorem C17_print_and_own (ne : NameEnv) :
    (ne.user "print" = false → ne.func "print" = true → lookupName ne "print" = .pyscriptFunc) ∧
    (∀ x ∈ Gen.BUILTIN_AST_FUNCS, ne.user x = false → lookupName ne x = .astFactory) := by
  constructor
  · intro h1 h2
    have e1 : "print" ∉ Gen.BUILTIN_AST_FUNCS := by decide
    have e2 : "print" ∈ Gen.BUILTIN_EXCLUDE := by decide
    simp [lookupName, h1, h2, e1, e2]
  · intro x hx hu
    simp [lookupName, hu, hx]

/-! ## non-vacuity -/

example : Gen.ALLOWED_IMPORTS ≠ [] := by decide
example : "__no_such_module__" ∉ Gen.ALLOWED_IMPORTS := by decide

/-- a refusal, a pyscript module shadowing a refused host module, and an allow-listed import, on concrete input -/
example :
    let host : String → Option ModInfo := fun n => some { id := "host:" ++ n, attrs := ["pi", "_x"] }
    let env0 : Env := { allowAll := false, relPath := none, ctxName := "file.t", files := [], host := host }
    let env1 : Env := { env0 with files := [("modules/os.py", { id := "pys:os", attrs := ["x"] })] }
    execImport env0 [⟨"os", none⟩] [] = { binds := [], err := some .notAllowed } ∧
    execImport env1 [⟨"os", some "o"⟩] [] = { binds := [("o", .mod "pys:os")], err := none } ∧
    execImportFrom env0 (some "math") 0 [⟨"*", none⟩] [] = { binds := [("pi", .attr "host:math" "pi")], err := none } := by
  decide

/-- a name that the enclosing function declares `global` is looked up in the global symbol table only: it can never be
a host builtin, whatever the name -/
theorem C17_builtins_global_declared (ne : NameEnv) (x : String) :
    lookupGlobalDeclared ne x ≠ .host := by
  unfold lookupGlobalDeclared; split <;> simp

end PsModel.C17
