import PsModel.Lemmas.C16
/-!
# C16 – property theorems: state variables read and write Home Assistant state faithfully

`Model/C16.lean` mirrors `state.py` and the dotted-name routing of `eval.py`; `Spec/C16.lean` is the dictionary
the property statement describes (functions `Ent → Option (value, attrs)`).  The theorems say that every entry
point commutes with the abstraction `absStore` for **all** stores, arguments and operation sequences – on the
fragment `Conf`; the four `_cex` theorems exhibit what happens outside it (recorded findings C16-F1…F4).
-/
namespace PsModel.C16
open PsModel.Gen

/-- the fields `StateVal.__new__` writes and the code's table `STATE_VIRTUAL_ATTRS` are both exactly the four virtual
fields the property names (`VIRTUAL` is written out in the spec, the other two are extracted from the code) -/
theorem C16_virtual_tables (a : String) :
    (a ∈ STATEVAL_NEW_FIELDS ↔ a ∈ VIRTUAL) ∧ (a ∈ STATE_VIRTUAL_ATTRS ↔ a ∈ VIRTUAL) :=
  ⟨virtual_tables a, virtual_attrs_table a⟩

/-- **Reading `DOMAIN.name` / `state.get`**: `NameError` for a missing entity; otherwise a snapshot whose string is the
current value and which shows every attribute plus the virtual fields (virtual names win). -/
theorem C16_read (env : Env) (st : Store) (d n : String) :
    (aget (d, n) st = none → stateGet env st [d, n] = .exc "NameError") ∧
    (∀ r, aget (d, n) st = some r →
      ∃ s, stateGet env st [d, n] = .sv s ∧ s.value = r.value ∧
        ∀ a, aget a s.dict = if a ∈ VIRTUAL then some (virtVal (d, n) a) else aget a r.attrs) := by
  refine ⟨fun h => by simp [stateGet, h], fun r h => ⟨mkSnap (d, n) r, by simp [stateGet, h], rfl, ?_⟩⟩
  intro a
  have := mkSnap_view (d, n) r a
  simpa [viewOf, absRec, absAttrs, ofList] using this

/-- **Errors of attribute reads**: missing entity ⇒ `NameError`; an attribute that is neither stored, virtual, a helper
method nor an entity service ⇒ `AttributeError`; stored attributes and virtual fields are returned. -/
theorem C16_get_errors (env : Env) (st : Store) (d n a : String) :
    (aget (d, n) st = none → stateGet env st [d, n, a] = .exc "NameError") ∧
    (∀ r, aget (d, n) st = some r → env.svcMethod d a = false →
      (a ∈ VIRTUAL → stateGet env st [d, n, a] = .attr (virtVal (d, n) a)) ∧
      (a ∉ VIRTUAL → ∀ v, aget a r.attrs = some v → stateGet env st [d, n, a] = .attr v) ∧
      (a ∉ VIRTUAL → aget a r.attrs = none → STATE_CALLABLE_ATTRS.contains a = false →
        stateGet env st [d, n, a] = .exc "AttributeError")) := by
  refine ⟨fun h => by simp [stateGet, h], fun r h hs => ?_⟩
  have hv := mkSnap_view (d, n) r a
  simp only [viewOf, absRec, absAttrs, ofList] at hv
  refine ⟨fun hm => ?_, fun hm v hv' => ?_, fun hm hn hc => ?_⟩
  · simp [stateGet, h, hs, snapGetattr, hv, hm]
  · simp [stateGet, h, hs, snapGetattr, hv, hm, hv']
  · simp only [stateGet, h, hs, snapGetattr, hv, hm, hn, if_false, Bool.false_eq_true]
    simp only [hc, Bool.false_eq_true, if_false]

/-- **Assigning `DOMAIN.name = v`** (v an ordinary non-`None` value, the head not shadowed by a Python variable):
the value becomes `str(v)`, the attributes are kept, nothing else changes. -/
theorem C16_assign_keeps_attrs (env : Env) (hs : SimpleEnv env) (hok : EnvOK env) (st : Store) (d n : String) (v : Val)
    (hh : pyVarSrc env d = none) :
    absStore (storeDotted env st [d, n] (.plain v)).1
      = fupd (absStore st) (d, n) (some ⟨v.str, attrsOf (absStore st) (d, n)⟩) ∧
    (storeDotted env st [d, n] (.plain v)).2 = .unit := by
  simp only [storeDotted, head_defined env hs hok, hh, Option.isSome_none, Bool.false_eq_true, if_false,
    List.length_cons, List.length_nil, ASSIGN_DOTS_SET, stateSet, ↓reduceIte, and_true]
  rw [setCore_abs]
  simp [setRule, argStr?, svAttrs, merge]

/-- **Assigning `DOMAIN.name.attr = v` / `state.setattr`** (attr not a parameter name of `State.set`): `NameError`
and no change when the entity is missing; otherwise exactly that attribute changes – value, other attributes and
other entities are untouched. -/
theorem C16_attr_assign_only_that (env : Env) (st : Store) (d n a : String) (v : Val) (hr : reserved a = false) :
    (aget (d, n) st = none → stateSetattr env st [d, n, a] v = (st, .exc "NameError")) ∧
    (∀ r, aget (d, n) st = some r →
      (stateSetattr env st [d, n, a] v).2 = .unit ∧
      ∀ e, aget e (stateSetattr env st [d, n, a] v).1 =
        if e = (d, n) then some ⟨r.value, aset a v r.attrs⟩ else aget e st) := by
  have hr' : STATE_SET_PARAMS.contains a = false := hr
  refine ⟨fun h => by simp [stateSetattr, stateExist, h], fun r h => ?_⟩
  simp only [stateSetattr, stateExist, h, Option.isSome_some, Bool.not_true, Bool.false_eq_true, if_false, hr',
    Bool.not_false, if_true, true_and]
  intro e
  simp [setCore, aget_aset, argStr?, svAttrs, fetchOld, h, keepValue, keepAttrs, mergeKw, dupdate]

/-- **`state.set(name, v, new_attributes=d)`** replaces all attributes (then merges the keywords). -/
theorem C16_set_new_attrs_replace (st : Store) (d n : String) (v : Val) (na kw : Attrs) :
    absStore (stateSet st [d, n] (.plain v) (some na) kw).1
      = fupd (absStore st) (d, n) (some ⟨v.str, merge kw (ofList na)⟩) := by
  simp only [stateSet]
  rw [setCore_abs]
  simp [setRule, argStr?, svAttrs, absAttrs]

/-- **Keyword attributes are merged**: with `new_attributes` omitted the old attributes stay and each keyword is set. -/
theorem C16_set_kwargs_merge (st : Store) (d n : String) (v : Val) (kw : Attrs) :
    absStore (stateSet st [d, n] (.plain v) none kw).1
      = fupd (absStore st) (d, n) (some ⟨v.str, merge kw (attrsOf (absStore st) (d, n))⟩) := by
  simp only [stateSet]
  rw [setCore_abs]
  simp [setRule, argStr?, svAttrs]

/-- **An omitted value is kept** (for an existing entity), whatever is done to the attributes. -/
theorem C16_set_value_omitted_kept (st : Store) (d n : String) (r : Rec) (na : Option Attrs) (kw : Attrs)
    (h : aget (d, n) st = some r) :
    (aget (d, n) (stateSet st [d, n] .none na kw).1).map (·.value) = some r.value := by
  simp only [stateSet, setCore, aget_aset_same, argStr?, svAttrs, Option.map_some]
  cases na <;> simp [fetchOld, h, keepValue]

/-- what `State.set` does with a `StateVal` argument and no `new_attributes` (the mechanism behind finding F2):
the target gets the snapshot's string **and the snapshot's attributes** (virtual fields removed). -/
theorem C16_set_stateval (st : Store) (e : Ent) (s : Snap) (kw : Attrs) :
    absStore (setCore st e (.sv s) none kw)
      = fupd (absStore st) e (some ⟨s.value, merge kw (attrsOfView (absAttrs s.dict))⟩) := by
  rw [setCore_abs]
  simp [setRule, argStr?, svAttrs, abs_snapAttrs]

/-- **One step refines the dictionary rules** (`Conf` operations; all stores, all captured snapshots). -/
theorem C16_step_refines (env : Env) (hs : SimpleEnv env) (hok : EnvOK env) (ms : MState) (op : Op)
    (hc : Conf env op = true) :
    absState (step env ms op).1 = (Spec.step env (absState ms) op).1 ∧
      absOut (step env ms op).2 = (Spec.step env (absState ms) op).2 :=
  step_refines env hs hok ms op hc

/-- **Refinement over all operation sequences** (read / assign / attribute-assign / `state.set` in every argument
combination / delete / exist / getattr / names, interleaved with external `async_set`/`async_remove`):
after every step the store denotes the spec's dictionary and the script saw the spec's value or exception class.
Partial: operations outside `Conf` are the recorded findings (`_cex` theorems below). -/
theorem C16_refinement_partial (env : Env) (hs : SimpleEnv env) (hok : EnvOK env) (ops : List Op)
    (hc : ∀ op ∈ ops, Conf env op = true) (ms : MState) :
    absState (run env ms ops).1 = (Spec.run env (absState ms) ops).1 ∧
      (run env ms ops).2.map absOut = (Spec.run env (absState ms) ops).2 := by
  induction ops generalizing ms with
  | nil => simp [run, Spec.run]
  | cons op ops ih =>
    obtain ⟨h1, h2⟩ := step_refines env hs hok ms op (hc op (by simp))
    obtain ⟨i1, i2⟩ := ih (fun o ho => hc o (by simp [ho])) (step env ms op).1
    simp only [run, Spec.run, List.map_cons]
    rw [← h1, ← h2]
    exact ⟨i1, by rw [i2]⟩

/-- **delete / exist / names / getattr / get agree with the state machine after every operation sequence**: whatever
conforming history produced the store, each observer returns what the dictionary spec returns on the spec's store. -/
theorem C16_observers_agree (env : Env) (hs : SimpleEnv env) (hok : EnvOK env) (ops : List Op)
    (hc : ∀ op ∈ ops, Conf env op = true) (ms : MState) (parts : List String) (dom : Option String) :
    let m := (run env ms ops).1
    let s := (Spec.run env (absState ms) ops).1
    stateExist env m.store parts = Spec.exist env s.store parts ∧
    absOut (stateGetattr m.store parts) = Spec.getattr s.store parts ∧
    absOut (.names (stateNames m.store dom)) = .names (Spec.names s.store dom) ∧
    absOut (stateGet env m.store parts) = Spec.get env s.store parts ∧
    (absStore (stateDelete m.store parts).1, absOut (stateDelete m.store parts).2) = Spec.delete s.store parts := by
  intro m s
  have h : absState m = s := (C16_refinement_partial env hs hok ops hc ms).1
  have hst : s.store = absStore m.store := by rw [← h]; rfl
  rw [hst]
  exact ⟨stateExist_abs env _ _, stateGetattr_abs _ _, stateNames_abs _ _, stateGet_abs env _ _, stateDelete_abs _ _⟩

/-- `state.names` never lists an entity twice: entity ids stay distinct along every operation sequence. -/
theorem C16_names_nodup (env : Env) (ops : List Op) (ms : MState) (h : (ms.store.map (·.1)).Nodup)
    (dom : Option String) : (stateNames (run env ms ops).1.store dom).Nodup := by
  have step_nodup : ∀ (ms : MState) (op : Op), (ms.store.map (·.1)).Nodup →
      ((step env ms op).1.store.map (·.1)).Nodup := by
    intro ms op h
    have hset : ∀ parts a na kw, ((stateSet ms.store parts a na kw).1.map (·.1)).Nodup := by
      intro parts a na kw
      rcases parts with _ | ⟨d, _ | ⟨n, _ | ⟨x, r⟩⟩⟩ <;> simp only [stateSet] <;> try exact h
      exact keys_nodup_aset _ _ _ h
    have hsa : ∀ parts v, ((stateSetattr env ms.store parts v).1.map (·.1)).Nodup := by
      intro parts v
      rcases parts with _ | ⟨d, _ | ⟨n, _ | ⟨x, _ | ⟨y, r⟩⟩⟩⟩ <;> simp only [stateSetattr] <;> try exact h
      split
      · exact h
      · split
        · exact keys_nodup_aset _ _ _ h
        · split
          · exact keys_nodup_aset _ _ _ h
          · split <;> exact h
    have hdel : ∀ parts, ((stateDelete ms.store parts).1.map (·.1)).Nodup := by
      intro parts
      rcases parts with _ | ⟨d, _ | ⟨n, _ | ⟨x, _ | ⟨y, r⟩⟩⟩⟩ <;> simp only [stateDelete] <;> try exact h
      · split
        · exact h
        · exact keys_nodup_adel _ _ h
      · split
        · exact h
        · split
          · exact h
          · exact keys_nodup_aset _ _ _ h
    cases op with
    | load parts => simp only [step]; cases loadDotted env ms.store parts <;> exact h
    | get parts => simp only [step]; cases stateGet env ms.store parts <;> exact h
    | store parts v =>
      simp only [step]
      cases resolveArg ms.snaps v with
      | none => exact h
      | some a =>
        simp only [withStore]
        rcases parts with _ | ⟨d, _ | ⟨n, r⟩⟩ <;> simp only [storeDotted] <;> try exact h
        split
        · exact h
        · split
          · exact hset _ _ _ _
          · split
            · cases a
              · exact hsa _ _
              · exact hsa _ _
              · exact h
            · exact h
    | delStmt parts =>
      simp only [step, withStore]
      rcases parts with _ | ⟨d, _ | ⟨n, r⟩⟩ <;> simp only [delDotted] <;> try exact h
      split
      · exact h
      · exact hdel _
    | set parts v na kw =>
      simp only [step]
      cases resolveArg ms.snaps v with
      | none => exact h
      | some a => exact hset _ _ _ _
    | setattr parts v => exact hsa _ _
    | delete parts => exact hdel _
    | exist parts => exact h
    | getattr parts => exact h
    | getattrSnap i => simp only [step]; cases ms.snaps[i]? <;> exact h
    | names dom => exact h
    | peek i => simp only [step]; cases ms.snaps[i]? <;> exact h
    | extSet e value attrs => exact keys_nodup_aset _ _ _ h
    | extRemove e => exact keys_nodup_adel _ _ h
  have run_nodup : ∀ (ops : List Op) (ms : MState), (ms.store.map (·.1)).Nodup →
      ((run env ms ops).1.store.map (·.1)).Nodup := by
    intro ops
    induction ops with
    | nil => intro ms h; exact h
    | cons op ops ih => intro ms h; simp only [run]; exact ih _ (step_nodup ms op h)
  exact List.Nodup.sublist List.filter_sublist (run_nodup ops ms h)

/-- **A captured snapshot never changes afterwards**: whatever operations follow (by the script or from outside),
looking at snapshot `i` again shows exactly what was captured. -/
theorem C16_snapshot_immutable (env : Env) (ops : List Op) (ms : MState) (i : Nat) (s : Snap)
    (h : ms.snaps[i]? = some s) :
    (run env ms ops).1.snaps[i]? = some s ∧ (step env (run env ms ops).1 (.peek i)).2 = .sv s := by
  have step_keeps : ∀ (ms : MState) (op : Op), ms.snaps[i]? = some s → (step env ms op).1.snaps[i]? = some s := by
    intro ms op h
    have hcap : ∀ o, (capture ms o).snaps[i]? = some s := by
      intro o
      cases o <;> simp only [capture] <;> try exact h
      rw [List.getElem?_append_left]
      · exact h
      · exact (List.getElem?_eq_some_iff.mp h).1
    cases op with
    | load parts => exact hcap _
    | get parts => exact hcap _
    | store parts v => simp only [step]; cases resolveArg ms.snaps v <;> exact h
    | set parts v na kw => simp only [step]; cases resolveArg ms.snaps v <;> exact h
    | getattrSnap j => simp only [step]; cases ms.snaps[j]? <;> exact h
    | peek j => simp only [step]; cases ms.snaps[j]? <;> exact h
    | _ => exact h
  have run_keeps : ∀ (ops : List Op) (ms : MState), ms.snaps[i]? = some s → (run env ms ops).1.snaps[i]? = some s := by
    intro ops
    induction ops with
    | nil => intro ms h; exact h
    | cons op ops ih => intro ms h; simp only [run]; exact ih _ (step_keeps ms op h)
  have := run_keeps ops ms h
  exact ⟨this, by simp [step, this]⟩

/-- **Resolution priority**: a Python variable named like the head (local > per-context function > global > builtin >
the order of `Gen.NAME_LOOKUP_ORDER`) wins over services and states, both for reading and for
assigning; an existing function/service name `d.n` wins over the state variable `d.n`; otherwise the state machine
answers. -/
theorem C16_priority (env : Env) (hs : SimpleEnv env) (hok : EnvOK env) (st : Store) (d n : String) :
    (∀ x, getattrOut (astNameLoad env st [d]) x =
        match pyVarSrc env d with | some src => .py src | none => .exc "NameError") ∧
    (∀ src, pyVarSrc env d = some src →
        loadDotted env st [d, n] = .py src ∧ (∀ a, loadDotted env st [d, n, a] = .py src) ∧
        (∀ v, storeDotted env st [d, n] v = (st, .py "setattr")) ∧
        (∀ a v, storeDotted env st [d, n, a] v = (st, .py "setattr"))) ∧
    (pyVarSrc env d = none → callableName env d n = true → loadDotted env st [d, n] = .callable) ∧
    (pyVarSrc env d = none → callableName env d n = false →
        loadDotted env st [d, n] = stateGet env st [d, n] ∧
        ∀ a, loadDotted env st [d, n, a] = stateGet env st [d, n, a]) := by
  refine ⟨fun x => head_getattr env hs hok st d x, fun src h => ⟨?_, fun a => ?_, fun v => ?_, fun a v => ?_⟩,
    fun h hc => ?_, fun h hc => ⟨?_, fun a => ?_⟩⟩
  · rw [loadDotted_two env hs hok]; simp [h]
  · rw [loadDotted_three env hs hok st d n a (Or.inl (by simp [h]))]; simp [h]
  · simp [storeDotted, head_defined env hs hok, h]
  · simp [storeDotted, head_defined env hs hok, h]
  · rw [loadDotted_two env hs hok]; simp [h, hc]
  · rw [loadDotted_two env hs hok]; simp [h, hc]
  · rw [loadDotted_three env hs hok st d n a (Or.inr hc)]; simp [h]

/-! ## where the code leaves the rules today (recorded findings) -/

def cexStore : Store := [(("pyscript", "x"), ⟨"5", [("a", ⟨"1", "1"⟩)]⟩), (("pyscript", "y"), ⟨"7", [("b", ⟨"2", "2"⟩)]⟩)]

/-- **F1 (design #27)** `pyscript.x = None` on an existing entity: the code keeps `"5"`, the rule says `"None"`. -/
theorem C16_assign_none_cex :
    (aget ("pyscript", "x") (step {} ⟨cexStore, []⟩ (.store ["pyscript", "x"] .none)).1.store).map (·.value) = some "5" ∧
    ((Spec.step {} (absState ⟨cexStore, []⟩) (.store ["pyscript", "x"] .none)).1.store ("pyscript", "x")).map (·.value)
      = some "None" := by
  constructor
  · decide
  · rfl

/-- F1, the exact good half: on a *missing* entity `d.n = None` does what an assignment should (stores `"None"`). -/
theorem C16_assign_none_partial (env : Env) (hs : SimpleEnv env) (hok : EnvOK env) (st : Store) (d n : String)
    (hh : pyVarSrc env d = none) (hm : aget (d, n) st = none) :
    absStore (storeDotted env st [d, n] .none).1 = setRule (absStore st) (d, n) (some "None") none [] := by
  simp only [storeDotted, head_defined env hs hok, hh, Option.isSome_none, Bool.false_eq_true, if_false,
    List.length_cons, List.length_nil, ASSIGN_DOTS_SET, stateSet, ↓reduceIte]
  rw [setCore_abs]
  simp [setRule, argStr?, svAttrs, valueOf, absStore_apply, hm]

/-- **F2** `pyscript.y = pyscript.x` (a StateVal): the rule keeps `y`'s attribute `b`; the code replaces the
attributes by the snapshot's (`b` is gone, `a` appears). -/
theorem C16_assign_stateval_cex :
    let ms1 := (step {} ⟨cexStore, []⟩ (.load ["pyscript", "x"])).1
    (aget ("pyscript", "y") (step {} ms1 (.store ["pyscript", "y"] (.snap 0))).1.store).map (·.attrs)
      = some [("a", ⟨"1", "1"⟩)] ∧
    ((Spec.step {} (absState ms1) (.store ["pyscript", "y"] (.snap 0))).1.store ("pyscript", "y")).map
      (fun r => (r.value, r.attrs "a", r.attrs "b")) = some ("5", none, some ⟨"2", "2"⟩) := by
  constructor
  · decide
  · rfl

/-- **F3** `pyscript.x.value = 9`: the rule changes only the attribute `value`; the code sets the *state* to `"9"`
and creates no attribute (the keyword binds the parameter `value` of `State.set`). -/
theorem C16_attr_reserved_cex :
    aget ("pyscript", "x") (step {} ⟨cexStore, []⟩ (.store ["pyscript", "x", "value"] (.plain ⟨"9", "9"⟩))).1.store
      = some ⟨"9", [("a", ⟨"1", "1"⟩)]⟩ ∧
    ((Spec.step {} (absState ⟨cexStore, []⟩) (.store ["pyscript", "x", "value"] (.plain ⟨"9", "9"⟩))).1.store
      ("pyscript", "x")).map (fun r => (r.value, r.attrs "value")) = some ("5", some ⟨"9", "9"⟩) := by
  constructor
  · decide
  · rfl

/-- **F4** `del obj.attr` where `obj` is a local Python variable: Python deletes the object's attribute; the code
sends the dotted name to `State.delete` and raises `NameError`. -/
theorem C16_del_pyvar_cex :
    (step { sym := [["obj"]] } ⟨cexStore, []⟩ (.delStmt ["obj", "attr"])).2 = .exc "NameError" ∧
    (match (Spec.step { sym := [["obj"]] } (absState ⟨cexStore, []⟩) (.delStmt ["obj", "attr"])).2 with
     | .py _ => True
     | _ => False) := by
  constructor
  · decide
  · simp [Spec.step, Spec.delStmt, Spec.withStore, pyVarSrc]

/-! ## non-vacuity -/

/-- an environment satisfying the hypotheses, with a local, a global, a registered function and a service -/
def exEnv : Env :=
  { sym := [["sensor"]], globalSym := [["light"], ["sensor"]], functions := [["state", "get"], ["task", "sleep"]],
    services := [("pyscript", "step")], svcMethods := [("pyscript", "svcm")] }

example : SimpleEnv exEnv ∧ EnvOK exEnv := by
  refine ⟨⟨?_, ?_⟩, ?_, ?_⟩
  · intro id h; simp [pyTables, exEnv] at h; rcases h with h | h | h <;> simp [h]
  · intro id h; simp [exEnv] at h; rcases h with h | h <;> simp [h]
  · intro id h; simp [exEnv] at h
  · intro id h; simp [exEnv] at h

/-- a conforming sequence touching every entry point, run by the model -/
example :
    let ops : List Op :=
      [.extSet ("pyscript", "x") "5" [("a", ⟨"1", "1"⟩)], .load ["pyscript", "x"], .store ["pyscript", "y"] (.plain ⟨"7", "7"⟩),
       .store ["pyscript", "y", "b"] (.plain ⟨"2", "2"⟩), .set ["pyscript", "y"] .none (some []) [("c", ⟨"3", "3"⟩)],
       .set ["pyscript", "z"] (.snap 0) (some []) [], .delStmt ["pyscript", "x", "a"], .delete ["pyscript", "x"],
       .exist ["pyscript", "y", "c"], .getattr ["pyscript", "y"], .names (some "pyscript"), .peek 0,
       .load ["sensor", "x"], .load ["pyscript", "step"], .extRemove ("pyscript", "z")]
    (∀ op ∈ ops, Conf exEnv op = true) ∧
    (run exEnv ⟨[], []⟩ ops).1.store = [(("pyscript", "y"), ⟨"7", [("c", ⟨"3", "3"⟩)]⟩)] := by
  decide

end PsModel.C16
