import PsModel.Lemmas.C16
/-!
# C16 – property theorems: state variables read and write Home Assistant state faithfully

`Model/C16.lean` mirrors `state.py` and the dotted-name routing of `eval.py`; `Spec/C16.lean` is the dictionary
the property statement describes (functions `Ent → Option (value, attrs)`).  The theorems say that every entry
point commutes with the abstraction `absStore` for **all** stores, arguments and operation sequences – on the
fragment `Conf fx`, where `fx : Fixes` are the repairs the code contains (`Fixes.current` is read off the source on
every run, `Fixes.preFix` is the code before the `fix:` commits).  With all repairs in, only finding C16-F2 is left
outside the fragment (`C16_assign_stateval_cex`); the `_regress` theorems keep the old counterexamples for `preFix`.
-/
namespace PsModel.C16
open PsModel.Gen

/-- the fields `StateVal.__new__` writes and the code's table `STATE_VIRTUAL_ATTRS` are both exactly the four virtual
fields the property names (`VIRTUAL` is written out in the spec, the other two are extracted from the code) -/
theorem C16_virtual_tables (a : String) :
    (a ∈ STATEVAL_NEW_FIELDS ↔ a ∈ VIRTUAL) ∧ (a ∈ STATE_VIRTUAL_ATTRS ↔ a ∈ VIRTUAL) :=
  ⟨virtual_tables a, virtual_attrs_table a⟩

/-- **Reading `DOMAIN.name` / `state.get`**: `NameError` for a missing entity; otherwise a snapshot whose string is the
current value and which shows every attribute plus the virtual fields (virtual names win). -/
theorem C16_read (env : Env) (st : Store) (d n : String) :
    (aget (d, n) st = none → stateGet env st [d, n] = .exc "NameError") ∧
    (∀ r, aget (d, n) st = some r →
      ∃ s, stateGet env st [d, n] = .sv s ∧ s.value = r.value ∧
        ∀ a, aget a s.dict = if a ∈ VIRTUAL then some (virtVal (d, n) a) else aget a r.attrs) := by
  refine ⟨fun h => by simp [stateGet, h], fun r h => ⟨mkSnap (d, n) r, by simp [stateGet, h], rfl, ?_⟩⟩
  intro a
  have := mkSnap_view (d, n) r a
  simpa [viewOf, absRec, absAttrs, ofList] using this

/-- **Errors of attribute reads**: missing entity ⇒ `NameError`; an attribute that is neither stored, virtual, a helper
method nor an entity service ⇒ `AttributeError`; stored attributes and virtual fields are returned. -/
theorem C16_get_errors (env : Env) (st : Store) (d n a : String) :
    (aget (d, n) st = none → stateGet env st [d, n, a] = .exc "NameError") ∧
    (∀ r, aget (d, n) st = some r → env.svcMethod d a = false →
      (a ∈ VIRTUAL → stateGet env st [d, n, a] = .attr (virtVal (d, n) a)) ∧
      (a ∉ VIRTUAL → ∀ v, aget a r.attrs = some v → stateGet env st [d, n, a] = .attr v) ∧
      (a ∉ VIRTUAL → aget a r.attrs = none → methodAttr a = false →
        stateGet env st [d, n, a] = .exc "AttributeError")) := by
  refine ⟨fun h => by simp [stateGet, h], fun r h hs => ?_⟩
  have hv := mkSnap_view (d, n) r a
  simp only [viewOf, absRec, absAttrs, ofList] at hv
  refine ⟨fun hm => ?_, fun hm v hv' => ?_, fun hm hn hc => ?_⟩
  · simp [stateGet, h, hs, snapGetattr, hv, hm]
  · simp [stateGet, h, hs, snapGetattr, hv, hm, hv']
  · simp only [stateGet, h, hs, snapGetattr, hv, hm, hn, if_false, Bool.false_eq_true]
    simp only [hc, Bool.false_eq_true, if_false]

/-- **Assigning `DOMAIN.name = v`** (v an ordinary non-`None` value, the head not shadowed by a Python variable):
the value becomes `str(v)`, the attributes are kept, nothing else changes. -/
theorem C16_assign_keeps_attrs (fx : Fixes) (env : Env) (hs : SimpleEnv env) (hok : EnvOK env) (st : Store) (d n : String) (v : Val)
    (hh : pyVarSrc env d = none) :
    absStore (storeDotted fx env st [d, n] (.plain v)).1
      = fupd (absStore st) (d, n) (some ⟨v.str, attrsOf (absStore st) (d, n)⟩) ∧
    (storeDotted fx env st [d, n] (.plain v)).2 = .unit := by
  have hne : (Arg.plain v == Arg.none) = false := by simp
  simp only [storeDotted, head_defined env hs hok, hh, Option.isSome_none, Bool.false_eq_true, if_false,
    List.length_cons, List.length_nil, ASSIGN_DOTS_SET, stateSet, ↓reduceIte, and_true, hne, Bool.and_false]
  rw [setCore_abs]
  simp [setRule, argStr?, svAttrs, merge]

/-- **Assigning `DOMAIN.name = None`** (with the repair of `recurse_assign`): like any other assignment – the value
becomes `"None"`, the attributes are kept. -/
theorem C16_assign_none_sets_value (fx : Fixes) (hf : fx.assignNone = true) (env : Env) (hs : SimpleEnv env)
    (hok : EnvOK env) (st : Store) (d n : String) (hh : pyVarSrc env d = none) :
    absStore (storeDotted fx env st [d, n] .none).1
      = fupd (absStore st) (d, n) (some ⟨"None", attrsOf (absStore st) (d, n)⟩) ∧
    (storeDotted fx env st [d, n] .none).2 = .unit := by
  simp only [storeDotted, head_defined env hs hok, hh, Option.isSome_none, Bool.false_eq_true, if_false,
    List.length_cons, List.length_nil, ASSIGN_DOTS_SET, stateSet, ↓reduceIte, and_true, hf, Bool.true_and,
    beq_self_eq_true]
  rw [setCore_abs]
  simp [setRule, argStr?, svAttrs, merge, noneStr]

/-- **Assigning `DOMAIN.name.attr = v` / `state.setattr`** – for **every** attribute name once `State.setattr` builds the
attribute dictionary itself (`fx.setattrDict`); before that repair only for names that are not parameters of
`State.set`: `NameError` and no change when the entity is missing; otherwise exactly that attribute changes – value,
other attributes and other entities are untouched. -/
theorem C16_attr_assign_only_that (fx : Fixes) (env : Env) (st : Store) (d n a : String) (v : Val)
    (hr : fx.setattrDict = true ∨ reserved a = false) :
    (aget (d, n) st = none → stateSetattr fx env st [d, n, a] v = (st, .exc "NameError")) ∧
    (∀ r, aget (d, n) st = some r →
      (stateSetattr fx env st [d, n, a] v).2 = .unit ∧
      ∀ e, aget e (stateSetattr fx env st [d, n, a] v).1 =
        if e = (d, n) then some ⟨r.value, aset a v r.attrs⟩ else aget e st) := by
  refine ⟨fun h => by simp [stateSetattr, h], fun r h => ?_⟩
  by_cases hf : fx.setattrDict = true
  · simp only [stateSetattr, h, hf, if_true, true_and]
    intro e
    simp [setCore, aget_aset, argStr?, svAttrs, fetchOld, h, keepValue, keepAttrs, mergeKw]
  · have hc : STATE_SET_PARAMS.contains a = false := by
      rcases hr with h' | h'
      · exact absurd h' hf
      · exact h'
    simp only [stateSetattr, h, hf, Bool.false_eq_true, if_false, hc, Bool.not_false, if_true, true_and]
    intro e
    simp [setCore, aget_aset, argStr?, svAttrs, fetchOld, h, keepValue, keepAttrs, mergeKw, dupdate]

/-- **`state.set(name, v, new_attributes=d)`** replaces all attributes (then merges the keywords). -/
theorem C16_set_new_attrs_replace (st : Store) (d n : String) (v : Val) (na kw : Attrs) :
    absStore (stateSet st [d, n] (.plain v) (some na) kw).1
      = fupd (absStore st) (d, n) (some ⟨v.str, merge kw (ofList na)⟩) := by
  simp only [stateSet]
  rw [setCore_abs]
  simp [setRule, argStr?, svAttrs, absAttrs]

/-- **Keyword attributes are merged**: with `new_attributes` omitted the old attributes stay and each keyword is set. -/
theorem C16_set_kwargs_merge (st : Store) (d n : String) (v : Val) (kw : Attrs) :
    absStore (stateSet st [d, n] (.plain v) none kw).1
      = fupd (absStore st) (d, n) (some ⟨v.str, merge kw (attrsOf (absStore st) (d, n))⟩) := by
  simp only [stateSet]
  rw [setCore_abs]
  simp [setRule, argStr?, svAttrs]

/-- **An omitted value is kept** (for an existing entity), whatever is done to the attributes. -/
theorem C16_set_value_omitted_kept (st : Store) (d n : String) (r : Rec) (na : Option Attrs) (kw : Attrs)
    (h : aget (d, n) st = some r) :
    (aget (d, n) (stateSet st [d, n] .none na kw).1).map (·.value) = some r.value := by
  simp only [stateSet, setCore, aget_aset_same, argStr?, svAttrs, Option.map_some]
  cases na <;> simp [fetchOld, h, keepValue]

/-- what `State.set` does with a `StateVal` argument and no `new_attributes` (the mechanism behind finding F2):
the target gets the snapshot's string **and the snapshot's attributes** (virtual fields removed). -/
theorem C16_set_stateval (st : Store) (e : Ent) (s : Snap) (kw : Attrs) :
    absStore (setCore st e (.sv s) none kw)
      = fupd (absStore st) e (some ⟨s.value, merge kw (attrsOfView (absAttrs s.dict))⟩) := by
  rw [setCore_abs]
  simp [setRule, argStr?, svAttrs, abs_snapAttrs]

/-- **One step refines the dictionary rules** (`Conf` operations; all stores, all captured snapshots). -/
theorem C16_step_refines (fx : Fixes) (env : Env) (hs : SimpleEnv env) (hok : EnvOK env) (ms : MState) (op : Op)
    (hc : Conf fx env op = true) :
    absState (step fx env ms op).1 = (Spec.step env (absState ms) op).1 ∧
      absOut (step fx env ms op).2 = (Spec.step env (absState ms) op).2 :=
  step_refines fx env hs hok ms op hc

/-- **Refinement over all operation sequences** (read / assign / attribute-assign / `state.set` in every argument
combination / delete / exist / getattr / names, interleaved with external `async_set`/`async_remove`):
after every step the store denotes the spec's dictionary and the script saw the spec's value or exception class.
Partial: operations outside `Conf` are the recorded findings (`_cex` theorems below). -/
theorem C16_refinement_partial (fx : Fixes) (env : Env) (hs : SimpleEnv env) (hok : EnvOK env) (ops : List Op)
    (hc : ∀ op ∈ ops, Conf fx env op = true) (ms : MState) :
    absState (run fx env ms ops).1 = (Spec.run env (absState ms) ops).1 ∧
      (run fx env ms ops).2.map absOut = (Spec.run env (absState ms) ops).2 := by
  induction ops generalizing ms with
  | nil => simp [run, Spec.run]
  | cons op ops ih =>
    obtain ⟨h1, h2⟩ := step_refines fx env hs hok ms op (hc op (by simp))
    obtain ⟨i1, i2⟩ := ih (fun o ho => hc o (by simp [ho])) (step fx env ms op).1
    simp only [run, Spec.run, List.map_cons]
    rw [← h1, ← h2]
    exact ⟨i1, by rw [i2]⟩

/-- **delete / exist / names / getattr / get agree with the state machine after every operation sequence**: whatever
conforming history produced the store, each observer returns what the dictionary spec returns on the spec's store. -/
theorem C16_observers_agree (fx : Fixes) (env : Env) (hs : SimpleEnv env) (hok : EnvOK env) (ops : List Op)
    (hc : ∀ op ∈ ops, Conf fx env op = true) (ms : MState) (parts : List String) (dom : Option String) :
    let m := (run fx env ms ops).1
    let s := (Spec.run env (absState ms) ops).1
    stateExist env m.store parts = Spec.exist env s.store parts ∧
    absOut (stateGetattr m.store parts) = Spec.getattr s.store parts ∧
    absOut (.names (stateNames m.store dom)) = .names (Spec.names s.store dom) ∧
    absOut (stateGet env m.store parts) = Spec.get env s.store parts ∧
    (absStore (stateDelete m.store parts).1, absOut (stateDelete m.store parts).2) = Spec.delete s.store parts := by
  intro m s
  have h : absState m = s := (C16_refinement_partial fx env hs hok ops hc ms).1
  have hst : s.store = absStore m.store := by rw [← h]; rfl
  rw [hst]
  exact ⟨stateExist_abs env _ _, stateGetattr_abs _ _, stateNames_abs _ _, stateGet_abs env _ _, stateDelete_abs _ _⟩

/-- `state.names` never lists an entity twice: entity ids stay distinct along every operation sequence. -/
theorem C16_names_nodup (fx : Fixes) (env : Env) (ops : List Op) (ms : MState) (h : (ms.store.map (·.1)).Nodup)
    (dom : Option String) : (stateNames (run fx env ms ops).1.store dom).Nodup := by
  have step_nodup : ∀ (ms : MState) (op : Op), (ms.store.map (·.1)).Nodup →
      ((step fx env ms op).1.store.map (·.1)).Nodup := by
    intro ms op h
    have hset : ∀ parts a na kw, ((stateSet ms.store parts a na kw).1.map (·.1)).Nodup := by
      intro parts a na kw
      rcases parts with _ | ⟨d, _ | ⟨n, _ | ⟨x, r⟩⟩⟩ <;> simp only [stateSet] <;> try exact h
      exact keys_nodup_aset _ _ _ h
    have hsa : ∀ parts v, ((stateSetattr fx env ms.store parts v).1.map (·.1)).Nodup := by
      intro parts v
      rcases parts with _ | ⟨d, _ | ⟨n, _ | ⟨x, _ | ⟨y, r⟩⟩⟩⟩ <;> simp only [stateSetattr] <;> try exact h
      split
      · exact h
      · split
        · exact keys_nodup_aset _ _ _ h
        · split
          · exact keys_nodup_aset _ _ _ h
          · split
            · exact keys_nodup_aset _ _ _ h
            · split <;> exact h
    have hdel : ∀ parts, ((stateDelete ms.store parts).1.map (·.1)).Nodup := by
      intro parts
      rcases parts with _ | ⟨d, _ | ⟨n, _ | ⟨x, _ | ⟨y, r⟩⟩⟩⟩ <;> simp only [stateDelete] <;> try exact h
      · split
        · exact h
        · exact keys_nodup_adel _ _ h
      · split
        · exact h
        · split
          · exact h
          · exact keys_nodup_aset _ _ _ h
    have hstore : ∀ parts a, ((storeDotted fx env ms.store parts a).1.map (·.1)).Nodup := by
      intro parts a
      rcases parts with _ | ⟨d, _ | ⟨n, r⟩⟩ <;> simp only [storeDotted] <;> try exact h
      split
      · exact h
      · split
        · exact hset _ _ _ _
        · split
          · cases a
            · exact hsa _ _
            · exact hsa _ _
            · exact hsa _ _
          · exact h
    cases op with
    | load parts => simp only [step]; cases loadDotted env ms.store parts <;> exact h
    | get parts => simp only [step]; cases stateGet env ms.store parts <;> exact h
    | store parts v =>
      simp only [step]
      cases resolveArg ms.snaps v with
      | none => exact h
      | some a => exact hstore _ _
    | aug parts sfx =>
      simp only [step, withStore]
      rcases parts with _ | ⟨d, _ | ⟨n, _ | ⟨x, r⟩⟩⟩ <;> simp only [augDotted] <;> try exact h
      split
      · exact h
      · split <;> first | exact h | exact hstore _ _
    | delStmt parts =>
      simp only [step, withStore]
      rcases parts with _ | ⟨d, _ | ⟨n, r⟩⟩ <;> simp only [delDotted] <;> try exact h
      split
      · exact h
      · exact hdel _
    | set parts v na kw =>
      simp only [step]
      cases resolveArg ms.snaps v with
      | none => exact h
      | some a => exact hset _ _ _ _
    | setattr parts v => exact hsa _ _
    | delete parts => exact hdel _
    | exist parts => exact h
    | getattr parts => exact h
    | getattrSnap i => simp only [step]; cases ms.snaps[i]? <;> exact h
    | names dom => exact h
    | peek i => simp only [step]; cases ms.snaps[i]? <;> exact h
    | extSet e value attrs => exact keys_nodup_aset _ _ _ h
    | extRemove e => exact keys_nodup_adel _ _ h
  have run_nodup : ∀ (ops : List Op) (ms : MState), (ms.store.map (·.1)).Nodup →
      ((run fx env ms ops).1.store.map (·.1)).Nodup := by
    intro ops
    induction ops with
    | nil => intro ms h; exact h
    | cons op ops ih => intro ms h; simp only [run]; exact ih _ (step_nodup ms op h)
  exact List.Nodup.sublist List.filter_sublist (run_nodup ops ms h)

/-- **A captured snapshot never changes afterwards**: whatever operations follow (by the script or from outside),
looking at snapshot `i` again shows exactly what was captured. -/
theorem C16_snapshot_immutable (fx : Fixes) (env : Env) (ops : List Op) (ms : MState) (i : Nat) (s : Snap)
    (h : ms.snaps[i]? = some s) :
    (run fx env ms ops).1.snaps[i]? = some s ∧ (step fx env (run fx env ms ops).1 (.peek i)).2 = .sv s := by
  have step_keeps : ∀ (ms : MState) (op : Op), ms.snaps[i]? = some s → (step fx env ms op).1.snaps[i]? = some s := by
    intro ms op h
    have hcap : ∀ o, (capture ms o).snaps[i]? = some s := by
      intro o
      cases o <;> simp only [capture] <;> try exact h
      rw [List.getElem?_append_left]
      · exact h
      · exact (List.getElem?_eq_some_iff.mp h).1
    cases op with
    | load parts => exact hcap _
    | get parts => exact hcap _
    | store parts v => simp only [step]; cases resolveArg ms.snaps v <;> exact h
    | set parts v na kw => simp only [step]; cases resolveArg ms.snaps v <;> exact h
    | getattrSnap j => simp only [step]; cases ms.snaps[j]? <;> exact h
    | peek j => simp only [step]; cases ms.snaps[j]? <;> exact h
    | _ => exact h
  have run_keeps : ∀ (ops : List Op) (ms : MState), ms.snaps[i]? = some s → (run fx env ms ops).1.snaps[i]? = some s := by
    intro ops
    induction ops with
    | nil => intro ms h; exact h
    | cons op ops ih => intro ms h; simp only [run]; exact ih _ (step_keeps ms op h)
  have := run_keeps ops ms h
  exact ⟨this, by simp [step, this]⟩

/-- **Resolution priority**: a Python variable named like the head (local > per-context function > global > builtin >
the order of `Gen.NAME_LOOKUP_ORDER`) wins over services and states, both for reading and for
assigning – and, with the repair of `ast_delete`, for `del` –; an existing function/service name `d.n` wins over the
state variable `d.n`; otherwise the state machine answers. -/
theorem C16_priority (fx : Fixes) (env : Env) (hs : SimpleEnv env) (hok : EnvOK env) (st : Store) (d n : String) :
    (∀ x, getattrOut (astNameLoad env st [d]) x =
        match pyVarSrc env d with | some src => .py src | none => .exc "NameError") ∧
    (∀ src, pyVarSrc env d = some src →
        loadDotted env st [d, n] = .py src ∧ (∀ a, loadDotted env st [d, n, a] = .py src) ∧
        (∀ v, storeDotted fx env st [d, n] v = (st, .py "setattr")) ∧
        (∀ a v, storeDotted fx env st [d, n, a] v = (st, .py "setattr")) ∧
        (fx.delPyAttr = true → ∀ rest, delDotted fx env st (d :: n :: rest) = (st, .py "delattr"))) ∧
    (pyVarSrc env d = none → callableName env d n = true → loadDotted env st [d, n] = .callable) ∧
    (pyVarSrc env d = none → callableName env d n = false →
        loadDotted env st [d, n] = stateGet env st [d, n] ∧
        ∀ a, loadDotted env st [d, n, a] = stateGet env st [d, n, a]) := by
  refine ⟨fun x => head_getattr env hs hok st d x, fun src h => ⟨?_, fun a => ?_, fun v => ?_, fun a v => ?_,
      fun hf rest => by simp [delDotted, head_defined env hs hok, h, hf]⟩,
    fun h hc => ?_, fun h hc => ⟨?_, fun a => ?_⟩⟩
  · rw [loadDotted_two env hs hok]; simp [h]
  · rw [loadDotted_three env hs hok st d n a (Or.inl (by simp [h]))]; simp [h]
  · simp [storeDotted, head_defined env hs hok, h]
  · simp [storeDotted, head_defined env hs hok, h]
  · rw [loadDotted_two env hs hok]; simp [h, hc]
  · rw [loadDotted_two env hs hok]; simp [h, hc]
  · rw [loadDotted_three env hs hok st d n a (Or.inr hc)]; simp [h]

/-! ## the repairs, and where the code still leaves the rules -/

/-- **The working tree contains all three repairs** (`Fixes.current` is extracted from `recurse_assign`, `State.setattr`
and `ast_delete` on every run; undoing one of the repairs in the source makes this theorem fail). -/
theorem C16_fixes_current : Fixes.current = ⟨true, true, true⟩ := by decide

/-- with all repairs in, the fragment is `ConfNow`: everything except finding F2 and the unmodelled shapes -/
theorem C16_conf_current (fx : Fixes) (hf : fx = ⟨true, true, true⟩) (env : Env) (op : Op) :
    Conf fx env op = ConfNow env op := by
  subst hf
  cases op with
  | store parts v =>
    rcases parts with _ | ⟨d, _ | ⟨n, _ | ⟨a, _ | ⟨b, r⟩⟩⟩⟩ <;> simp only [Conf, ConfNow]
    · cases v <;> simp
    · cases v <;> simp
  | delStmt parts => rcases parts with _ | ⟨d, _ | ⟨n, r⟩⟩ <;> simp [Conf, ConfNow]
  | setattr parts v => rcases parts with _ | ⟨d, _ | ⟨n, _ | ⟨a, _ | ⟨b, r⟩⟩⟩⟩ <;> simp [Conf, ConfNow]
  | _ => rfl

/-- **Refinement for the code as it is now**: every operation sequence that stays clear of finding F2 (no `StateVal`
value whose attributes would be kept) refines the dictionary rules – `None` values, attributes named like `State.set`
parameters and `del obj.attr` on Python variables included. -/
theorem C16_refinement_current (env : Env) (hs : SimpleEnv env) (hok : EnvOK env) (ops : List Op)
    (hc : ∀ op ∈ ops, ConfNow env op = true) (ms : MState) :
    absState (run Fixes.current env ms ops).1 = (Spec.run env (absState ms) ops).1 ∧
      (run Fixes.current env ms ops).2.map absOut = (Spec.run env (absState ms) ops).2 :=
  C16_refinement_partial Fixes.current env hs hok ops
    (fun op ho => by rw [C16_conf_current _ C16_fixes_current]; exact hc op ho) ms

def cexStore : Store := [(("pyscript", "x"), ⟨"5", [("a", ⟨"1", "1"⟩)]⟩), (("pyscript", "y"), ⟨"7", [("b", ⟨"2", "2"⟩)]⟩)]

/-- **F2 (open)** `pyscript.y = pyscript.x` (a StateVal): the rule keeps `y`'s attribute `b`; the code replaces the
attributes by the snapshot's (`b` is gone, `a` appears). -/
theorem C16_assign_stateval_cex :
    let ms1 := (step Fixes.current {} ⟨cexStore, []⟩ (.load ["pyscript", "x"])).1
    (aget ("pyscript", "y") (step Fixes.current {} ms1 (.store ["pyscript", "y"] (.snap 0))).1.store).map (·.attrs)
      = some [("a", ⟨"1", "1"⟩)] ∧
    ((Spec.step {} (absState ms1) (.store ["pyscript", "y"] (.snap 0))).1.store ("pyscript", "y")).map
      (fun r => (r.value, r.attrs "a", r.attrs "b")) = some ("5", none, some ⟨"2", "2"⟩) := by
  constructor
  · decide
  · rfl

/-- **F1 (design #27) – regression witness**: before the repair `pyscript.x = None` on an existing entity kept `"5"`
(the rule says `"None"`); with the repair the store holds `"None"`. -/
theorem C16_assign_none_regress :
    (aget ("pyscript", "x") (step Fixes.preFix {} ⟨cexStore, []⟩ (.store ["pyscript", "x"] .none)).1.store).map (·.value)
      = some "5" ∧
    (aget ("pyscript", "x") (step Fixes.current {} ⟨cexStore, []⟩ (.store ["pyscript", "x"] .none)).1.store).map (·.value)
      = some "None" ∧
    ((Spec.step {} (absState ⟨cexStore, []⟩) (.store ["pyscript", "x"] .none)).1.store ("pyscript", "x")).map (·.value)
      = some "None" := by
  refine ⟨by decide, by decide, rfl⟩

/-- **F3 – regression witness**: before the repair `pyscript.x.value = 9` set the *state* to `"9"` and created no
attribute; now the attribute `value` is set and the state stays `"5"`, as the rule says. -/
theorem C16_attr_reserved_regress :
    aget ("pyscript", "x") (step Fixes.preFix {} ⟨cexStore, []⟩ (.store ["pyscript", "x", "value"] (.plain ⟨"9", "9"⟩))).1.store
      = some ⟨"9", [("a", ⟨"1", "1"⟩)]⟩ ∧
    aget ("pyscript", "x") (step Fixes.current {} ⟨cexStore, []⟩ (.store ["pyscript", "x", "value"] (.plain ⟨"9", "9"⟩))).1.store
      = some ⟨"5", [("a", ⟨"1", "1"⟩), ("value", ⟨"9", "9"⟩)]⟩ ∧
    ((Spec.step {} (absState ⟨cexStore, []⟩) (.store ["pyscript", "x", "value"] (.plain ⟨"9", "9"⟩))).1.store
      ("pyscript", "x")).map (fun r => (r.value, r.attrs "value")) = some ("5", some ⟨"9", "9"⟩) := by
  refine ⟨by decide, by decide, rfl⟩

/-- **F4 – regression witness**: before the repair `del obj.attr` on a local Python variable went to `State.delete` and
raised `NameError`; now it is Python's `delattr`. -/
theorem C16_del_pyvar_regress :
    (step Fixes.preFix { sym := [["obj"]] } ⟨cexStore, []⟩ (.delStmt ["obj", "attr"])).2 = .exc "NameError" ∧
    (step Fixes.current { sym := [["obj"]] } ⟨cexStore, []⟩ (.delStmt ["obj", "attr"])).2 = .py "delattr" ∧
    (match (Spec.step { sym := [["obj"]] } (absState ⟨cexStore, []⟩) (.delStmt ["obj", "attr"])).2 with
     | .py _ => True
     | _ => False) := by
  refine ⟨by decide, by decide, ?_⟩
  simp [Spec.step, Spec.delStmt, Spec.withStore, pyVarSrc]

/-! ## non-vacuity -/

/-- an environment satisfying the hypotheses, with a local, a global, a registered function and a service -/
def exEnv : Env :=
  { sym := [["sensor"]], globalSym := [["light"], ["sensor"]], functions := [["state", "get"], ["task", "sleep"]],
    services := [("pyscript", "step")], svcMethods := [("pyscript", "svcm")] }

example : SimpleEnv exEnv ∧ EnvOK exEnv := by
  refine ⟨⟨?_, ?_⟩, ?_, ?_⟩
  · intro id h; simp [pyTables, exEnv] at h; rcases h with h | h | h <;> simp [h]
  · intro id h; simp [exEnv] at h; rcases h with h | h <;> simp [h]
  · intro id h; simp [exEnv] at h
  · intro id h; simp [exEnv] at h

/-- a sequence inside `ConfNow` touching every entry point – `None` assignment, an attribute named `value` and a `del`
on a Python variable included – run by the model of the current code -/
example :
    let ops : List Op :=
      [.extSet ("pyscript", "x") "5" [("a", ⟨"1", "1"⟩)], .load ["pyscript", "x"], .store ["pyscript", "y"] (.plain ⟨"7", "7"⟩),
       .store ["pyscript", "y", "b"] (.plain ⟨"2", "2"⟩), .set ["pyscript", "y"] .none (some []) [("c", ⟨"3", "3"⟩)],
       .set ["pyscript", "z"] (.snap 0) (some []) [], .delStmt ["pyscript", "x", "a"], .delete ["pyscript", "x"],
       .exist ["pyscript", "y", "c"], .getattr ["pyscript", "y"], .names (some "pyscript"), .peek 0,
       .load ["sensor", "x"], .load ["pyscript", "step"], .extRemove ("pyscript", "z"),
       .store ["pyscript", "y"] .none, .store ["pyscript", "y", "value"] (.plain ⟨"9", "9"⟩), .delStmt ["sensor", "x"]]
    (∀ op ∈ ops, ConfNow exEnv op = true) ∧
    (run Fixes.current exEnv ⟨[], []⟩ ops).1.store
      = [(("pyscript", "y"), ⟨"None", [("c", ⟨"3", "3"⟩), ("value", ⟨"9", "9"⟩)]⟩)] := by
  decide

end PsModel.C16
