import PsModel.Lemmas.C03
import PsModel.Lemmas.C03Scope
import PsModel.Lemmas.C03Cells
/-!
# C03 – property theorems (a): argument binding of script functions

`PS.bind` = the index loop / pop / bad_kwargs / TRIGGER_KWARGS logic of `EvalFunc.call`; `Spec.bind` = Python's binding
rules stated per parameter.  The theorems hold for signatures with ANY number of parameters of each kind and calls with
any number of arguments.  (Name resolution, closures, classes: tied by correspondence only – see the manifest.)
-/
namespace PsModel.C03

/-- **Binding agrees with Python**, for every configuration of the positional-only flag, provided that
(H1) no *unexpected* keyword is one of the reserved trigger keywords when the function has no `**kwargs`
(the documented intended deviation), and (H2) either the repair is in, or the function has no `**kwargs`, or no keyword is
named like a positional-only parameter (finding C03-F1). -/
theorem C03_bind_partial (cfg : Cfg) (trig : List String) (s : Sig) (args : List Nat) (kw0 : KW)
    (hwf : WF s kw0)
    (htrig : s.kwarg = false → ∀ k ∈ kw0.keys, k ∉ Spec.kwNames s → k ∉ trig)
    (hpo : cfg.posonlyKwToKwargs = true ∨ s.kwarg = false ∨ ∀ k ∈ kw0.keys, k ∉ s.posonly) :
    PS.bind cfg trig s args kw0 = Spec.bind s args kw0 := by
  obtain ⟨hnd, _, _⟩ := hwf
  have hnd' := List.nodup_append.mp hnd
  have hndP : s.params.Nodup := hnd'.1
  have hndK : (s.kwonly.map (·.1)).Nodup := hnd'.2.1
  have hdisj : ∀ p ∈ s.params, p ∉ s.kwonly.map (·.1) := fun p hp hk => hnd'.2.2 p hp p hk rfl
  have hndPA := List.nodup_append.mp (show (s.posonly ++ s.args).Nodup from hndP)
  unfold PS.bind
  rw [posLoop_char cfg s args kw0 s.params 0 kw0 false hndP (fun p _ => ⟨rfl, rfl⟩)]
  by_cases hN : NoPoKw cfg s kw0 0 s.params
  · rw [psSlots_of_NoPoKw cfg s args kw0 s.params 0 hN, multFrom_params, badKw_of_NoPoKw cfg s args kw0 s.params 0 hN]
    unfold Spec.bind
    by_cases hm : Spec.multiple s args kw0 = true
    · simp [hm]
    · simp only [hm, Bool.false_eq_true, if_false]
      cases hps : Spec.posSlots s args kw0 0 s.params with
      | none =>
        simp only [Option.map_none]
        split <;> (try rfl)
        split <;> rfl
      | some sl1 =>
        simp only [Option.map_some, Bool.or_false, Bool.false_eq_true, if_false]
        -- the keyword-only loop runs on the keywords left by the positional loop
        have hinvK : ∀ k ∈ s.kwonly.map (·.1),
            (kw0.eraseList (takenKw cfg s args kw0 0 s.params)).has k = kw0.has k ∧
            (kw0.eraseList (takenKw cfg s args kw0 0 s.params)).get k = kw0.get k := by
          intro k hk
          have hnt : k ∉ takenKw cfg s args kw0 0 s.params := fun ht =>
            hdisj k (takenKw_subset cfg s args kw0 s.params 0 k ht) hk
          exact ⟨KW.has_eraseList _ _ hnt _, KW.get_eraseList _ _ hnt _⟩
        rw [kwonlyLoop_char kw0 s.kwonly 0 _ hndK hinvK]
        cases hks : Spec.kwoSlots kw0 0 s.kwonly with
        | none =>
          simp only [Option.map_none]
          split <;> (try rfl)
          split <;> rfl
        | some sl2 =>
          simp only [Option.map_some]
          -- what is left is exactly the reference's `extras`
          have hkw2 : (kw0.eraseList (takenKw cfg s args kw0 0 s.params)).eraseList (kwoTaken kw0 s.kwonly)
              = kw0.filter (fun p => !(Spec.kwNames s).contains p.1) := by
            rw [KW.eraseList_filter, KW.eraseList_filter, List.filter_filter]
            apply List.filter_congr
            intro e he
            have hhas : kw0.has e.1 = true := (KW.has_iff_mem_keys kw0 e.1).mpr (List.mem_map.mpr ⟨e, he, rfl⟩)
            have htk : takenKw cfg s args kw0 0 s.params = takenKw cfg s args kw0 s.posonly.length s.args := by
              have := takenKw_prefix cfg s args kw0 s.posonly 0 s.args (by omega) hN
              simpa [Sig.params] using this
            have hmf : multFrom s args kw0 s.posonly.length s.args = false := by
              have := multFrom_args s args kw0 s.args s.posonly.length (Nat.le_refl _)
              rw [this]; simpa [Spec.multiple] using hm
            by_cases hin : e.1 ∈ Spec.kwNames s
            · have hc : (Spec.kwNames s).contains e.1 = true := by simpa using hin
              simp only [hc, Bool.not_true]
              simp only [Spec.kwNames, List.mem_append] at hin
              rcases hin with ha | hk
              · have : e.1 ∈ takenKw cfg s args kw0 0 s.params := by
                  rw [htk]; exact mem_takenKw_args cfg s args kw0 s.args _ (Nat.le_refl _) hmf e.1 ha hhas
                simp [this]
              · have : e.1 ∈ kwoTaken kw0 s.kwonly := (mem_kwoTaken kw0 s.kwonly e.1).mpr ⟨hk, hhas⟩
                simp [this]
            · have hc : (Spec.kwNames s).contains e.1 = false := by simpa using hin
              simp only [hc, Bool.not_false]
              simp only [Spec.kwNames, List.mem_append, not_or] at hin
              have h1 : e.1 ∉ takenKw cfg s args kw0 0 s.params := by
                rw [htk]; intro ht; exact hin.1 (takenKw_subset cfg s args kw0 s.args _ e.1 ht)
              have h2 : e.1 ∉ kwoTaken kw0 s.kwonly := fun ht => hin.2 ((mem_kwoTaken kw0 s.kwonly e.1).mp ht).1
              simp [h1, h2]
          rw [hkw2]
          -- the TRIGGER_KWARGS exemption is vacuous under H1
          have hall : s.kwarg = false →
              ((KW.keys (kw0.filter (fun p => !(Spec.kwNames s).contains p.1))).all fun k => trig.contains k)
                = (kw0.filter (fun p => !(Spec.kwNames s).contains p.1)).isEmpty := by
            intro hk
            cases hx : kw0.filter (fun p => !(Spec.kwNames s).contains p.1) with
            | nil => simp [KW.keys]
            | cons e es =>
              have he : e ∈ kw0.filter (fun p => !(Spec.kwNames s).contains p.1) := by rw [hx]; simp
              have he' := List.mem_filter.mp he
              have hnot : e.1 ∉ Spec.kwNames s := by simpa using he'.2
              have := htrig hk e.1 (List.mem_map.mpr ⟨e, he'.1, rfl⟩) hnot
              simp [KW.keys, this]
          cases hkw : s.kwarg with
          | true => simp [hkw]
          | false =>
            simp only [hkw, Bool.not_false, Bool.true_and, hall hkw]
  · -- some positional-only parameter is (wrongly) matched by a keyword: both sides fail
    have hPS : (psSlots cfg s args kw0 0 s.params).map (fun sl =>
        (sl, kw0.eraseList (takenKw cfg s args kw0 0 s.params), false || badKw cfg s args kw0 0 s.params)) = none ∨
        badKw cfg s args kw0 0 s.params = true := by
      rcases fail_of_not_NoPoKw cfg s args kw0 s.params 0 hN with h | h
      · left; simp [h]
      · right; exact h
    obtain ⟨p, hp, hh, hflag⟩ := exists_of_not_NoPoKw cfg s kw0 s.params 0 hN
    have hppo : p ∈ s.posonly := by
      simp only [Nat.sub_zero, Sig.params, List.take_left'] at hp
      exact hp
    have hkey : p ∈ kw0.keys := (KW.has_iff_mem_keys kw0 p).mp hh
    have hkwarg : s.kwarg = false := by
      rcases hpo with h | h | h
      · simpa [h] using hflag
      · exact h
      · exact absurd hppo (h p hkey)
    have hnotin : p ∉ Spec.kwNames s := by
      simp only [Spec.kwNames, List.mem_append, not_or]
      exact ⟨fun ha => hndPA.2.2 p hppo p ha rfl, hdisj p (by simp [Sig.params, hppo])⟩
    have hne : (kw0.filter fun q => !(Spec.kwNames s).contains q.1).isEmpty = false := by
      obtain ⟨e, he, rfl⟩ := List.mem_map.mp hkey
      have : e ∈ kw0.filter fun q => !(Spec.kwNames s).contains q.1 :=
        List.mem_filter.mpr ⟨he, by simpa using hnotin⟩
      cases hx : kw0.filter fun q => !(Spec.kwNames s).contains q.1 with
      | nil => rw [hx] at this; simp at this
      | cons a b => rfl
    have hc : (!s.kwarg && !(kw0.filter fun q => !(Spec.kwNames s).contains q.1).isEmpty) = true := by
      rw [hkwarg, hne]; rfl
    have hspec : Spec.bind s args kw0 = none := by
      unfold Spec.bind
      simp only [hc, if_true]
      split <;> rfl
    rw [hspec]
    rcases hPS with h | h
    · rw [h]
    · cases hsl : psSlots cfg s args kw0 0 s.params with
      | none => rfl
      | some sl => simp [h]

/-- **Today's code** (flag off). -/
theorem C03_bind_current (s : Sig) (args : List Nat) (kw0 : KW) (hwf : WF s kw0)
    (htrig : s.kwarg = false → ∀ k ∈ kw0.keys, k ∉ Spec.kwNames s → k ∉ Gen.TRIGGER_KWARGS) :
    PS.bind Current.cfg Gen.TRIGGER_KWARGS s args kw0 = Spec.bind s args kw0 :=
  C03_bind_partial Current.cfg Gen.TRIGGER_KWARGS s args kw0 hwf htrig (Or.inl rfl)

/-- the loop as it was before the `fix:` commit: agreement only without a positional-only name among the keywords -/
theorem C03_bind_prefix_partial (s : Sig) (args : List Nat) (kw0 : KW) (hwf : WF s kw0)
    (htrig : s.kwarg = false → ∀ k ∈ kw0.keys, k ∉ Spec.kwNames s → k ∉ Gen.TRIGGER_KWARGS)
    (hpo : s.kwarg = false ∨ ∀ k ∈ kw0.keys, k ∉ s.posonly) :
    PS.bind Cfg.preFix Gen.TRIGGER_KWARGS s args kw0 = Spec.bind s args kw0 :=
  C03_bind_partial Cfg.preFix Gen.TRIGGER_KWARGS s args kw0 hwf htrig (Or.inr hpo)

/-- **Full statement for the repaired loop**: no positional-only hypothesis left. -/
theorem C03_bind_full (trig : List String) (s : Sig) (args : List Nat) (kw0 : KW) (hwf : WF s kw0)
    (htrig : s.kwarg = false → ∀ k ∈ kw0.keys, k ∉ Spec.kwNames s → k ∉ trig) :
    PS.bind { posonlyKwToKwargs := true } trig s args kw0 = Spec.bind s args kw0 :=
  C03_bind_partial _ trig s args kw0 hwf htrig (Or.inl rfl)

/-- witness of (fixed) C03-F1 on the pre-fix loop: `def f(p, /, **kw)` called `f(1, p=2)` -/
theorem C03_regress_posonly_kwargs :
    PS.bind Cfg.preFix Gen.TRIGGER_KWARGS ⟨["p"], [], 0, [], false, true⟩ [1] [("p", 2)]
      ≠ Spec.bind ⟨["p"], [], 0, [], false, true⟩ [1] [("p", 2)] := by decide

/-- the intended deviation: a reserved trigger keyword that no parameter accepts is dropped, nothing else changes -/
theorem C03_trigger_kw_example :
    PS.bind Current.cfg Gen.TRIGGER_KWARGS ⟨[], ["a"], 0, [], false, false⟩ [1] [("trigger_type", 5)]
      = PS.bind Current.cfg Gen.TRIGGER_KWARGS ⟨[], ["a"], 0, [], false, false⟩ [1] [] ∧
    Spec.bind ⟨[], ["a"], 0, [], false, false⟩ [1] [("trigger_type", 5)] = none := by decide

/-- non-vacuity of the hypotheses on a signature with every parameter kind -/
example : WF ⟨["p"], ["a", "b"], 1, [("k", true), ("m", false)], true, true⟩ [("b", 1), ("m", 2), ("zz", 3)] := by
  refine ⟨by decide, by decide, by decide⟩

/-! ## (b) where a name mentioned in a nested function lives (`resolve_nonlocals`) -/

/-- **Name resolution agrees with Python** for a function nested at ANY depth, whatever each enclosing function binds,
declares `global` / `nonlocal` or merely mentions – provided nested `nonlocal` names are handed up (repair cf72865+) and
either scoping is lexical (repair) or no ENCLOSING function declares the name `global` (finding C03-F4 lived exactly
there, see `C03_regress_lexical`). -/
theorem C03_resolve_partial (cfg : ScopeCfg) (s : FnScope) (chain : List FnScope) (x : String)
    (hn : cfg.nonlocalPropagates = true) (h : cfg.lexicalOnly = true ∨ NoGlobalCut chain x) :
    PS.resolve cfg s chain x = Py.resolve s chain x := by
  unfold PS.resolve Py.resolve
  by_cases hg : x ∈ s.globals
  · simp [hg]
  · by_cases hl : s.isLocal x = true
    · simp [hg, hl]
    · have hup : PS.handsUp cfg s x true = true := by simp [PS.handsUp, hn, hg, hl]
      simp only [List.contains_eq_mem, hg, hl, decide_false, Bool.false_eq_true, if_false, hup]
      exact PS.lookup_eq_free cfg hn x chain 1 h

/-- the code today: no side condition is left -/
theorem C03_resolve_current (s : FnScope) (chain : List FnScope) (x : String) :
    PS.resolve Current.scopeCfg s chain x = Py.resolve s chain x :=
  C03_resolve_partial _ s chain x rfl (Or.inl rfl)

/-- the statement of the property for this part, for any code shape with both repairs -/
theorem C03_resolve_full (cfg : ScopeCfg) (hl : cfg.lexicalOnly = true) (hn : cfg.nonlocalPropagates = true)
    (s : FnScope) (chain : List FnScope) (x : String) : PS.resolve cfg s chain x = Py.resolve s chain x :=
  C03_resolve_partial cfg s chain x hn (Or.inl hl)

/-- former finding C03-F4 as a witness: `def f2(x): def f3(): global x; def f4(): return x` – Python reads the global,
the search through further tables walked past f3 and found f2's parameter -/
theorem C03_regress_lexical :
    let f4 : FnScope := ⟨[], [], [], [], ["x"]⟩
    let f3 : FnScope := ⟨[], ["f4"], ["x"], [], ["x", "f4"]⟩
    let f2 : FnScope := ⟨["x"], ["f3"], [], [], ["x", "f3"]⟩
    PS.resolve { Current.scopeCfg with lexicalOnly := false } f4 [f3, f2] "x" = .cell 2 ∧
      Py.resolve f4 [f3, f2] "x" = .global ∧ PS.resolve Current.scopeCfg f4 [f3, f2] "x" = .global := by decide

/-- with lexical scoping the hand-up of `nonlocal` names is necessary: `def a(): x = 1; def b(): def c(): nonlocal x; x = 2` -/
theorem C03_regress_nonlocal_handed_up :
    let c : FnScope := ⟨[], ["x"], [], ["x"], ["x"]⟩
    let b : FnScope := ⟨[], ["c"], [], [], ["c"]⟩
    let a : FnScope := ⟨[], ["x", "b"], [], [], ["x", "b"]⟩
    PS.resolve { Current.scopeCfg with nonlocalPropagates := false } c [b, a] "x" = .global ∧
      Py.resolve c [b, a] "x" = .cell 2 ∧ PS.resolve Current.scopeCfg c [b, a] "x" = .cell 2 := by decide

/-- non-vacuity: a three-deep nest where the name is found two levels out, through a level that does not mention it -/
example :
    let c : FnScope := ⟨[], [], [], [], ["x", "y"]⟩
    let b : FnScope := ⟨[], ["y", "c"], [], [], ["y", "c"]⟩
    let a : FnScope := ⟨[], ["x", "b"], [], [], ["x", "b"]⟩
    PS.resolve Current.scopeCfg c [b, a] "x" = .cell 2 ∧ PS.resolve Current.scopeCfg c [b, a] "y" = .cell 1 ∧
      PS.resolve Current.scopeCfg c [b, a] "zz" = .global := by
  refine ⟨by decide, by decide, by decide⟩

/-! ## (c) which statements make a name local (`get_names_set`, `get_target_names`) -/

mutual
theorem locals_eq (cfg : BindCfg)
    (hall : cfg.annAssignBinds = true ∧ cfg.listTargets = true ∧ cfg.compVarNotLocal = true ∧ cfg.importBinds = true) :
    ∀ s : Stmt, s.Plainish → PS.locals cfg s = Py.locals s
  | .node k ts body, h => by
    unfold Stmt.Plainish at h
    rw [PS.locals, Py.locals, nodeNames_eq cfg hall k ts h.1, localsL_eq cfg hall body h.2]
theorem localsL_eq (cfg : BindCfg)
    (hall : cfg.annAssignBinds = true ∧ cfg.listTargets = true ∧ cfg.compVarNotLocal = true ∧ cfg.importBinds = true) :
    ∀ b : List Stmt, Stmt.PlainishL b → PS.localsL cfg b = Py.localsL b
  | [], _ => by simp [PS.localsL, Py.localsL]
  | s :: rest, h => by
    unfold Stmt.PlainishL at h
    rw [PS.localsL, Py.localsL, locals_eq cfg hall s h.1, localsL_eq cfg hall rest h.2]
end

/-- **The local names of a function body are Python's**, for bodies of any size and nesting and targets of any shape,
once the four repairs are in; outside: `del (a, b)` (a parenthesised del target list). -/
theorem C03_locals_partial (cfg : BindCfg)
    (hall : cfg.annAssignBinds = true ∧ cfg.listTargets = true ∧ cfg.compVarNotLocal = true ∧ cfg.importBinds = true)
    (body : List Stmt) (h : Stmt.PlainishL body) : PS.localsL cfg body = Py.localsL body :=
  localsL_eq cfg hall body h

/-- the code today is in that fragment -/
theorem C03_locals_current (body : List Stmt) (h : Stmt.PlainishL body) :
    PS.localsL Current.bindCfg body = Py.localsL body :=
  localsL_eq _ ⟨rfl, rfl, rfl, rfl⟩ body h

/-- the pre-fix code shapes are kept as witnesses: each repair was necessary -/
theorem C03_regress_annassign :
    PS.localsL { Current.bindCfg with annAssignBinds := false } [.node .ann [.name "v"] []] ≠ Py.localsL [.node .ann [.name "v"] []] := by
  decide
theorem C03_regress_list_target :
    PS.localsL { Current.bindCfg with listTargets := false } [.node .assign [.list [.name "a", .starred (.name "b")]] []]
      ≠ Py.localsL [.node .assign [.list [.name "a", .starred (.name "b")]] []] := by decide
theorem C03_regress_comp_var :
    PS.localsL { Current.bindCfg with compVarNotLocal := false } [.node .compVar [.name "x"] []] ≠ Py.localsL [.node .compVar [.name "x"] []] := by
  decide
theorem C03_regress_import :
    PS.localsL { Current.bindCfg with importBinds := false } [.node .importN [.name "m"] []] ≠ Py.localsL [.node .importN [.name "m"] []] := by
  decide
/-- what is left outside the fragment: `del (a, b)` makes a and b local in Python, `get_names_set` looks at plain names only -/
theorem C03_locals_del_tuple_cex :
    PS.localsL Current.bindCfg [.node .del [.tuple [.name "a", .name "b"]] []] ≠ Py.localsL [.node .del [.tuple [.name "a", .name "b"]] []] := by
  decide

/-- non-vacuity: a body using every binding form of the fragment -/
example : Stmt.PlainishL
    [.node .forT [.tuple [.name "i", .list [.name "j", .starred (.name "k")]]] [.node .aug [.name "t"] [], .node .del [.name "t", .other] []],
     .node .withT [.name "w"] [.node .handler [.name "e"] [.node .ann [.name "v"] []]], .node .defName [.name "g"] [],
     .node .importN [.name "m"] []] := by
  simp [Stmt.PlainishL, Stmt.Plainish]

/-! ## (d) the run-time life cycle of closure cells (`Model/C03Cells.lean` vs `Spec/C03Cells.lean`)

Proved here: the static halves of the two interpreters agree for every body (`C03_cells_locals`, `C03_cells_has_closure`);
every NAME OPERATION of pyscript's table discipline, applied to the table that stands for a Python frame (`absF`), does what
Python's operation does on that frame – for every frame, store, globals and every name the function mentions
(`C03_cells_read`, `_write`, `_unbind`; `del`, the comprehension, closure creation and call entry are not proved in general); the deviations are witnesses.  The lifting of these one-step
simulations to whole program runs (induction over the evaluator) is NOT proved: whole runs are tied by correspondence only. -/
namespace Cells

/-- `local_names` is Python's set of names bound in the body, for every body -/
theorem C03_cells_locals (fd : FnDef) : PS.localNames fd = Py.bound fd := localNames_eq fd

/-- `check_for_closure` finds a nested def exactly when there is one (which decides whether locals live in cells) -/
theorem C03_cells_has_closure (ss : List Stmt) : PS.hasInnerL ss = Py.hasDefL ss := hasInnerL_eq ss

/-- `ast_name` on the table = Python's read of the frame, for every mentioned name -/
theorem C03_cells_read (f : Py.Frame) (g : Glob) (s : Store) (x : String) (hx : x ∈ PS.names f.fd) :
    PS.read (absF f) g s x = Py.read f g s x := by
  simp only [PS.read, Py.read, absF, view, localNames_eq, List.contains_eq_mem]
  by_cases hg : x ∈ f.fd.globals
  · simp [hg]
    cases g x <;> rfl
  · rcases he : f.env x with _ | ⟨a, y⟩ <;> rcases hf : f.fast x with _ | v <;> rcases hgx : g x with _ | w <;>
      simp [hg, hx] <;> try (cases s a y <;> rfl)

/-- `recurse_assign` on the table = Python's assignment: same globals and store, and the new table stands for the new frame -/
theorem C03_cells_write (f : Py.Frame) (g : Glob) (s : Store) (x : String) (v : Val) (hx : x ∈ PS.names f.fd) :
    PS.write (absF f) g s x v = (absF (Py.write f g s x v).1, (Py.write f g s x v).2) := by
  by_cases hg : x ∈ f.fd.globals
  · simp [PS.write, Py.write, absF, hg]
  · rcases he : f.env x with _ | ⟨a, y⟩
    · have ht : (absF f).tab x = (f.fast x).map Entry.raw := by simp [absF, view, hx, hg, he]
      have hw : PS.write (absF f) g s x v = ({ absF f with tab := upd (absF f).tab x (some (.raw v)) }, g, s) := by
        simp only [PS.write]
        have : (absF f).globalNames.contains x = false := by simp [absF, hg]
        rw [this, ht]
        cases f.fast x <;> rfl
      rw [hw]
      simp only [Py.write, List.contains_eq_mem, hg, decide_false, Bool.false_eq_true, if_false, he]
      simp only [absF, Prod.mk.injEq, and_true]
      congr 1
      funext z
      by_cases hz : z = x
      · subst hz; simp [upd, hx, hg, view, he]
      · simp [upd, hz, view]
    · have ht : (absF f).tab x = some (.cell a y) := by simp [absF, view, hx, hg, he]
      simp [PS.write, Py.write, hg, he, absF, view, hx]

/-- the end of an `except … as x` clause -/
theorem C03_cells_unbind (f : Py.Frame) (g : Glob) (s : Store) (x : String) (hx : x ∈ PS.names f.fd) :
    PS.unbind (absF f) g s x = (absF (Py.unbind f g s x).1, (Py.unbind f g s x).2) := by
  by_cases hg : x ∈ f.fd.globals
  · simp [PS.unbind, Py.unbind, absF, hg]
  · rcases he : f.env x with _ | ⟨a, y⟩
    · have ht : (absF f).tab x = (f.fast x).map Entry.raw := by simp [absF, view, hx, hg, he]
      have hw : PS.unbind (absF f) g s x = ({ absF f with tab := upd (absF f).tab x none }, g, s) := by
        simp only [PS.unbind]
        have : (absF f).globalNames.contains x = false := by simp [absF, hg]
        rw [this, ht]
        cases f.fast x <;> rfl
      rw [hw]
      simp only [Py.unbind, List.contains_eq_mem, hg, decide_false, Bool.false_eq_true, if_false, he]
      simp only [absF, Prod.mk.injEq, and_true]
      congr 1
      funext z
      by_cases hz : z = x
      · subst hz; simp [upd, hx, hg, view, he]
      · simp [upd, hz, view]
    · have ht : (absF f).tab x = some (.cell a y) := by simp [absF, view, hx, hg, he]
      simp [PS.unbind, Py.unbind, hg, he, absF, view, hx]

/-- finding C03-F12 at the level of the operation: `del` of a declared-global name that does not exist -/
theorem C03_cells_del_global_cex :
    let f : Py.Frame := ⟨⟨"f", [], [.declG "x", .del "x"]⟩, fun _ => none, fun _ => none⟩
    (PS.del Current.cellCfg (absF f) (fun _ => none) (fun _ _ => none) "x").toOption.isSome = true ∧
    (Py.del f (fun _ => none) (fun _ _ => none) "x").toOption.isSome = false ∧
    (PS.del Cfg.repaired (absF f) (fun _ => none) (fun _ _ => none) "x").toOption.isSome = false := by
  refine ⟨by decide, by decide, by decide⟩

/-- finding C03-F17 at the level of the operation: inner function, free variable `x` (a shared cell that is unbound),
module global `x = 5`: the iterable of `[x for x in (x,)]` reads the global; Python raises NameError; with the iterable
evaluated first (`compIterFirst`) the table discipline raises too -/
theorem C03_cells_comp_iter_cex :
    let f : Py.Frame := ⟨⟨"inner", [], [.ret (.comp "x" [.var "x"] (.var "x"))]⟩, fun y => if y = "x" then some (0, "x") else none, fun _ => none⟩
    let g : Glob := fun y => if y = "x" then some (.int 5) else none
    (PS.comp Current.cellCfg (absF f) g (fun _ _ => none) "x" [.var "x"] (.var "x")).2.2.toOption = some [.int 5] ∧
    (Py.comp f g (fun _ _ => none) "x" [.var "x"] (.var "x")).2.2.toOption = none ∧
    (PS.comp Cfg.repaired (absF f) g (fun _ _ => none) "x" [.var "x"] (.var "x")).2.2.toOption = none := by
  refine ⟨by decide, by decide, by decide⟩

/-- finding C03-F13 at the level of the operation: the loop variable of a comprehension is a declared global: the loop
values are written through to the module global; Python (and the repaired shape) leave it alone -/
theorem C03_cells_comp_global_cex :
    let f : Py.Frame := ⟨⟨"f", [], [.declG "x", .expr (.comp "x" [.lit 5, .lit 6] (.var "x"))]⟩, fun _ => none, fun _ => none⟩
    let g : Glob := fun y => if y = "x" then some (.int 1) else none
    (PS.comp Current.cellCfg (absF f) g (fun _ _ => none) "x" [.lit 5, .lit 6] (.var "x")).2.1 "x" = some (.int 6) ∧
    (Py.comp f g (fun _ _ => none) "x" [.lit 5, .lit 6] (.var "x")).2.1 "x" = some (.int 1) ∧
    (PS.comp Cfg.repaired (absF f) g (fun _ _ => none) "x" [.lit 5, .lit 6] (.var "x")).2.1 "x" = some (.int 1) ∧
    (PS.comp Current.cellCfg (absF f) g (fun _ _ => none) "x" [.lit 5, .lit 6] (.var "x")).2.2.toOption = some [.int 5, .int 6] := by
  refine ⟨by decide, by decide, by decide, by decide⟩

end Cells

end PsModel.C03
