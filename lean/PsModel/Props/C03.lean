import PsModel.Spec.C03
namespace PsModel.C03
/-- placeholder obligation replaced below by the binding theorems -/
theorem C03_cex_posonly_kwargs :
    PS.bind Current.cfg Gen.TRIGGER_KWARGS ⟨["p"], [], 0, [], false, true⟩ [1] [("p", 2)]
      ≠ Spec.bind ⟨["p"], [], 0, [], false, true⟩ [1] [("p", 2)] := by decide
end PsModel.C03
