import PsModel.Lemmas.C03
/-!
# C03 – property theorems (a): argument binding of script functions

`PS.bind` = the index loop / pop / bad_kwargs / TRIGGER_KWARGS logic of `EvalFunc.call`; `Spec.bind` = Python's binding
rules stated per parameter.  The theorems hold for signatures with ANY number of parameters of each kind and calls with
any number of arguments.  (Name resolution, closures, classes: tied by correspondence only – see the manifest.)
-/
namespace PsModel.C03

/-- **Binding agrees with Python**, for every configuration of the positional-only flag, provided that
(H1) no *unexpected* keyword is one of the reserved trigger keywords when the function has no `**kwargs`
(the documented intended deviation), and (H2) either the repair is in, or the function has no `**kwargs`, or no keyword is
named like a positional-only parameter (finding C03-F1). -/
theorem C03_bind_partial (cfg : Cfg) (trig : List String) (s : Sig) (args : List Nat) (kw0 : KW)
    (hwf : WF s kw0)
    (htrig : s.kwarg = false → ∀ k ∈ kw0.keys, k ∉ Spec.kwNames s → k ∉ trig)
    (hpo : cfg.posonlyKwToKwargs = true ∨ s.kwarg = false ∨ ∀ k ∈ kw0.keys, k ∉ s.posonly) :
    PS.bind cfg trig s args kw0 = Spec.bind s args kw0 := by
  obtain ⟨hnd, _, _⟩ := hwf
  have hnd' := List.nodup_append.mp hnd
  have hndP : s.params.Nodup := hnd'.1
  have hndK : (s.kwonly.map (·.1)).Nodup := hnd'.2.1
  have hdisj : ∀ p ∈ s.params, p ∉ s.kwonly.map (·.1) := fun p hp hk => hnd'.2.2 p hp p hk rfl
  have hndPA := List.nodup_append.mp (show (s.posonly ++ s.args).Nodup from hndP)
  unfold PS.bind
  rw [posLoop_char cfg s args kw0 s.params 0 kw0 false hndP (fun p _ => ⟨rfl, rfl⟩)]
  by_cases hN : NoPoKw cfg s kw0 0 s.params
  · rw [psSlots_of_NoPoKw cfg s args kw0 s.params 0 hN, multFrom_params, badKw_of_NoPoKw cfg s args kw0 s.params 0 hN]
    unfold Spec.bind
    by_cases hm : Spec.multiple s args kw0 = true
    · simp [hm]
    · simp only [hm, Bool.false_eq_true, if_false]
      cases hps : Spec.posSlots s args kw0 0 s.params with
      | none =>
        simp only [Option.map_none]
        split <;> (try rfl)
        split <;> rfl
      | some sl1 =>
        simp only [Option.map_some, Bool.or_false, Bool.false_eq_true, if_false]
        -- the keyword-only loop runs on the keywords left by the positional loop
        have hinvK : ∀ k ∈ s.kwonly.map (·.1),
            (kw0.eraseList (takenKw cfg s args kw0 0 s.params)).has k = kw0.has k ∧
            (kw0.eraseList (takenKw cfg s args kw0 0 s.params)).get k = kw0.get k := by
          intro k hk
          have hnt : k ∉ takenKw cfg s args kw0 0 s.params := fun ht =>
            hdisj k (takenKw_subset cfg s args kw0 s.params 0 k ht) hk
          exact ⟨KW.has_eraseList _ _ hnt _, KW.get_eraseList _ _ hnt _⟩
        rw [kwonlyLoop_char kw0 s.kwonly 0 _ hndK hinvK]
        cases hks : Spec.kwoSlots kw0 0 s.kwonly with
        | none =>
          simp only [Option.map_none]
          split <;> (try rfl)
          split <;> rfl
        | some sl2 =>
          simp only [Option.map_some]
          -- what is left is exactly the reference's `extras`
          have hkw2 : (kw0.eraseList (takenKw cfg s args kw0 0 s.params)).eraseList (kwoTaken kw0 s.kwonly)
              = kw0.filter (fun p => !(Spec.kwNames s).contains p.1) := by
            rw [KW.eraseList_filter, KW.eraseList_filter, List.filter_filter]
            apply List.filter_congr
            intro e he
            have hhas : kw0.has e.1 = true := (KW.has_iff_mem_keys kw0 e.1).mpr (List.mem_map.mpr ⟨e, he, rfl⟩)
            have htk : takenKw cfg s args kw0 0 s.params = takenKw cfg s args kw0 s.posonly.length s.args := by
              have := takenKw_prefix cfg s args kw0 s.posonly 0 s.args (by omega) hN
              simpa [Sig.params] using this
            have hmf : multFrom s args kw0 s.posonly.length s.args = false := by
              have := multFrom_args s args kw0 s.args s.posonly.length (Nat.le_refl _)
              rw [this]; simpa [Spec.multiple] using hm
            by_cases hin : e.1 ∈ Spec.kwNames s
            · have hc : (Spec.kwNames s).contains e.1 = true := by simpa using hin
              simp only [hc, Bool.not_true]
              simp only [Spec.kwNames, List.mem_append] at hin
              rcases hin with ha | hk
              · have : e.1 ∈ takenKw cfg s args kw0 0 s.params := by
                  rw [htk]; exact mem_takenKw_args cfg s args kw0 s.args _ (Nat.le_refl _) hmf e.1 ha hhas
                simp [this]
              · have : e.1 ∈ kwoTaken kw0 s.kwonly := (mem_kwoTaken kw0 s.kwonly e.1).mpr ⟨hk, hhas⟩
                simp [this]
            · have hc : (Spec.kwNames s).contains e.1 = false := by simpa using hin
              simp only [hc, Bool.not_false]
              simp only [Spec.kwNames, List.mem_append, not_or] at hin
              have h1 : e.1 ∉ takenKw cfg s args kw0 0 s.params := by
                rw [htk]; intro ht; exact hin.1 (takenKw_subset cfg s args kw0 s.args _ e.1 ht)
              have h2 : e.1 ∉ kwoTaken kw0 s.kwonly := fun ht => hin.2 ((mem_kwoTaken kw0 s.kwonly e.1).mp ht).1
              simp [h1, h2]
          rw [hkw2]
          -- the TRIGGER_KWARGS exemption is vacuous under H1
          have hall : s.kwarg = false →
              ((KW.keys (kw0.filter (fun p => !(Spec.kwNames s).contains p.1))).all fun k => trig.contains k)
                = (kw0.filter (fun p => !(Spec.kwNames s).contains p.1)).isEmpty := by
            intro hk
            cases hx : kw0.filter (fun p => !(Spec.kwNames s).contains p.1) with
            | nil => simp [KW.keys]
            | cons e es =>
              have he : e ∈ kw0.filter (fun p => !(Spec.kwNames s).contains p.1) := by rw [hx]; simp
              have he' := List.mem_filter.mp he
              have hnot : e.1 ∉ Spec.kwNames s := by simpa using he'.2
              have := htrig hk e.1 (List.mem_map.mpr ⟨e, he'.1, rfl⟩) hnot
              simp [KW.keys, this]
          cases hkw : s.kwarg with
          | true => simp [hkw]
          | false =>
            simp only [hkw, Bool.not_false, Bool.true_and, hall hkw]
  · -- some positional-only parameter is (wrongly) matched by a keyword: both sides fail
    have hPS : (psSlots cfg s args kw0 0 s.params).map (fun sl =>
        (sl, kw0.eraseList (takenKw cfg s args kw0 0 s.params), false || badKw cfg s args kw0 0 s.params)) = none ∨
        badKw cfg s args kw0 0 s.params = true := by
      rcases fail_of_not_NoPoKw cfg s args kw0 s.params 0 hN with h | h
      · left; simp [h]
      · right; exact h
    obtain ⟨p, hp, hh, hflag⟩ := exists_of_not_NoPoKw cfg s kw0 s.params 0 hN
    have hppo : p ∈ s.posonly := by
      simp only [Nat.sub_zero, Sig.params, List.take_left'] at hp
      exact hp
    have hkey : p ∈ kw0.keys := (KW.has_iff_mem_keys kw0 p).mp hh
    have hkwarg : s.kwarg = false := by
      rcases hpo with h | h | h
      · simpa [h] using hflag
      · exact h
      · exact absurd hppo (h p hkey)
    have hnotin : p ∉ Spec.kwNames s := by
      simp only [Spec.kwNames, List.mem_append, not_or]
      exact ⟨fun ha => hndPA.2.2 p hppo p ha rfl, hdisj p (by simp [Sig.params, hppo])⟩
    have hne : (kw0.filter fun q => !(Spec.kwNames s).contains q.1).isEmpty = false := by
      obtain ⟨e, he, rfl⟩ := List.mem_map.mp hkey
      have : e ∈ kw0.filter fun q => !(Spec.kwNames s).contains q.1 :=
        List.mem_filter.mpr ⟨he, by simpa using hnotin⟩
      cases hx : kw0.filter fun q => !(Spec.kwNames s).contains q.1 with
      | nil => rw [hx] at this; simp at this
      | cons a b => rfl
    have hc : (!s.kwarg && !(kw0.filter fun q => !(Spec.kwNames s).contains q.1).isEmpty) = true := by
      rw [hkwarg, hne]; rfl
    have hspec : Spec.bind s args kw0 = none := by
      unfold Spec.bind
      simp only [hc, if_true]
      split <;> rfl
    rw [hspec]
    rcases hPS with h | h
    · rw [h]
    · cases hsl : psSlots cfg s args kw0 0 s.params with
      | none => rfl
      | some sl => simp [h]

/-- **Today's code** (flag off). -/
theorem C03_bind_current (s : Sig) (args : List Nat) (kw0 : KW) (hwf : WF s kw0)
    (htrig : s.kwarg = false → ∀ k ∈ kw0.keys, k ∉ Spec.kwNames s → k ∉ Gen.TRIGGER_KWARGS) :
    PS.bind Current.cfg Gen.TRIGGER_KWARGS s args kw0 = Spec.bind s args kw0 :=
  C03_bind_partial Current.cfg Gen.TRIGGER_KWARGS s args kw0 hwf htrig (Or.inl rfl)

/-- the loop as it was before the `fix:` commit: agreement only without a positional-only name among the keywords -/
theorem C03_bind_prefix_partial (s : Sig) (args : List Nat) (kw0 : KW) (hwf : WF s kw0)
    (htrig : s.kwarg = false → ∀ k ∈ kw0.keys, k ∉ Spec.kwNames s → k ∉ Gen.TRIGGER_KWARGS)
    (hpo : s.kwarg = false ∨ ∀ k ∈ kw0.keys, k ∉ s.posonly) :
    PS.bind Cfg.preFix Gen.TRIGGER_KWARGS s args kw0 = Spec.bind s args kw0 :=
  C03_bind_partial Cfg.preFix Gen.TRIGGER_KWARGS s args kw0 hwf htrig (Or.inr hpo)

/-- **Full statement for the repaired loop**: no positional-only hypothesis left. -/
theorem C03_bind_full (trig : List String) (s : Sig) (args : List Nat) (kw0 : KW) (hwf : WF s kw0)
    (htrig : s.kwarg = false → ∀ k ∈ kw0.keys, k ∉ Spec.kwNames s → k ∉ trig) :
    PS.bind { posonlyKwToKwargs := true } trig s args kw0 = Spec.bind s args kw0 :=
  C03_bind_partial _ trig s args kw0 hwf htrig (Or.inl rfl)

/-- witness of (fixed) C03-F1 on the pre-fix loop: `def f(p, /, **kw)` called `f(1, p=2)` -/
theorem C03_regress_posonly_kwargs :
    PS.bind Cfg.preFix Gen.TRIGGER_KWARGS ⟨["p"], [], 0, [], false, true⟩ [1] [("p", 2)]
      ≠ Spec.bind ⟨["p"], [], 0, [], false, true⟩ [1] [("p", 2)] := by decide

/-- the intended deviation: a reserved trigger keyword that no parameter accepts is dropped, nothing else changes -/
theorem C03_trigger_kw_example :
    PS.bind Current.cfg Gen.TRIGGER_KWARGS ⟨[], ["a"], 0, [], false, false⟩ [1] [("trigger_type", 5)]
      = PS.bind Current.cfg Gen.TRIGGER_KWARGS ⟨[], ["a"], 0, [], false, false⟩ [1] [] ∧
    Spec.bind ⟨[], ["a"], 0, [], false, false⟩ [1] [("trigger_type", 5)] = none := by decide

/-- non-vacuity of the hypotheses on a signature with every parameter kind -/
example : WF ⟨["p"], ["a", "b"], 1, [("k", true), ("m", false)], true, true⟩ [("b", 1), ("m", 2), ("zz", 3)] := by
  refine ⟨by decide, by decide, by decide⟩

end PsModel.C03
