import PsModel.Util.Sexp
import PsModel.Model.C20
import PsModel.Spec.C20
/-! line-protocol front end of the C20 model

    C20 (run (site (p v)…) (index (p v)…) (rec (p v)…) (steps (allow (ext (p v)|(p) …) (files (id (comp…) (line…))…))…))
    → model=(<step> …) spec=(<spec table> …)
-/
namespace PsModel.C20
open PsModel

def s2l (s : String) : Str := s.toList
def l2s (l : Str) : String := String.ofList l

def pair? (x : Sexp) : Option (Str × Str) :=
  match x with
  | .list [.atom a, .atom b] => some (s2l a, s2l b)
  | _ => none

def ext? (x : Sexp) : Option (Str × Option Str) :=
  match x with
  | .list [.atom a, .atom b] => some (s2l a, some (s2l b))
  | .list [.atom a] => some (s2l a, none)
  | _ => none

def tagged? (tag : String) (x : Sexp) : Option (List Sexp) :=
  match x with
  | .list (.atom t :: rest) => if t == tag then some rest else none
  | _ => none

def file? (x : Sexp) : Option File :=
  match x with
  | .list [i, .list comps, .list lines] => do
    let id ← i.nat?
    let cs ← Sexp.mapM? Sexp.str? comps
    let ls ← Sexp.mapM? Sexp.str? lines
    pure { id := id, dir := cs.map s2l, lines := ls.map s2l }
  | _ => none

structure Step where
  allow : Bool
  ext : List (Str × Option Str)
  files : List File

def step? (x : Sexp) : Option Step :=
  match x with
  | .list [a, e, f] => do
    let allow ← a.bool?
    let es ← tagged? "ext" e
    let fs ← tagged? "files" f
    let ext ← Sexp.mapM? ext? es
    let files ← Sexp.mapM? file? fs
    pure { allow := allow, ext := ext, files := files }
  | _ => none

def sxs (s : Str) : Sexp := .atom (l2s s)

def showEntry (e : Entry) : Sexp :=
  .list [sxs e.name, sxs e.version, .list (e.sources.map sxn),
         .list (match e.installed with | some i => [sxs i] | none => [])]

def showRec (r : Rec) : Sexp := .list (r.map (fun kv => .list [sxs kv.1, sxs kv.2]))

def showOut (w : World) (o : Out) : Sexp :=
  .list [.list (.atom "T" :: o.table.map showEntry),
         (match o.args with
          | some as => .list (.atom "A" :: as.map sxs)
          | none => .atom "noinstall"),
         .list [.atom "R", showRec o.rec'],
         .atom (if o.updated then "U1" else "U0"),
         .atom (match o.exc with | some e => "E:" ++ e | none => "E-"),
         .list [.atom "W", showRec w.site]]

def applyExt (site : Rec) : List (Str × Option Str) → Rec
  | [] => site
  | (p, some v) :: r => applyExt (rset site p v) r
  | (p, none) :: r => applyExt (rpop site p) r

def runSteps (w : World) (r : Rec) : List Step → List Sexp → List Sexp → List Sexp × List Sexp
  | [], accM, accS => (accM.reverse, accS.reverse)
  | st :: rest, accM, accS =>
    let w1 : World := { w with site := applyExt w.site st.ext }
    let ls := allLines current st.files
    let (w2, o) := runOnce current numVer w1 st.allow r ls
    let spec := specTable numVer (ls.map (·.2))
    runSteps w2 o.rec' rest (showOut w2 o :: accM)
      (Sexp.list (spec.map (fun kv => .list [sxs kv.1, sxs kv.2])) :: accS)

def handle (x : Sexp) : String :=
  match x with
  | .list [.atom "run", s, i, r, st] =>
    match (do
      let site ← tagged? "site" s >>= Sexp.mapM? pair?
      let index ← tagged? "index" i >>= Sexp.mapM? pair?
      let recd ← tagged? "rec" r >>= Sexp.mapM? pair?
      let steps ← tagged? "steps" st >>= Sexp.mapM? step?
      pure (site, index, recd, steps)) with
    | some (site, index, recd, steps) =>
      let (m, sp) := runSteps { site := site, index := index } recd steps [] []
      s!"model={(Sexp.list m).render} spec={(Sexp.list sp).render}"
    | none => "err parse"
  | .list [.atom "ver", .atom a, .atom b] =>       -- version instance probe: validity and comparison
    match numVer.parse (s2l a), numVer.parse (s2l b) with
    | some x, some y => s!"ok {if numVer.le x y then 1 else 0} {if numVer.le y x then 1 else 0}"
    | none, _ => "invalid-a"
    | _, none => "invalid-b"
  | _ => "err bad-command"

end PsModel.C20
