import PsModel.Util.Sexp
import PsModel.Model.C02
import PsModel.Spec.C02
/-! line-protocol front end of the C02 model:  `C02 (run (tape …) (stmt …))` → `model=<log|res> spec=<log|res>` -/
namespace PsModel.C02
open PsModel

/-- the class lattice used by the harness: 0 = Exception (every class that is not BaseException-only), 1 = BaseException
(everything), 10 = E0, 11 = E1 ⊂ E0, 12 = E2, 100 = RuntimeError, 101 = AssertionError, 102 = TypeError;
BaseException-only (`baseOnly`): 200 = B0, 201 = CancelledError, 202 = SystemExit, 203 = KeyboardInterrupt, 204 = GeneratorExit -/
def drvSub (a b : Nat) : Bool := a == b || (b == 0 && !baseOnly a) || b == 1 || (a == 11 && b == 10)

def optNat? : Sexp → Option (Option Nat)
  | .atom "-" => some none
  | x => x.nat?.map some

def witem? : Sexp → Option WItem
  | .list [k, er, sup] => do
    let id ← k.nat?; let e ← optNat? er; let s ← sup.bool?
    pure { id := id, enterRaises := e, suppress := s }
  | .list [k, er, sup, br] => do
    let id ← k.nat?; let e ← optNat? er; let s ← sup.bool?; let b ← optNat? br
    pure { id := id, enterRaises := e, suppress := s, bindRaises := b }
  | .list [k, er, sup, br, xr] => do
    let id ← k.nat?; let e ← optNat? er; let s ← sup.bool?; let b ← optNat? br; let x ← optNat? xr
    pure { id := id, enterRaises := e, suppress := s, bindRaises := b, exitRaises := x }
  | _ => none

mutual
partial def stmt? : Sexp → Option Stmt
  | .list [.atom "T", i] => i.nat?.map .tick
  | .atom "break" => some .brk
  | .atom "continue" => some .cont
  | .atom "reraise" => some .reraise
  | .list [.atom "ret", v] => v.nat?.map .ret
  | .list [.atom "raise", c, cause] => do let c ← c.nat?; let k ← optNat? cause; pure (.raise c k)
  | .list [.atom "assert", i] => i.nat?.map .assert_
  | .list [.atom "S", i] => i.nat?.map .suspend
  | .list [.atom "if", i, b, o] => do pure (.ite (← i.nat?) (← block? b) (← block? o))
  | .list [.atom "while", i, b, o] => do pure (.while_ (← i.nat?) (← block? b) (← block? o))
  | .list [.atom "for", i, b, o] => do pure (.for_ (← i.nat?) (← block? b) (← block? o))
  | .list [.atom "try", b, .list hs, o, f] => do
    pure (.try_ (← block? b) (← hs.mapM handler?) (← block? o) (← block? f))
  | .list [.atom "with", items, b] => do pure (.with_ (← Sexp.listOf? witem? items) (← block? b))
  | _ => none
partial def block? : Sexp → Option (List Stmt)
  | .list xs => xs.mapM stmt?
  | _ => none
partial def handler? : Sexp → Option Handler
  | .list [.atom "any", b] => do pure (.mk none .plain (← block? b))
  | .list [cs, b] => do pure (.mk (some (← Sexp.listOf? Sexp.nat? cs)) .plain (← block? b))
  | .list [cs, .list [.atom "tick", i], b] => do pure (.mk (some (← Sexp.listOf? Sexp.nat? cs)) (.tick (← i.nat?)) (← block? b))
  | .list [cs, .list [.atom "raises", i, c], b] => do
    pure (.mk (some (← Sexp.listOf? Sexp.nat? cs)) (.raises (← i.nat?) (← c.nat?)) (← block? b))
  | _ => none
end

def showEv : Ev → String
  | .tick i => s!"T{i}"
  | .init k => s!"in{k}"
  | .enter k => s!"en{k}"
  | .exit k none => s!"ex{k}:-"
  | .exit k (some c) => s!"ex{k}:{c}"

def showExc (e : Exc) : String :=
  match e.cause with
  | none => s!"exc:{e.cls}"
  | some c => s!"exc:{e.cls}/{c}"

def showRes : Option (Except Exc (Option Nat)) → String
  | none => "jump-at-function-boundary"
  | some (.ok none) => "none"
  | some (.ok (some v)) => s!"ret:{v}"
  | some (.error e) => showExc e

def showRun (r : Option (Except Exc (Option Nat)) × World) : String :=
  ",".intercalate (r.2.log.map showEv) ++ "|" ++ showRes r.1

def fuel : Nat := 1000000

def cfg? : Sexp → Option Cfg
  | .list [a, b, c] => do pure { loopElsePropagates := (← a.bool?), withNested := (← b.bool?), catchesBase := (← c.bool?) }
  | _ => none

def mev? : Sexp → Option MEv
  | .list [.atom "ret", a, n, v] => do pure (.ret (← a.nat?) (← n.nat?) (← v.nat?))
  | .list [.atom "take", a] => a.nat?.map .take
  | _ => none

def showRets (rs : List (Nat × Option Nat)) : String :=
  ",".intercalate (rs.map fun (a, v) => match v with | some v => s!"{a}={v}" | none => s!"{a}=None")

def handle (x : Sexp) : String :=
  match x with
  | .list (.atom "markers" :: evs) =>
    match evs.mapM mev? with
    | some es => s!"model={showRets (MStore.run Current.markerAlloc es)} spec={showRets (RetSpec.run es)}"
    | none => "err parse"
  | .list [.atom "run", .list (.atom "tape" :: tape), body] =>
    match tape.mapM Sexp.nat?, block? body with
    | some t, some b =>
      let w : World := { tape := t }
      let m := PS.bodyStmts Current.cfg drvSub fuel b w
      let s := Py.callBody drvSub fuel b w
      s!"model={showRun (some m.1, m.2)} spec={showRun s}"
    | _, _ => "err parse"
  | .list [.atom "runcfg", c, .list (.atom "tape" :: tape), body] =>
    match cfg? c, tape.mapM Sexp.nat?, block? body with
    | some c, some t, some b =>
      let w : World := { tape := t }
      let m := PS.bodyStmts c drvSub fuel b w
      s!"model={showRun (some m.1, m.2)}"
    | _, _, _ => "err parse"
  | _ => "err bad-command"

end PsModel.C02
