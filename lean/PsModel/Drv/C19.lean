import PsModel.Util.Sexp
import PsModel.Util.Hex
import PsModel.Model.C19
import PsModel.Spec.C19
import PsModel.Model.C19Kernel
import PsModel.Spec.C19Kernel
/-! line-protocol front end of the C19 model -/
namespace PsModel.C19
open PsModel

def hexList? (x : Sexp) : Option (List Bytes) := Sexp.listOf? (fun a => a.str? >>= Hex.toBytes) x

def showParts (ps : List Bytes) : String := "(" ++ " ".intercalate (ps.map Hex.ofBytes) ++ ")"

def showErr : RecvErr → String
  | .eof => "err eof"
  | .badCommand => "err badcommand"

def mtype? : String → Option MsgType
  | "execute_request" => some .execute | "kernel_info_request" => some .kernelInfo
  | "complete_request" => some .complete | "is_complete_request" => some .isComplete
  | "comm_info_request" => some .commInfo | "history_request" => some .history
  | "comm_open" => some .comm | "comm_msg" => some .comm | "comm_close" => some .comm
  | _ => some .unknown

def showOut (o : Out) : String :=
  let c := match o.count with | some n => toString n | none => "-"
  let p := match o.payload with | some n => toString n | none => "-"
  s!"({o.stream} {showParts o.idents} {o.msgType} {o.parent} {c} {p})"

/-- request: (valid mtype store cell result idents header) ; result = (v n) | none | (e n) -/
def req? (x : Sexp) : Option (Request × CellResult) :=
  match x with
  | .list [v, .atom mt, st, cell, res, ids, hd] => do
    let valid ← v.bool?
    let m ← mtype? mt
    let store ← st.bool?
    let c ← cell.nat?
    let h ← hd.nat?
    let idents ← hexList? ids
    let r ← match res with
      | .list [.atom "v", n] => n.nat? >>= fun k => some (CellResult.value k)
      | .list [.atom "e", n] => n.nat? >>= fun k => some (CellResult.error k)
      | _ => some CellResult.none
    pure ({ idents := idents, sig := if valid then [1] else [0], frames := [], header := h, mtype := m,
            storeHistory := store, cell := c }, r)
  | _ => none

/-- run a request sequence; the abstract MAC of the (abstracted) frames is `[1]` -/
def runShell (reqs : List (Request × CellResult)) : String :=
  let rec go (s : KState) (rs : List (Request × CellResult)) (acc : List String) : List String :=
    match rs with
    | [] => acc.reverse
    | (r, res) :: rest =>
      match shellStep (fun _ => [1]) (fun _ => res) s r with
      | .rejected => ("rejected" :: acc).reverse      -- listener dies: nothing further is processed
      | .handled s' outs => go s' rest (("(" ++ " ".intercalate (outs.map showOut) ++ s!" count={s'.count})") :: acc)
  " ".intercalate (go {} reqs [])

/-! ## round 4: greeting, wire messages, every message type, control, heartbeat, housekeeping, one connection -/

def asciiOf (b : Bytes) : String := String.ofList (b.map Char.ofNat)

def showSub : Sub → String
  | .none => "-" | .busy => "busy" | .idle => "idle" | .ok => "ok" | .error => "error"
  | .complete => "complete" | .incomplete n => s!"incomplete:{n}" | .invalid => "invalid"

def showChan : Chan → String
  | .shell => "shell" | .control => "control" | .iopub => "iopub" | .stdin => "stdin" | .hb => "hb"

def chan? : String → Option Chan
  | "shell" => some .shell | "control" => some .control | "iopub" => some .iopub | "stdin" => some .stdin | "hb" => some .hb
  | _ => none

def showKOut (o : KOut) : String :=
  let c := match o.count with | some n => toString n | none => "-"
  let p := match o.payload with | some n => toString n | none => "-"
  s!"({showChan o.chan} {showParts o.idents} {asciiOf o.mtype} {showSub o.sub} {o.parent} {c} {p})"

def showOuts (os : List KOut) : String := "[" ++ " ".intercalate (os.map showKOut) ++ "]"

def res? : Sexp → CellResult
  | .list [.atom "v", n] => match n.nat? with | some k => .value k | none => .none
  | .list [.atom "e", n] => match n.nat? with | some k => .error k | none => .none
  | _ => .none

/-- parse outcome: `ok` | `(exc syntax eofish lineno)` with lineno = `na` | `none` | n -/
def parse? : Sexp → Option ParseOutcome
  | .atom "ok" => some .ok
  | .list [.atom "exc", sy, eo, ln] => do
    let a ← sy.bool?
    let b ← eo.bool?
    let l ← match ln with
      | .atom "na" => some none
      | .atom "none" => some (some none)
      | x => x.nat? >>= fun n => some (some (some n))
    pure (.exc a b l)
  | _ => none

def hexOf? (x : Sexp) : Option Bytes := x.str? >>= Hex.toBytes

/-- info: (hid mtype-hex store cell res code-hex parse) -/
def info? : Sexp → Option (Info × CellResult)
  | .list [hd, mt, st, cell, res, code, pr] => do
    let h ← hd.nat?
    let m ← hexOf? mt
    let s ← st.bool?
    let c ← cell.nat?
    let cd ← hexOf? code
    let p ← parse? pr
    pure ({ header := h, mtype := m, storeHistory := s, cell := c, code := cd, parse := p }, res? res)
  | _ => none

def catch? : Sexp → Option Bool
  | .atom "cur" => some Current.catchAll
  | x => x.bool?

def validate? : Sexp → Option Bool
  | .atom "cur" => some Current.validate
  | x => x.bool?

def showIsComplete : IsComplete → String
  | .complete => "complete" | .incomplete n => s!"incomplete:{n}" | .invalid => "invalid" | .crash => "crash"

/-- a session event: (chan kind idents info) with kind = ok | nodelim | short | badjson | badsig | nosig.  The wire message is
built here in the shape the harness builds the real one: frames `[[k], [], [], []]` for event number k, MAC `[1]`. -/
structure SEv where
  ch : Chan
  wire : List Bytes
  info : Info
  res : CellResult

def sev? (k : Nat) : Sexp → Option SEv
  | .list [.atom c, .atom kind, ids, inf] => do
    let ch ← chan? c
    let idents ← hexList? ids
    let (i, r) ← info? inf
    let frames : List Bytes := [[k], [], [], []]
    let wire ← match kind with
      | "ok" => some (idents ++ [Gen.DELIM, [1]] ++ frames)
      | "nodelim" => some (idents ++ [[1]] ++ frames)
      | "short" => some (idents ++ [Gen.DELIM, [1]] ++ frames.take 3)
      | "nosig" => some (idents ++ [Gen.DELIM])
      | "badjson" => some (idents ++ [Gen.DELIM, [1]] ++ [[k], [255], [], []])
      | "badsig" => some (idents ++ [Gen.DELIM, [0]] ++ frames)
      | "extra" => some (idents ++ [Gen.DELIM, [1]] ++ frames ++ [Gen.DELIM, [7]])
      | _ => none
    pure { ch := ch, wire := wire, info := i, res := r }
  | _ => none

def sevs? : Nat → List Sexp → Option (List SEv)
  | _, [] => some []
  | k, x :: xs => do
    let e ← sev? k x
    let rest ← sevs? (k + 1) xs
    pure (e :: rest)

def sessEnv (catchAll : Bool) (evs : List SEv) : Env :=
  { sign := fun _ => [1]
    jsonOk := fun f => f != [255]
    info := fun frames => match evs[(frames.headD []).headD 0]? with
      | some e => e.info
      | none => { header := 0, mtype := [] }
    run := fun c => match evs[c]? with          -- the cell id of event k is k
      | some e => e.res
      | none => .none
    catchAll := catchAll }

def runSess (catchAll : Bool) (evs : List SEv) : String :=
  let E := sessEnv catchAll evs
  let tr := trace E {} (evs.map fun e => (e.ch, e.wire))
  " ".intercalate (tr.map fun t => s!"{showOuts t.outs} up={if t.after.up then 1 else 0} n={t.after.shutdowns} count={t.after.k.count}")

def hkEv? : Sexp → Option SessEv
  | .atom "stdout" => some (.hk .stdout) | .atom "handshake" => some (.hk .handshake)
  | .atom "register" => some (.hk .register) | .atom "unregister" => some (.hk .unregister)
  | .atom "shutdown" => some (.hk .shutdown) | .atom "external" => some .external
  | _ => none

def showEnd : ConnEnd → String
  | .eof => "eof" | .badGreeting => "badgreeting" | .badCommand => "badcommand" | .crashed => "crashed"
  | .badMessage .noDelim => "bad:nodelim" | .badMessage .index => "bad:index" | .badMessage .json => "bad:json"
  | .badMessage .sig => "bad:sig"

def pairs? {α} (f : Sexp → Option α) : Sexp → Option (List (List Bytes × α))
  | .list xs => xs.mapM fun x => match x with
    | .list [k, v] => do let kk ← hexList? k; let vv ← f v; pure (kk, vv)
    | _ => none
  | _ => none

def lookupL {α} (k : List Bytes) : List (List Bytes × α) → Option α
  | [] => none
  | (a, b) :: r => if a = k then some b else lookupL k r

def handleK (x : Sexp) : Option String :=
  match x with
  | .list [.atom "hs", v, ty, cs] => do
    let vv ← validate? v
    let t ← hexOf? ty
    let chunks ← hexList? cs
    let r := handshake vv t chunks
    pure (match r.status with
      | .ok => s!"ok {Hex.ofBytes r.written} {Hex.ofBytes r.rest.flatten}"
      | .eof => s!"eof {Hex.ofBytes r.written}"
      | .bad => s!"bad {Hex.ofBytes r.written}")
  | .list [.atom "des", ws, oks, sigs] => do
    let wire ← hexList? ws
    let okl ← hexList? oks
    let sl ← hexList? sigs
    let sign : List Bytes → Bytes := fun fr => sl.getD (wire.length - fr.length) [256]
    pure (match deserialize sign (fun f => okl.contains f) wire with
      | .ok (ids, frames) => s!"ok {showParts ids} {showParts frames}"
      | .error .noDelim => "err nodelim" | .error .index => "err index"
      | .error .json => "err json" | .error .sig => "err sig")
  | .list [.atom "ser", ids, frames, sg] => do
    let i ← hexList? ids
    let f ← hexList? frames
    let s ← hexOf? sg
    pure ("ok " ++ showParts (serialize (fun _ => s) i f))
  | .list [.atom "isc", c, code, pr] => do
    let cc ← catch? c
    let cd ← hexOf? code
    let p ← parse? pr
    pure (showIsComplete (isComplete cc cd p) ++ (if lastIndent cd = specIndent cd then "" else " SPEC-MISMATCH"))
  | .list [.atom "croot", code] => do
    let cd ← hexOf? code
    pure ("ok " ++ Hex.ofBytes (complRoot cd))
  | .list [.atom "hb", cs] => do
    let chunks ← hexList? cs
    pure (match hbEcho chunks with
      | .ok (m, rest) => s!"ok {Hex.ofBytes m} {Hex.ofBytes rest.flatten}"
      | .error e => showErr e)
  | .list [.atom "sess", c, .list evs] => do
    let cc ← catch? c
    let es ← sevs? 0 evs
    pure (runSess cc es)
  | .list [.atom "hk", .list evs] => do
    let es ← evs.mapM hkEv?
    let f := sessRun {} es
    pure s!"up={if f.up then 1 else 0} n={f.shutdowns} cnt={f.taskCnt} max={f.taskCntMax} stdout={f.stdoutSent}"
  | .list [.atom "conn", v, c, cs, oks, sigtab, infos] => do
    let vv ← validate? v
    let cc ← catch? c
    let chunks ← hexList? cs
    let okl ← hexList? oks
    let st ← pairs? hexOf? sigtab
    let inf ← pairs? info? infos
    let E : Env :=
      { sign := fun fr => (lookupL fr st).getD [256]
        jsonOk := fun f => okl.contains f
        info := fun fr => match lookupL [fr.headD [], fr.getD 3 []] inf with
          | some (i, _) => i
          | none => { header := 0, mtype := [] }
        run := fun c => match inf[c]? with
          | some (_, (_, r)) => r
          | none => .none
        catchAll := cc }
    let r := shellConn E vv {} chunks
    pure s!"{Hex.ofBytes r.1} {" ".intercalate (r.2.2.1.map showOuts)} end={showEnd r.2.2.2} count={r.2.1.count}"
  | _ => none

def handle (x : Sexp) : String :=
  match x with
  | .list [.atom "enc", ps] =>
    match hexList? ps with
    | some parts => if parts.isEmpty then "err empty" else "ok " ++ Hex.ofBytes (encodeMultipart parts)
    | none => "err parse"
  | .list [.atom "encs", .atom m] =>
    match Hex.toBytes m with
    | some b => "ok " ++ Hex.ofBytes (encodeSingle b)
    | none => "err parse"
  | .list [.atom "recv", cs] =>
    match hexList? cs with
    | some chunks =>
      match flatRes (recvMultipart chunks) with
      | .ok (ps, rest) => s!"ok {showParts ps} {Hex.ofBytes rest}"
      | .error e => showErr e
    | none => "err parse"
  | .list [.atom "recvs", cs] =>
    match hexList? cs with
    | some chunks =>
      match recvSingle chunks with
      | .ok (m, rest) => s!"ok {Hex.ofBytes m} {Hex.ofBytes rest.flatten}"
      | .error e => showErr e
    | none => "err parse"
  | .list [.atom "shell", .list rs] =>
    match Sexp.mapM? req? rs with
    | some reqs => runShell reqs
    | none => "err parse"
  | .list [.atom "split", ps] =>
    match hexList? ps with
    | some parts =>
      match splitWire parts with
      | some (ids, sig, frames) => s!"ok {showParts ids} {Hex.ofBytes sig} {showParts frames}"
      | none => "err nodelim"
    | none => "err parse"
  | _ => (handleK x).getD "err bad-command"

end PsModel.C19
