import PsModel.Util.Sexp
import PsModel.Util.Hex
import PsModel.Model.C19
import PsModel.Spec.C19
/-! line-protocol front end of the C19 model -/
namespace PsModel.C19
open PsModel

def hexList? (x : Sexp) : Option (List Bytes) := Sexp.listOf? (fun a => a.str? >>= Hex.toBytes) x

def showParts (ps : List Bytes) : String := "(" ++ " ".intercalate (ps.map Hex.ofBytes) ++ ")"

def showErr : RecvErr → String
  | .eof => "err eof"
  | .badCommand => "err badcommand"

def mtype? : String → Option MsgType
  | "execute_request" => some .execute | "kernel_info_request" => some .kernelInfo
  | "complete_request" => some .complete | "is_complete_request" => some .isComplete
  | "comm_info_request" => some .commInfo | "history_request" => some .history
  | "comm_open" => some .comm | "comm_msg" => some .comm | "comm_close" => some .comm
  | _ => some .unknown

def showOut (o : Out) : String :=
  let c := match o.count with | some n => toString n | none => "-"
  let p := match o.payload with | some n => toString n | none => "-"
  s!"({o.stream} {showParts o.idents} {o.msgType} {o.parent} {c} {p})"

/-- request: (valid mtype store cell result idents header) ; result = (v n) | none | (e n) -/
def req? (x : Sexp) : Option (Request × CellResult) :=
  match x with
  | .list [v, .atom mt, st, cell, res, ids, hd] => do
    let valid ← v.bool?
    let m ← mtype? mt
    let store ← st.bool?
    let c ← cell.nat?
    let h ← hd.nat?
    let idents ← hexList? ids
    let r ← match res with
      | .list [.atom "v", n] => n.nat? >>= fun k => some (CellResult.value k)
      | .list [.atom "e", n] => n.nat? >>= fun k => some (CellResult.error k)
      | _ => some CellResult.none
    pure ({ idents := idents, sig := if valid then [1] else [0], frames := [], header := h, mtype := m,
            storeHistory := store, cell := c }, r)
  | _ => none

/-- run a request sequence; the abstract MAC of the (abstracted) frames is `[1]` -/
def runShell (reqs : List (Request × CellResult)) : String :=
  let rec go (s : KState) (rs : List (Request × CellResult)) (acc : List String) : List String :=
    match rs with
    | [] => acc.reverse
    | (r, res) :: rest =>
      match shellStep (fun _ => [1]) (fun _ => res) s r with
      | .rejected => ("rejected" :: acc).reverse      -- listener dies: nothing further is processed
      | .handled s' outs => go s' rest (("(" ++ " ".intercalate (outs.map showOut) ++ s!" count={s'.count})") :: acc)
  " ".intercalate (go {} reqs [])

def handle (x : Sexp) : String :=
  match x with
  | .list [.atom "enc", ps] =>
    match hexList? ps with
    | some parts => if parts.isEmpty then "err empty" else "ok " ++ Hex.ofBytes (encodeMultipart parts)
    | none => "err parse"
  | .list [.atom "encs", .atom m] =>
    match Hex.toBytes m with
    | some b => "ok " ++ Hex.ofBytes (encodeSingle b)
    | none => "err parse"
  | .list [.atom "recv", cs] =>
    match hexList? cs with
    | some chunks =>
      match flatRes (recvMultipart chunks) with
      | .ok (ps, rest) => s!"ok {showParts ps} {Hex.ofBytes rest}"
      | .error e => showErr e
    | none => "err parse"
  | .list [.atom "recvs", cs] =>
    match hexList? cs with
    | some chunks =>
      match recvSingle chunks with
      | .ok (m, rest) => s!"ok {Hex.ofBytes m} {Hex.ofBytes rest.flatten}"
      | .error e => showErr e
    | none => "err parse"
  | .list [.atom "shell", .list rs] =>
    match Sexp.mapM? req? rs with
    | some reqs => runShell reqs
    | none => "err parse"
  | .list [.atom "split", ps] =>
    match hexList? ps with
    | some parts =>
      match splitWire parts with
      | some (ids, sig, frames) => s!"ok {showParts ids} {Hex.ofBytes sig} {showParts frames}"
      | none => "err nodelim"
    | none => "err parse"
  | _ => "err bad-command"

end PsModel.C19
