import PsModel.Util.Sexp
import PsModel.Model.C14
import PsModel.Spec.C14
/-!
line-protocol front end of the C14 model: replays an observed linearisation of `function.py`'s task life cycles

  C14 (run OP …)   OP ::= (cr t withCtx pre) | (st t) | (sc t) | (ac a t cb arg) | (rc a t cb) | (cn a t|self)
                         | (u t key km) | (rp t) | (rw t) | (eb t ok|exc|can v) | (cbb t) | (cbe t ok|raises|can)
                         | (cl t) | (nx t) | (snap)

Output `ok <model tokens> ## <spec tokens>`; the spec column says, per finished task, which callbacks the property
wants to have run and with which result the task should have finished, and per snapshot which registries entries may
exist (none of a finished task).
-/
namespace PsModel.C14
open PsModel
open PsModel.C13 (Task upd)

structure Drv where
  s : St String := init
  out : List String := []
  spout : List String := []
  tasks : List Nat := []      -- created tasks, most recent first

def Drv.emit (d : Drv) (m sp : String) : Drv := { d with out := m :: d.out, spout := sp :: d.spout }
def Drv.emit1 (d : Drv) (m : String) : Drv := d.emit m m

def showNats (xs : List Nat) : String := "(" ++ " ".intercalate (xs.map toString) ++ ")"

def showRes : Option Res → String
  | some (.value v) => s!"v{v}"
  | some .noneVal => "v0"
  | some .cancelled => "can"
  | some .error => "err"
  | none => "?"

def showCbs (l : List (Cb × Args)) : String := "(" ++ " ".intercalate (l.map fun p => s!"{p.1}:{p.2}") ++ ")"

def snapOf (d : Drv) (keep : Task → Bool) : String :=
  let ts := d.tasks.reverse
  let st := "".intercalate (ts.map fun t => if d.s.phase t == .done then "d" else "r")
  let ours := showNats (ts.filter fun t => keep t && d.s.u.ours t)
  let cbs := " ".intercalate ((ts.filter fun t => keep t && (d.s.cb t).isSome).map fun t =>
    s!"{t}=" ++ showCbs (cbList d.s t))
  let ctx := showNats (ts.filter fun t => keep t && d.s.hctx t)
  let t2n := " ".intercalate ((ts.filter fun t => keep t && d.s.u.entry t).map fun t =>
    s!"{t}=" ++ "{" ++ ",".intercalate ((d.s.u.names t).mergeSort (fun a b => decide (a ≤ b))) ++ "}")
  s!"[{st} | ours={ours} | cb={cbs} | ctx={ctx} | t2n={t2n} | q={showNats d.s.u.reaperQ}]"

/-- observed runs are replayed with the steps ASSEMBLED FROM THE EXTRACTED SHAPE TABLES (`C14_shape_step`: = `step current`) -/
def ap (d : Drv) (op : Op String) : Drv := { d with s := stepSh C13.Shape.extracted current d.s op }

def outcome? (kind : String) (v : Nat) : Option Outcome :=
  match kind with
  | "ok" => some (.ok v) | "exc" => some .exc | "can" => some .cancelled | _ => none

def cbres? : String → Option CbRes
  | "ok" => some .ok | "raises" => some .raises | "can" => some .cancelled | _ => none

def stepOp (d : Drv) (x : Sexp) : Option Drv :=
  match x with
  | .list [.atom "cr", t, wc, pre] => do
    let t ← t.nat?
    let wc ← wc.bool?
    let pre ← pre.bool?
    let d := if t ∈ d.tasks then d else { d with tasks := t :: d.tasks }
    pure ((ap d (.create t wc pre)).emit1 "c")
  | .list [.atom "st", t] => do
    let t ← t.nat?
    pure ((ap d (.start t)).emit1 (if d.s.phase t == .created && !d.s.u.cancelReq t then "s" else "s:bad"))
  | .list [.atom "nx", t] => do
    -- the task ended without ever running `run_coro`: cancelled before its first segment
    let t ← t.nat?
    let dead := d.s.phase t == .created && d.s.u.cancelReq t
    let d' := ap d (.start t)
    let m := if dead then s!"s:dead:lost={showCbs (specRan d'.s t)}" else "s:bad"
    pure (d'.emit m "s:dead:lost=()")
  | .list [.atom "sc", t] => do
    let t ← t.nat?
    pure ((ap d (.storeCtx t)).emit1 (if active d.s t then "h" else "h:bad"))
  | .list [.atom "ac", a, t, c, arg] => do
    let a ← a.nat?
    let t ← t.nat?
    let c ← c.nat?
    let arg ← arg.nat?
    let tok := if !active d.s a then "a:bad" else if (d.s.cb t).isNone then "a:KeyError" else "a:ok"
    pure ((ap d (.addCb a t c arg)).emit1 tok)
  | .list [.atom "rc", a, t, c] => do
    let a ← a.nat?
    let t ← t.nat?
    let c ← c.nat?
    let tok := if !active d.s a then "m:bad" else if (d.s.cb t).isNone then "m:KeyError" else "m:ok"
    pure ((ap d (.removeCb a t c)).emit1 tok)
  | .list [.atom "cn", a, tg] => do
    let a ← a.nat?
    let tg : Option Nat := tg.nat?
    let target := tg.getD a
    let tok := if !active d.s a then "k:bad" else if !d.s.u.ours target then "k:TypeError"
               else if tg.isNone then "k:park" else "k:ok"
    pure ((ap d (.cancel a tg)).emit1 tok)
  | .list [.atom "u", t, .atom k, km] => do
    let t ← t.nat?
    let km ← km.bool?
    let tok := if !active d.s t then "u:bad"
               else match d.s.u.owner k with
                    | some o => if km && o != t then "u:park" else "u:ok"
                    | none => "u:ok"
    pure ((ap d (.unique t k km)).emit1 tok)
  | .list [.atom "rp", t] => do
    let t ← t.nat?
    let ok := d.s.u.reaperQ.head? == some t && !(headUnstarted d.s && current.reaperWaitsForStart)
    pure ((ap d .reap).emit1 (if ok then "r:ok" else "r:bad"))
  | .list [.atom "rw", t] => do
    -- the reaper has taken the command for a task that has not started yet and waits for its first statement
    let t ← t.nat?
    let ok := d.s.u.reaperQ.head? == some t && headUnstarted d.s && current.reaperWaitsForStart
    pure ((ap d .reap).emit1 (if ok then "r:wait" else "r:bad"))
  | .list [.atom "eb", t, .atom kind, v] => do
    let t ← t.nat?
    let v ← v.nat?
    let oc ← outcome? kind v
    let ok := d.s.phase t == .running && (d.s.u.cancelReq t == (kind == "can"))
    pure ((ap d (.endBody t oc)).emit1 (if ok then "e:ok" else "e:bad"))
  | .list [.atom "cbb", t] => do
    let t ← t.nat?
    let d' := ap d (.cbBegin t)
    let tok := if d'.s.inCb t && !d.s.inCb t then
                 match (iterList current d.s t)[d.s.idx t]? with
                 | some (c, a) => s!"b:{c}:{a}"
                 | none => "b:none"
               else if d'.s.phase t == .done && d.s.phase t != .done then "b:abort" else "b:none"
    pure (d'.emit1 tok)
  | .list [.atom "cbe", t, .atom r] => do
    let t ← t.nat?
    let r ← cbres? r
    pure ((ap d (.cbEnd t r)).emit1 (if d.s.inCb t then "f:ok" else "f:bad"))
  | .list [.atom "cl", t] => do
    let t ← t.nat?
    -- (pre-fix shape only) the final `next()` of a live-dict iterator has no marker of its own
    let d1 := if d.s.phase t == .finalizing && !d.s.inCb t && loopPending current d.s t then ap d (.cbBegin t) else d
    let bad := d1.s.phase t == .finalizing && (d1.s.inCb t || loopPending current d1.s t)
    let d2 := ap d1 (.cleanup t)
    let m := if bad then "x:bad" else s!"x:{showRes (d2.s.result t)}:ran={showCbs (ranOf d2.s t)}"
    -- a task cancelled inside one of its done-callbacks ends as cancelled; the callbacks not yet started are skipped
    let want := if (d2.s.bailed t).isSome then ranOf d2.s t else specRan d2.s t
    let wres := match d2.s.bailed t with | some r => r | none => specResult d2.s t
    let sp := s!"x:{showRes (some wres)}:ran={showCbs want}"
    pure (d2.emit m sp)
  | .list [.atom "snap"] =>
    pure (d.emit (snapOf d fun _ => true) (snapOf d fun t => !(d.s.phase t == .done)))
  | _ => none

def runOps (ops : List Sexp) : Option Drv := ops.foldlM stepOp {}

def handle (x : Sexp) : String :=
  match x with
  | .list (.atom "run" :: ops) =>
    match runOps ops with
    | some d => "ok " ++ " ".intercalate d.out.reverse ++ " ## " ++ " ".intercalate d.spout.reverse
    | none => "err parse"
  | _ => "err parse"

end PsModel.C14
