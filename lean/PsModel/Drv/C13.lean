import PsModel.Util.Sexp
import PsModel.Model.C13
import PsModel.Spec.C13
/-!
line-protocol front end of the C13 model: replays an observed linearisation

  C13 (run OP …)      OP ::= (sp t fg) | (u t ctx name km) | (rp t) | (eb t) | (x t ret|can) | (dn t ctx name km)
                            | (ck ctx name) | (snap ctx …)

Output: `ok <model tokens> ## <spec tokens>`; one token per op:
  sp → `s`            u → `u:ok` | `u:park` | `u:bad` (caller cannot run a segment)
  rp → `r:ok` | `r:bad` (reaper busy, or `t` is not the head of the queue)
  eb → `e:ok` | `e:bad` (the awaited coroutine of a task that is not running cannot end)
  x  → `x:ok` | `x:bad` (task not running, or cancelled-ness does not match a delivered cancel)
  dn → `d:run` | `d:skip`      ck → `c:used` | `c:free`
  snap → `[name2id per ctx | status per task | reaper queue | our_tasks | unique_task2name]`
-/
namespace PsModel.C13
open PsModel

structure Drv where
  m : St Key := init
  sp : Sp Key := Sp.init
  out : List String := []
  spout : List String := []
  tasks : List Nat := []      -- started tasks, most recent first
  keys : List Key := []

def Drv.emit (d : Drv) (m sp : String) : Drv := { d with out := m :: d.out, spout := sp :: d.spout }

def Drv.key (d : Drv) (k : Key) : Drv := if k ∈ d.keys then d else { d with keys := k :: d.keys }

def showStr (s : Str) : String := String.ofList s

def sortPairs (xs : List (String × Nat)) : List (String × Nat) :=
  xs.mergeSort (fun a b => decide (a.1 ≤ b.1))

def showPairs (xs : List (String × Nat)) : String :=
  "{" ++ ",".intercalate ((sortPairs xs).map fun p => s!"{p.1}:{p.2}") ++ "}"

/-- `task.name2id()` of context `c`, over the keys seen so far -/
def showView (owner : Key → Option Task) (keys : List Key) (c : Str) : String :=
  showPairs (keys.filterMap fun k =>
    match viewOf current.tupleKeys c k, owner k with
    | some n, some t => some (showStr n, t)
    | _, _ => none)

/-- a key of `unique_task2name` as the harness prints it: `ctx/name` for tuple keys, the string itself before -/
def showKey (k : Key) : String :=
  if current.tupleKeys then showStr k.1 ++ "/" ++ showStr k.2 else showStr k.1

def showNats (xs : List Nat) : String := "(" ++ " ".intercalate (xs.map toString) ++ ")"

def snapModel (d : Drv) (ctxs : List Str) : String :=
  let ts := d.tasks.reverse
  let views := " ".intercalate (ctxs.map fun c => showStr c ++ "=" ++ showView d.m.owner d.keys c)
  let status := "".intercalate (ts.map fun t =>
    if d.m.live t then "r" else if d.m.cancelReq t then "c" else "d")
  let ours := showNats (ts.filter fun t => d.m.ours t)
  let t2n := " ".intercalate ((ts.filter fun t => d.m.entry t).map fun t =>
    s!"{t}=" ++ "{" ++ ",".intercalate (((d.m.names t).map showKey).mergeSort (fun a b => decide (a ≤ b))) ++ "}")
  s!"[{views} | {status} | q={showNats d.m.reaperQ} | ours={ours} | t2n={t2n}]"

def snapSpec (d : Drv) (ctxs : List Str) : String :=
  let ts := d.tasks.reverse
  let views := " ".intercalate (ctxs.map fun c => showStr c ++ "=" ++ showView d.sp.owner d.keys c)
  let status := "".intercalate (ts.map fun t => if d.sp.alive t then "r" else "-")
  s!"[{views} | {status}]"

/-- the model column is replayed with the steps ASSEMBLED FROM THE EXTRACTED SHAPE TABLES (`C13_shape_step`: = `step`) -/
def both (d : Drv) (op : Op Key) : Drv := { d with m := stepSh Shape.extracted current d.m op, sp := d.sp.step op }

def stepOp (d : Drv) (x : Sexp) : Option Drv :=
  match x with
  | .list [.atom "sp", t, fg] => do
    let t ← t.nat?
    let fg ← fg.bool?
    let d := if t ∈ d.tasks then d else { d with tasks := t :: d.tasks }
    pure ((both d (.spawn t fg)).emit "s" "s")
  | .list [.atom "u", t, .atom c, .atom n, km] => do
    let t ← t.nat?
    let km ← km.bool?
    let k := keyOf current.tupleKeys c.toList n.toList
    let d := d.key k
    let tok := if !canStep d.m t then "u:bad"
               else match d.m.owner k with
                    | some o => if km && o != t then "u:park" else "u:ok"
                    | none => "u:ok"
    let d' := both d (.unique t k km)
    let stok := if !(d.sp.alive t && !d.sp.halted t) then "u:bad"
                else if d'.sp.halted t then "u:park" else "u:ok"
    pure (d'.emit tok stok)
  | .list [.atom "rp", t] => do
    let t ← t.nat?
    let ok := !busy d.m && d.m.reaperQ.head? == some t
    pure ((both d .reap).emit (if ok then "r:ok" else "r:bad") "r")
  | .list [.atom "eb", t] => do
    let t ← t.nat?
    pure ((both d (.endBody t)).emit (if d.m.live t then "e:ok" else "e:bad") (if d.sp.alive t then "e:ok" else "e:bad"))
  | .list [.atom "x", t, .atom why] => do
    let t ← t.nat?
    let ok := d.m.live t && (d.m.cancelReq t == (why == "can"))
    pure ((both d (.exit t)).emit (if ok then "x:ok" else "x:bad") "x")
  | .list [.atom "dn", t, .atom c, .atom n, km] => do
    let t ← t.nat?
    let km ← km.bool?
    let k := keyOf current.tupleKeys c.toList n.toList
    let d := d.key k
    let tok := if decoRuns d.m k km then "d:run" else "d:skip"
    let stok := if km && (d.sp.owner k).isSome then "d:skip" else "d:run"
    pure ((both d (.decoNew t k km)).emit tok stok)
  | .list [.atom "ck", .atom c, .atom n] =>
    let k := keyOf current.tupleKeys c.toList n.toList
    let d := d.key k
    pure (d.emit (if nameUsed d.m k then "c:used" else "c:free")
                 (if (d.sp.owner k).isSome then "c:used" else "c:free"))
  | .list (.atom "snap" :: ctxs) => do
    let cs ← Sexp.mapM? (fun a => a.str?) ctxs
    let cs := cs.map String.toList
    pure (d.emit (snapModel d cs) (snapSpec d cs))
  | _ => none

def runOps (ops : List Sexp) : Option Drv := ops.foldlM stepOp {}

def handle (x : Sexp) : String :=
  match x with
  | .list (.atom "run" :: ops) =>
    match runOps ops with
    | some d => "ok " ++ " ".intercalate d.out.reverse ++ " ## " ++ " ".intercalate d.spout.reverse
    | none => "err parse"
  | _ => "err parse"

end PsModel.C13
