import PsModel.Util.Sexp
import PsModel.Model.C07
import PsModel.Spec.C07
/-! line-protocol front end of the C07 model

```
C07 (active <specs> <now> <startup> <suntab> <crontab>)        → model=T|F|raise spec=T|F|raise
C07 (legacy cur|pre|rep <cfg> <events> <suntab> <crontab>)         → model=1010 spec=1010
C07 (new cur|pre|rep <cfg> <events> <suntab> <crontab>)            → model=1010 spec=1010
C07 (parse <dt> <dayoff> <now> <startup> <suntab>)             → ok <t> <fixed> | raise
specs  = ((neg range <dt> <dt>) | (neg cron id) …)
dt     = (at <date> <time> off) | (now off)
date   = (full y m d) | (md m d) | (dow k) | today | tomorrow | none
time   = (hms h m us) | noon | midnight | sunrise | sunset | none
suntab = ((rise|set day t|none) …)      crontab = ((id t 0|1) …)
cfg    = (stateActive timeActive <specs> holdOff|none saFirst startup [nStateActive nTimeActive])   (counts: legacy only)
events = ((occ id t wall trigOk env F|Z|T|R ((k F|Z|T|R) …)) | direct | (g task <event>) …)   (task: legacy only)
```
-/
namespace PsModel.C07
open PsModel

def date? : Sexp → Option DateSpec
  | .list [.atom "full", y, m, d] => do pure (.full (← y.int?) (← m.int?) (← d.int?))
  | .list [.atom "md", m, d] => do pure (.monthDay (← m.int?) (← d.int?))
  | .list [.atom "dow", k] => do pure (.dow (← k.int?))
  | .atom "today" => some .today
  | .atom "tomorrow" => some .tomorrow
  | .atom "none" => some .none
  | _ => none

def time? : Sexp → Option TimeSpec
  | .list [.atom "hms", h, m, u] => do pure (.hms (← h.int?) (← m.int?) (← u.int?))
  | .atom "noon" => some .noon
  | .atom "midnight" => some .midnight
  | .atom "sunrise" => some .sunrise
  | .atom "sunset" => some .sunset
  | .atom "none" => some .none
  | _ => none

def dt? : Sexp → Option DTSpec
  | .list [.atom "at", d, t, off] => do pure (.at (← date? d) (← time? t) (← off.int?))
  | .list [.atom "now", off] => do pure (.now (← off.int?))
  | _ => none

def aspec? : Sexp → Option ASpec
  | .list [neg, .atom "range", s, e] => do pure ⟨← neg.bool?, .range (← dt? s) (← dt? e)⟩
  | .list [neg, .atom "cron", id] => do pure ⟨← neg.bool?, .cron (← id.nat?)⟩
  | _ => none

def sunRow? : Sexp → Option (Bool × Int × Option Int)
  | .list [.atom k, day, t] => do
    let b ← (if k == "rise" then some true else if k == "set" then some false else none)
    let d ← day.int?
    match t with
    | .atom "none" => pure (b, d, none)
    | _ => pure (b, d, some (← t.int?))
  | _ => none

def cronRow? : Sexp → Option (Nat × Int × Bool)
  | .list [id, t, b] => do pure (← id.nat?, ← t.int?, ← b.bool?)
  | _ => none

def lookupSun (tab : List (Bool × Int × Option Int)) (rise : Bool) (day : Int) : Option Int :=
  match tab.find? (fun r => r.1 == rise && r.2.1 == day) with
  | some r => r.2.2
  | none => none

def lookupCron (tab : List (Nat × Int × Bool)) (id : Nat) (t : Int) : Bool :=
  match tab.find? (fun r => r.1 == id && r.2.1 == t) with
  | some r => r.2.2
  | none => false

def params? (sunTab cronTab : Sexp) : Option Params := do
  let s ← Sexp.listOf? sunRow? sunTab
  let c ← Sexp.listOf? cronRow? cronTab
  pure ⟨lookupSun s, lookupCron c⟩

def aval? : Sexp → Option AVal
  | .atom "F" => some .isFalse
  | .atom "Z" => some .falsy
  | .atom "T" => some .truthy
  | .atom "R" => some .raises
  | _ => none

def stalePair? : Sexp → Option (Nat × AVal)
  | .list [k, v] => do pure (← k.nat?, ← aval? v)
  | _ => none

def ev? : Sexp → Option Ev
  | .atom "direct" => some .direct
  | .list [.atom "occ", id, t, wall, ok, env, sa, stale] => do
    pure (.occ ⟨← id.nat?, ← t.nat?, ← wall.int?, ← ok.bool?, ← env.bool?, ← aval? sa, ← Sexp.listOf? stalePair? stale⟩)
  | _ => none

/-- an event tagged with the legacy trigger task it belongs to: `(g k <ev>)`; untagged = task 0 -/
def gev? : Sexp → Option (Nat × Ev)
  | .list [.atom "g", k, e] => do pure (← k.nat?, ← ev? e)
  | e => do pure (0, ← ev? e)

def optNat? : Sexp → Option (Option Nat)
  | .atom "none" => some none
  | x => do pure (some (← x.nat?))

def cfg? : Sexp → Option Cfg
  | .list [sa, ta, specs, hold, saFirst, startup] => do
    pure ⟨← sa.bool?, ← ta.bool?, ← Sexp.listOf? aspec? specs, ← optNat? hold, ← saFirst.bool?, ← startup.int?⟩
  | _ => none

/-- the configuration may be followed by the numbers of `@state_active` / `@time_active` decorators (default 1 1) -/
def cfgN? : Sexp → Option (Cfg × Nat × Nat)
  | .list [sa, ta, specs, hold, saFirst, startup, nSA, nTA] => do
    pure (← cfg? (.list [sa, ta, specs, hold, saFirst, startup]), ← nSA.nat?, ← nTA.nat?)
  | x => do pure (← cfg? x, 1, 1)

def showOB : Option Bool → String
  | some true => "T"
  | some false => "F"
  | none => "raise"

def showFlags (fs : List Bool) : String := String.ofList (fs.map (fun b => if b then '1' else '0'))

/-- the spec's answer to `timer_active_check`: raise iff some entry has no existing date, else the window -/
def specActive (P : Params) (specs : List ASpec) (now startup : Int) : Option Bool :=
  if Spec.resolves P now startup specs then some (Spec.window P specs now startup) else none

def handle (x : Sexp) : String :=
  match x with
  | .list [.atom "active", specs, now, startup, sunTab, cronTab] =>
    match Sexp.listOf? aspec? specs, now.int?, startup.int?, params? sunTab cronTab with
    | some ss, some n, some st, some P =>
      s!"model={showOB (activeCheck P ss n st)} spec={showOB (specActive P ss n st)}"
    | _, _, _, _ => "err parse"
  | .list [.atom "parse", d, off, now, startup, sunTab] =>
    match dt? d, off.int?, now.int?, startup.int?, params? sunTab (.list []) with
    | some d, some k, some n, some st, some P =>
      match parseDT P d k n st with
      | some r => s!"ok {r.1} {if r.2 then 1 else 0}"
      | none => "raise"
    | _, _, _, _, _ => "err parse"
  | .list [.atom "legacy", .atom fl, cfg, evs, sunTab, cronTab] =>
    match cfgN? cfg, Sexp.listOf? gev? evs, params? sunTab cronTab with
    | some (c, nSA, nTA), some es, some P =>
      let F := if fl == "rep" then Flags.repaired else if fl == "pre" then Flags.preFix else Flags.current
      s!"model={showFlags (Legacy.runFn F P c nSA nTA es)} spec={showFlags (Spec.runs P c (es.map (·.2)) [])}"
    | _, _, _ => "err parse"
  | .list [.atom "new", .atom fl, cfg, evs, sunTab, cronTab] =>
    match cfgN? cfg, Sexp.listOf? ev? evs, params? sunTab cronTab with
    | some (c, nSA, nTA), some es, some P =>
      let F := if fl == "rep" then Flags.repaired else if fl == "pre" then Flags.preFix else Flags.current
      s!"model={showFlags (New.runFn false F P c nSA nTA es)} spec={showFlags (Spec.runs P c es [])}"
    | _, _, _ => "err parse"
  | _ => "err bad-command"

end PsModel.C07
