import PsModel.Util.Sexp
import PsModel.Model.C08
import PsModel.Spec.C08
/-! line-protocol front end of the C08 model

`C08 (<L|N|NP> (funcs (dec ...) ...) (steps ...))`   (`NP` = new subsystem in its pre-fix shape, `New.Flags.preFix`)
* dec   = `(e|m|w key <filter|none> ((k val) ...))`
* val   = `none | (i n) | (s str) | (b 0|1) | (d (k val) ...) | (l val ...)`
* filter= `(cmp op key sub|- val) | (and f g) | (or f g) | (not f) | (name key) | (name key sub) | (true)`   (python semantics, an
          exception makes the whole filter raise)
* step  = `(f e type data) | (f m sub topic payload qos retain json|-) | (f w id isJson body form)`
        | `(t i)` | `(drain)` | `(em a b k ek name kw mode)` | `(fin a b k)`
  a run is named by its decorator (`a b` = unit, kind for L; decorator index, ignored for N) and its rank `k` there.
-/
namespace PsModel.C08
open PsModel

/-! ### concrete filter expressions (the theorems quantify over arbitrary functions; these denote some) -/

inductive CmpOp where | eq | ne | lt | le | gt | ge

inductive FExpr where
  | cmp (op : CmpOp) (key : String) (sub : Option String) (lit : Val)
  | and (a b : FExpr) | or (a b : FExpr) | not (a : FExpr)
  | name (key : String)
  | nameSub (key sub : String)
  | tt

def valGet : Val → String → Option Val
  | .dcons k v r, key => if k = key then some v else valGet r key
  | _, _ => Option.none

def isDict : Val → Bool
  | .dnil => true | .dcons .. => true | _ => false

def asInt : Val → Option Int
  | .int n => some n
  | .bool b => some (if b then 1 else 0)
  | _ => Option.none

def valEq : Val → Val → Bool
  | .none, .none => true
  | .str a, .str b => a == b
  | a, b => match asInt a, asInt b with
    | some x, some y => x == y
    | _, _ => false

/-- python ordering: ints (bools) among themselves, strings among themselves, anything else raises -/
def valLt : Val → Val → Option Bool
  | .str a, .str b => some (decide (a < b))
  | a, b => match asInt a, asInt b with
    | some x, some y => some (decide (x < y))
    | _, _ => Option.none

def truthy : Val → Bool
  | .none => false
  | .int n => n != 0
  | .str s => !s.isEmpty
  | .bool b => b
  | .ctx _ => true
  | .dnil => false
  | .dcons .. => true
  | .lnil => false
  | .lcons .. => true

def cmpVals (op : CmpOp) (a b : Val) : Option Bool :=
  match op with
  | .eq => some (valEq a b)
  | .ne => some (!valEq a b)
  | .lt => valLt a b
  | .gt => valLt b a
  | .le => (valLt b a).map (!·)
  | .ge => (valLt a b).map (!·)

def FExpr.eval : FExpr → Dict → Option Bool
  | .cmp op key sub lit, a =>
    match a.get key with
    | Option.none => Option.none                       -- NameError
    | some v =>
      match sub with
      | Option.none => cmpVals op v lit
      | some sk =>
        if isDict v then
          match valGet v sk with
          | Option.none => Option.none                 -- KeyError
          | some w => cmpVals op w lit
        else Option.none                               -- TypeError
  | .and x y, a => match x.eval a with
    | Option.none => Option.none
    | some false => some false
    | some true => y.eval a
  | .or x y, a => match x.eval a with
    | Option.none => Option.none
    | some true => some true
    | some false => y.eval a
  | .not x, a => (x.eval a).map (!·)
  | .name key, a => (a.get key).map truthy
  | .nameSub key sk, a =>
    match a.get key with
    | Option.none => Option.none                       -- NameError
    | some v => if isDict v then (valGet v sk).map truthy else Option.none   -- KeyError / TypeError
  | .tt, _ => some true

/-! ### parsing -/

def valOfDict : List (String × Val) → Val := Dict.toVal

partial def val? : Sexp → Option Val
  | .atom "none" => some .none
  | .list [.atom "i", n] => n.int? >>= fun k => some (.int k)
  | .list [.atom "s", .atom s] => some (.str s)
  | .list [.atom "b", b] => b.bool? >>= fun x => some (.bool x)
  | .list (.atom "l" :: vs) => do
    let xs ← Sexp.mapM? val? vs
    pure (xs.foldr (fun v acc => Val.lcons v acc) Val.lnil)
  | .list (.atom "d" :: kvs) => do
    let ps ← Sexp.mapM? (fun x => match x with
      | .list [.atom k, v] => val? v >>= fun w => some (k, w)
      | _ => Option.none) kvs
    pure (valOfDict ps)
  | _ => Option.none

def dict? : Sexp → Option Dict
  | .list kvs => Sexp.mapM? (fun x => match x with
      | .list [.atom k, v] => val? v >>= fun w => some (k, w)
      | _ => Option.none) kvs
  | _ => Option.none

def op? : String → Option CmpOp
  | "eq" => some .eq | "ne" => some .ne | "lt" => some .lt | "le" => some .le | "gt" => some .gt | "ge" => some .ge
  | _ => Option.none

partial def fexpr? : Sexp → Option FExpr
  | .list [.atom "cmp", .atom op, .atom key, .atom sub, lit] => do
    let o ← op? op
    let l ← val? lit
    pure (.cmp o key (if sub == "-" then Option.none else some sub) l)
  | .list [.atom "and", a, b] => do pure (.and (← fexpr? a) (← fexpr? b))
  | .list [.atom "or", a, b] => do pure (.or (← fexpr? a) (← fexpr? b))
  | .list [.atom "not", a] => do pure (.not (← fexpr? a))
  | .list [.atom "name", .atom k] => some (.name k)
  | .list [.atom "name", .atom k, .atom sk] => some (.nameSub k sk)
  | .list [.atom "true"] => some .tt
  | _ => Option.none

def kind? : String → Option Kind
  | "e" => some .event | "m" => some .mqtt | "w" => some .webhook | _ => Option.none

def kindStr : Kind → String
  | .event => "e" | .mqtt => "m" | .webhook => "w"

def dec? : Sexp → Option Dec
  | .list [.atom k, .atom key, f, kw] => do
    let kind ← kind? k
    let kwargs ← dict? kw
    let filt ← match f with
      | .atom "none" => some Option.none
      | x => fexpr? x >>= fun e => some (some e.eval)
    pure { kind := kind, key := key, filt := filt, kwargs := kwargs }
  | _ => Option.none

def ek? : String → Option EmitKind
  | "event" => some .event | "state" => some .state | "service" => some .service | _ => Option.none

def ekStr : EmitKind → String
  | .event => "event" | .state => "state" | .service => "service"

/-- driver-level steps (a `drain` and run references are expanded against the current state) -/
inductive DStep where
  | fire (e : Ext)
  | take (i : Nat)
  | drain
  | emit (a : Nat) (b : Kind) (k : Nat) (ek : EmitKind) (name : String) (kw : Dict) (mode : String)
  | fin (a : Nat) (b : Kind) (k : Nat)

def dstep? : Sexp → Option DStep
  | .list [.atom "f", .atom "e", .atom t, d] => do pure (.fire (.event t (← dict? d)))
  | .list [.atom "f", .atom "m", .atom sub, .atom t, .atom p, q, r, j] => do
    let json ← match j with
      | .atom "-" => some Option.none
      | x => val? x >>= fun v => some (some v)
    pure (.fire (.mqtt sub t p (← q.nat?) (← r.bool?) json))
  | .list [.atom "f", .atom "w", .atom w, j, body, form] => do
    pure (.fire (.webhook w (← j.bool?) (← val? body) (← dict? form)))
  | .list [.atom "t", i] => do pure (.take (← i.nat?))
  | .list [.atom "drain"] => some .drain
  | .list [.atom "em", a, .atom b, k, .atom ek, .atom name, kw, .atom mode] => do
    pure (.emit (← a.nat?) (← kind? b) (← k.nat?) (← ek? ek) name (← dict? kw) mode)
  | .list [.atom "fin", a, .atom b, k] => do pure (.fin (← a.nat?) (← kind? b) (← k.nat?))
  | _ => Option.none

/-! ### rendering (context ids are replaced by their first position in a canonical traversal) -/

def canon (trav : List Nat) (id : Nat) : Sexp := sxn (trav.idxOf id)

def canonOpt (trav : List Nat) : Option Nat → Sexp
  | some id => if trav.contains id then canon trav id else sx "?"
  | Option.none => sx "-"

def rVal (trav : List Nat) : Val → Sexp
  | .none => sx "none"
  | .int n => sxl [sx "i", sxi n]
  | .str s => sxl [sx "s", sx s]
  | .bool b => sxl [sx "b", sxb b]
  | .ctx c => sxl [sx "c", canon trav c.id]
  | .lnil => sxl [sx "l"]
  | .lcons v r =>
    match rVal trav r with
    | .list (h :: rest) => .list (h :: rVal trav v :: rest)
    | x => x
  | .dnil => sxl [sx "d"]
  | .dcons k v r =>
    match rVal trav r with
    | .list (h :: rest) => .list (h :: sxl [sx k, rVal trav v] :: rest)
    | x => x

def rDict (trav : List Nat) (d : Dict) : Sexp := sxl (d.map (fun kv => sxl [sx kv.1, rVal trav kv.2]))

def occCtx : Occ → Option Ctx
  | .event _ _ c => some c
  | _ => Option.none

def rLog (trav : List Nat) (log : List Occ) : Sexp :=
  sxl (sx "log" :: log.map (fun o => match occCtx o with
    | some c => sxl [sx (kindStr o.kind), sx o.key, canon trav c.id, canonOpt trav c.parent]
    | Option.none => sxl [sx (kindStr o.kind), sx o.key]))

def rRun (trav : List Nat) (r : Run) : Sexp :=
  sxl [sx "r", rDict trav r.args, canon trav r.ctx.id, canonOpt trav r.ctx.parent]

def rEm (trav : List Nat) (e : Emission) : Sexp :=
  sxl [sx (ekStr e.kind), sx e.name, rDict trav e.data,
       (match e.ctx with | some c => canon trav c.id | Option.none => sx "-"),
       (match e.ctx with | some c => canonOpt trav c.parent | Option.none => sx "-")]

def kinds : List Kind := [.event, .mqtt, .webhook]

/-! ### the legacy run -/

def findRun (started : List Run) (p : Run → Bool) (k : Nat) : Option Nat :=
  let idxs := (List.range started.length).filter (fun i => match started[i]? with | some r => p r | Option.none => false)
  idxs[k]?

def emitKw (r : Run) (kw : Dict) (mode : String) : Dict :=
  if mode == "occ" then
    match r.args.get "context" with
    | some v => kw.set "context" v
    | Option.none => kw
  else if mode == "junk" then kw.set "context" (.int 7)
  else kw

def runLegacy (fs : List (List Dec)) (steps : List DStep) : Except String Legacy.State :=
  let units := Legacy.allUnits fs
  steps.foldlM (fun st ds =>
    match ds with
    | .fire e => pure (Legacy.step units st (.fire e))
    | .take i => pure (Legacy.step units st (.take i))
    | .drain =>
      pure ((List.range units.length).foldl (fun st u =>
        (List.replicate (st.queues u).length (Step.take u)).foldl (Legacy.step units) st) st)
    | .emit a b k ek name kw mode =>
      match findRun st.started (fun r => r.dec == a && r.kind == b) k with
      | some r => match st.started[r]? with
        | some run => pure (Legacy.step units st (.emit r ek name (emitKw run kw mode)))
        | Option.none => throw "no-such-run"
      | Option.none => throw "no-such-run"
    | .fin a b k =>
      match findRun st.started (fun r => r.dec == a && r.kind == b) k with
      | some r => pure (Legacy.step units st (.finish r))
      | Option.none => throw "no-such-run") (Legacy.init units)

def showLegacy (fs : List (List Dec)) (st : Legacy.State) : String :=
  let units := Legacy.allUnits fs
  let slots : List (Nat × Kind × Dec) := (List.range units.length).flatMap (fun u =>
    kinds.filterMap (fun k => (Legacy.unitDec units u k).map (fun d => (u, k, d))))
  let trav : List Nat := (st.log.filterMap (fun o => (occCtx o).map (·.id))) ++
    slots.flatMap (fun s => (st.started.filter (fun r => r.dec == s.1 && r.kind == s.2.1)).map (·.ctx.id))
  let unitsSx := sxl (sx "units" :: (List.range units.length).map (fun u =>
    sxl (kinds.map (fun k => match Legacy.unitDec units u k with | some d => sx d.key | Option.none => sx "-"))))
  let tabSx := sxl (sx "tab" :: slots.map (fun s => sxl [sx (kindStr s.2.1), sx s.2.2.key, sxn (st.notify s.2.1 s.2.2.key).length]))
  let runsOf := fun (s : Nat × Kind × Dec) => st.started.filter (fun r => r.dec == s.1 && r.kind == s.2.1)
  let model := sxl [unitsSx, tabSx, rLog trav st.log,
    sxl (sx "runs" :: slots.map (fun s => sxl (sx s!"{s.1}.{kindStr s.2.1}" :: (runsOf s).map (rRun trav)))),
    sxl (sx "em" :: st.emitted.map (rEm trav)), sxl [sx "fin", sxn st.finished.length],
    sxl [sx "pending", sxn ((List.range units.length).map (fun u => (st.queues u).length)).sum]]
  let spec := sxl (sx "runs" :: slots.map (fun s =>
    sxl (sx s!"{s.1}.{kindStr s.2.1}" :: (Spec.expected s.2.2 st.log).map (rDict trav))))
  s!"ok {Sexp.render model} ## {Sexp.render spec}"

/-! ### the new run -/

def runNew (fl : New.Flags) (fs : List (List Dec)) (steps : List DStep) : Except String New.State :=
  let decs := fs.flatten
  steps.foldlM (fun st ds =>
    match ds with
    | .fire e => pure (New.step decs st (.fire e))
    | .take i => pure (New.step decs st (.take i))
    | .drain => pure ((List.replicate st.ready.length (Step.take 0)).foldl (New.step decs) st)
    | .emit a _ k ek name kw mode =>
      match findRun st.started (fun r => r.dec == a) k with
      | some r => match st.started[r]? with
        | some run => pure (New.step decs st (.emit r ek name (emitKw run kw mode)))
        | Option.none => throw "no-such-run"
      | Option.none => throw "no-such-run"
    | .fin a _ k =>
      match findRun st.started (fun r => r.dec == a) k with
      | some r => pure (New.step decs st (.finish r))
      | Option.none => throw "no-such-run") (New.init fl fs)

def showNew (decs : List Dec) (st : New.State) : String :=
  let slots : List (Nat × Dec) := (List.range decs.length).filterMap (fun i => decs[i]?.map (fun d => (i, d)))
  let trav : List Nat := (st.log.filterMap (fun o => (occCtx o).map (·.id))) ++
    slots.flatMap (fun s => (st.started.filter (fun r => r.dec == s.1)).map (·.ctx.id))
  let tabSx := sxl (sx "tab" :: slots.map (fun s => sxl [sx (kindStr s.2.kind), sx s.2.key, sxn (st.listeners s.2.kind s.2.key).length]))
  let liveSx := sxl (sx "live" :: slots.map (fun s => sxb ((st.listeners s.2.kind s.2.key).contains s.1)))
  let model := sxl [tabSx, liveSx, rLog trav st.log,
    sxl (sx "runs" :: slots.map (fun s => sxl (sx s!"{s.1}" :: (st.started.filter (fun r => r.dec == s.1)).map (rRun trav)))),
    sxl (sx "em" :: st.emitted.map (rEm trav)), sxl [sx "fin", sxn st.finished.length],
    sxl [sx "pending", sxn st.ready.length]]
  let spec := sxl (sx "runs" :: slots.map (fun s =>
    sxl (sx s!"{s.1}" :: (Spec.expected s.2 st.log).map (rDict trav))))
  s!"ok {Sexp.render model} ## {Sexp.render spec}"

def handle (x : Sexp) : String :=
  match x with
  | .list [.atom mode, .list (.atom "funcs" :: fs), .list (.atom "steps" :: ss)] =>
    match Sexp.mapM? (Sexp.listOf? dec?) fs, Sexp.mapM? dstep? ss with
    | some funcs, some steps =>
      if mode == "L" then
        match runLegacy funcs steps with
        | .ok st => showLegacy funcs st
        | .error e => s!"err {e}"
      else if mode == "N" || mode == "NP" then
        match runNew (if mode == "NP" then New.Flags.preFix else New.Flags.current) funcs steps with
        | .ok st => showNew funcs.flatten st
        | .error e => s!"err {e}"
      else "err bad-mode"
    | _, _ => "err parse"
  | _ => "err bad-command"

end PsModel.C08
