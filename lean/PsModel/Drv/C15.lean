import PsModel.Util.Sexp
import PsModel.Model.C15
import PsModel.Spec.C15
/-! line-protocol front end of the C15 model

`C15 (<L|N|Lp|Np> (cfg <state> <time> <event> <mqtt> <timeout>) (tb st ev evl mq mql tasks) v call (hist (t item) ...))`
* state = `none | (st <fn> checkNow parseOK [hold|none holdFalse|none])`     event = `none | (ev <fn>|nofilt parseOK)`     mqtt = `none | (mq parseOK)`
* fn    = `(gt n) | (ge n) | (eq n) | (ne n) | (const b) | (raiseat n <fn>) | (or <fn> <fn>)`  (raises when the argument is `n`)
* time  = `none | (abs t) | (rel d)`        timeout = `none | n`        item = `(s v) | (e d) | (c)`
* the cfg may carry a sixth element `(en startup shutdown)`: `"startup"` / `"shutdown"` entries of the time_trigger list
`L`/`N` run the machines with `Flags.current`, `Lp`/`Np` with `Flags.preFix`.  The tables are given / printed as counts; the call's own queue is number 7, pre-existing ones 100, 101, ….
-/
namespace PsModel.C15
open PsModel

inductive Fn where
  | gt (n : Nat) | ge (n : Nat) | eq (n : Nat) | ne (n : Nat) | const (b : Bool)
  | raiseat (n : Nat) (f : Fn)
  | or (a b : Fn)      -- `any([a, b])`: both are evaluated, either may raise

def Fn.eval : Fn → Nat → Option Bool
  | .gt n, v => some (decide (v > n))
  | .ge n, v => some (decide (v ≥ n))
  | .eq n, v => some (decide (v = n))
  | .ne n, v => some (decide (v ≠ n))
  | .const b, _ => some b
  | .raiseat n f, v => if v = n then Option.none else f.eval v
  | .or a b, v =>
    match a.eval v, b.eval v with
    | some x, some y => some (x || y)
    | _, _ => Option.none

partial def fn? : Sexp → Option Fn
  | .list [.atom "gt", n] => n.nat? >>= fun k => some (.gt k)
  | .list [.atom "ge", n] => n.nat? >>= fun k => some (.ge k)
  | .list [.atom "eq", n] => n.nat? >>= fun k => some (.eq k)
  | .list [.atom "ne", n] => n.nat? >>= fun k => some (.ne k)
  | .list [.atom "const", b] => b.bool? >>= fun k => some (.const k)
  | .list [.atom "raiseat", n, f] => do pure (.raiseat (← n.nat?) (← fn? f))
  | .list [.atom "or", a, b] => do pure (.or (← fn? a) (← fn? b))
  | _ => Option.none

def optNat? : Sexp → Option (Option Nat)
  | .atom "none" => some Option.none
  | x => x.nat? >>= fun k => some (some k)

def state? : Sexp → Option (Option StateTrig)
  | .atom "none" => some Option.none
  | .list [.atom "st", f, c, p] => do
    let g ← fn? f
    pure (some { expr := g.eval, checkNow := (← c.bool?), parseOK := (← p.bool?) })
  | .list [.atom "st", f, c, p, h, hf] => do
    let g ← fn? f
    let hold ← optNat? h
    let holdFalse ← optNat? hf
    pure (some { expr := g.eval, checkNow := (← c.bool?), parseOK := (← p.bool?), hold := hold, holdFalse := holdFalse })
  | _ => Option.none

def event? : Sexp → Option (Option EvTrig)
  | .atom "none" => some Option.none
  | .list [.atom "ev", .atom "nofilt", p] => do pure (some { filt := Option.none, parseOK := (← p.bool?) })
  | .list [.atom "ev", f, p] => do
    let g ← fn? f
    pure (some { filt := some g.eval, parseOK := (← p.bool?) })
  | _ => Option.none

def mqtt? : Sexp → Option (Option MqTrig)
  | .atom "none" => some Option.none
  | .list [.atom "mq", p] => do pure (some { parseOK := (← p.bool?) })
  | _ => Option.none

def time? : Sexp → Option TimeSpec
  | .atom "none" => some .none
  | .list [.atom "abs", t] => t.nat? >>= fun k => some (.abs k)
  | .list [.atom "rel", t] => t.nat? >>= fun k => some (.rel k)
  | _ => Option.none

def timeout? : Sexp → Option (Option Nat)
  | .atom "none" => some Option.none
  | x => x.nat? >>= fun k => some (some k)

def item? : Sexp → Option (Nat × Item)
  | .list [t, .list [.atom "s", v]] => do pure ((← t.nat?), .state (← v.nat?))
  | .list [t, .list [.atom "e", d]] => do pure ((← t.nat?), .event (← d.nat?))
  | .list [t, .list [.atom "c"]] => do pure ((← t.nat?), .cancel)
  | _ => Option.none

def ids (n : Nat) : List Nat := (List.range n).map (· + 100)

def tables? : Sexp → Option Tables
  | .list [.atom "tb", a, b, c, d, e, f] => do
    pure { stSubs := ids (← a.nat?), evSubs := ids (← b.nat?), evListeners := (← c.nat?), mqSubs := ids (← d.nat?),
           mqListeners := (← e.nat?), tasks := (← f.nat?) }
  | _ => Option.none

def showRet : Ret → String
  | .state (some v) => s!"state {v}"
  | .state Option.none => "state -"
  | .time _ => "time"
  | .event d => s!"event {d}"
  | .timeout => "timeout"
  | .none => "none"

def showExit : Exit → String
  | .ret t r => s!"(ret {t} {showRet r})"
  | .exc t .parse => s!"(exc {t} parse)"
  | .exc t .eval => s!"(exc {t} eval)"
  | .exc t .runtime => s!"(exc {t} runtime)"
  | .cancelled t => s!"(cancelled {t})"
  | .waiting => "(waiting)"

def showTables (t : Tables) : String :=
  s!"(tb {t.stSubs.length} {t.evSubs.length} {t.evListeners} {t.mqSubs.length} {t.mqListeners} {t.tasks})"

def entries? : Sexp → Option Entries
  | .list [.atom "en", a, b] => do pure { startup := (← a.bool?), shutdown := (← b.bool?) }
  | _ => Option.none

def handleCfg (mode : String) (st tm ev mq to : Sexp) (en : Entries) (tb v call : Sexp) (items : List Sexp) : String :=
    match state? st, time? tm, event? ev, mqtt? mq, timeout? to, tables? tb, v.nat?, call.nat?, Sexp.mapM? item? items with
    | some s, some t, some e, some m, some o, some tbl, some v0, some c, some hist =>
      let cfg : Cfg := { state := s, time := t, event := e, mqtt := m, timeout := o }
      let pre := mode == "Lp" || mode == "Np"
      let fl := if pre then Flags.preFix else Flags.current
      let acted := if pre then entriesActedPreFix else entriesActedCurrent
      let r := if mode == "L" || mode == "Lp" then Legacy.runAtE en fl cfg 7 tbl v0 c hist
               else New.runAtE acted en fl cfg 7 tbl v0 c hist
      -- the first-of specification speaks about calls without holds; hold calls are judged by the Python oracle
      let sp := if (Legacy.holdTrig cfg).isSome then "-" else showExit (Spec.first cfg (valueAt v0 c hist) c (after c hist))
      s!"ok {showExit r.1} {showTables r.2} ## {sp}"
    | _, _, _, _, _, _, _, _, _ => "err parse"

def handle (x : Sexp) : String :=
  match x with
  | .list [.atom mode, .list [.atom "cfg", st, tm, ev, mq, to], tb, v, call, .list (.atom "hist" :: items)] =>
    handleCfg mode st tm ev mq to Entries.none tb v call items
  | .list [.atom mode, .list [.atom "cfg", st, tm, ev, mq, to, en], tb, v, call, .list (.atom "hist" :: items)] =>
    match entries? en with
    | some e => handleCfg mode st tm ev mq to e tb v call items
    | Option.none => "err parse"
  | _ => "err bad-command"

end PsModel.C15
