import PsModel.Util.Sexp
import PsModel.Model.C09
import PsModel.Spec.C09
/-! line-protocol front end of the C09 model

`C09 (run cont sub (op…) (probeEnt…) (probeEv…) (probeSvc…) (probeTopic…) (probeHook…))` with `cont` = 0|1,
`sub` = legacy|new, ops `(define ctx name ((var…)…) (ev…) (topic…) (hook…) (svc…) su sd)` (`var` = `(comp…)`, in the iteration order observed on the
implementation), `(del ctx name)`, `(rebind ctx dst src)`, `(put slot ctx name)`, `(drop slot)`, `(unloadctx ctx)`,
`(unloadall)`.

answer: one block per op, joined by ` | `:
`st=(ent:n …) ev=(ty:n …) bus=(ty:n …) mq=(topic:n …) mqs=(topic:n …) wh=(id:n …) whs=(id:n …) svc=(name:count …)
own=(name:ctx …) log=(kind:id …) runs=(probe:id,id …)`  (`mq`/`wh` = `Mqtt.notify` / `Webhook.notify` queues per key,
`mqs`/`whs` = live `mqtt.async_subscribe` subscriptions / Home Assistant webhook registrations per key)
`runs` is the SPEC's answer: which generations an occurrence of each probe must run (the active ones that declare it).
-/
namespace PsModel.C09
open PsModel

def strs? (x : Sexp) : Option (List String) := Sexp.listOf? Sexp.str? x

def op? : Sexp → Option Op
  | .list [.atom "define", c, n, sts, evs, mqs, whs, svcs, su, sd] => do
    let ctx ← c.str?
    let name ← n.str?
    let states ← Sexp.listOf? (Sexp.listOf? strs?) sts
    let events ← strs? evs
    let mqtts ← strs? mqs
    let hooks ← strs? whs
    let services ← strs? svcs
    let a ← su.bool?
    let b ← sd.bool?
    pure (.define ctx name states events mqtts hooks services a b)
  | .list [.atom "del", c, n] => do pure (.del (← c.str?) (← n.str?))
  | .list [.atom "rebind", c, d, s] => do pure (.rebind (← c.str?) (← d.str?) (← s.str?))
  | .list [.atom "put", k, c, n] => do pure (.put (← k.nat?) (← c.str?) (← n.str?))
  | .list [.atom "putx", k, c, n, o] => do pure (.putIn (← k.nat?) (← c.str?) (← n.str?) (← o.str?))
  | .list [.atom "drop", k] => do pure (.drop (← k.nat?))
  | .list [.atom "unloadctx", c] => do pure (.unloadCtx (← c.str?))
  | .list [.atom "unloadall"] => some .unloadAll
  | _ => none

def insertSorted (s : String) : List String → List String
  | [] => [s]
  | x :: xs => if s ≤ x then s :: x :: xs else x :: insertSorted s xs

def sortStrs (l : List String) : List String := l.foldl (fun acc s => insertSorted s acc) []

def join (l : List String) : String := "(" ++ " ".intercalate (sortStrs l) ++ ")"

/-- generations an occurrence on entity `e` must run: the started ones watching `e` -/
def runsState (sub : Sub) (w : World) (e : Ent) : List Nat :=
  match sub with
  | .legacy | .new => (w.started.filter (fun g => (g.states.any (fun names => (entsOf names).contains e)))).map (·.id)

def runsEvent (w : World) (ty : String) : List Nat :=
  (w.started.filter (fun g => g.events.contains ty)).map (·.id)

def runsMqtt (w : World) (t : String) : List Nat :=
  (w.started.filter (fun g => g.mqtts.contains t)).map (·.id)

def runsHook (w : World) (h : String) : List Nat :=
  (w.started.filter (fun g => g.hooks.contains h)).map (·.id)

def natsStr (l : List Nat) : String := ",".intercalate (l.map toString)

def runsSvc (w : World) (n : String) : List Nat :=
  (w.started.filter (fun g => g.services.contains n)).map (·.id)

def showWorld (sub : Sub) (w : World) (logFrom : Nat) (pe : List Ent) (pv ps pm pw : List String) : String :=
  let st := (w.st.filter (fun kv => !kv.2.isEmpty)).map (fun kv => s!"{".".intercalate kv.1}:{kv.2.length}")
  let ev := (w.ev.tbl.filter (fun kv => !kv.2.isEmpty)).map (fun kv => s!"{".".intercalate kv.1}:{kv.2.length}")
  let bus := (w.ev.bus.filter (fun kv => kv.2 != 0)).map (fun kv => s!"{kv.1}:{kv.2}")
  let mq := (w.mq.tbl.filter (fun kv => !kv.2.isEmpty)).map (fun kv => s!"{".".intercalate kv.1}:{kv.2.length}")
  let mqs := (w.mq.bus.filter (fun kv => kv.2 != 0)).map (fun kv => s!"{kv.1}:{kv.2}")
  let wh := (w.wh.tbl.filter (fun kv => !kv.2.isEmpty)).map (fun kv => s!"{".".intercalate kv.1}:{kv.2.length}")
  let whs := (w.wh.bus.filter (fun kv => kv.2 != 0)).map (fun kv => s!"{kv.1}:{kv.2}")
  let svc := (w.svc.filter (fun kv => kv.2 != 0)).map (fun kv => s!"{kv.1}:{kv.2}")
  let own := w.owner.map (fun kv => s!"{kv.1}:{kv.2}")
  let log := (w.log.drop logFrom).map (fun kv => s!"{kv.1}:{kv.2}")
  let runs := pe.map (fun e => s!"{".".intercalate e}:{natsStr (runsState sub w e)}") ++
              pv.map (fun ty => s!"{ty}:{natsStr (runsEvent w ty)}") ++
              ps.map (fun n => s!"{n}:{natsStr (runsSvc w n)}") ++
              pm.map (fun t => s!"{t}:{natsStr (runsMqtt w t)}") ++
              pw.map (fun h => s!"{h}:{natsStr (runsHook w h)}")
  s!"st={join st} ev={join ev} bus={join bus} mq={join mq} mqs={join mqs} wh={join wh} whs={join whs} " ++
    s!"svc={join svc} own={join own} " ++
    s!"log={join log} runs=({" ".intercalate runs})"

def runOps (cont : Bool) (sub : Sub) (pe : List Ent) (pv ps pm pw : List String) :
    World → List Op → List String → List String
  | _, [], acc => acc.reverse
  | w, op :: rest, acc =>
    let w' := step cont sub w op
    runOps cont sub pe pv ps pm pw w' rest (showWorld sub w' w.log.length pe pv ps pm pw :: acc)

def handle (x : Sexp) : String :=
  match x with
  | .list [.atom "run", c, .atom s, .list ops, pes, pvs, pss, pms, pws] =>
    match c.bool?, (match s with | "legacy" => some Sub.legacy | "new" => some Sub.new | _ => none),
          Sexp.mapM? op? ops, Sexp.listOf? strs? pes, strs? pvs, strs? pss, strs? pms, strs? pws with
    | some cont, some sub, some os, some pe, some pv, some ps, some pm, some pw =>
      " | ".intercalate (runOps cont sub pe pv ps pm pw emptyWorld os [])
    | _, _, _, _, _, _, _, _ => "err parse"
  | _ => "err bad-command"

end PsModel.C09
