import PsModel.Util.Sexp
import PsModel.Model.C04
import PsModel.Spec.C04
/-!
Line-protocol front end of the C04 model.

    C04 (<legacy|new> (cfg …) (live0 …) (step …))
    C04 (held <legacy|new> ((k v) …) ((entity sval sval ctx) …) plain)   -- kwargs of runs delayed by state_hold; plain = 1:
                                                                      -- also a plain trigger firing on the same events
    C04 (kwnone <legacy|new> (q …) (ctx …))                          -- a decorator with kwargs=None (finding C04-F5)
    cfg  := (func expr (name …) (name …) watch ((k v) …))      -- expr names, any names
    expr := none | E ;  watch := none | (name …) ;  name := (entity part …)
    E    := (eq n lit) | (ne n lit) | (eqn n n) | (isnone n) | (truthy n) | (intgt n k) | (intnz n) | (and E E) | (or E E)
          | (not E) | (anyl E …)
    live0 := ((entity sval) …) ;  sval := none | (state ((k v) …))
    step := (op entity sval ctx) | (deq i) | (unload) | (load)     -- unload / load: all trigger functions go away / come back

The theorems hold for every expression function; here it is instantiated with an evaluator of the harness' small
expression grammar (the harness renders the same tree to Python source).
-/
namespace PsModel.C04
open PsModel

/-- the harness' expression grammar -/
inductive Ex where
  | eq (n : Name) (s : String)
  | ne (n : Name) (s : String)
  | eqn (a b : Name)
  | isnone (n : Name)
  | truthy (n : Name)
  | intgt (n : Name) (k : Int)
  | intnz (n : Name)               -- `int(n)` used for its truth value (a non-bool result)
  | and (a b : Ex)
  | or (a b : Ex)
  | not (a : Ex)
  | anyl (es : List Ex)
deriving Repr, Inhabited

def envGet (env : Env) (n : Name) : Val :=
  match env.lookup n with
  | some v => v
  | none => .undef

/-- the Python value as a string (`None` ↦ none); `none` result = raises -/
def pyStr : Val → Option (Option String)
  | .none => some none
  | .sv s => some (some s.state)
  | .av a => some (some a)
  | .undef => none

/-- Python `int(str)` on the values the harness uses: surrounding whitespace stripped, optional sign, decimal digits -/
def pyInt (s : String) : Option Int :=
  let cs := (s.toList.dropWhile Char.isWhitespace).reverse.dropWhile Char.isWhitespace |>.reverse
  let body (ds : List Char) : Option Nat :=
    if ds.isEmpty || !ds.all Char.isDigit then none
    else some (ds.foldl (fun acc c => acc * 10 + (c.toNat - '0'.toNat)) 0)
  match cs with
  | '-' :: ds => (body ds).map (fun n => - (n : Int))
  | '+' :: ds => (body ds).map (fun n => (n : Int))
  | ds => (body ds).map (fun n => (n : Int))

mutual
/-- `none` = the evaluation raises -/
def Ex.eval (env : Env) : Ex → Option Bool
  | .eq n s => (pyStr (envGet env n)).map (fun v => v == some s)
  | .ne n s => (pyStr (envGet env n)).map (fun v => v != some s)
  | .eqn a b =>
    match pyStr (envGet env a), pyStr (envGet env b) with
    | some x, some y => some (x == y)
    | _, _ => none
  | .isnone n => (pyStr (envGet env n)).map (fun v => v.isNone)
  | .truthy n => (pyStr (envGet env n)).map (fun v => match v with | some s => s != "" | none => false)
  | .intgt n k =>
    match pyStr (envGet env n) with
    | some (some s) => (pyInt s).map (fun i => decide (i > k))
    | _ => none
  | .intnz n =>
    match pyStr (envGet env n) with
    | some (some s) => (pyInt s).map (fun i => decide (i ≠ 0))
    | _ => none
  | .and a b =>
    match a.eval env with
    | some true => b.eval env
    | r => r
  | .or a b =>
    match a.eval env with
    | some false => b.eval env
    | r => r
  | .not a => (a.eval env).map (!·)
  | .anyl es => Ex.evalAll env es
/-- `any([e1, …])`: the list is built first (every element evaluated), then or-ed -/
def Ex.evalAll (env : Env) : List Ex → Option Bool
  | [] => some false
  | e :: es =>
    match e.eval env, Ex.evalAll env es with
    | some x, some y => some (x || y)
    | _, _ => none
end

def Ex.truth (e : Ex) : Env → Bool := fun env => e.eval env == some true

/-! ## parsing -/

def name? : Sexp → Option Name
  | .list (.atom e :: rest) => (Sexp.mapM? Sexp.str? rest).map (fun r => ⟨e, r⟩)
  | _ => none

def kvs? (x : Sexp) : Option (List (String × String)) :=
  Sexp.listOf? (fun p => match p with
    | .list [.atom k, .atom v] => some (k, v)
    | _ => none) x

def sval? : Sexp → Option (Option SVal)
  | .atom "none" => some none
  | .list [.atom s, attrs] => (kvs? attrs).map (fun a => some ⟨s, a⟩)
  | _ => none

partial def ex? : Sexp → Option Ex
  | .list [.atom "eq", n, .atom s] => (name? n).map (Ex.eq · s)
  | .list [.atom "ne", n, .atom s] => (name? n).map (Ex.ne · s)
  | .list [.atom "eqn", a, b] => do pure (Ex.eqn (← name? a) (← name? b))
  | .list [.atom "isnone", n] => (name? n).map Ex.isnone
  | .list [.atom "truthy", n] => (name? n).map Ex.truthy
  | .list [.atom "intgt", n, k] => do pure (Ex.intgt (← name? n) (← k.int?))
  | .list [.atom "intnz", n] => (name? n).map Ex.intnz
  | .list [.atom "and", a, b] => do pure (Ex.and (← ex? a) (← ex? b))
  | .list [.atom "or", a, b] => do pure (Ex.or (← ex? a) (← ex? b))
  | .list [.atom "not", a] => (ex? a).map Ex.not
  | .list (.atom "anyl" :: es) => (Sexp.mapM? ex? es).map Ex.anyl
  | _ => none

def cfg? : Sexp → Option STCfg
  | .list [f, e, en, an, w, kw] => do
    let func ← f.nat?
    let expr ← match e with
      | .atom "none" => some none
      | x => (ex? x).map (fun t => some t.truth)
    let exprNames ← Sexp.listOf? name? en
    let anyNames ← Sexp.listOf? name? an
    let watch ← match w with
      | .atom "none" => some none
      | x => (Sexp.listOf? name? x).map some
    let kwargs ← kvs? kw
    pure ⟨expr, exprNames, anyNames, watch, kwargs, func⟩
  | _ => none

/-- a driver step: a model step, or a life boundary -/
inductive DStep where
  | s (st : Step)
  | unload
  | load

def step? : Sexp → Option DStep
  | .list [.atom "op", .atom e, v, c] => do pure (.s (.op ⟨e, ← sval? v, ← c.nat?⟩))
  | .list [.atom "deq", i] => i.nat?.map (fun j => .s (Step.deq j))
  | .list [.atom "unload"] => some .unload
  | .list [.atom "load"] => some .load
  | _ => none

/-- the model over several lives: `exec` within a life, `relife` at every boundary -/
def execLives (h : Handler) (cfgs : List STCfg) (s : Sys) : List DStep → Sys
  | [] => s
  | .s st :: r => execLives h cfgs (step h cfgs s st) r
  | .unload :: r => execLives h cfgs (relife s) r
  | .load :: r => execLives h cfgs (relife s) r

/-- the spec over several lives: while nobody is subscribed the snapshot moves on and nothing runs; `f` is the spec
function of one life (`Spec.log`, `Spec.stEvals c`, `evalCtxs c`) -/
def specLives {α : Type} (f : Store → List Op → List α) : Store → Bool → List Op → List DStep → List α
  | st, alive, acc, [] => if alive then f st acc.reverse else []
  | st, alive, acc, .s (.op o) :: r => specLives f st alive (o :: acc) r
  | st, alive, acc, .s (.deq _) :: r => specLives f st alive acc r
  | st, alive, acc, .unload :: r =>
    (if alive then f st acc.reverse else []) ++ specLives f (acc.reverse.foldl (fun t o => t.put o.e o.new) st) false [] r
  | st, alive, acc, .load :: r =>
    (if alive then f st acc.reverse else []) ++ specLives f (acc.reverse.foldl (fun t o => t.put o.e o.new) st) true [] r

def live? (x : Sexp) : Option Store :=
  Sexp.listOf? (fun p => match p with
    | .list [.atom e, v] => (sval? v).map (fun s => (e, s))
    | _ => none) x

/-! ## rendering -/

def sxRun (r : Run) : Sexp := sxl (sxn r.ctx :: r.args.map (fun p => sxl [sx p.1, sx p.2]))

def funcs (cfgs : List STCfg) : List Nat := (cfgs.map (·.func)).eraseDups

/-- event contexts of the spec's evaluations (same recursion as `Spec.stEvals`, but returning the event id) -/
def evalCtxs (c : STCfg) : Store → List Op → List Nat
  | _, [] => []
  | st, o :: ops =>
    match Spec.eventOf st o with
    | none => evalCtxs c st ops
    | some ev =>
      (if !Spec.anyMatch c ev && Spec.watchedChange c ev && c.expr.isSome then [ev.ctx] else [])
        ++ evalCtxs c (st.put o.e o.new) ops

def hasUndef (env : Env) : Bool := env.any (fun p => p.2 == Val.undef)

/-- diagnostics for the classifier: where did the model's environment differ from the spec environment
(`live` = a name was read live with another value, `undef` = a name raised) -/
def diag (i : Nat) (c : STCfg) (modelEvals specEvals : List Env) (ctxs : List Nat) : List Sexp :=
  let rec go : List Env → List Env → List Nat → List Sexp
    | m :: ms, s :: ss, k :: ks =>
      (if m == s then [] else [sxl [sxn i, sxn k, sx (if hasUndef m then "undef" else "live")]]) ++ go ms ss ks
    | _, _, _ => []
  go modelEvals specEvals ctxs ++
    (if c.watch.isSome && !(c.exprNames.all (fun n => c.ident.contains n)) then [sxl [sxn i, sxn 0, sx "watch-subset"]]
     else [])

def run (legacy : Bool) (cfgs : List STCfg) (live : Store) (steps : List DStep) : String :=
  let h : Handler := if legacy then Legacy.handle else New.handle
  let s := execLives h cfgs ⟨⟨live, []⟩, fun _ => ⟨[], []⟩, []⟩ steps
  let idx := List.range cfgs.length
  let fs := funcs cfgs
  let mRuns := fs.map (fun f => sxl (sxn f :: (funcRuns cfgs f s.log).map sxRun))
  let mEvals := idx.map (fun i => sxn (s.ts i).evals.length)
  let pend := idx.map (fun i => sxn (s.ts i).q.length)
  let sLog := specLives (Spec.log cfgs) live true [] steps
  let sRuns := fs.map (fun f => sxl (sxn f :: ((sLog.filter (ofFunc cfgs f)).map (·.2)).map sxRun))
  let sEvals := idx.map (fun i => match cfgs[i]? with
    | some c => sxn (specLives (Spec.stEvals c) live true [] steps).length
    | none => sxn 0)
  let dg := idx.flatMap (fun i => match cfgs[i]? with
    | some c => diag i c (s.ts i).evals (specLives (Spec.stEvals c) live true [] steps)
        (specLives (evalCtxs c) live true [] steps)
    | none => [])
  let model := sxl [sx "runs", sxl mRuns, sx "evals", sxl mEvals, sx "pending", sxl pend]
  let spec := sxl [sx "runs", sxl sRuns, sx "evals", sxl sEvals]
  s!"ok (model {model.render}) (spec {spec.render}) (diag {(sxl dg).render})"

/-- one event that started a hold: (entity new old ctx) -/
def ev? : Sexp → Option Ev
  | .list [.atom e, n, o, c] => do pure ⟨e, ← sval? n, ← sval? o, ← c.nat?⟩
  | _ => none

/-- `held`: the keyword arguments of runs delayed by `state_hold` -/
def runHeld (legacy : Bool) (kw : List (String × String)) (evs : List Ev) (plain : Bool) : String :=
  let c : STCfg := ⟨none, [], [], none, kw, 0⟩
  let cp : STCfg := ⟨none, [], [], none, [], 0⟩       -- the plain trigger next to it: no kwargs
  let m := evs.map (fun ev => sxRun (if legacy then Legacy.heldRun c ev else New.heldRun c ev))
  let sp := evs.map (fun ev => sxRun (mkRun c ev))
  -- every subscriber's message carries its own copy of the event's arguments (`enqueue`: one `Msg` per queue), so the
  -- plain trigger's run is `mkRun` of ITS decorator, whatever the held decorator merged into its own copy
  let mp := if plain then evs.map (fun ev => sxRun (mkRun cp ev)) else []
  s!"ok (model {(sxl [sx "held", sxl m, sxl mp]).render}) (spec {(sxl [sx "held", sxl sp, sxl mp]).render}) (diag ())"

/-- `kwnone`: a decorator with `kwargs=None`; qs = qualifies-flags of the delivered watched changes, ctxs their ids -/
def runKwNone (legacy : Bool) (qs : List Bool) (ctxs : List Nat) : String :=
  let mr := if legacy then Legacy.kwNoneRuns qs ctxs else New.kwNoneRuns qs ctxs
  let me := if legacy then Legacy.kwNoneEvals qs else New.kwNoneEvals qs
  let sr := (qs.zip ctxs).filterMap (fun p => if p.1 then some p.2 else none)
  let shw (l : List Nat) := "(" ++ " ".intercalate (l.map toString) ++ ")"
  s!"ok (model (kwnone {shw mr} {me})) (spec (kwnone {shw sr} {qs.length})) (diag ())"

def handle (x : Sexp) : String :=
  match x with
  | .list [.atom "kwnone", .atom sub, qs, cs] =>
    match Sexp.listOf? Sexp.bool? qs, Sexp.listOf? Sexp.nat? cs with
    | some qs, some cs =>
      if sub == "legacy" then runKwNone true qs cs
      else if sub == "new" then runKwNone false qs cs
      else "err bad-subsystem"
    | _, _ => "err parse"
  | .list [.atom "held", .atom sub, kw, evs, pl] =>
    match kvs? kw, Sexp.listOf? ev? evs, pl.bool? with
    | some kw, some evs, some pl =>
      if sub == "legacy" then runHeld true kw evs pl
      else if sub == "new" then runHeld false kw evs pl
      else "err bad-subsystem"
    | _, _, _ => "err parse"
  | .list [.atom sub, cf, lv, st] =>
    match Sexp.listOf? cfg? cf, live? lv, Sexp.listOf? step? st with
    | some cfgs, some live, some steps =>
      if sub == "legacy" then run true cfgs live steps
      else if sub == "new" then run false cfgs live steps
      else "err bad-subsystem"
    | _, _, _ => "err parse"
  | _ => "err bad-command"

end PsModel.C04
