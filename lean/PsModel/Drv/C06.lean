import PsModel.Util.Sexp
import PsModel.Model.C06
import PsModel.Drv.C07
/-! line-protocol front end of the C06 model

```
C06 (next <tspecs> <now> <startup> <suntab> <cronnext> <utcoff>)   → next=<t|none> adj=<t|none> | raise   (the code as it is)
C06 (next-pre <tspecs> <now> <startup> <suntab> <cronnext> <utcoff>)                                        (before fix c80f3bb)
C06 (chain legacy|new <targs|bare> <startup> <n> <horizon> <suntab> <cronnext> <utcoff>)       targs = (startup | shutdown | <tspec> …)
                                                                   → [startup] t1 t2 … [shutdown]: the runs of a trigger loop
                                                                     started at `startup` and removed at `horizon`
C06 (dst legacy|new|new-pre <tspecs> <startup> <r0> <n> <rEnd> <zreal> <znaive> <cronlists>)
                                                                   → t@w@r …  runs of the wait loop on real time: trigger_time, wall
                                                                     clock and real time of each run (real time ≤ rEnd)
                                                                     zreal/znaive = ((threshold offset) …) ascending: offset of the wall
                                                                     clock at real time / of a naive local time; cronlists = ((id t1 t2 …) …)
C06 (lag legacy|new <tspecs> <startup> <r0> <n> <rEnd> <ppm> <cronlists>)   → t@w …  the same loop with a wall clock running ppm
                                                                     millionths slower than the sleep clock (w rounded to ms)
C06 (off <offast>)                                                 → <µs>
C06 (civil <day>) → y m d w          C06 (days y m d) → <day>|invalid
tspec   = (once <dt>) | (period <dt> <offast> <dt|none> num den) | (cron id)
dt      = (at <date> <time> <offast|none>) | (now <offast|none>)       (date/time as in C07)
offast  = (neg mant dec unit)
cronnext = ((id t next) …)      utcoff = ((t off) …)
```
`num/den` is the exact value of the Python float `period` (float.as_integer_ratio).  It is only used by `next-pre`
(`TFlags.preFix`), where `fdiv` is computed with the same IEEE operations as the pre-fix
`math.floor((now - start).total_seconds() / period)`; `next` and `chain` run `TFlags.current`: exact integer division.
-/
namespace PsModel.C06
open PsModel PsModel.C07

def offAst? : Sexp → Option OffAst
  | .list [neg, mant, dec, .atom unit] => do pure ⟨← neg.bool?, ← mant.nat?, ← dec.nat?, if unit == "-" then "" else unit⟩
  | _ => none

def offOpt? : Sexp → Option Int
  | .atom "none" => some 0
  | x => do pure (offUs (← offAst? x))

def dt6? : Sexp → Option DTSpec
  | .list [.atom "at", d, t, off] => do pure (.at (← date? d) (← time? t) (← offOpt? off))
  | .list [.atom "now", off] => do pure (.now (← offOpt? off))
  | _ => none

/-- a parsed specification plus, for periods, the exact value of the float interval -/
def tspec? : Sexp → Option (TSpec × Option (Int × Int × Int))
  | .list [.atom "once", d] => do pure (.once (← dt6? d), none)
  | .list [.atom "period", st, per, stop, num, den] => do
    let p ← offAst? per
    let e ← (match stop with
      | .atom "none" => some none
      | x => (dt6? x).map some)
    pure (.period (← dt6? st) (offUs p) e, some (offUs p, ← num.int?, ← den.int?))
  | .list [.atom "cron", id] => do pure (.cron (← id.nat?), none)
  | _ => none

/-- `math.floor((elapsed µs / 10^6) / (num / den))` with IEEE doubles (den is a power of two, |num| < 2^53) -/
def targ? : Sexp → Option (TArg × Option (TSpec × Option (Int × Int × Int)))
  | .atom "startup" => some (.startup, none)
  | .atom "shutdown" => some (.shutdown, none)
  | x => do
    let r ← tspec? x
    pure (.spec r.1, some r)

def showRun : Run → String
  | .startup => "startup"
  | .shutdown => "shutdown"
  | .at t => toString t

def fdivFloat (num den elapsed : Int) : Int :=
  let p : Float := Float.ofInt num / Float.ofInt den
  let ts : Float := Float.ofInt elapsed / 1000000.0
  (Float.floor (ts / p)).toInt64.toInt

def cronRow3? : Sexp → Option (Nat × Int × Int)
  | .list [id, t, n] => do pure (← id.nat?, ← t.int?, ← n.int?)
  | _ => none

def offRow? : Sexp → Option (Int × Int)
  | .list [t, o] => do pure (← t.int?, ← o.int?)
  | _ => none

def mkParams (specs : List (TSpec × Option (Int × Int × Int))) (sun : List (Bool × Int × Option Int))
    (cn : List (Nat × Int × Int)) (uo : List (Int × Int)) : Params :=
  let pers := specs.filterMap (·.2)
  { base := ⟨lookupSun sun, fun _ _ => false⟩
    fdiv := fun e per =>
      match pers.find? (fun r => r.1 == per) with
      | some r => fdivFloat r.2.1 r.2.2 e
      | none => e / per
    cronNext := fun id t =>
      match cn.find? (fun r => r.1 == id && r.2.1 == t) with
      | some r => r.2.2
      | none => t + 1
    utcOff := fun t =>
      match uo.find? (fun r => r.1 == t) with
      | some r => r.2
      | none => 0 }

def stepRow? : Sexp → Option (Int × Int)
  | .list [t, o] => do pure (← t.int?, ← o.int?)
  | _ => none

/-- piecewise constant: the offset of the last threshold ≤ x (the first row's offset before all thresholds) -/
def stepLookup (tab : List (Int × Int)) (x : Int) : Int :=
  match tab with
  | [] => 0
  | first :: _ => (tab.foldl (fun acc row => if row.1 ≤ x then row.2 else acc) first.2)

def cronList? : Sexp → Option (Nat × List Int)
  | .list (id :: ts) => do pure (← id.nat?, ← Sexp.mapM? Sexp.int? ts)
  | _ => none

def showOI : Option Int → String
  | some t => toString t
  | none => "none"

def handle (x : Sexp) : String :=
  match x with
  | .list [.atom cmd, specs, now, startup, sunTab, cn, uo] =>
    if cmd != "next" && cmd != "next-pre" then "err bad-command" else
    match Sexp.listOf? tspec? specs, now.int?, startup.int?, Sexp.listOf? sunRow? sunTab, Sexp.listOf? cronRow3? cn,
        Sexp.listOf? offRow? uo with
    | some ss, some n, some st, some sun, some cnT, some uoT =>
      match timerNext (if cmd == "next-pre" then TFlags.preFix else TFlags.current) (mkParams ss sun cnT uoT) (ss.map (·.1)) n st with
      | some r => s!"next={showOI r.next} adj={showOI r.adj}"
      | none => "raise"
    | _, _, _, _, _, _ => "err parse"
  | .list [.atom "chain", .atom sub, targs, startup, cnt, hor, sunTab, cn, uo] =>
    let parsed : Option (Option (List (TArg × Option (TSpec × Option (Int × Int × Int))))) :=
      match targs with
      | .atom "bare" => some none
      | x => (Sexp.listOf? targ? x).map some
    match parsed, startup.int?, cnt.nat?, hor.int?, Sexp.listOf? sunRow? sunTab, Sexp.listOf? cronRow3? cn, Sexp.listOf? offRow? uo with
    | some pa, some st, some k, some h, some sun, some cnT, some uoT =>
      let args : Option (List TArg) := pa.map (fun l => l.map (·.1))
      let ss := (pa.getD []).filterMap (·.2)
      let cfg := if sub == "legacy" then Legacy.normalize args else New.normalize args
      let runs := funcRuns TFlags.current (mkParams ss sun cnT uoT) cfg st (fun _ => 1) k
      " ".intercalate ((runs.filter (fun r => match r with | .at t => decide (t ≤ h) | _ => true)).map showRun)
    | _, _, _, _, _, _, _ => "err parse"
  | .list [.atom "dst", .atom sub, specs, startup, r0, cnt, rEnd, zr, zn, cl] =>
    match Sexp.listOf? tspec? specs, startup.int?, r0.int?, cnt.nat?, rEnd.int?, Sexp.listOf? stepRow? zr, Sexp.listOf? stepRow? zn,
        Sexp.listOf? cronList? cl with
    | some ss, some st, some r, some k, some re, some zrT, some znT, some clT =>
      let P : Params :=
        { base := C07.Params.trivial
          fdiv := fun e per => e / per
          cronNext := fun id t =>
            match clT.find? (fun row => row.1 == id) with
            | some row => (row.2.find? (fun x => t < x)).getD (t + 1)
            | none => t + 1
          utcOff := stepLookup znT }
      let runs := dstLoop (if sub == "legacy" then WFlags.legacy else if sub == "new-pre" then WFlags.newPreFix else WFlags.new) TFlags.current P (ss.map (·.1)) st ⟨stepLookup zrT⟩ k r
      " ".intercalate ((runs.filter (fun x => x.2.2 ≤ re)).map (fun x => s!"{x.1}@{x.2.1}@{x.2.2}"))
    | _, _, _, _, _, _, _, _ => "err parse"
  | .list [.atom "lag", .atom sub, specs, startup, r0, cnt, rEnd, ppm, cl] =>
    -- a wall clock that runs `ppm` millionths slower than the clock asyncio sleeps on (no zone change); prints t@w, w in ms
    match Sexp.listOf? tspec? specs, startup.int?, r0.int?, cnt.nat?, rEnd.int?, ppm.int?, Sexp.listOf? cronList? cl with
    | some ss, some st, some r, some k, some re, some pm, some clT =>
      let P : Params :=
        { base := C07.Params.trivial
          fdiv := fun e per => e / per
          cronNext := fun id t =>
            match clT.find? (fun row => row.1 == id) with
            | some row => (row.2.find? (fun x => t < x)).getD (t + 1)
            | none => t + 1
          utcOff := fun _ => 0 }
      let Z : Zone := ⟨fun x => st - r - ((x - r) * pm + 500000) / 1000000⟩     -- rounded to the nearest µs like timedelta
      let runs := dstLoop (if sub == "legacy" then WFlags.legacy else WFlags.new) TFlags.current P (ss.map (·.1)) st Z k r
      " ".intercalate ((runs.filter (fun x => x.2.2 ≤ re)).map (fun x => s!"{x.1}@{(x.2.1 + 500) / 1000 * 1000}"))
    | _, _, _, _, _, _, _ => "err parse"
  | .list [.atom "off", o] =>
    match offAst? o with
    | some a => toString (offUs a)
    | none => "err parse"
  | .list [.atom "civil", d] =>
    match d.int? with
    | some z => let c := civilFromDays z; s!"{c.y} {c.m} {c.d} {weekday z}"
    | none => "err parse"
  | .list [.atom "days", y, m, d] =>
    match y.int?, m.int?, d.int? with
    | some y, some m, some d => if validDate y m d then toString (daysFromCivil y m d) else "invalid"
    | _, _, _ => "err parse"
  | _ => "err bad-command"

end PsModel.C06
