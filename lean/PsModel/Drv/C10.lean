import PsModel.Util.Sexp
import PsModel.Model.C10
import PsModel.Spec.C10
/-! line-protocol front end of the C10 model

`C10 (run ((src (level comp…)…)…) ((only apps disk)…))`
* `only` = `default` | `all` | `(ctx comp…)`
* `apps` = `((app cfgid)…)`, `disk` = `(((comp…) src mtime)…)` in sorted path order

answer: one block per step, joined by ` | `:
`ev=(name:src …) ctx=(name:src:oid:mod:imp,imp … ) disc=(name …)` – `disc` is the spec's discarded set for a
default reload (`-` otherwise).
-/
namespace PsModel.C10
open PsModel

def strs? (x : Sexp) : Option (List String) := Sexp.listOf? Sexp.str? x

def imp? : Sexp → Option Imp
  | .list (l :: ms) => do
    let lv ← l.nat?
    let m ← Sexp.mapM? Sexp.str? ms
    pure { level := lv, mod := m }
  | _ => none

def progEntry? : Sexp → Option (Nat × List Imp)
  | .list [s, is] => do
    let n ← s.nat?
    let l ← Sexp.listOf? imp? is
    pure (n, l)
  | _ => none

def file? : Sexp → Option File
  | .list [p, s, m] => do
    let path ← strs? p
    let src ← s.nat?
    let mt ← m.nat?
    pure { path := path, src := src, mtime := mt }
  | _ => none

def app? : Sexp → Option (String × Option Nat)
  | .list [a, .atom "none"] => do
    let n ← a.str?
    pure (n, none)
  | .list [a, c] => do
    let n ← a.str?
    let k ← c.nat?
    pure (n, some k)
  | _ => none

def only? : Sexp → Option Only
  | .atom "default" => some .default
  | .atom "all" => some .all
  | .list (.atom "ctx" :: cs) => (Sexp.mapM? Sexp.str? cs).map Only.ctx
  | _ => none

structure Step where
  only : Only
  apps : AppsCfg
  disk : List File
  fresh : Bool := false     -- the integration was unloaded and set up again: no context is loaded before this reload

def step? : Sexp → Option Step
  | .list [o, a, d] => do
    let only ← only? o
    let apps ← Sexp.listOf? app? a
    let disk ← Sexp.listOf? file? d
    pure { only := only, apps := apps, disk := disk }
  | .list [o, a, d, f] => do
    let only ← only? o
    let apps ← Sexp.listOf? app? a
    let disk ← Sexp.listOf? file? d
    let fr ← f.bool?
    pure { only := only, apps := apps, disk := disk, fresh := fr }
  | _ => none

def showCtx (c : Ctx) : String :=
  s!"{nameStr c.name}:{c.src}:{c.oid}:{if c.isModule then 1 else 0}:" ++
    ",".intercalate ((sortNames c.imports).map nameStr)

def showStep (evs : List (Name × Nat)) (cs : List Ctx) (disc : Option (List Name)) : String :=
  "ev=(" ++ " ".intercalate (evs.map (fun e => s!"{nameStr e.1}:{e.2}")) ++ ") ctx=(" ++
    " ".intercalate ((sortCtxs cs).map showCtx) ++ ") disc=" ++
    (match disc with
     | some d => "(" ++ " ".intercalate ((sortNames d).map nameStr) ++ ")"
     | none => "-")

def progOf (tbl : List (Nat × List Imp)) (s : Nat) : List Imp := (tbl.lookup s).getD []

def runSteps (prog : Nat → List Imp) : St → List Step → List String → List String
  | _, [], acc => acc.reverse
  | st0, s :: rest, acc =>
    let st : St := if s.fresh then { st0 with ctxs := [] } else st0
    let loaded := sortCtxs (st.ctxs.filter (fun c => isScriptCtx c.name))
    let st' := reload (loaded.length + 2) (s.disk.length + 2) loadRows s.apps s.disk prog s.only st
    let evs := st'.events.drop st.events.length
    -- the spec column; `C10_spec_column` says it is exactly `Spec.Disc` once the iteration is stable
    let ents := globRead loadRows s.apps s.disk
    let disc := match s.only with
      | .default =>
        if Spec.stable loaded ents (Spec.discardedList loaded ents) then some (Spec.discardedList loaded ents)
        else some [["unstable"]]
      | _ => none
    runSteps prog st' rest (showStep evs st'.ctxs disc :: acc)

def handle (x : Sexp) : String :=
  match x with
  | .list [.atom "run", pr, steps] =>
    match Sexp.listOf? progEntry? pr, Sexp.listOf? step? steps with
    | some tbl, some ss => " | ".intercalate (runSteps (progOf tbl) { ctxs := [], events := [] } ss [])
    | _, _ => "err parse"
  | .list [.atom "names", apps, disk] =>
    match Sexp.listOf? app? apps, Sexp.listOf? file? disk with
    | some a, some d =>
      " ".intercalate ((globRead loadRows a d).map (fun e =>
        s!"{nameStr e.name}={"/".intercalate e.path}:{if e.autoload then 1 else 0}"))
    | _, _ => "err parse"
  | _ => "err bad-command"

end PsModel.C10
