import PsModel.Util.Sexp
import PsModel.Model.C16
import PsModel.Spec.C16
/-! line-protocol front end of the C16 model: `C16 (run ENV OPS)` → `ok model=STEPS spec=STEPS conf=BITS`

ENV   = (GLOBALS LOCALS FUNCTIONS SERVICES SVCMETHODS)       names / part lists / (d n) pairs
OP    = (load PARTS) | (store PARTS ARG) | (del PARTS) | (get PARTS) | (set PARTS ARG NA KW) | (setattr PARTS (canon str))
      | (delete PARTS) | (exist PARTS) | (getattr PARTS) | (getattrsnap i) | (names) | (names dom) | (peek i)
      | (extset (d n) value ATTRS) | (extremove (d n))
ARG   = none | (plain canon str) | (snap i)        NA = none | (attrs (k canon str)…)       KW/ATTRS = ((k canon str)…)
STEPS = ((OUT STORE)…) – the spec column is rendered over the universe of entity / attribute names the case mentions
-/
namespace PsModel.C16
open PsModel PsModel.Gen

def strs? (x : Sexp) : Option (List String) := Sexp.listOf? Sexp.str? x

def pair? (x : Sexp) : Option (String × String) :=
  match x with
  | .list [.atom a, .atom b] => some (a, b)
  | _ => none

def kv? (x : Sexp) : Option (String × Val) :=
  match x with
  | .list [.atom k, .atom c, .atom s] => some (k, ⟨c, s⟩)
  | _ => none

def attrs? (x : Sexp) : Option Attrs := Sexp.listOf? kv? x

def arg? (x : Sexp) : Option ArgRef :=
  match x with
  | .atom "none" => some .none
  | .list [.atom "plain", .atom c, .atom s] => some (.plain ⟨c, s⟩)
  | .list [.atom "snap", i] => i.nat? >>= fun k => some (.snap k)
  | _ => none

def env? (x : Sexp) : Option Env :=
  match x with
  | .list [g, l, f, s, m] => do
    let gs ← strs? g
    let ls ← strs? l
    let fs ← Sexp.listOf? strs? f
    let ss ← Sexp.listOf? pair? s
    let ms ← Sexp.listOf? pair? m
    pure { globalSym := gs.map (fun a => [a]), sym := ls.map (fun a => [a]), functions := fs, services := ss,
           svcMethods := ms }
  | _ => none

def op? (x : Sexp) : Option Op :=
  match x with
  | .list [.atom "load", p] => strs? p >>= fun ps => some (.load ps)
  | .list [.atom "store", p, a] => do let ps ← strs? p; let v ← arg? a; pure (.store ps v)
  | .list [.atom "del", p] => strs? p >>= fun ps => some (.delStmt ps)
  | .list [.atom "aug", p, .atom sfx] => strs? p >>= fun ps => some (.aug ps sfx)
  | .list [.atom "get", p] => strs? p >>= fun ps => some (.get ps)
  | .list [.atom "set", p, a, na, kw] => do
    let ps ← strs? p
    let v ← arg? a
    let n ← (match na with
      | .atom "none" => some Option.none
      | .list (.atom "attrs" :: r) => (Sexp.mapM? kv? r).map some
      | _ => Option.none)
    let k ← attrs? kw
    pure (.set ps v n k)
  | .list [.atom "setattr", p, .list [.atom c, .atom s]] => strs? p >>= fun ps => some (.setattr ps ⟨c, s⟩)
  | .list [.atom "delete", p] => strs? p >>= fun ps => some (.delete ps)
  | .list [.atom "exist", p] => strs? p >>= fun ps => some (.exist ps)
  | .list [.atom "getattr", p] => strs? p >>= fun ps => some (.getattr ps)
  | .list [.atom "getattrsnap", i] => i.nat? >>= fun k => some (.getattrSnap k)
  | .list [.atom "names"] => some (.names Option.none)
  | .list [.atom "names", .atom d] => some (.names (some d))
  | .list [.atom "peek", i] => i.nat? >>= fun k => some (.peek k)
  | .list [.atom "extset", e, .atom v, a] => do let en ← pair? e; let ats ← attrs? a; pure (.extSet en v ats)
  | .list [.atom "extremove", e] => pair? e >>= fun en => some (.extRemove en)
  | _ => none

/-! rendering -/

def entS (e : Ent) : Sexp := .atom (e.1 ++ "." ++ e.2)
def attrsS (a : Attrs) : Sexp := .list (a.map (fun p => .list [.atom p.1, .atom p.2.canon]))

def outS : Out → Sexp
  | .sv s => .list [.atom "sv", .atom s.value, attrsS s.dict]
  | .attr v => .list [.atom "attr", .atom v.canon]
  | .callable => .atom "callable"
  | .py src => .list [.atom "py", .atom src]
  | .bool b => .list [.atom "bool", sxb b]
  | .names es => .list [.atom "names", .list (es.map entS)]
  | .attrs Option.none => .list [.atom "attrs", .atom "none"]
  | .attrs (some a) => .list [.atom "attrs", attrsS a]
  | .unit => .atom "unit"
  | .exc c => .list [.atom "exc", .atom c]
  | .evalName => .atom "evalname"
  | .unmodelled => .atom "unmodelled"

def storeS (st : Store) : Sexp := .list (st.map (fun p => .list [entS p.1, .atom p.2.value, attrsS p.2.attrs]))

/-- the names a case mentions: entities and attribute names (the finite window the spec's functions are printed on) -/
def opEnts : Op → List Ent
  | .load (d :: n :: _) | .store (d :: n :: _) _ | .delStmt (d :: n :: _) | .get (d :: n :: _) | .aug (d :: n :: _) _
  | .set (d :: n :: _) _ _ _ | .setattr (d :: n :: _) _ | .delete (d :: n :: _) | .exist (d :: n :: _)
  | .getattr (d :: n :: _) => [(d, n)]
  | .extSet e _ _ | .extRemove e => [e]
  | _ => []

def opAttrs : Op → List String
  | .load [_, _, a] | .delStmt [_, _, a] | .get [_, _, a] | .delete [_, _, a] | .exist [_, _, a] => [a]
  | .store [_, _, a] _ | .setattr [_, _, a] _ => [a]
  | .set _ _ na kw => (match na with | some a => a.map (·.1) | Option.none => []) ++ kw.map (·.1)
  | .extSet _ _ a => a.map (·.1)
  | _ => []

def aattrsS (ua : List String) (f : AAttrs) : Sexp :=
  .list (ua.filterMap (fun k => (f k).map (fun v => Sexp.list [.atom k, .atom v.canon])))

def soutS (ue : List Ent) (ua : List String) : SOut → Sexp
  | .sv s => .list [.atom "sv", .atom s.value, aattrsS ua s.view]
  | .attr v => .list [.atom "attr", .atom v.canon]
  | .callable => .atom "callable"
  | .py src => .list [.atom "py", .atom src]
  | .bool b => .list [.atom "bool", sxb b]
  | .names p => .list [.atom "names", .list ((ue.filter p).map entS)]
  | .attrs Option.none => .list [.atom "attrs", .atom "none"]
  | .attrs (some a) => .list [.atom "attrs", aattrsS ua a]
  | .unit => .atom "unit"
  | .exc c => .list [.atom "exc", .atom c]
  | .evalName => .atom "evalname"
  | .unmodelled => .atom "unmodelled"

def astoreS (ue : List Ent) (ua : List String) (s : AStore) : Sexp :=
  .list (ue.filterMap (fun e => (s e).map (fun r => Sexp.list [entS e, .atom r.value, aattrsS ua r.attrs])))

def runModelS (env : Env) : MState → List Op → List Sexp
  | _, [] => []
  | ms, op :: ops =>
    let r := step Fixes.current env ms op
    .list [outS r.2, storeS r.1.store] :: runModelS env r.1 ops

def runSpecS (env : Env) (ue : List Ent) (ua : List String) : AState → List Op → List Sexp
  | _, [] => []
  | st, op :: ops =>
    let r := Spec.step env st op
    .list [soutS ue ua r.2, astoreS ue ua r.1.store] :: runSpecS env ue ua r.1 ops

def handle (x : Sexp) : String :=
  match x with
  | .list [.atom "run", e, .list os] =>
    match env? e, Sexp.mapM? op? os with
    | some env, some ops =>
      let ue := (ops.flatMap opEnts).eraseDups
      let ua := (ops.flatMap opAttrs ++ VIRTUAL ++ STATE_VIRTUAL_ATTRS).eraseDups
      let m := Sexp.render (.list (runModelS env ⟨[], []⟩ ops))
      let s := Sexp.render (.list (runSpecS env ue ua ⟨fun _ => Option.none, []⟩ ops))
      let c := String.ofList (ops.map (fun o => if Conf Fixes.current env o then '1' else '0'))
      s!"ok model={m} spec={s} conf={c}"
    | _, _ => "err parse"
  | _ => "err bad-command"

end PsModel.C16
