import PsModel.Util.Sexp
import PsModel.Model.C12
import PsModel.Spec.C12
/-! line-protocol front end of the C12 model

`C12 (life legacy|new (SVC…) ((gen (required…) (params…) extra)…) (OP…))` → `ok model=(STEP…) spec=(STEP…)`
  OP   = (define ctx fn|- var gen ((svc resp)…)) | (start ctx (gen…)) | (delete ctx var) | (unload ctx)
       | (obs) | (call svc rr ctxval ((k v)…)) | (scall …: the same call made by a script)
       | (calls svc rr ctxval (((k v)…)…))                                            only these print a STEP;
         `calls` = overlapping calls of one service → (calls (call …) (call …) …), one answer per call
  STEP = (state (svc has cnt owner gen resp)… (flags inadm underflow))   for an obs   (spec: (svc has gen resp))
       | (call notfound | invalid | (ran gen ((k v)…) rr))               for a call
`C12 (split service_call|domain_service|entity_method taskctx|- target-resp entity ((key ty val)…))`
  → `ok model=((hass (key val)…) (data (key val)…) (returned b)) | (raise X)   spec=((data …) (returned b)) | (refused)`
-/
namespace PsModel.C12
open PsModel

def resp? : Sexp → Option Resp
  | .atom "none" => some .none
  | .atom "optional" => some .optional
  | .atom "only" => some .only
  | _ => none

def respS : Resp → String
  | .none => "none" | .optional => "optional" | .only => "only"

def decl? (x : Sexp) : Option (Svc × Resp) :=
  match x with
  | .list [.atom k, r] => (resp? r).map (fun rr => (k, rr))
  | _ => none

def kv? (x : Sexp) : Option (String × String) :=
  match x with
  | .list [.atom k, .atom v] => some (k, v)
  | _ => none

inductive DOp
  | life (op : Op)
  | call (svc : Svc) (rr : Bool) (ctxVal : String) (data : Kw)
  | calls (svc : Svc) (rr : Bool) (ctxVal : String) (datas : List Kw)      -- overlapping calls of one service
  | scall (svc : Svc) (rr : Bool) (ctxVal : String) (data : Kw)           -- the call is made by a script (service.call)
  | obs

def dop? (x : Sexp) : Option DOp :=
  match x with
  | .list [.atom "define", .atom ctx, .atom fn, .atom var, g, ds] => do
    let gen ← g.nat?
    let decl ← Sexp.listOf? decl? ds
    pure (.life (.define ctx (if fn == "-" then none else some fn) var gen decl))
  | .list [.atom "start", .atom ctx, ev] => (Sexp.listOf? Sexp.nat? ev).map (fun e => .life (.start ctx e))
  | .list [.atom "delete", .atom ctx, .atom var] => some (.life (.delete ctx var))
  | .list [.atom "unload", .atom ctx] => some (.life (.unload ctx))
  | .list [.atom "obs"] => some .obs
  | .list [.atom "calls", .atom svc, rr, .atom cv, .list ds] => do
    let r ← rr.bool?
    let datas ← Sexp.mapM? (Sexp.listOf? kv?) ds
    pure (.calls svc r cv datas)
  | .list [.atom "scall", .atom svc, rr, .atom cv, d] => do
    let r ← rr.bool?
    let data ← Sexp.listOf? kv? d
    pure (.scall svc r cv data)
  | .list [.atom "call", .atom svc, rr, .atom cv, d] => do
    let r ← rr.bool?
    let data ← Sexp.listOf? kv? d
    pure (.call svc r cv data)
  | _ => none

def ownerS : Option OwnerName → String
  | none => "-"
  | some ⟨c, none⟩ => c
  | some ⟨c, some f⟩ => c ++ "." ++ f

def kwS (k : Kw) : Sexp := .list (k.map (fun p => .list [.atom p.1, .atom p.2]))

def callS : CallOut → Sexp
  | .notFound => .list [.atom "call", .atom "notfound"]
  | .invalid => .list [.atom "call", .atom "invalid"]
  | .lookupError => .list [.atom "call", .atom "keyerror"]
  | .bindError => .list [.atom "call", .atom "binderror"]
  | .badResponse => .list [.atom "call", .atom "badresponse"]
  | .ran g kw rr => .list [.atom "call", .list [.atom "ran", sxn g, kwS kw, sxb rr]]

/-- what a caller of Home Assistant sees: `hass.services` looks names up lower-cased, in its own table -/
def haView (r : Reg) : Reg := { r with handler := r.ha }

/-- the observation columns: has / handler / response mode are Home Assistant's (`hass.services`, name lower-cased), count
and owner are `Function.service_cnt[k]` / `service2global_ctx[k]` for the name as given -/
def stateS (univ : List Svc) (st : MState) : Sexp :=
  .list ([.atom "state"] ++ univ.map (fun k =>
    match PsModel.C16.aget (lower k) st.reg.ha with
    | some h => Sexp.list [.atom k, sxb true, sxn (cntOf st.reg k), .atom (ownerS (PsModel.C16.aget k st.reg.owner)), sxn h.gen,
                           .atom (respS h.resp)]
    | none => Sexp.list [.atom k, sxb false, sxn (cntOf st.reg k), .atom (ownerS (PsModel.C16.aget k st.reg.owner)), .atom "-",
                         .atom "-"]) ++
    [.list [.atom "flags", sxb st.inadm, sxb st.reg.underflow]])

def sstateS (univ : List Svc) (s : SState) : Sexp :=
  .list ([.atom "state"] ++ univ.map (fun k =>
    match sHandler s k with
    | some h => Sexp.list [.atom k, sxb true, sxn h.gen, .atom (respS h.resp)]
    | none => Sexp.list [.atom k, sxb (sRegistered s k), .atom "-", .atom "-"]))

/-- the spec's answer to a call: the most recent live declaration decides -/
def sCall (s : SState) (k : Svc) (ctxVal : String) (data : Kw) (rr : Bool) : CallOut :=
  match sHandler s k with
  | none => .notFound
  | some h =>
    if rr && h.resp == .none then .invalid
    else if !rr && h.resp == .only then .invalid
    else .ran h.gen ((data.map (·.1) ++ ["trigger_type", "context"]).eraseDups.filterMap
            (fun key => (sKwargs ctxVal data key).map (fun v => (key, v)))) rr

def runM (cfg : Cfg) (sigs : List (Nat × Sig)) (univ : List Svc) : MState → List DOp → List Sexp
  | _, [] => []
  | st, .life op :: r => runM cfg sigs univ (step cfg st (admitOp cfg op)) r        -- = `runB`
  | st, .obs :: r => stateS univ st :: runM cfg sigs univ st r
  | st, .call k rr cv d :: r =>
    callS (bound sigs <| callOutcome cfg (haView st.reg) (lower k) cv d rr) :: runM cfg sigs univ st r
  | st, .scall k rr cv d :: r =>
    callS (bound sigs <| scriptCallOutcome outCfg cfg (haView st.reg) (lower k) cv d rr) :: runM cfg sigs univ st r
  | st, .calls k rr cv ds :: r =>
    .list (.atom "calls" :: (overlapOutcome cfg (haView st.reg) (lower k) cv ds rr).map (fun o => callS (bound sigs o))) ::
      runM cfg sigs univ st r

/-- the documented rule: a function that names one of pyscript's own services (any spelling) declares no service -/
def specAdmit : Op → Op
  | .define ctx fn var gen decl =>
    if decl.any (fun d => BUILTIN_SERVICES.contains (lower (svcPart d.1))) then .define ctx fn var gen [] else .define ctx fn var gen decl
  | op => op

def runS (sigs : List (Nat × Sig)) (univ : List Svc) : SState → List DOp → List Sexp
  | _, [] => []
  | s, .life op :: r => runS sigs univ (sStep s (lowOp (specAdmit op))) r
  | s, .obs :: r => sstateS univ s :: runS sigs univ s r
  | s, .call k rr cv d :: r => callS (bound sigs <| sCall s k cv d rr) :: runS sigs univ s r
  | s, .scall k rr cv d :: r =>
    callS (bound sigs <| sCall s k cv d (rr || (match sHandler s k with | some h => h.resp == .only | none => false))) :: runS sigs univ s r
  | s, .calls k rr cv ds :: r => .list (.atom "calls" :: ds.map (fun d => callS (bound sigs <| sCall s k cv d rr))) :: runS sigs univ s r

/-- (gen (required…) (params…) extra) -/
def sig? (x : Sexp) : Option (Nat × Sig) :=
  match x with
  | .list [g, rq, ps, ex] => do
    let gen ← g.nat?
    let r ← Sexp.listOf? Sexp.str? rq
    let p ← Sexp.listOf? Sexp.str? ps
    let e ← ex.bool?
    pure (gen, ⟨r, p, e⟩)
  | _ => none

def ty? : String → Option Ty
  | "context" => some .context | "bool" => some .bool | "int" => some .int | "float" => some .float
  | "other" => some .other | _ => none

def arg? (x : Sexp) : Option Arg :=
  match x with
  | .list [.atom k, .atom t, .atom v] => (ty? t).map (fun ty => ⟨k, ty, v⟩)
  | _ => none

def entry? : String → Option Entry
  | "service_call" => some .serviceCall | "domain_service" => some .domainService
  | "entity_method" => some .entityMethod | _ => none

def argsS (as : List Arg) : Sexp := .list (as.map (fun a => .list [.atom a.key, .atom a.val]))

def handle (x : Sexp) : String :=
  match x with
  | .list [.atom "life", .atom sub, us, .list sg, .list os] =>
    match Sexp.listOf? Sexp.str? us, Sexp.mapM? sig? sg, Sexp.mapM? dop? os with
    | some univ, some sigs, some ops =>
      let cfg := if sub == "legacy" then legacyCfg else newCfg
      let m := Sexp.render (.list (runM cfg sigs univ {} ops))
      let s := Sexp.render (.list (runS sigs univ [] ops))
      s!"ok model={m} spec={s}"
    | _, _, _ => "err parse"
  | .list [.atom "split", .atom en, .atom tc, tg, .atom ent, as] =>
    match entry? en, resp? tg, Sexp.listOf? arg? as with
    | some e, some target, some args =>
      let sp := splitCall e (if tc == "-" then none else some tc) args
      let hass := finishCall outCfg e (target == .only) sp.1
      let m := match outResult target hass with
        | .typeError => "(raise TypeError)"
        | .refused => "(raise ServiceValidationError)"
        | .delivered b => Sexp.render (.list [.list [.atom "hass", argsS hass], .list [.atom "data", argsS (callData e ent sp.2)],
                                               .list [.atom "returned", sxb b]])
      let s := match sOutResult target args with
        | .delivered b => Sexp.render (.list [.list [.atom "data", argsS (sData e ent args)], .list [.atom "returned", sxb b]])
        | _ => "(refused)"
      s!"ok model={m} spec={s}"
    | _, _, _ => "err parse"
  | _ => "err bad-command"

end PsModel.C12
