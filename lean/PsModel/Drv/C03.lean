import PsModel.Util.Sexp
import PsModel.Model.C03
import PsModel.Spec.C03
import PsModel.Spec.C03Scope
import PsModel.Spec.C03Cells
/-! line-protocol front end of the C03 binding model:
`C03 (bind (posonly…) (args…) ndefaults ((k hasD)…) vararg kwarg (argvals…) ((key val)…))` → `model=… spec=…` -/
namespace PsModel.C03
open PsModel

def showAV : ArgVal → String
  | .given v => s!"{v}"
  | .dflt i => s!"d{i}"
  | .kwdflt i => s!"kd{i}"

def showBound : Option Bound → String
  | none => "TypeError"
  | some b =>
    let slots := ",".intercalate (b.slots.map fun (p : String × ArgVal) => p.1 ++ "=" ++ showAV p.2)
    let var := match b.var with | none => "-" | some vs => "[" ++ ",".intercalate (vs.map toString) ++ "]"
    let kw := match b.kw with | none => "-" | some ks => "{" ++ ",".intercalate (ks.map fun (p : String × Nat) => p.1 ++ "=" ++ toString p.2) ++ "}"
    s!"{slots};{var};{kw}"

def strs? (x : Sexp) : Option (List String) := Sexp.listOf? Sexp.str? x

def showWhere : Where → String
  | .local => "local"
  | .cell d => s!"cell{d}"
  | .global => "global"

def scope? (x : Sexp) : Option FnScope :=
  match x with
  | .list [p, b, g, n, m] => do
    pure { params := ← strs? p, binds := ← strs? b, globals := ← strs? g, nonlocals := ← strs? n, mentions := ← strs? m }
  | _ => none

/-- fuel only bounds the nesting depth of the S-expression reader -/
def tgt? : Nat → Sexp → Option Tgt
  | 0, _ => none
  | _, .atom "other" => some .other
  | _, .atom x => some (.name x)
  | f + 1, .list (.atom "tuple" :: ts) => (Sexp.mapM? (tgt? f) ts).map .tuple
  | f + 1, .list (.atom "list" :: ts) => (Sexp.mapM? (tgt? f) ts).map .list
  | f + 1, .list [.atom "starred", t] => (tgt? f t).map .starred
  | _, _ => none

def kind? : String → Option Kind
  | "assign" => some .assign | "aug" => some .aug | "ann" => some .ann | "for" => some .forT | "with" => some .withT
  | "walrus" => some .walrus | "handler" => some .handler | "def" => some .defName | "class" => some .className
  | "del" => some .del | "import" => some .importN | "comp" => some .compVar | "plain" => some .plain
  | _ => none

mutual
def stmt? : Nat → Sexp → Option Stmt
  | 0, _ => none
  | f + 1, .list [.atom k, .list ts, body] => do
    pure (.node (← kind? k) (← Sexp.mapM? (tgt? 32) ts) (← stmts? f body))
  | _, _ => none
def stmts? : Nat → Sexp → Option (List Stmt)
  | 0, _ => none
  | f + 1, .list xs => Sexp.mapM? (stmt? f) xs
  | _, _ => none
end

def showNames (xs : List String) : String :=
  ",".intercalate (xs.eraseDups.toArray.qsort (· < ·)).toList

/-! ### cells: `C03 (cells (ginit (x 3)…) (def f (params…) (stmts…)) (args 1 2) (watch x y))` -/
namespace Cells

def sexpr? : Sexp → Option SExpr
  | .atom "nil" => some .nil
  | .list [.atom "lit", n] => n.int?.map .lit
  | .list [.atom "var", .atom x] => some (.var x)
  | .list [.atom "addv", .atom x, k] => k.int?.map (.addv x)
  | _ => none

def expr? : Nat → Sexp → Option Expr
  | 0, _ => none
  | f + 1, x =>
    match sexpr? x with
    | some s => some (.simple s)
    | none =>
      match x with
      | .list [.atom "add", e, k] => do pure (.add (← expr? f e) (← k.int?))
      | .list [.atom "T", .atom tag, e] => (expr? f e).map (.trace tag)
      | .list [.atom "call", fn, .list as] => do pure (.call (← expr? f fn) (← Sexp.mapM? sexpr? as))
      | .list [.atom "comp", .atom v, .list its, elt] => do pure (.comp v (← Sexp.mapM? sexpr? its) (← sexpr? elt))
      | .list [.atom "args", e] => (expr? f e).map .argsOf
      | _ => none

mutual
def stmt? : Nat → Sexp → Option Stmt
  | 0, _ => none
  | f + 1, x =>
    match x with
    | .list [.atom "assign", .atom v, e] => (expr? 64 e).map (.assign v)
    | .list [.atom "aug", .atom v, e] => (expr? 64 e).map (.aug v)
    | .list [.atom "expr", e] => (expr? 64 e).map .expr
    | .list [.atom "del", .atom v] => some (.del v)
    | .list [.atom "ret", e] => (expr? 64 e).map .ret
    | .list [.atom "global", .atom v] => some (.declG v)
    | .list [.atom "nonlocal", .atom v] => some (.declN v)
    | .list [.atom "def", .atom g, ps, body] => do pure (.defn g (← strs? ps) (← stmts? f body))
    | .list [.atom "handler", .atom v, e, body] => do pure (.handler v (← expr? 64 e) (← stmts? f body))
    | .list [.atom "tryne", b, h] => do pure (.tryNE (← stmts? f b) (← stmts? f h))
    | .list [.atom "if", e, body] => do pure (.ifT (← expr? 64 e) (← stmts? f body))
    | _ => none
def stmts? : Nat → Sexp → Option (List Stmt)
  | 0, _ => none
  | f + 1, .list xs => Sexp.mapM? (stmt? f) xs
  | _, _ => none
end

def showVal : Val → String
  | .int n => toString n
  | .none => "None"
  | .fn _ => "<fn>"
  | .exc n => s!"ValueError({n})"
  | .args n => s!"({n},)"
  | .ints l => "[" ++ ", ".intercalate (l.map toString) ++ "]"

def showErr : Err → String
  | .name => "NameError" | .type => "TypeError" | .fuel => "FUEL" | .unsupported => "UNSUPPORTED"

def showObs (o : Obs) : String :=
  let log := ";".intercalate (o.trace.map fun (p : String × Val) => p.1 ++ "=" ++ showVal p.2)
  match o.result with
  | .exc e => log ++ "|exc:" ++ showErr e
  | .vals l => log ++ "|" ++ ",".intercalate (l.filterMap fun (p : String × Option Val) => p.2.map fun v => p.1 ++ "=" ++ showVal v)

def prog? : Sexp → Option Prog
  | .list [.list (.atom "ginit" :: gs), .list [.atom "def", .atom g, ps, body], .list (.atom "args" :: as), .list (.atom "watch" :: ws)] => do
    let gi ← Sexp.mapM? (fun p => match p with | .list [.atom k, v] => v.int?.map fun n => (k, n) | _ => none) gs
    pure { ginit := gi, main := ⟨g, ← strs? ps, ← stmts? 64 body⟩, args := ← Sexp.mapM? Sexp.int? as, watch := ← Sexp.mapM? Sexp.str? ws }
  | _ => none

def handle (rest : List Sexp) : String :=
  match prog? (.list rest) with
  | some p =>
    -- the line is the property's text with underscores for blanks so that it stays one token each
    s!"model={(showObs (run (PS.disc Current.cellCfg) 4000 p)).replace " " "_"} spec={(showObs (run Py.disc 4000 p)).replace " " "_"}"
  | none => "err parse"

end Cells

def handle (x : Sexp) : String :=
  match x with
  | .list (.atom "cells" :: rest) => Cells.handle rest
  | .list [.atom "bind", po, ar, nd, ko, va, kwa, avals, kws] =>
    match strs? po, strs? ar, nd.nat?,
          Sexp.listOf? (fun p => match p with | .list [.atom k, d] => d.bool?.map fun b => (k, b) | _ => none) ko,
          va.bool?, kwa.bool?, Sexp.listOf? Sexp.nat? avals,
          Sexp.listOf? (fun p => match p with | .list [.atom k, v] => v.nat?.map fun n => (k, n) | _ => none) kws with
    | some po, some ar, some nd, some ko, some va, some kwa, some avals, some kws =>
      let s : Sig := { posonly := po, args := ar, ndefaults := nd, kwonly := ko, vararg := va, kwarg := kwa }
      s!"model={showBound (PS.bind Current.cfg Gen.TRIGGER_KWARGS s avals kws)} spec={showBound (Spec.bind s avals kws)}"
    | _, _, _, _, _, _, _, _ => "err parse"
  | .list [.atom "resolve", .atom x, sc, ch] =>
    match scope? sc, Sexp.listOf? scope? ch with
    | some s, some chain => s!"model={showWhere (PS.resolve Current.scopeCfg s chain x)} spec={showWhere (Py.resolve s chain x)}"
    | _, _ => "err parse"
  | .list [.atom "locals", body] =>
    match stmts? 64 body with
    | some b => s!"model={showNames (PS.localsL Current.bindCfg b)} spec={showNames (Py.localsL b)}"
    | none => "err parse"
  | _ => "err bad-command"

end PsModel.C03
