import PsModel.Util.Sexp
import PsModel.Model.C03
import PsModel.Spec.C03
/-! line-protocol front end of the C03 binding model:
`C03 (bind (posonly…) (args…) ndefaults ((k hasD)…) vararg kwarg (argvals…) ((key val)…))` → `model=… spec=…` -/
namespace PsModel.C03
open PsModel

def showAV : ArgVal → String
  | .given v => s!"{v}"
  | .dflt i => s!"d{i}"
  | .kwdflt i => s!"kd{i}"

def showBound : Option Bound → String
  | none => "TypeError"
  | some b =>
    let slots := ",".intercalate (b.slots.map fun (p : String × ArgVal) => p.1 ++ "=" ++ showAV p.2)
    let var := match b.var with | none => "-" | some vs => "[" ++ ",".intercalate (vs.map toString) ++ "]"
    let kw := match b.kw with | none => "-" | some ks => "{" ++ ",".intercalate (ks.map fun (p : String × Nat) => p.1 ++ "=" ++ toString p.2) ++ "}"
    s!"{slots};{var};{kw}"

def strs? (x : Sexp) : Option (List String) := Sexp.listOf? Sexp.str? x

def handle (x : Sexp) : String :=
  match x with
  | .list [.atom "bind", po, ar, nd, ko, va, kwa, avals, kws] =>
    match strs? po, strs? ar, nd.nat?,
          Sexp.listOf? (fun p => match p with | .list [.atom k, d] => d.bool?.map fun b => (k, b) | _ => none) ko,
          va.bool?, kwa.bool?, Sexp.listOf? Sexp.nat? avals,
          Sexp.listOf? (fun p => match p with | .list [.atom k, v] => v.nat?.map fun n => (k, n) | _ => none) kws with
    | some po, some ar, some nd, some ko, some va, some kwa, some avals, some kws =>
      let s : Sig := { posonly := po, args := ar, ndefaults := nd, kwonly := ko, vararg := va, kwarg := kwa }
      s!"model={showBound (PS.bind Current.cfg Gen.TRIGGER_KWARGS s avals kws)} spec={showBound (Spec.bind s avals kws)}"
    | _, _, _, _, _, _, _, _ => "err parse"
  | _ => "err bad-command"

end PsModel.C03
