import PsModel.Util.Sexp
import PsModel.Model.C03
import PsModel.Spec.C03
import PsModel.Spec.C03Scope
/-! line-protocol front end of the C03 binding model:
`C03 (bind (posonly…) (args…) ndefaults ((k hasD)…) vararg kwarg (argvals…) ((key val)…))` → `model=… spec=…` -/
namespace PsModel.C03
open PsModel

def showAV : ArgVal → String
  | .given v => s!"{v}"
  | .dflt i => s!"d{i}"
  | .kwdflt i => s!"kd{i}"

def showBound : Option Bound → String
  | none => "TypeError"
  | some b =>
    let slots := ",".intercalate (b.slots.map fun (p : String × ArgVal) => p.1 ++ "=" ++ showAV p.2)
    let var := match b.var with | none => "-" | some vs => "[" ++ ",".intercalate (vs.map toString) ++ "]"
    let kw := match b.kw with | none => "-" | some ks => "{" ++ ",".intercalate (ks.map fun (p : String × Nat) => p.1 ++ "=" ++ toString p.2) ++ "}"
    s!"{slots};{var};{kw}"

def strs? (x : Sexp) : Option (List String) := Sexp.listOf? Sexp.str? x

def showWhere : Where → String
  | .local => "local"
  | .cell d => s!"cell{d}"
  | .global => "global"

def scope? (x : Sexp) : Option FnScope :=
  match x with
  | .list [p, b, g, n, m] => do
    pure { params := ← strs? p, binds := ← strs? b, globals := ← strs? g, nonlocals := ← strs? n, mentions := ← strs? m }
  | _ => none

/-- fuel only bounds the nesting depth of the S-expression reader -/
def tgt? : Nat → Sexp → Option Tgt
  | 0, _ => none
  | _, .atom "other" => some .other
  | _, .atom x => some (.name x)
  | f + 1, .list (.atom "tuple" :: ts) => (Sexp.mapM? (tgt? f) ts).map .tuple
  | f + 1, .list (.atom "list" :: ts) => (Sexp.mapM? (tgt? f) ts).map .list
  | f + 1, .list [.atom "starred", t] => (tgt? f t).map .starred
  | _, _ => none

def kind? : String → Option Kind
  | "assign" => some .assign | "aug" => some .aug | "ann" => some .ann | "for" => some .forT | "with" => some .withT
  | "walrus" => some .walrus | "handler" => some .handler | "def" => some .defName | "class" => some .className
  | "del" => some .del | "import" => some .importN | "comp" => some .compVar | "plain" => some .plain
  | _ => none

mutual
def stmt? : Nat → Sexp → Option Stmt
  | 0, _ => none
  | f + 1, .list [.atom k, .list ts, body] => do
    pure (.node (← kind? k) (← Sexp.mapM? (tgt? 32) ts) (← stmts? f body))
  | _, _ => none
def stmts? : Nat → Sexp → Option (List Stmt)
  | 0, _ => none
  | f + 1, .list xs => Sexp.mapM? (stmt? f) xs
  | _, _ => none
end

def showNames (xs : List String) : String :=
  ",".intercalate (xs.eraseDups.toArray.qsort (· < ·)).toList

def handle (x : Sexp) : String :=
  match x with
  | .list [.atom "bind", po, ar, nd, ko, va, kwa, avals, kws] =>
    match strs? po, strs? ar, nd.nat?,
          Sexp.listOf? (fun p => match p with | .list [.atom k, d] => d.bool?.map fun b => (k, b) | _ => none) ko,
          va.bool?, kwa.bool?, Sexp.listOf? Sexp.nat? avals,
          Sexp.listOf? (fun p => match p with | .list [.atom k, v] => v.nat?.map fun n => (k, n) | _ => none) kws with
    | some po, some ar, some nd, some ko, some va, some kwa, some avals, some kws =>
      let s : Sig := { posonly := po, args := ar, ndefaults := nd, kwonly := ko, vararg := va, kwarg := kwa }
      s!"model={showBound (PS.bind Current.cfg Gen.TRIGGER_KWARGS s avals kws)} spec={showBound (Spec.bind s avals kws)}"
    | _, _, _, _, _, _, _, _ => "err parse"
  | .list [.atom "resolve", .atom x, sc, ch] =>
    match scope? sc, Sexp.listOf? scope? ch with
    | some s, some chain => s!"model={showWhere (PS.resolve Current.scopeCfg s chain x)} spec={showWhere (Py.resolve s chain x)}"
    | _, _ => "err parse"
  | .list [.atom "locals", body] =>
    match stmts? 64 body with
    | some b => s!"model={showNames (PS.localsL Current.bindCfg b)} spec={showNames (Py.localsL b)}"
    | none => "err parse"
  | _ => "err bad-command"

end PsModel.C03
