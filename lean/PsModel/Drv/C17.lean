import PsModel.Util.Sexp
import PsModel.Model.C17
import PsModel.Spec.C17
/-! line-protocol front end of the C17 model

    C17 (imp <allowAll> <relPath|-> <ctxName> (files (path id (attr…))…) (host (name id (attr…))…) (w <wrapper>…) <stmt>)
        stmt = (import (name as|-)…) | (from <module|-> <level> (name as|-)…)
        wrapper = exec | func | cls | try | evalexec   (outermost first)
      → (binds (key m|a mod [attr])…) err
    C17 (seq <relPath|-> <ctxName> (files …) (host …) (steps (<allowAll> (w <wrapper>…) <stmt>)…))
      → the result of every step run by ONE evaluator over one symbol table, "; "-separated
    C17 (name <x> <user> <hostBuiltin> <func>)  → user|astFactory|host|pyscriptFunc|evalName
-/
namespace PsModel.C17
open PsModel

def optAtom (x : Sexp) : Option (Option String) :=
  match x with
  | .atom "-" => some none
  | .atom s => some (some s)
  | _ => none

def modEntry? (x : Sexp) : Option (String × ModInfo) :=
  match x with
  | .list [.atom k, .atom id, .list attrs] => do
    let as ← Sexp.mapM? Sexp.str? attrs
    pure (k, { id := id, attrs := as })
  | _ => none

def alias? (x : Sexp) : Option Alias :=
  match x with
  | .list [.atom n, a] => do
    let asn ← optAtom a
    pure { name := n, asname := asn }
  | _ => none

def stmt? (x : Sexp) : Option Stmt :=
  match x with
  | .list (.atom "import" :: names) => do
    let ns ← Sexp.mapM? alias? names
    pure (.imp ns)
  | .list (.atom "from" :: m :: r :: names) => do
    let md ← optAtom m
    let lvl ← r.nat?
    let ns ← Sexp.mapM? alias? names
    pure (.impFrom md lvl ns)
  | _ => none

def wrap1 : String → Prog → Option Prog
  | "exec", p => some (.exec p)
  | "func", p => some (.within .func p)
  | "cls", p => some (.within .cls p)
  | "try", p => some (.within .tryExcept p)
  | "evalexec", p => some (.within .evalExec p)
  | _, _ => none

def wrap : List Sexp → Stmt → Option Prog
  | [], s => some (.stmt s)
  | .atom w :: rest, s => (wrap rest s).bind (wrap1 w)
  | _, _ => none

def showVal : Val → List Sexp
  | .mod m => [.atom "m", .atom m]
  | .attr m a => [.atom "a", .atom m, .atom a]

def showErr : Option Err → String
  | none => "ok"
  | some .notAllowed => "notAllowed"
  | some .notFound => "notFound"
  | some .stubsAs => "stubsAs"
  | some .relNoParent => "relNoParent"
  | some .relAbove => "relAbove"
  | some .relNotFound => "relNotFound"
  | some .attrMissing => "attrMissing"

/-- the symbol table is a dict: a later write to the same key replaces the value in place -/
def asDict : Bindings → Bindings → Bindings
  | [], acc => acc
  | (k, v) :: rest, acc =>
    asDict rest (if acc.any (fun kv => kv.1 == k) then acc.map (fun kv => if kv.1 == k then (k, v) else kv) else acc ++ [(k, v)])

def showRes (r : Res) : String :=
  (Sexp.list (.atom "binds" :: (asDict r.binds []).map (fun kv => Sexp.list (.atom kv.1 :: showVal kv.2)))).render ++ " " ++ showErr r.err

def assoc (xs : List (String × ModInfo)) (k : String) : Option ModInfo := lookupFile xs k

def showResolved : Resolved → String
  | .user => "user" | .astFactory => "astFactory" | .host => "host" | .pyscriptFunc => "pyscriptFunc"
  | .evalName => "evalName"

def handle (x : Sexp) : String :=
  match x with
  | .list [.atom "imp", a, rp, .atom cn, .list (.atom "files" :: fs), .list (.atom "host" :: hs),
           .list (.atom "w" :: ws), st] =>
    match (do
      let allow ← a.bool?
      let rel ← optAtom rp
      let files ← Sexp.mapM? modEntry? fs
      let host ← Sexp.mapM? modEntry? hs
      let s ← stmt? st
      let prog ← wrap ws s
      pure (allow, rel, files, host, prog)) with
    | some (allow, rel, files, host, prog) =>
      let env : Env := { allowAll := allow, relPath := rel, ctxName := cn, files := files, host := assoc host }
      showRes (run env prog [])
    | none => "err parse"
  | .list [.atom "seq", rp, .atom cn, .list (.atom "files" :: fs), .list (.atom "host" :: hs),
           .list (.atom "steps" :: sts)] =>
    -- one long-lived evaluator: (steps (<allowAll> (w <wrapper>…) <stmt>)…) → the result of every step, "; "-separated
    match (do
      let rel ← optAtom rp
      let files ← Sexp.mapM? modEntry? fs
      let host ← Sexp.mapM? modEntry? hs
      let steps ← Sexp.mapM? (fun x => match x with
        | .list [a, .list (.atom "w" :: ws), st] => do
          let allow ← a.bool?
          let s ← stmt? st
          let prog ← wrap ws s
          pure (allow, prog)
        | _ => none) sts
      pure (rel, files, host, steps)) with
    | some (rel, files, host, steps) =>
      let env : Env := { allowAll := false, relPath := rel, ctxName := cn, files := files, host := assoc host }
      "; ".intercalate ((runSeq env steps []).map showRes)
    | none => "err parse"
  | .list [.atom "name", .atom n, u, h, f] =>
    match u.bool?, h.bool?, f.bool? with
    | some u, some h, some f =>
      showResolved (lookupName { user := fun _ => u, hostBuiltin := fun _ => h, func := fun _ => f } n)
    | _, _, _ => "err parse"
  | .list [.atom "nameg", .atom n, u] =>
    match u.bool? with
    | some u => showResolved (lookupGlobalDeclared { user := fun _ => u, hostBuiltin := fun _ => true, func := fun _ => true } n)
    | none => "err parse"
  | _ => "err bad-command"

end PsModel.C17
