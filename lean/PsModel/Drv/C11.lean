import PsModel.Util.Sexp
import PsModel.Model.C11
import PsModel.Spec.C11
/-! line-protocol front end of the C11 model

```
C11 ((funcs (NAME (PARAMS) (GLOBALS) (BODY)) …) (files ((PATH…) (BODY)) …) (ctxs ((NAME…) (REL…)|none) …) (ops OP …))
OP   = (run CTX STMT) | (race CTX (MOD…) K)
STMT = (assign x A) (add x A A) (setattr m a A) (call x A (A…)) (spawn OWN A (A…)) (def x FID) (ret A) (raise K)
       (try (STMT…) (STMT…)) (import (MOD…) AS|none) (from (MOD…) LEVEL ((n AS|none)…)) (star (MOD…) LEVEL)
       (fromdot LEVEL n AS|none) (setctx (NAME…))
A    = (lit N) | (var x) | (attr x a)
```
Answer: `model=<outcomes and pointers after every op | all global tables> spec=<the same from the reference>`.
-/
namespace PsModel.C11
open PsModel

def optStr? : Sexp → Option (Option String)
  | .atom "none" => some none
  | .atom s => some (some s)
  | _ => none

def strs? (x : Sexp) : Option (List String) := Sexp.listOf? Sexp.str? x

def atom? : Sexp → Option Atom
  | .list [.atom "lit", n] => n.nat? >>= fun k => some (.lit k)
  | .list [.atom "var", .atom x] => some (.var x)
  | .list [.atom "attr", .atom x, .atom a] => some (.attr x a)
  | _ => none

def nameAs? : Sexp → Option (String × Option String)
  | .list [.atom n, a] => optStr? a >>= fun o => some (n, o)
  | _ => none

/-- `d` bounds the nesting depth of `try` -/
def stmt? : Nat → Sexp → Option Stmt
  | 0, _ => none
  | d+1, x =>
    match x with
    | .list [.atom "assign", .atom x, a] => atom? a >>= fun v => some (.assign x v)
    | .list [.atom "add", .atom x, a, b] => do let va ← atom? a; let vb ← atom? b; pure (.add x va vb)
    | .list [.atom "setattr", .atom m, .atom a, v] => atom? v >>= fun w => some (.setattr m a w)
    | .list [.atom "call", .atom x, f, args] => do
        let fv ← atom? f; let as ← Sexp.listOf? atom? args; pure (.call x fv as)
    | .list [.atom "spawn", own, f, args] => do
        let o ← own.bool?; let fv ← atom? f; let as ← Sexp.listOf? atom? args; pure (.spawn o fv as)
    | .list [.atom "def", .atom x, fid] => fid.nat? >>= fun k => some (.defn x k)
    | .list [.atom "ret", a] => atom? a >>= fun v => some (.ret v)
    | .list [.atom "raise", k] => k.nat? >>= fun n => some (.raise n)
    | .list [.atom "try", .list b, .list h] => do
        let bb ← Sexp.mapM? (stmt? d) b; let hh ← Sexp.mapM? (stmt? d) h; pure (.try_ bb hh)
    | .list [.atom "import", m, a] => do let mm ← strs? m; let o ← optStr? a; pure (.import_ mm o)
    | .list [.atom "from", m, lvl, names] => do
        let mm ← strs? m; let l ← lvl.nat?; let ns ← Sexp.listOf? nameAs? names; pure (.from_ mm l ns)
    | .list [.atom "star", m, lvl] => do let mm ← strs? m; let l ← lvl.nat?; pure (.fromStar mm l)
    | .list [.atom "fromdot", lvl, .atom n, a] => do let l ← lvl.nat?; let o ← optStr? a; pure (.fromDot l n o)
    | .list [.atom "setctx", nm] => strs? nm >>= fun n => some (.setctx n)
    | .list [.atom "setall", l] => strs? l >>= fun n => some (.setAll n)
    | _ => none

def block? (x : Sexp) : Option Block := Sexp.listOf? (stmt? 32) x

def func? : Sexp → Option (String × FuncDef)
  | .list [.atom nm, ps, gs, body] => do
      let p ← strs? ps; let g ← strs? gs; let b ← block? body
      pure (nm, { params := p, globals := g, body := b })
  | _ => none

def file? : Sexp → Option (Path × Block)
  | .list [p, body] => do let pp ← strs? p; let b ← block? body; pure (pp, b)
  | _ => none

def mainCtx? : Sexp → Option Ctx
  | .list [nm, .atom "none"] => strs? nm >>= fun n => some { name := n, rel := none, hasModule := false }
  | .list [nm, rel] => do let n ← strs? nm; let r ← strs? rel; pure { name := n, rel := some r, hasModule := false }
  | _ => none

inductive Op where
  | run (ctx : Nat) (s : Stmt)
  | race (ctx : Nat) (m : Name) (k : Nat)
  | delctx (ctx : Nat)                       -- GlobalContextMgr.delete(name of ctx): the registry entry goes away

def op? : Sexp → Option Op
  | .list [.atom "run", c, s] => do let cc ← c.nat?; let ss ← stmt? 32 s; pure (.run cc ss)
  | .list [.atom "race", c, m, k] => do let cc ← c.nat?; let mm ← strs? m; let kk ← k.nat?; pure (.race cc mm kk)
  | .list [.atom "delctx", c] => c.nat? >>= fun cc => some (.delctx cc)
  | _ => none

/-! ## rendering -/

def dot (n : Name) : String := ".".intercalate n

/-- display name of a context: dotted name, plus `#k` for the k-th later context of the same name -/
def ctxLabel (cs : List Ctx) (c : Nat) : String :=
  match cs[c]? with
  | none => s!"?{c}"
  | some x =>
    let ord := ((cs.take c).filter (fun y => y.name == x.name)).length
    if ord = 0 then dot x.name else s!"{dot x.name}#{ord}"

def showVal (cs : List Ctx) (fnames : List String) : Val → String
  | .none => "None"
  | .int n => toString n
  | .fn c fid => s!"fn:{ctxLabel cs c}:{fnames.getD fid "?"}"
  | .mod c => s!"mod:{ctxLabel cs c}"
  | .names l => s!"<list:{",".intercalate l}>"

def insertSorted (x : String) : List String → List String
  | [] => [x]
  | y :: r => if x < y then x :: y :: r else y :: insertSorted x r

def sortStrs (xs : List String) : List String := xs.foldl (fun acc x => insertSorted x acc) []

/-- dunder names (`__name__`, `__all__`, the harness's `__gcN__` probes) are not part of the compared tables -/
def isDunder (k : String) : Bool := k.startsWith "__" && k.endsWith "__"

def showTable (cs : List Ctx) (fnames : List String) (t : Table) : String :=
  ",".intercalate (sortStrs ((t.filter (fun kv => !isDunder kv.1)).map (fun kv => s!"{kv.1}={showVal cs fnames kv.2}")))

/-- main contexts and contexts that carry a module object (a module whose load failed is garbage) -/
def showHeap (nmain : Nat) (h : Heap) (fnames : List String) : String :=
  let ids := (List.range h.ctxs.length).filter (fun c => c < nmain || hasModuleAt h c)
  " ".intercalate (sortStrs (ids.map (fun c => s!"{ctxLabel h.ctxs c}\{{showTable h.ctxs fnames (h.tab c)}}")))

def showExc : Exc → String
  | .name => "NameError" | .type => "TypeError" | .attr => "AttributeError" | .importErr => "ImportError"
  | .notFound => "ModuleNotFoundError" | .user _ => "ValueError" | .fuel => "diverges"

def showOut : Out → String
  | .norm => "ok"
  | .ret _ => "ok"
  | .exc e => showExc e

def showPtrs (cs : List Ctx) (p : Ptrs) : String :=
  let sym := match p.sym with
    | .glob c => s!"G:{ctxLabel cs c}"
    | .loc _ => "L"
  s!"{ctxLabel cs p.gctx}/{ctxLabel cs p.gst}/{sym}/{p.stack.length}"

def isFuel : Out → Bool
  | .exc .fuel => true
  | _ => false

def FUEL : Nat := 400

/-- concurrent first imports: all `k` tasks pass the lookup before any of them has registered the module
(`module_import` awaits an executor job between the lookup and `load_file`) -/
def raceImports (W : World) (h : Heap) (g : Nat) (m : Name) : Nat → Heap × List Nat
  | 0 => (h, [])
  | k+1 =>
    match importLookup W h g m 0 with
    | .load cd body =>
      -- every task holds the same lookup result, taken on the heap before any load
      let rec loads (h : Heap) (acc : List Nat) : Nat → Heap × List Nat
        | 0 => (h, acc.reverse)
        | j+1 =>
          let r := importLoad W FUEL ⟨h, fresh g⟩ cd body
          match r.val with
          | .ok (some c) => loads r.st.h (c :: acc) j
          | _ => loads r.st.h acc j
      loads h [] (k+1)
    | .found c => (h, List.replicate (k+1) c)
    | _ => (h, [])

def dedup (xs : List Nat) : List Nat := xs.foldl (fun acc x => if acc.contains x then acc else acc ++ [x]) []

/-- run the ops on the model; evaluator pointers are kept per main context (like one AstEval per file/session) -/
def runModel (W : World) (fnames : List String) : Heap → List Ptrs → List Op → List String → String
  | h, ps, [], acc => " ".intercalate acc.reverse ++ " | " ++ showHeap ps.length h fnames
  | h, ps, .run c s :: rest, acc =>
    let p := ps.getD c (fresh c)
    let r := execStmt W FUEL ⟨h, p⟩ s
    if isFuel r.out then " ".intercalate ("diverges" :: acc).reverse
    else runModel W fnames r.st.h (ps.set c r.st.p) rest (s!"{showOut r.out}@{showPtrs r.st.h.ctxs r.st.p}" :: acc)
  | h, ps, .race c m k :: rest, acc =>
    let (h', ids) := raceImports W h c m k
    runModel W fnames h' ps rest (s!"race:{(dedup ids).length}" :: acc)
  | h, ps, .delctx c :: rest, acc =>
    runModel W fnames { h with reg := regDel h.reg (selfCtx h c).name } ps rest ("deleted" :: acc)

def runSpec (W : World) (fnames : List String) (nmain : Nat) : Heap → List Op → List String → String
  | h, [], acc => " ".intercalate acc.reverse ++ " | " ++ showHeap nmain h fnames
  | h, .run c s :: rest, acc =>
    let r := Py.execStmt W FUEL ⟨h, { g := c, locals := none, gnames := none }⟩ s
    if isFuel r.out then " ".intercalate ("diverges" :: acc).reverse
    else runSpec W fnames nmain r.s.h rest (showOut r.out :: acc)
  | h, .race _ _ _ :: rest, acc => runSpec W fnames nmain h rest ("race:1" :: acc)
  | h, .delctx c :: rest, acc =>
    runSpec W fnames nmain { h with reg := regDel h.reg (selfCtx h c).name } rest ("deleted" :: acc)

def initHeap (mains : List Ctx) : Heap :=
  { ctxs := mains, tabs := fun _ => [], reg := (List.range mains.length).zip mains |>.map (fun (i, c) => (c.name, i)) }

def handle (x : Sexp) : String :=
  match x with
  | .list [.list (.atom "funcs" :: fs), .list (.atom "files" :: fl), .list (.atom "ctxs" :: cs), .list (.atom "ops" :: os)] =>
    match Sexp.mapM? func? fs, Sexp.mapM? file? fl, Sexp.mapM? mainCtx? cs, Sexp.mapM? op? os with
    | some funcs, some files, some mains, some ops =>
      let W : World := { funcs := funcs.map (·.2), files := files }
      let fnames := funcs.map (·.1)
      let h := initHeap mains
      let ps := (List.range mains.length).map fresh
      s!"model={runModel W fnames h ps ops []} spec={runSpec W fnames mains.length h ops []}"
    | _, _, _, _ => "err parse"
  | _ => "err bad-command"

end PsModel.C11
