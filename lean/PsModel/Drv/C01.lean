import PsModel.Util.Sexp
import PsModel.Model.C01Rec
import PsModel.Spec.C01
import PsModel.Model.C01Comp
/-! line-protocol front end of the C01 model: `C01 (run (tape …) (stmts …))` → `model=<log>|<res> spec=<log>|<res>` -/
namespace PsModel.C01
open PsModel

def optE? (f : Sexp → Option Expr) : Sexp → Option (Option Expr)
  | .atom "-" => some none
  | x => (f x).map some

mutual
partial def expr? : Sexp → Option Expr
  | .list [.atom "c", k] => k.nat?.map .const
  | .list [.atom "T", i] => i.nat?.map .leaf
  | .list [.atom "n", .atom x] => some (.name x)
  | .list [.atom "bin", op, l, r] => do pure (.binop (← op.nat?) (← expr? l) (← expr? r))
  | .list [.atom "un", op, e] => do pure (.unary (← op.nat?) (← expr? e))
  | .list (.atom "and" :: es) => do pure (.boolop true (← es.mapM expr?))
  | .list (.atom "or" :: es) => do pure (.boolop false (← es.mapM expr?))
  | .list (.atom "cmp" :: l :: arms) => do
    pure (.compare (← expr? l) (← arms.mapM fun a => match a with
      | .list [op, e] => do pure (CmpArm.mk (← op.nat?) (← expr? e))
      | _ => none))
  | .list [.atom "if", c, t, e] => do pure (.ifexp (← expr? c) (← expr? t) (← expr? e))
  | .list [.atom "sub", v, i] => do pure (.subscript (← expr? v) (← expr? i))
  | .list [.atom "slice", a, b, c] => do pure (.slice (← optE? expr? a) (← optE? expr? b) (← optE? expr? c))
  | .list [.atom "attr", v, .atom a] => do pure (.attr (← expr? v) a)
  | .list [.atom "call", f, .list args, .list kws] => do
    pure (.call (← expr? f) (← args.mapM elt?) (← kws.mapM kw?))
  | .list (.atom "seq" :: k :: es) => do pure (.seq (← k.nat?) (← es.mapM elt?))
  | .list (.atom "dict" :: arms) => do
    pure (.dict (← arms.mapM fun a => match a with
      | .list [.atom "kv", k, v] => do pure (DictArm.kv (← expr? k) (← expr? v))
      | .list [.atom "ss", e] => do pure (DictArm.splat (← expr? e))
      | _ => none))
  | .list (.atom "fstr" :: parts) => do
    pure (.fstr (← parts.mapM fun p => match p with
      | .list [.atom "lit", k] => k.nat?.map FPart.lit
      | .list [.atom "fmt", e, conv, spec] => do
        let c ← match conv with | .atom "-" => some none | x => x.nat?.map some
        pure (FPart.fmt (← expr? e) c (← optE? expr? spec))
      | _ => none))
  | .list [.atom "named", .atom x, e] => do pure (.named x (← expr? e))
  | .list [.atom "comp", k, elt, .list gens] => do pure (.comp ((← k.nat?) == 2) (← expr? elt) (← gens.mapM gen?))
  | .list [.atom "dcomp", k, v, .list gens] => do pure (.dictcomp (← expr? k) (← expr? v) (← gens.mapM gen?))
  | _ => none
partial def gen? : Sexp → Option Gen
  | .list [.atom "gen", t, it, .list ifs] => do pure (.mk (← target? t) (← expr? it) (← ifs.mapM expr?))
  | _ => none
partial def target? : Sexp → Option Target
  | .list [.atom "n", .atom x] => some (.name x)
  | .list [.atom "sub", v, i] => do pure (.sub (← expr? v) (← expr? i))
  | .list [.atom "attr", v, .atom a] => do pure (.attr (← expr? v) a)
  | .list [.atom "tup", isl, .list before, star, .list after] => do
    let st ← match star with | .atom "-" => some none | .atom x => some (some x) | _ => none
    pure (.tup (← isl.bool?) (← before.mapM target?) st (← after.mapM target?))
  | _ => none
partial def elt? : Sexp → Option Elt
  | .list [.atom "p", e] => (expr? e).map .plain
  | .list [.atom "s", e] => (expr? e).map .star
  | _ => none
partial def kw? : Sexp → Option Kw
  | .list [.atom "k", .atom n, e] => (expr? e).map (.named n)
  | .list [.atom "ss", e] => (expr? e).map .splat
  | _ => none
end

def stmt? : Sexp → Option Stmt
  | .list [.atom "expr", e] => (expr? e).map .expr
  | .list [.atom "assign", .list ts, e] => do pure (.assign (← ts.mapM target?) (← expr? e))
  | .list [.atom "aug", t, op, e] => do pure (.aug (← target? t) (← op.nat?) (← expr? e))
  | .list (.atom "del" :: ts) => do pure (.del (← ts.mapM target?))
  | _ => none

def showExc : Exc → String
  | .prim k => s!"exc:T{k}"
  | .nameError => "exc:NameError"
  | .typeError => "exc:TypeError"
  | .valueError => "exc:ValueError"
  | .notImplemented => "exc:NotImplementedError"
  | .attributeError => "exc:AttributeError"

def showRun (r : R RW Store) : String :=
  let res := match r.1 with
    | .ok σ =>
      let items := σ.map (fun p => p.1 ++ "=" ++ nm r.2 p.2)
      "ok:" ++ ",".intercalate (items.toArray.qsort (· < ·)).toList
    | .error e => showExc e
  ";".intercalate r.2.log ++ "|" ++ res

def slot? : Sexp → Option (String × C01Comp.Slot)
  | .list [.atom x, .atom "plain", v] => v.nat?.map fun n => (x, .plain n)
  | .list [.atom x, .atom "cell", i] => i.nat?.map fun n => (x, .cell n)
  | _ => none

def cellv? : Sexp → Option (Option Nat)
  | .atom "none" => some none
  | x => x.nat?.map some

def showFrame (f : C01Comp.Frame) : String :=
  let ents := f.tbl.map fun (p : String × C01Comp.Slot) =>
    match p.2 with | .plain v => s!"{p.1}=p{v}" | .cell i => s!"{p.1}=c{i}"
  let cs := f.cells.map fun c => match c with | some v => toString v | none => "none"
  ",".intercalate (ents.toArray.qsort (· < ·)).toList ++ ";" ++ ",".intercalate cs

def handle (x : Sexp) : String :=
  match x with
  | .list [.atom "compscope", tbl, cells, lv, iters] =>
    match Sexp.listOf? slot? tbl, Sexp.listOf? cellv? cells, Sexp.listOf? Sexp.str? lv,
          Sexp.listOf? (Sexp.listOf? Sexp.nat?) iters with
    | some t, some c, some l, some it =>
      -- the reference: the enclosing table and the cells are untouched (the loop variables live in their own scope)
      "model=" ++ showFrame (C01Comp.comp true ⟨t, c⟩ l it) ++ " spec=" ++ showFrame ⟨t, c⟩
    | _, _, _, _ => "err parse"
  | .list [.atom "run", .list (.atom "tape" :: tape), .list stmts] =>
    match tape.mapM Sexp.nat?, stmts.mapM stmt? with
    | some t, some p =>
      let w : RW := { tape := t }
      let salt := t.length
      -- `conf`: is the program inside the fragment on which today's handlers provably agree with the reference?
      s!"model={showRun (run Current.cfg (recorder salt) p [] w)} spec={showRun (run Cfg.python (recorder salt) p [] w)} conf={ConfProg Current.cfg p}"
    | _, _ => "err parse"
  | _ => "err bad-command"

end PsModel.C01
