import PsModel.Util.Sexp
import PsModel.Model.C18
import PsModel.Spec.C18
/-! line-protocol front end of the C18 model

```
C18 (fmt (FRAME…))      FRAME = (efc FUNC FILE) | (cf FUNC) | (ae CTXID CTXFILE CTXNAME LINE|none) | (o) | (real FILE FUNC LINE)
   → model=<entries of fmt> accept=<frame grammar accepts> spec=<triples of the activations (Python's own)>
     pre=<entries of the formatter's shape before the repair of C18-F3>
C18 (last NAME KIND TEXT)   KIND = native | returns | raises | suspends | nonstring
   → model=<last line of the report> spec=<Python's> pre=<before the repair of C18-F9>
C18 (loops (CAUGHT|legacy|new LOGGER (OCC…))…)   OCC = (RES BOOL RES BOOL RES), RES = ok | (raise N)
   → model=<served runs subs log> spec=<the same from specRecs/specRuns>
C18 (load (NAME RES [NSHUTDOWN])…)  → model=<contexts | script-logger records | functions run> spec=<…> pre=<before the repair of C18-F10>
```
-/
namespace PsModel.C18
open PsModel

def frame? : Sexp → Option Frame
  | .list [.atom "efc", .atom fn, .atom file] => some (.evalFuncCall fn file)
  | .list [.atom "cf", .atom fn] => some (.callFunc fn)
  | .list [.atom "ae", c, .atom cf, .atom cn, .atom "none"] => c.nat? >>= fun k => some (.aeval k cf cn none)
  | .list [.atom "ae", c, .atom cf, .atom cn, l] => c.nat? >>= fun k => l.nat? >>= fun n => some (.aeval k cf cn (some n))
  | .list [.atom "o"] => some .other
  | .list [.atom "real", .atom file, .atom fn, l] => l.nat? >>= fun n => some (.real file fn n)
  | _ => none

def showEntry (e : Entry) : String :=
  (if e.isReal then "R:" else "") ++ s!"{e.file}|{e.func.getD "-"}|{e.line}"

def showEntries (es : List Entry) : String := "[" ++ " ".intercalate (es.map showEntry) ++ "]"

/-- the frame grammar: the shapes the interpreter's recursion produces.  An `EvalFunc.call` frame is either the
first script-level frame (an entry point calls the function directly) or follows a `call_func` frame; a
`call_func` frame is followed by the callee's `EvalFunc.call`, by a native frame, or ends the traceback (the call
itself failed). -/
def accepts : Bool → Bool → List Frame → Bool      -- seenScript, pendingCallFunc
  | _, _, [] => true
  | seen, pend, .other :: r => accepts seen pend r
  | seen, _, .real _ _ _ :: r => accepts seen false r
  | _, _, .callFunc _ :: r => accepts true true r
  | seen, pend, .evalFuncCall _ _ :: r => (pend || !seen) && accepts true false r
  | _, pend, .aeval _ _ _ _ :: r => !pend && accepts true false r

/-- segmentation into activations: what Python itself would print for the script frames -/
structure PySeg where
  file : String
  func : Option String
  ctxName : String
  line : Option Nat
deriving Inhabited

def flush (cur : Option PySeg) (acc : List Entry) : List Entry :=
  match cur with
  | some ⟨f, g, _, some l⟩ => { file := f, func := g, line := l, isReal := false } :: acc
  | _ => acc

def segment : Option PySeg → Bool → List Frame → List Entry → List Entry
  | cur, _, [], acc => (flush cur acc).reverse
  | cur, ar, .other :: r, acc => segment cur ar r acc
  | cur, ar, .callFunc _ :: r, acc => segment cur ar r acc
  | cur, _, .real f g l :: r, acc =>
    segment none true r ({ file := f, func := some g, line := l, isReal := true } :: flush cur acc)
  | cur, _, .evalFuncCall fn file :: r, acc => segment (some ⟨file, some fn, "", none⟩) false r (flush cur acc)
  | cur, ar, .aeval _ cf cn line :: r, acc =>
    match cur with
    | none => segment (some ⟨cf, entryFunc none cf cn, cn, line⟩) false r acc
    | some s =>
      match line with
      | none => segment cur ar r acc
      | some l => segment (some { s with line := some l }) ar r acc

def res? : Sexp → Option Res
  | .atom "ok" => some .ok
  | .list [.atom "raise", n] => n.nat? >>= fun k => some (.raise k)
  | _ => none

def occ? : Sexp → Option Occ
  | .list [e, et, a, at', b] => do
      let e' ← res? e; let et' ← et.bool?; let a' ← res? a; let at'' ← at'.bool?; let b' ← res? b
      pure ⟨e', et', a', at'', b'⟩
  | _ => none

def loop? : Sexp → Option (Bool × String × List Occ)
  | .list [c, .atom lg, .list os] => do
      let caught ← (match c with
        | .atom "legacy" => some (fnCaught .legacy)     -- a trigger function of that subsystem
        | .atom "new" => some (fnCaught .new)
        | _ => c.bool?)
      let occs ← Sexp.mapM? occ? os
      pure (caught, lg, occs)
  | _ => none

def showLog (l : List LogRec) : String :=
  "(" ++ " ".intercalate (l.map (fun r => s!"{r.logger}:{r.exc}:{if r.scriptTb then "tb" else "plain"}")) ++ ")"

def file? : Sexp → Option SrcFile
  | .list [.atom n, r] => res? r >>= fun x => some ⟨n, x, 0⟩
  | .list [.atom n, r, k] => res? r >>= fun x => k.nat? >>= fun m => some ⟨n, x, m⟩
  | _ => none

def strImpl? (kind text : String) : Option StrImpl :=
  match kind with
  | "native" => some (.native (.returns text))
  | "native-raises" => some (.native .raises)
  | "returns" => some (.script (.returns text))
  | "raises" => some (.script .raises)
  | "nonstring" => some (.script .nonString)
  | "suspends" => some (.script (.suspends text))
  | _ => none

def handle (x : Sexp) : String :=
  match x with
  | .list [.atom "last", .atom name, .atom kind, .atom text] =>
    match strImpl? kind text with
    | some i => s!"model={lastLine true name i} spec={pyLastLine name i} pre={lastLine false name i}"
    | none => "err parse"
  | .list [.atom "fmt", .list fs] =>
    match Sexp.mapM? frame? fs with
    | some frames =>
      s!"model={showEntries (fmt frames)} accept={if accepts false false frames then 1 else 0} spec={showEntries (segment none false frames [])} pre={showEntries (fmtC Cfg.preF3 frames)}"
    | none => "err parse"
  | .list (.atom "loops" :: ls) =>
    match Sexp.mapM? loop? ls with
    | some loops =>
      let outs := loops.map (fun (caught, lg, occs) =>
        let s := serveAll caught lg ⟨7, 0, 0, 0, []⟩ occs
        let specLog := (occs.flatMap specRecs).map (scriptRec lg)
        (s!"served:{s.served},runs:{s.runs},done:{s.done},subs:{s.subs},log:{showLog s.log}",
         s!"served:{occs.length},runs:{(occs.filter specRuns).length},done:{(occs.filter (fun o => specRuns o && o.body == Res.ok)).length},subs:7,log:{showLog specLog}"))
      s!"model={" ; ".intercalate (outs.map (·.1))} spec={" ; ".intercalate (outs.map (·.2))}"
    | none => "err parse"
  | .list (.atom "load" :: fs) =>
    match Sexp.mapM? file? fs with
    | some files =>
      let r := loadAll files ⟨[], [], []⟩
      let recs := (r.log.filter (·.scriptTb)).map (·.logger)
      let pre := loadAllC false files ⟨[], [], []⟩
      s!"model={r.contexts}|{recs}|{r.ran} spec={specContexts files}|{(failing files).map (·.name)}|[] pre={pre.contexts}|{pre.ran}"
    | none => "err parse"
  | _ => "err bad-command"

end PsModel.C18
