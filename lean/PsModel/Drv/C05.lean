import PsModel.Util.Sexp
import PsModel.Model.C05
import PsModel.Spec.C05
/-!
Line-protocol front end of the C05 models.

    C05 (<dec|wu> <legacy|new> checkNow hold holdFalse b0 ((t kind a) …))
    checkNow, b0 : 0|1 ;  hold, holdFalse : none | milliseconds ;  kind : T | F | S | U
    →  ok (model (t a) …) (spec (t a) …) (noties 0|1)

`dec`: all runs of the decorated function; `wu`: the first return of `task.wait_until` (at most one entry).
-/
namespace PsModel.C05
open PsModel

def optNat? : Sexp → Option (Option Nat)
  | .atom "none" => some none
  | x => x.nat?.map some

def kind? : Sexp → Option Kind
  | .atom "T" => some (.eval true)
  | .atom "F" => some (.eval false)
  | .atom "S" => some .skip
  | .atom "U" => some .unrelated
  | _ => none

def evt? : Sexp → Option Evt
  | .list [t, k, a] => do pure ⟨← t.nat?, ← kind? k, ← a.nat?⟩
  | _ => none

def showRuns (rs : List Run) : String :=
  "(" ++ " ".intercalate (rs.map (fun r => s!"({r.1} {r.2})")) ++ ")"

def handle (x : Sexp) : String :=
  match x with
  | .list [.atom api, .atom sub, cn, s, h, b, hs] =>
    match cn.bool?, optNat? s, optNat? h, b.bool?, Sexp.listOf? evt? hs with
    | some cn, some s, some h, some b0, some hist =>
      let cfg : Cfg := ⟨cn, s, h⟩
      let spec := Spec.holdRuns cfg b0 hist
      let nt := if decide (Spec.NoTies cfg hist) then "1" else "0"
      match api, sub with
      | "dec", "legacy" => s!"ok (model {showRuns (Legacy.holdRuns cfg b0 hist)}) (spec {showRuns spec}) (noties {nt})"
      | "dec", "new" => s!"ok (model {showRuns (New.holdRuns cfg b0 hist)}) (spec {showRuns spec}) (noties {nt})"
      | "wu", "legacy" =>
        s!"ok (model {showRuns (WaitUntil.firstReturn cfg b0 hist).toList}) (spec {showRuns spec.head?.toList}) (noties {nt})"
      | "wu", "new" =>
        s!"ok (model {showRuns (New.firstReturn cfg b0 hist).toList}) (spec {showRuns spec.head?.toList}) (noties {nt})"
      | _, _ => "err bad-api"
    | _, _, _, _, _ => "err parse"
  | _ => "err bad-command"

end PsModel.C05
