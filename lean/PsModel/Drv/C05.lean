import PsModel.Util.Sexp
import PsModel.Model.C05
import PsModel.Spec.C05
/-!
Line-protocol front end of the C05 models.

    C05 (<dec|wu|decn|wun> <legacy|new> checkNow hold holdFalse b0 ((t kind a) …) timeout [tt])
    checkNow, b0, tt : 0|1 ;  hold, holdFalse, timeout : none | milliseconds ;  kind : T | F | S | U
    →  ok (model ((t a) …)) (spec ((t a) …)) (noties 0|1)

`tt` (decorators only): the function also carries a start-up `@time_trigger` – its runs are listed after the state runs
as `(0 time)`.

`dec`: all runs of the decorated function; `wu`: the first return of `task.wait_until` (at most one entry; `(T timeout)`
when the overall timeout wins); `decn` / `wun`: the trigger consists of any-change names only.
-/
namespace PsModel.C05
open PsModel

def optNat? : Sexp → Option (Option Nat)
  | .atom "none" => some none
  | x => x.nat?.map some

def kind? : Sexp → Option Kind
  | .atom "T" => some (.eval true)
  | .atom "F" => some (.eval false)
  | .atom "S" => some .skip
  | .atom "U" => some .unrelated
  | _ => none

def evt? : Sexp → Option Evt
  | .list [t, k, a] => do pure ⟨← t.nat?, ← kind? k, ← a.nat?⟩
  | _ => none

def showRuns (rs : List Run) : String :=
  "(" ++ " ".intercalate (rs.map (fun r => s!"({r.1} {r.2})")) ++ ")"

def showRet : WRet → String
  | .run r => s!"(({r.1} {r.2}))"
  | .timeout t => s!"(({t} timeout))"

def showRunsT (rs : List Run) (n : Nat) : String :=
  "(" ++ " ".intercalate (rs.map (fun r => s!"({r.1} {r.2})") ++ List.replicate n "(0 time)") ++ ")"

/-- `names` = the trigger consists of any-change names only (`namesOnly`); `tmo` = overall timeout of `task.wait_until`;
`tt` = the function also carries a start-up time trigger -/
def handleT (api sub : String) (cn s h b hs tm : Sexp) (tt : Bool) : String :=
    match cn.bool?, optNat? s, optNat? h, b.bool?, Sexp.listOf? evt? hs, optNat? tm with
    | some cn, some s, some h, some b0, some hist, some tmo =>
      let names := api == "decn" || api == "wun"
      let cfg0 : Cfg := ⟨cn, s, h⟩
      let cfg : Cfg := if names then namesOnly cfg0 else cfg0
      let sb0 := if names then false else b0
      let spec := Spec.holdRuns cfg sb0 hist
      let nt := if decide (Spec.NoTies cfg hist) && (match tmo with | some T => hist.all (fun e => e.t != T) | none => true)
                then "1" else "0"
      let isWu := api == "wu" || api == "wun"
      if !isWu && !(api == "dec" || api == "decn") then "err bad-api"
      else if !(sub == "legacy" || sub == "new") then "err bad-subsystem"
      else if !isWu then
        -- legacy: ONE trigger_watch loop serves the time trigger and the state trigger (`holdRunsT`); new: the
        -- `@time_trigger` is a decorator of its own and runs the function once at start-up
        let m : List Run × Nat :=
          if sub == "legacy" then Legacy.holdRunsT cfg tt b0 hist else (New.holdRuns cfg b0 hist, if tt then 1 else 0)
        s!"ok (model {showRunsT m.1 m.2}) (spec {showRunsT spec (if tt then 1 else 0)}) (noties {nt})"
      else
        match tmo with
        | none =>
          let m := if sub == "legacy" then WaitUntil.firstReturn cfg b0 hist else New.firstReturn cfg b0 hist
          s!"ok (model {showRuns m.toList}) (spec {showRuns spec.head?.toList}) (noties {nt})"
        | some T =>
          let m := if sub == "legacy" then WaitUntil.firstReturnT T cfg b0 hist else New.firstReturnT T cfg b0 hist
          s!"ok (model {showRet m}) (spec {showRet (cutT T spec.head?)}) (noties {nt})"
    | _, _, _, _, _, _ => "err parse"

def handle (x : Sexp) : String :=
  match x with
  | .list [.atom api, .atom sub, cn, s, h, b, hs, tm] => handleT api sub cn s h b hs tm false
  | .list [.atom api, .atom sub, cn, s, h, b, hs, tm, tt] =>
    match tt.bool? with
    | some tt => handleT api sub cn s h b hs tm tt
    | none => "err parse"
  | _ => "err bad-command"

end PsModel.C05
