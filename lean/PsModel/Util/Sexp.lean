/-! S-expressions: the payload format of the `verifdrv` line protocol (core Lean only). -/
namespace PsModel

inductive Sexp where
  | atom (s : String)
  | list (xs : List Sexp)
deriving Repr, Inhabited, BEq

namespace Sexp

/-- tokens: "(" ")" and atoms; atoms may be double-quoted with \" \\ \n escapes -/
inductive Tok where
  | lp | rp | at (s : String)
deriving Repr

partial def tokenize (cs : List Char) (acc : Array Tok) : Array Tok :=
  match cs with
  | [] => acc
  | '(' :: r => tokenize r (acc.push .lp)
  | ')' :: r => tokenize r (acc.push .rp)
  | '"' :: r =>
    let rec str (cs : List Char) (buf : String) : String × List Char :=
      match cs with
      | [] => (buf, [])
      | '"' :: r => (buf, r)
      | '\\' :: 'n' :: r => str r (buf.push '\n')
      | '\\' :: c :: r => str r (buf.push c)
      | c :: r => str r (buf.push c)
    let (s, r') := str r ""
    tokenize r' (acc.push (.at s))
  | c :: r =>
    if c.isWhitespace then tokenize r acc
    else
      let rec word (cs : List Char) (buf : String) : String × List Char :=
        match cs with
        | [] => (buf, [])
        | c :: r => if c.isWhitespace || c == '(' || c == ')' then (buf, c :: r) else word r (buf.push c)
      let (s, r') := word (c :: r) ""
      tokenize r' (acc.push (.at s))

/-- parse a token list into a list of S-expressions (stack machine, total) -/
def parseToks (ts : List Tok) : Option (List Sexp) :=
  let rec go (ts : List Tok) (cur : List Sexp) (stack : List (List Sexp)) : Option (List Sexp) :=
    match ts with
    | [] => if stack.isEmpty then some cur.reverse else none
    | .lp :: r => go r [] (cur :: stack)
    | .rp :: r =>
      match stack with
      | [] => none
      | top :: st => go r (Sexp.list cur.reverse :: top) st
    | .at s :: r => go r (Sexp.atom s :: cur) stack
  go ts [] []

def parseMany (s : String) : Option (List Sexp) := parseToks (tokenize s.toList #[]).toList

def parse (s : String) : Option Sexp :=
  match parseMany s with
  | some [x] => some x
  | some xs => some (.list xs)
  | none => none

def nat? : Sexp → Option Nat
  | .atom s => s.toNat?
  | _ => none
def int? : Sexp → Option Int
  | .atom s => s.toInt?
  | _ => none
def str? : Sexp → Option String
  | .atom s => some s
  | _ => none
def bool? : Sexp → Option Bool
  | .atom "1" => some true | .atom "true" => some true | .atom "T" => some true
  | .atom "0" => some false | .atom "false" => some false | .atom "F" => some false
  | _ => none
def list? : Sexp → Option (List Sexp)
  | .list xs => some xs
  | _ => none

def mapM? {α} (f : Sexp → Option α) : List Sexp → Option (List α)
  | [] => some []
  | x :: xs => do let a ← f x; let as ← mapM? f xs; pure (a :: as)

def listOf? {α} (f : Sexp → Option α) : Sexp → Option (List α)
  | .list xs => mapM? f xs
  | _ => none

def needsQuote (s : String) : Bool :=
  s.isEmpty || s.any (fun c => c.isWhitespace || c == '(' || c == ')' || c == '"' || c == '\\')

def quote (s : String) : String :=
  "\"" ++ s.foldl (fun acc c => if c == '"' then acc ++ "\\\"" else if c == '\\' then acc ++ "\\\\"
                                 else if c == '\n' then acc ++ "\\n" else acc.push c) "" ++ "\""

partial def render : Sexp → String
  | .atom s => if needsQuote s then quote s else s
  | .list xs => "(" ++ " ".intercalate (xs.map render) ++ ")"

end Sexp

/-- small helpers for building output S-expressions -/
def sx (s : String) : Sexp := .atom s
def sxn (n : Nat) : Sexp := .atom (toString n)
def sxi (n : Int) : Sexp := .atom (toString n)
def sxb (b : Bool) : Sexp := .atom (if b then "1" else "0")
def sxl (xs : List Sexp) : Sexp := .list xs

end PsModel
