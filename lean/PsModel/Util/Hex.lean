/-! hex transport of byte strings in the line protocol -/
namespace PsModel.Hex

def digit (n : Nat) : Char := if n < 10 then Char.ofNat (48 + n) else Char.ofNat (87 + n)

def ofBytes (bs : List Nat) : String :=
  if bs.isEmpty then "-" else String.ofList (bs.flatMap (fun b => [digit (b / 16 % 16), digit (b % 16)]))

def val (c : Char) : Option Nat :=
  if '0' ≤ c ∧ c ≤ '9' then some (c.toNat - 48)
  else if 'a' ≤ c ∧ c ≤ 'f' then some (c.toNat - 87)
  else none

def toBytesAux : List Char → Option (List Nat)
  | [] => some []
  | [_] => none
  | a :: b :: r => do
    let x ← val a; let y ← val b; let rest ← toBytesAux r
    pure ((x * 16 + y) :: rest)

def toBytes (s : String) : Option (List Nat) := if s == "-" then some [] else toBytesAux s.toList

end PsModel.Hex
