import PsModel.Gen.Const
import PsModel.Gen.ReqTbl
/-!
# C20 model – requirements resolution (`requirements.py`)

Mirrors the code as it is:
* `process_all_requirements` l.64–68 → `selectFiles` (one non-recursive `glob` per entry of
  `Gen.REQUIREMENTS_PATHS`, in that order) and `allLines`
* l.72–104 → `parseLine` (`#` cut, `strip`, `split("==")`, reject when more than two parts or any pattern of the
  rejection set `Cfg.specPats` occurs as a substring) and `rejectedByFix` (`Version(new_version)` right after `new_version = parts[1]`)
* l.106–181 → `branch` (the five-way case split on the *recorded* and the *new* version string, including that
  the recorded string is not validated by the split itself, that `""` is falsy, and that a `Version()` failure skips
  the line) and `merge1` (what each branch does to the table)
* `install_requirements` l.207–312 → `decidePkg` / `decideLoop` / `phase1`, `installArgs`, `recUpdate`,
  `resolveUnpinned` (= `update_unpinned_versions`) / `phase2`
* the environment (site-packages + package index behind Home Assistant's installer) → `World`, `installAll`.

Strings are `List Char`.  Versions are abstract: `Ver V` gives `parse : Str → Option V` (`Version(s)`, `none` =
`InvalidVersion`) and `le` (`Version.__le__`); theorems assume only that `le` is a total preorder.  `numVer` is the
instance used by the driver and by the `_cex` theorems (PEP 440 public and local versions).

`Cfg` carries the deviation parameters of DESIGN §4; since round 4 the values of `current` are GENERATED from the source
(`Gen/ReqTbl.lean`, `tools/extractors/C20.py`) and the hand-written values live on as `Cfg.round3` / `Cfg.preFix` / …
`current` is the code today, i.e. after the three `fix:`
commits of /repo (e2ec6b7: `validateFirstPin := true`, a pin is validated before it is looked at at all – findings
C20-F1, F2, F4; d07dfc5 refined by 5d02a52: `specPats := "," ">" "<" "~=" "!="`, substring patterns, so that a version
epoch such as `==1!2.0` is not rejected – finding C20-F3; ed5a646: `stripBom := true`, files are read with `utf-8-sig` –
finding C20-F8, pre-fix shape `Cfg.preBomFix`).  `Cfg.preFix` is the shape before them
(`validateFirstPin := false`, `specPats := "," ">" "<"`); the `_regress_` theorems are stated against it.
-/
namespace PsModel.C20

abbrev Str := List Char

structure Ver (V : Type) where
  parse : Str → Option V
  le : V → V → Bool

structure Cfg where
  /-- `Version(new_version)` is called as soon as a pin has been split off (l.102–103) -/
  validateFirstPin : Bool
  /-- the patterns of `any(spec in pkg for spec in (…))` (l.88): a line containing one of them as a substring is
  rejected -/
  specPats : List Str
  /-- the files are opened with `encoding="utf-8-sig"` (l.67): a byte-order mark at the start of a file is dropped by
  the decoder; with plain `"utf-8"` it stays in the first line -/
  stripBom : Bool
  /-- the rejection test also refuses a line whose name part is not a PEP 508 distribution name
  (`or not VALID_PACKAGE_NAME.fullmatch(parts[0])`; the repair of C20-F6) -/
  nameCheck : Bool
  /-- the table is keyed by the PEP 503 normal form of the name (`pkg_name = canonical_name(parts[0])`; repair of
  C20-F7) -/
  normNames : Bool
  /-- the record is read through `{canonical_name(k): v …}` (second half of the repair of C20-F7) -/
  normRecKeys : Bool
  /-- the install decision compares versions through `same_version` (text equality, else `Version` equality; a string
  that is not a version only equals itself) instead of `Version(a) != Version(b)` (repair of C20-F9) -/
  tolerantCmp : Bool
  /-- what the installer did install is recorded before its `RequirementsNotFound` is raised again (repair of C20-F5) -/
  recordPartial : Bool
deriving DecidableEq, Repr

/-- **the code today**: every value is read off `requirements.py` by `tools/extractors/C20.py` on every run
(`Gen/ReqTbl.lean`); the theorems about `current` are therefore re-checked against what the code says now, and a
shape the extractor does not know withholds the definition.  The further shape parameters that have no pre-fix
variant (comment mark, strip, blank skip, the `==` split and its part limit, the case split `REQ_MERGE_ROWS`, the opt-in
guard, the per-package decision `REQ_DECIDE_ROWS`) are used directly by the functions below. -/
def current : Cfg :=
  { validateFirstPin := Gen.REQ_VALIDATE_FIRST_PIN, specPats := Gen.REQ_SPEC_PATS.map String.toList,
    stripBom := Gen.REQ_STRIP_BOM, nameCheck := Gen.REQ_NAME_CHECK, normNames := Gen.REQ_NORMALISE_NAMES,
    normRecKeys := Gen.REQ_RECORD_KEYS_NORMALISED, tolerantCmp := Gen.REQ_TOLERANT_COMPARE,
    recordPartial := Gen.REQ_RECORDS_PARTIAL_INSTALL }

/-- hand-written: the code as it was at the end of the build round (after e2ec6b7, d07dfc5 + 5d02a52, ed5a646; before
the repairs of C20-F5/F6/F7/F9) – the regression configuration for those four -/
def Cfg.round3 : Cfg :=
  { validateFirstPin := true, specPats := [[','], ['>'], ['<'], ['~', '='], ['!', '=']], stripBom := true,
    nameCheck := false, normNames := false, normRecKeys := false, tolerantCmp := false, recordPartial := false }

/-- hand-written: the code after the repair of C20-F9 (`same_version`); what `current` is generated to be today
(`Props.C20_current_shape`) -/
def Cfg.round4 : Cfg := { Cfg.round3 with tolerantCmp := true }

/-- before `fix:` ed5a646 (finding C20-F8): files read with `encoding="utf-8"` -/
def Cfg.preBomFix : Cfg := { Cfg.round3 with stripBom := false }

/-- before the first `fix:` commits: the first pin is never validated (l.102–103 absent) and the rejection test is
`"," in pkg or ">" in pkg or "<" in pkg` -/
def Cfg.preFix : Cfg := { Cfg.round3 with validateFirstPin := false, specPats := [[','], ['>'], ['<']], stripBom := false }

/-- `UNPINNED_VERSION` -/
def UNP : Str := Gen.UNPINNED_VERSION.toList

/-! ## line parsing -/

/-- `str.strip()` whitespace (the ASCII part) -/
def isWs (c : Char) : Bool :=
  c == ' ' || c == '\t' || c == '\n' || c == '\r' || c == '\x0b' || c == '\x0c'

def lstrip (s : Str) : Str := s.dropWhile isWs
def strip (s : Str) : Str := (lstrip (lstrip s).reverse).reverse

/-- `i = pkg.find("#"); if i >= 0: pkg = pkg[:i]` – the mark is `Gen.REQ_COMMENT_MARK` -/
def cutComment (s : Str) : Str := s.takeWhile (fun c => c != Gen.REQ_COMMENT_MARK)

/-- `s.split(ab)` for a two-character separator (left to right, non-overlapping); `acc` is the current part reversed -/
def splitPair (a b : Char) : Str → Str → List Str
  | [], acc => [acc.reverse]
  | [c], acc => [(c :: acc).reverse]
  | x :: y :: rest, acc =>
    if x = a ∧ y = b then acc.reverse :: splitPair a b rest [] else splitPair a b (y :: rest) (x :: acc)

/-- `pkg.split("==")` – the separator is `Gen.REQ_PIN_SEP` -/
def splitEq (s acc : Str) : List Str := splitPair Gen.REQ_PIN_SEP.1 Gen.REQ_PIN_SEP.2 s acc

/-- `pat in s` for strings: `pat` occurs as a contiguous substring -/
def hasSub (pat : Str) : Str → Bool
  | [] => pat.isEmpty
  | c :: cs => pat.isPrefixOf (c :: cs) || hasSub pat cs

/-- `any(spec in pkg for spec in pats)` -/
def hasSpecPat (pats : List Str) (s : Str) : Bool := pats.any (fun p => hasSub p s)

/-- what is left of a line after comment removal and (`Gen.REQ_STRIP_AFTER_COMMENT`) `strip` -/
def body (raw : Str) : Str := if Gen.REQ_STRIP_AFTER_COMMENT then strip (cutComment raw) else cutComment raw

/-- characters of a distribution name -/
def nameChar (c : Char) : Bool := c.isAlphanum || c == '-' || c == '_' || c == '.'

/-- `VALID_PACKAGE_NAME.fullmatch(n)` for `[A-Za-z0-9]([A-Za-z0-9._-]*[A-Za-z0-9])?` (PEP 508): not empty, only name
characters, first and last one alphanumeric -/
def pep508Name (n : Str) : Bool :=
  match n with
  | [] => false
  | c :: _ => c.isAlphanum && n.all nameChar && (match n.getLast? with
    | some l => l.isAlphanum
    | none => false)

/-- the last operand of the rejection test, present when `nameCheck` -/
def accept (nameCheck : Bool) (n : Str) (pin : Option Str) : Option (Str × Option Str) :=
  if nameCheck && !pep508Name n then none else some (n, pin)

/-- `(pkg_name, pin)`; `pin = none` for an unpinned line; `none` = the line is skipped by the rejection test
(`len(parts) > REQ_MAX_PARTS or any(spec in pkg …) [or not VALID_PACKAGE_NAME.fullmatch(parts[0])]`) -/
def parseParts (pats : List Str) (nameCheck : Bool) (pkg : Str) : Option (Str × Option Str) :=
  if hasSpecPat pats pkg then none
  else match splitEq pkg [] with
    | [] => none
    | [n] => if 1 > Gen.REQ_MAX_PARTS then none else accept nameCheck n none
    | n :: v :: rest => if rest.length + 2 > Gen.REQ_MAX_PARTS then none else accept nameCheck n (some v)

/-- one line under the rejection set `pats`; an empty body is skipped first when `Gen.REQ_SKIP_BLANK` -/
def parseLineWith (pats : List Str) (nameCheck : Bool) (raw : Str) : Option (Str × Option Str) :=
  if Gen.REQ_SKIP_BLANK && (body raw).isEmpty then none else parseParts pats nameCheck (body raw)

def parseLine (cfg : Cfg) (raw : Str) : Option (Str × Option Str) := parseLineWith cfg.specPats cfg.nameCheck raw

/-- `new_version` -/
def newVersion : Option Str → Str
  | none => UNP
  | some v => v

/-! ## the table and the five-way merge -/

structure Entry where
  name : Str
  version : Str
  sources : List Nat          -- ids of the requirements files (ATTR_SOURCES)
  installed : Option Str      -- ATTR_INSTALLED_VERSION
deriving DecidableEq, Repr

/-- `all_requirements_to_install`: a dict in insertion order -/
abbrev Table := List Entry

def find (t : Table) (n : Str) : Option Entry :=
  match t with
  | [] => none
  | e :: es => if e.name = n then some e else find es n

/-- `.get(pkg_name, {}).get(ATTR_VERSION)` -/
def versionOf (t : Table) (n : Str) : Option Str := (find t n).map (·.version)

/-- `d[e.name] = e`: replace in place or append -/
def upsert (t : Table) (e : Entry) : Table :=
  match t with
  | [] => [e]
  | x :: xs => if x.name = e.name then e :: xs else x :: upsert xs e

def modify (t : Table) (n : Str) (f : Entry → Entry) : Table :=
  t.map (fun x => if x.name = n then f x else x)

/-- what one branch of the case split does: `record` (l.109 and l.131), `keep` (l.117, l.169, and `except ValueError`),
`addSource` (l.148), `bump` (l.154) -/
abbrev Branch := Gen.ReqAct

/-- `Version(cur) <op> Version(new)`; `none` = one of them raises (`InvalidVersion`, a `ValueError`; also written for
`Version(None)`, which no table whose first row is `unset` ever evaluates) -/
def verCmp {V} (ver : Ver V) (cur : Option Str) (new : Str) (f : V → V → Bool) : Option Bool :=
  match cur with
  | none => none
  | some c =>
    match ver.parse c, ver.parse new with
    | some a, some b => some (f a b)
    | _, _ => none

/-- the test of one row of the case split on the recorded version string `cur` (`none` = package not in the table)
and the new one; `none` = evaluating it raises `ValueError` -/
def condHolds {V} (ver : Ver V) (cur : Option Str) (new : Str) : Gen.ReqCond → Option Bool
  | .unset => some (decide (cur = none ∨ cur = some []))                      -- `not current_pinned_version`: "" is falsy too
  | .newUnpCurPin => some (decide (new = UNP ∧ cur ≠ some UNP))
  | .newPinCurUnp => some (decide (new ≠ UNP ∧ cur = some UNP))
  | .bothUnpOrVerEq =>
    if new = UNP ∧ cur = some UNP then some true else verCmp ver cur new (fun a b => ver.le a b && ver.le b a)
  | .curLtNew => verCmp ver cur new (fun a b => ver.le a b && !ver.le b a)
  | .curGtNew => verCmp ver cur new (fun a b => ver.le b a && !ver.le a b)

/-- an if / elif chain: the first row whose test holds decides; a raising test skips the line (`except ValueError`);
no row = nothing happens -/
def branchRows {V} (ver : Ver V) (cur : Option Str) (new : Str) : List (Gen.ReqCond × Gen.ReqAct) → Branch
  | [] => .keep
  | (c, a) :: rest =>
    match condHolds ver cur new c with
    | none => .keep
    | some true => a
    | some false => branchRows ver cur new rest

/-- the case split of l.109–169 as the code has it today: the rows `Gen.REQ_MERGE_ROWS` read off the source -/
def branch {V} (ver : Ver V) (cur : Option Str) (new : Str) : Branch := branchRows ver cur new Gen.REQ_MERGE_ROWS

/-- the same case split written out by hand (the shape at the end of the build round).  `Lemmas.branch_eq_ref` proves
`branch = branchRef` against the generated rows on every run.  `Version(cur)` is evaluated before `Version(new)`;
either failing skips the line. -/
def branchRef {V} (ver : Ver V) (cur : Option Str) (new : Str) : Branch :=
  match cur with
  | none => .record
  | some c =>
    if c = [] then .record                                   -- "" is falsy too
    else if new = UNP ∧ c ≠ UNP then .keep
    else if new ≠ UNP ∧ c = UNP then .record
    else if new = UNP ∧ c = UNP then .addSource
    else match ver.parse c, ver.parse new with
      | some a, some b =>
        if ver.le a b && ver.le b a then .addSource
        else if ver.le a b then .bump
        else .keep
      | _, _ => .keep

/-- `get_installed_version(pkg_name)` against the site: `importlib.metadata.version("")` raises `ValueError`
(`none` here – the line is then skipped by the enclosing `except ValueError`) -/
def getInstalled (site : Str → Option Str) (name : Str) : Option (Option Str) :=
  if name = [] then none else some (site name)

def addSrc (src : Nat) (e : Entry) : Entry := { e with sources := e.sources ++ [src] }
def setVer (src : Nat) (v : Str) (e : Entry) : Entry := { e with version := v, sources := [src] }

def merge1 {V} (ver : Ver V) (site : Str → Option Str) (t : Table) (src : Nat) (name new : Str) : Table :=
  match branch ver (versionOf t name) new with
  | .record =>
    match getInstalled site name with
    | none => t
    | some inst => upsert t { name := name, version := new, sources := [src], installed := inst }
  | .addSource => modify t name (addSrc src)
  | .bump => modify t name (setVer src new)
  | .keep => t

/-- l.102–103 (the repair of C20-F1/F2/F4): a pin that is not a version is dropped before anything else looks at
it – `Version(new_version)` raises `InvalidVersion`, a `ValueError`, and the enclosing `except` skips the line -/
def rejectedByFix {V} (cfg : Cfg) (ver : Ver V) (pin : Option Str) : Bool :=
  cfg.validateFirstPin && (match pin with
    | some v => (ver.parse v).isNone
    | none => false)

/-- separators that PEP 503 name normalisation collapses -/
def isNameSep (c : Char) : Bool := c == '-' || c == '_' || c == '.'

/-- PEP 503: lower case, every run of `- _ .` becomes one `-`.  `importlib.metadata` and pip identify a distribution
by this form – `My_Pkg`, `my-pkg` and `my.pkg` are the same package for them (pyscript compares the raw text) -/
def normName : Str → Str
  | [] => []
  | c :: cs =>
    if isNameSep c then
      match normName cs with
      | '-' :: r => '-' :: r
      | r => '-' :: r
    else c.toLower :: normName cs

/-- `pkg_name`: the text before `==`, or (`normNames`) its PEP 503 normal form -/
def keyOf (cfg : Cfg) (n : Str) : Str := if cfg.normNames then normName n else n

/-- what one raw line means to the code: `(table key, pin)`, or `none` when the line is skipped (blank, rejection
test, a pin that is not a version once `validateFirstPin`) -/
def meaning {V} (cfg : Cfg) (ver : Ver V) (raw : Str) : Option (Str × Option Str) :=
  match parseLine cfg raw with
  | none => none
  | some (name, pin) => if rejectedByFix cfg ver pin then none else some (keyOf cfg name, pin)

/-- one line of one file -/
def processLine {V} (cfg : Cfg) (ver : Ver V) (site : Str → Option Str) (t : Table) (l : Nat × Str) : Table :=
  match meaning cfg ver l.2 with
  | none => t
  | some (key, pin) => merge1 ver site t l.1 key (newVersion pin)

def mergeAll {V} (cfg : Cfg) (ver : Ver V) (site : Str → Option Str) (ls : List (Nat × Str)) : Table :=
  ls.foldl (processLine cfg ver site) []

/-! ## which files are read -/

structure File where
  id : Nat
  dir : List Str              -- directory components below the pyscript folder
  lines : List Str
deriving Repr

def splitOn (sep : Char) : Str → Str → List Str
  | [], acc => [acc.reverse]
  | c :: rest, acc => if c = sep then acc.reverse :: splitOn sep rest [] else splitOn sep rest (c :: acc)

/-- components of one `REQUIREMENTS_PATHS` entry (`""` = the pyscript folder itself) -/
def patComps (p : Str) : List Str := if p = [] then [] else splitOn '/' p []

/-- one path component against one pattern component; `glob` without `recursive=True` treats `**` like `*`,
and `*` does not match hidden names -/
def compMatch (pat comp : Str) : Bool :=
  if pat = ['*'] ∨ pat = ['*', '*'] then !comp.isEmpty && comp.head? != some '.' else pat == comp

def dirMatch : List Str → List Str → Bool
  | [], [] => true
  | p :: ps, c :: cs => compMatch p c && dirMatch ps cs
  | _, _ => false

/-- files in the order `process_all_requirements` reads them: pattern by pattern; within one pattern in the
order `glob` returned them (the order of `files`) -/
def selectFiles (paths : List String) (files : List File) : List File :=
  paths.flatMap (fun p => files.filter (fun f => dirMatch (patComps p.toList) f.dir))

/-- U+FEFF, what the three bytes EF BB BF decode to under plain utf-8 -/
def BOM : Char := '\uFEFF'

/-- the decoder: `File.lines` are the lines of the file decoded as plain utf-8 (a byte-order mark, if the file has
one, is the first character of the first line); `utf-8-sig` drops it -/
def decodeLines (cfg : Cfg) (lines : List Str) : List Str :=
  if cfg.stripBom then
    match lines with
    | (c :: l) :: ls => if c = BOM then l :: ls else lines
    | _ => lines
  else lines

def fileLines (cfg : Cfg) (f : File) : List (Nat × Str) := (decodeLines cfg f.lines).map (fun l => (f.id, l))

def allLines (cfg : Cfg) (files : List File) : List (Nat × Str) :=
  (selectFiles Gen.REQUIREMENTS_PATHS files).flatMap (fileLines cfg)

/-! ## install decision (`install_requirements`) -/

/-- `pyscript_installed_packages`: package → version pyscript installed (a dict in insertion order) -/
abbrev Rec := List (Str × Str)

def rget (r : Rec) (n : Str) : Option Str :=
  match r with
  | [] => none
  | (k, v) :: rs => if k = n then some v else rget rs n

def rpop (r : Rec) (n : Str) : Rec := r.filter (fun kv => kv.1 ≠ n)

def rset (r : Rec) (n v : Str) : Rec :=
  match r with
  | [] => [(n, v)]
  | (k, w) :: rs => if k = n then (k, v) :: rs else (k, w) :: rset rs n v

/-- Python truthiness of `pkg_installed_version` -/
def truthy : Option Str → Option Str
  | some [] => none
  | x => x

inductive PkgDec where
  | install | pop | nothing | raise
deriving DecidableEq, Repr

def veq {V} (ver : Ver V) (a b : V) : Bool := ver.le a b && ver.le b a

/-- `same_version(a, b)`: the same text, or both versions and equal as versions; a string that is not a version only
equals itself -/
def sameV {V} (ver : Ver V) (a b : Str) : Bool :=
  a == b || (match ver.parse a, ver.parse b with
    | some x, some y => veq ver x y
    | _, _ => false)

/-- `Version(a) != Version(b)` (`none` = `InvalidVersion` escapes `install_requirements`), or
`not same_version(a, b)` when `tolerantCmp` -/
def differs {V} (cfg : Cfg) (ver : Ver V) (a b : Str) : Option Bool :=
  if cfg.tolerantCmp then some (!sameV ver a b)
  else match ver.parse a, ver.parse b with
    | some x, some y => some (!veq ver x y)
    | _, _ => none

def hostAct : Gen.HostAct → PkgDec
  | .install => .install
  | .pop => .pop
  | .nothing => .nothing

/-- the test of one row of the per-package decision for an INSTALLED package (`i` = the installed version, truthy);
`recd` = `pyscript_installed_packages.get(package)` at that moment, `want` = the version to install; `none` = raises -/
def hostHolds {V} (cfg : Cfg) (ver : Ver V) (recd : Option Str) (i want : Str) : Gen.HostCond → Option Bool
  | .notInstalled => some false
  | .unpinnedRecTextDiffers => some (decide (want = UNP) && (match recd with
      | some r => decide (r ≠ i)                                                 -- string comparison (l.233–236)
      | none => false))
  | .unpinned => some (decide (want = UNP))
  | .recVersionDiffers => (match recd with
      | some r => differs cfg ver r i                                     -- l.243: externally managed now
      | none => some false)
  | .recAndWantDiffers => (match recd with
      | some _ => differs cfg ver want i                                  -- l.259
      | none => some false)
  | .otherwise => some true

def hostRows {V} (cfg : Cfg) (ver : Ver V) (recd : Option Str) (i want : Str) : List (Gen.HostCond × Gen.HostAct) → PkgDec
  | [] => .nothing
  | (c, a) :: rest =>
    match hostHolds cfg ver recd i want c with
    | none => .raise
    | some true => hostAct a
    | some false => hostRows cfg ver recd i want rest

/-- what the row `notInstalled` (the `else` of `if pkg_installed_version:`) does -/
def notInstalledAct : List (Gen.HostCond × Gen.HostAct) → PkgDec
  | [] => .nothing
  | (c, a) :: rest => if c = .notInstalled then hostAct a else notInstalledAct rest

/-- l.221–277 for one package as the code has it today: the rows `Gen.REQ_DECIDE_ROWS` read off the source -/
def decidePkg {V} (cfg : Cfg) (ver : Ver V) (recd : Option Str) (e : Entry) : PkgDec :=
  match truthy e.installed with
  | none => notInstalledAct Gen.REQ_DECIDE_ROWS
  | some inst => hostRows cfg ver recd inst e.version Gen.REQ_DECIDE_ROWS

/-- the same decision written out by hand (`Lemmas.decidePkg_eq_ref`) -/
def decidePkgRef {V} (cfg : Cfg) (ver : Ver V) (recd : Option Str) (e : Entry) : PkgDec :=
  match truthy e.installed with
  | none => .install                                          -- l.277
  | some inst =>
    if e.version = UNP then                                   -- l.224
      match recd with
      | some r => if r ≠ inst then .pop else .nothing         -- string comparison (l.233–237)
      | none => .nothing
    else match recd with
      | none => .nothing                                      -- l.265: installed by somebody else
      | some r =>
        match differs cfg ver r inst with
        | none => .raise                                      -- InvalidVersion escapes install_requirements
        | some true => .pop                                   -- l.243: externally managed now
        | some false =>
          match differs cfg ver e.version inst with           -- l.259
          | none => .raise
          | some true => .install
          | some false => .nothing

structure LoopSt where
  recd : Rec
  toInstall : List Entry
deriving Repr

def applyDec (st : LoopSt) (e : Entry) : PkgDec → Option LoopSt
  | .install => some { st with toInstall := st.toInstall ++ [e] }
  | .pop => some { st with recd := rpop st.recd e.name }
  | .nothing => some st
  | .raise => none

/-- the `for package in all_requirements` loop; `none` = an exception escaped -/
def decideLoop {V} (cfg : Cfg) (ver : Ver V) : Table → LoopSt → Option LoopSt
  | [], st => some st
  | e :: es, st =>
    match applyDec st e (decidePkg cfg ver (rget st.recd e.name) e) with
    | none => none
    | some st' => decideLoop cfg ver es st'

inductive Phase1 where
  | blocked                                   -- l.212–217: requirements present, allow_all_imports off
  | raised
  | go (rec1 : Rec) (toInstall : List Entry)
deriving DecidableEq, Repr

def phase1 {V} (cfg : Cfg) (ver : Ver V) (allowAll : Bool) (t : Table) (r : Rec) : Phase1 :=
  if Gen.REQ_OPTIN_GUARD && !t.isEmpty && !allowAll then .blocked
  else match decideLoop cfg ver t { recd := r, toInstall := [] } with
    | none => .raised
    | some st => .go st.recd st.toInstall

/-- the requirement string handed to `async_process_requirements` -/
def argOf (e : Entry) : Str := if e.version ≠ UNP then e.name ++ ['=', '='] ++ e.version else e.name

def installArgs (es : List Entry) : List Str := es.map argOf

/-- `pyscript_installed_packages.update({package: version …})` -/
def recUpdate (r : Rec) (es : List Entry) : Rec := es.foldl (fun r e => rset r e.name e.version) r

/-- `update_unpinned_versions` (only called when some value is the sentinel) -/
def resolveOne (site : Str → Option Str) (kv : Str × Str) : Option (Str × Str) :=
  if kv.2 ≠ UNP then some kv
  else match truthy (site kv.1) with
    | some i => some (kv.1, i)
    | none => none

def resolveUnpinned (site : Str → Option Str) (r : Rec) : Rec :=
  if r.any (fun kv => kv.2 = UNP) then r.filterMap (resolveOne site) else r

/-- everything after the installer returned: `site'` is the site as it is then -/
def phase2 (site' : Str → Option Str) (rec1 : Rec) (toInstall : List Entry) : Rec :=
  resolveUnpinned site' (recUpdate rec1 toInstall)

/-- dict equality (keys are unique) -/
def dictEq (a b : Rec) : Bool :=
  a.length == b.length && a.all (fun kv => rget b kv.1 == some kv.2)

/-! ## environment: site-packages and the index behind the installer (used by the driver and by the
idempotence theorem's hypothesis; NOT pyscript code) -/

structure World where
  site : Rec                  -- installed distributions
  index : Rec                 -- version an unpinned install would fetch
deriving Repr

/-- a plain distribution name as the index / site-packages know it -/
def envName (c : Char) : Bool := c.isAlphanum || isNameSep c
def isEnvName (n : Str) : Bool := !n.isEmpty && n.all envName

/-- the distribution a requirement name refers to for the installer: `name` or `name[extra,…]`; anything else
(pip option, URL, marker, blanks, BOM) is not something it can install -/
def reqDist (n : Str) : Option Str :=
  let base := n.takeWhile (fun c => c != '[')
  let rest := n.dropWhile (fun c => c != '[')
  if isEnvName base && (rest.isEmpty || rest.getLast? == some ']') then some (normName base) else none

/-- `importlib.metadata.version(name)`: looked up under the normalised name (a name that is not a plain distribution
name is simply not found) -/
def World.installed (w : World) (n : Str) : Option Str := rget w.site (normName n)

/-- one requirement: `p==v` succeeds iff `p` names a distribution and `v` is a version, `p` iff the index knows it -/
def installOne {V} (ver : Ver V) (w : World) (e : Entry) : Option World :=
  match reqDist e.name with
  | none => none
  | some d =>
    if e.version ≠ UNP then
      match ver.parse e.version with
      | some _ => some { w with site := rset w.site d e.version }
      | none => none
    else match rget w.index d with
      | some v => some { w with site := rset w.site d v }
      | none => none

/-- Home Assistant (`_install_requirements_if_missing`) tries every requirement, keeps what succeeded, and raises
`RequirementsNotFound` afterwards if any failed; the flag is "no failure" -/
def installAll {V} (ver : Ver V) : World → List Entry → World × Bool
  | w, [] => (w, true)
  | w, e :: es =>
    match installOne ver w e with
    | some w' => installAll ver w' es
    | none => ((installAll ver w es).1, false)

/-- observable result of one `install_requirements` call -/
structure Out where
  table : Table
  args : Option (List Str)    -- `none`: installer not called
  rec' : Rec
  updated : Bool              -- `async_update_entry` called
  exc : Option String
deriving Repr

/-- how the record is read from the config entry: as it is, or (`normRecKeys`) through
`{canonical_name(k): v for k, v in ….items()}` – a later spelling of the same package overwrites the value of an
earlier one in the earlier one's place -/
def readRec (cfg : Cfg) (r : Rec) : Rec :=
  if cfg.normRecKeys then r.foldl (fun acc kv => rset acc (normName kv.1) kv.2) [] else r

/-- `was_installed(package, version)` after a failed installer call: the package is there now and – when a version
was asked for – in that version (before the call it was absent or in a different version) -/
def wasInstalled {V} (ver : Ver V) (site' : Str → Option Str) (e : Entry) : Bool :=
  match truthy (site' e.name) with
  | none => false
  | some i => e.version == UNP || sameV ver i e.version

/-- the end of `install_requirements`: the new record and whether it is stored (`!=` the stored one) -/
def finish (site' : Str → Option Str) (r rec1 : Rec) (ti : List Entry) : Rec × Bool :=
  let r' := phase2 site' rec1 ti
  if dictEq r' r then (r, false) else (r', true)

def runOnce {V} (cfg : Cfg) (ver : Ver V) (w : World) (allowAll : Bool) (r : Rec) (ls : List (Nat × Str)) :
    World × Out :=
  let t := mergeAll cfg ver w.installed ls
  match phase1 cfg ver allowAll t (readRec cfg r) with
  | .blocked => (w, { table := t, args := none, rec' := r, updated := false, exc := none })
  | .raised => (w, { table := t, args := none, rec' := r, updated := false, exc := some "InvalidVersion" })
  | .go rec1 ti =>
    if ti.isEmpty then
      (w, { table := t, args := none, rec' := (finish w.installed r rec1 ti).1,
            updated := (finish w.installed r rec1 ti).2, exc := none })
    else
      match installAll ver w ti with
      | (w', false) =>
        if cfg.recordPartial then
          (w', { table := t, args := some (installArgs ti),
                 rec' := (finish w'.installed r rec1 (ti.filter (wasInstalled ver w'.installed))).1,
                 updated := (finish w'.installed r rec1 (ti.filter (wasInstalled ver w'.installed))).2,
                 exc := some "RequirementsNotFound" })
        else
          (w', { table := t, args := some (installArgs ti), rec' := r, updated := false,
                 exc := some "RequirementsNotFound" })
      | (w', true) =>
        (w', { table := t, args := some (installArgs ti), rec' := (finish w'.installed r rec1 ti).1,
               updated := (finish w'.installed r rec1 ti).2, exc := none })

/-! ## PEP 440 versions – the instance the driver and the witnesses use

`[v][N!]N(.N)*[{a|b|rc}N][.postN][.devN][+local]` with the spellings `packaging.version` normalises (upper case,
`alpha`/`beta`/`c`/`pre`/`preview`, `rev`/`r`, `-N` for a post release, optional `- _ .` separators, surrounding
blanks).  A version is mapped to a list of naturals whose lexicographic order (`leNum`, a proper prefix is smaller)
is packaging's order:

    epoch :: (release without trailing zeros, each + 5) ++ [pre, preN, post, postN, dev, devN] ++ local

* pre: 0 = dev release without pre/post (sorts before everything of that release), 1/2/3 = a/b/rc, 4 = none
* post: 0 none, 1 present;  dev: 0 present, 1 none (a dev release sorts before the release it belongs to)
* a release component (≥ 5) is larger than every `pre` tag, so `1.2.post9 < 1.2.1.dev0`
* local: nothing = smallest; a numeric segment `[2, n]` beats an alphanumeric one `[1, c₁+1, …, 0]`. -/

def digitVal (c : Char) : Option Nat := if '0' ≤ c ∧ c ≤ '9' then some (c.toNat - 48) else none

def natOfDigits : Str → Nat → Option Nat
  | [], acc => some acc
  | c :: cs, acc => match digitVal c with
    | some d => natOfDigits cs (acc * 10 + d)
    | none => none

def isDig (c : Char) : Bool := (digitVal c).isSome

/-- `[0-9]+` at the front -/
def readNat (s : Str) : Option (Nat × Str) :=
  let d := s.takeWhile isDig
  if d.isEmpty then none else (natOfDigits d 0).map (fun n => (n, s.dropWhile isDig))

/-- drop trailing zeros: `1.0.0` and `1` are the same release -/
def dropZeros : List Nat → List Nat
  | [] => []
  | x :: xs => match dropZeros xs with
    | [] => if x = 0 then [] else [x]
    | ys => x :: ys

/-- `(.N)*`; the fuel is the length of the input -/
def relTail : Nat → Str → List Nat × Str
  | 0, s => ([], s)
  | f + 1, '.' :: cs =>
    match readNat cs with
    | some (n, r) => (n :: (relTail f r).1, (relTail f r).2)
    | none => ([], '.' :: cs)
  | _ + 1, s => ([], s)

/-- `[-_.]?` -/
def dropSep : Str → Str
  | c :: cs => if isNameSep c then cs else c :: cs
  | [] => []

/-- the first keyword (in the order of the regex alternatives) that is a prefix -/
def firstKw : List (Str × Nat) → Str → Option (Nat × Str)
  | [], _ => none
  | (k, t) :: ks, s => if k.isPrefixOf s then some (t, s.drop k.length) else firstKw ks s

def optNat (s : Str) : Nat × Str :=
  match readNat s with
  | some x => x
  | none => (0, s)

/-- `[-_.]? keyword [-_.]? N?` → (tag, N, rest); `none` and nothing consumed when no keyword follows -/
def kwSeg (kws : List (Str × Nat)) (s : Str) : Option (Nat × Nat × Str) :=
  match firstKw kws (dropSep s) with
  | none => none
  | some (t, r) => some (t, (optNat (dropSep r)).1, (optNat (dropSep r)).2)

def preKws : List (Str × Nat) :=
  [("alpha".toList, 1), ("a".toList, 1), ("beta".toList, 2), ("b".toList, 2), ("preview".toList, 3),
   ("pre".toList, 3), ("c".toList, 3), ("rc".toList, 3)]
def postKws : List (Str × Nat) := [("post".toList, 1), ("rev".toList, 1), ("r".toList, 1)]
def devKws : List (Str × Nat) := [("dev".toList, 0)]

/-- post release: `-N` or the keyword form -/
def postSeg (s : Str) : Option (Nat × Str) :=
  match s with
  | '-' :: cs =>
    match readNat cs with
    | some (n, r) => some (n, r)
    | none => (kwSeg postKws s).map (fun x => (x.2.1, x.2.2))
  | _ => (kwSeg postKws s).map (fun x => (x.2.1, x.2.2))

def splitSeps : Str → Str → List Str
  | [], acc => [acc.reverse]
  | c :: rest, acc => if isNameSep c then acc.reverse :: splitSeps rest [] else splitSeps rest (c :: acc)

def encLocalSeg (seg : Str) : Option (List Nat) :=
  if seg.isEmpty || !seg.all Char.isAlphanum then none
  else if seg.all isDig then (natOfDigits seg 0).map (fun n => [2, n])
  else some (1 :: seg.map (fun c => c.toNat + 1) ++ [0])

def encLocal : List Str → Option (List Nat)
  | [] => some []
  | x :: xs => match encLocalSeg x, encLocal xs with
    | some a, some b => some (a ++ b)
    | _, _ => none

/-- everything after the release -/
def parseSuffix (rel : List Nat) (epoch : Nat) (s : Str) : Option (List Nat) :=
  let pre := kwSeg preKws s
  let s1 := match pre with | some x => x.2.2 | none => s
  let post := postSeg s1
  let s2 := match post with | some x => x.2 | none => s1
  let dev := kwSeg devKws s2
  let s3 := match dev with | some x => x.2.2 | none => s2
  let preTok : List Nat := match pre with
    | some x => [x.1, x.2.1]
    | none => if post.isNone && dev.isSome then [0, 0] else [4, 0]
  let postTok : List Nat := match post with | some x => [1, x.1] | none => [0, 0]
  let devTok : List Nat := match dev with | some x => [0, x.2.1] | none => [1, 0]
  let head := epoch :: (dropZeros rel).map (· + 5) ++ preTok ++ postTok ++ devTok
  match s3 with
  | [] => some head
  | '+' :: l => (encLocal (splitSeps l [])).map (fun e => head ++ e)
  | _ => none

/-- the release and what follows, after the optional epoch -/
def parseFrom (epoch : Nat) (s : Str) : Option (List Nat) :=
  match readNat s with
  | none => none
  | some (n, r) => parseSuffix (n :: (relTail r.length r).1) epoch (relTail r.length r).2

def stripV : Str → Str
  | 'v' :: r => r
  | s => s

def parseNum (s0 : Str) : Option (List Nat) :=
  let s := stripV ((strip s0).map Char.toLower)
  match readNat s with
  | none => none
  | some (n, r) =>
    match r with
    | '!' :: r' => parseFrom n r'
    | _ => parseFrom 0 s

def leNum : List Nat → List Nat → Bool
  | [], _ => true
  | _ :: _, [] => false
  | a :: as, b :: bs => a < b || (a == b && leNum as bs)

def numVer : Ver (List Nat) := { parse := parseNum, le := leNum }

end PsModel.C20
