import PsModel.Gen.TimeUnits
import PsModel.Model.C07
/-!
# C06 model – `TrigTime.timer_trigger_next` (and `parse_time_offset`) on spec ASTs

The calendar, `DTSpec` and `parseDT` (= `TrigTime.parse_date_time`) live in `Model/C07.lean` and are shared.

Mirrors `trigger.py`:
* `parse_time_offset` → `offUs` over the extracted unit table `Gen.timeUnits` (an unknown unit keeps scale 1);
* `timer_trigger_next` → `timerNext`: the loop over specifications with the accumulator `(next_time, next_time_adj)`
  updated by `if next_time is None or t < next_time`;
  - `once(...)`: first parse with day offset 0, `day_offset = (now - this_t).days + 1`, second parse with that offset unless
    it is 0 or the first result equals `startup_time`, the `startup` special case `now == this_t == startup_time`;
  - `period(start, interval[, end])`: without end the two updates (start itself, then
    `start + interval * (1 + floor((now - start) / interval))`); with end the `day_dither` loop `[-1, 0, 1]` (or `[0]` when a
    date is fixed) with `end_offset`, `break` on the first day that yields a candidate;
  - `cron(...)`: `croniter.get_next()` repeated until the UTC difference to `now` is positive; `next_time` is the local
    cron time, `next_time_adj = now + delta`.
* the tick index is exact integer floor division since fix c80f3bb (`TFlags.current`); the earlier floating point quotient
  `math.floor((now - start).total_seconds() / period)` is the parameter `fdiv`, used only under `TFlags.preFix` (the driver
  instantiates it with IEEE doubles exactly like Python did) – kept for the regression theorem.

Times are integer microseconds; `none` results of `parseDT` (non-existent dates) propagate as "raises".
-/
namespace PsModel.C06
open PsModel.C07 PsModel.Gen

/-! ## `parse_time_offset` -/

/-- `[+-] digits[.digits] unit` as written: value = mant / 10^dec -/
structure OffAst where
  neg : Bool
  mant : Nat
  dec : Nat
  unit : String
deriving DecidableEq, Repr

def unitRow (u : String) : List (List String × Nat) → Option Nat
  | [] => none
  | r :: rest => if r.1.contains u then some r.2 else unitRow u rest

/-- seconds per unit; an unknown unit is reported and keeps `scale = 1` -/
def unitScale (u : String) : Nat := (unitRow u timeUnits).getD 1

/-- `parse_time_offset(str)` in microseconds (exact whenever the value is a whole number of µs) -/
def offUs (o : OffAst) : Int :=
  let v : Int := ((o.mant * unitScale o.unit * 1000000 / 10 ^ o.dec : Nat) : Int)
  if o.neg then -v else v

/-! ## specifications -/

inductive TSpec where
  | once (d : DTSpec)
  | period (start : DTSpec) (per : Int) (stop : Option DTSpec)    -- interval in µs
  | cron (id : Nat)
deriving DecidableEq, Repr

structure Params where
  base : C07.Params
  /-- `math.floor((now - start).total_seconds() / period)` as the float arithmetic computes it (args in µs) -/
  fdiv : Int → Int → Int
  /-- `croniter(expr, t).get_next()`: the first local time matching the expression strictly after `t` -/
  cronNext : Nat → Int → Int
  /-- what `as_local(t).astimezone(UTC)` subtracts from the naive local time `t` (µs) -/
  utcOff : Int → Int

/-- the accumulator `(next_time, next_time_adj)` -/
structure NT where
  next : Option Int
  adj : Option Int
deriving DecidableEq, Repr

/-- `if next_time is None or t < next_time: next_time = t; next_time_adj = adj` -/
def NT.take (s : NT) (t adj : Int) : NT :=
  match s.next with
  | none => ⟨some t, some adj⟩
  | some n => if t < n then ⟨some t, some adj⟩ else s

/-- `timedelta.days` of a difference in µs (floor) -/
def tdDays (a : Int) : Int := a / usDay

/-! ### once -/

/-- the second `parse_date_time` call of `once(...)` -/
def onceSecond (byValue : Bool) (P : Params) (d : DTSpec) (now startup : Int) (first : Int × Bool) : Option (Int × Bool) :=
  let dayOffset := tdDays (now - first.1) + 1
  -- since the fix of C06-F3: `if day_offset != 0 and not (now == this_t and now == startup_time)`;
  -- before (`byValue`): `if day_offset != 0 and this_t != startup_time`
  if dayOffset != 0 && (if byValue then first.1 != startup else !(now == first.1 && now == startup)) then
    parseDT P.base d dayOffset now startup
  else some first

/-- candidate instant of one `once(...)`: outer `none` = raises, inner `none` = nothing to add -/
def onceCand (byValue : Bool) (P : Params) (d : DTSpec) (now startup : Int) : Option (Option Int) :=
  match parseDT P.base d 0 now startup with
  | none => none
  | some first =>
    match onceSecond byValue P d now startup first with
    | none => none
    | some r => some (if now < r.1 || (now == r.1 && now == startup) then some r.1 else none)

/-! ### period -/

/-- how the tick index is computed -/
structure TFlags where
  /-- before fix c80f3bb: `math.floor((now - start).total_seconds() / period)` in double arithmetic (parameter `fdiv`);
      now: `(now - start) // period_td`, exact floor division of timedeltas -/
  floatTick : Bool
  /-- before fix b7a2f54: a `ValueError` of the FIRST `parse_date_time` of `once(...)` (2/29 in a common year) leaves
      `timer_trigger_next`; now: `except ValueError: … continue` – the entry is skipped -/
  badDateRaises : Bool
  /-- before fix b7a2f54: `CroniterBadDateError` of `cron_iter.get_next()` (a day that never occurs: 30 2) leaves
      `timer_trigger_next`; now: `except CroniterBadDateError: … continue` – the entry is skipped -/
  cronDeadRaises : Bool
  /-- before the fix of C06-F11: a `ValueError` of the first `parse_date_time` of the start or the end of `period(...)` leaves
      `timer_trigger_next`; now both are inside `try … except ValueError: … continue` – the entry is skipped -/
  periodDateRaises : Bool
  /-- before the fix of C06-F3: the day-offset re-parse of `once(...)` is suppressed whenever the first parse EQUALS the start-up
      time (`this_t != startup_time`); now only at start-up itself (`not (now == this_t and now == startup_time)`) -/
  startupByValue : Bool
deriving DecidableEq, Repr

/-- the oldest code (before the fixes c80f3bb and b7a2f54) -/
def TFlags.preFix : TFlags := ⟨true, true, true, true, true⟩
/-- the code before fix b7a2f54 (after c80f3bb) -/
def TFlags.preFixSkip : TFlags := ⟨false, true, true, true, true⟩
/-- the code before the fixes of C06-F11 and C06-F3 (after b7a2f54) -/
def TFlags.preFixPeriod : TFlags := ⟨false, false, false, true, true⟩
/-- the code as it is -/
def TFlags.current : TFlags := ⟨false, false, false, false, false⟩

def quot (F : TFlags) (P : Params) (a per : Int) : Int := if F.floatTick then P.fdiv a per else a / per

/-- `start + ((now - start) // period_td + 1) * period_td`
    (before c80f3bb: `start + timedelta(seconds = period * (1.0 + floor((now - start) / period)))`) -/
def nextTick (F : TFlags) (P : Params) (start per now : Int) : Int := start + per * (1 + quot F P (now - start) per)

def periodNoEnd (F : TFlags) (P : Params) (st per now startup : Int) (s : NT) : NT :=
  let isStartup := now == st && now == startup
  let s1 := if now < st || isStartup then s.take st st else s
  if now ≥ st && !isStartup then
    (if now < nextTick F P st per now then s1.take (nextTick F P st per now) (nextTick F P st per now) else s1)
  else s1

/-- the `for day in day_dither:` loop; `none` = raises -/
def ditherLoop (F : TFlags) (P : Params) (startSpec stopSpec : DTSpec) (per endOff now startup : Int) (s : NT) : List Int → Option NT
  | [] => some s
  | day :: rest =>
    match parseDT P.base startSpec day now startup with
    | none => none
    | some st =>
      match parseDT P.base stopSpec (day + endOff) now startup with
      | none => none
      | some en =>
        if (decide (now < st.1) || (now == st.1 && now == startup)) && decide (st.1 ≤ en.1) then some (s.take st.1 st.1)
        else if decide (st.1 ≤ nextTick F P st.1 per now) && decide (nextTick F P st.1 per now ≤ en.1) then
          some (s.take (nextTick F P st.1 per now) (nextTick F P st.1 per now))
        else ditherLoop F P startSpec stopSpec per endOff now startup s rest

def periodWithEnd (F : TFlags) (P : Params) (startSpec stopSpec : DTSpec) (per now startup : Int) (st en : Int × Bool) (s : NT) :
    Option NT :=
  if !st.2 && !en.2 then
    ditherLoop F P startSpec stopSpec per (if en.1 < st.1 then 1 else 0) now startup s [-1, 0, 1]
  else ditherLoop F P startSpec stopSpec per 0 now startup s [0]

def periodStep (F : TFlags) (P : Params) (startSpec : DTSpec) (per : Int) (stop : Option DTSpec) (now startup : Int) (s : NT) :
    Option NT :=
  match parseDT P.base startSpec 0 now startup with
  | none => if F.periodDateRaises then none else some s     -- `except ValueError: … continue` (fix of C06-F11)
  | some st =>
    if per ≤ 0 then some s          -- "Invalid non-positive period": skipped
    else match stop with
      | none => some (periodNoEnd F P st.1 per now startup s)
      | some stopSpec =>
        match parseDT P.base stopSpec 0 now startup with
        | none => if F.periodDateRaises then none else some s
        | some en => periodWithEnd F P startSpec stopSpec per now startup st en s

/-! ### cron -/

/-- `while delta is None or delta <= 0: val = cron_iter.get_next(); delta = utc(val) - utc(now)` -/
def cronLoop (P : Params) (id : Nat) (now : Int) : Nat → Int → Option (Int × Int)
  | 0, _ => none
  | fuel + 1, cur =>
    let val := P.cronNext id cur
    let delta := (val - P.utcOff val) - (now - P.utcOff now)
    if delta ≤ 0 then cronLoop P id now fuel val else some (val, delta)

def cronFuel : Nat := 16

/-! ### the loop over specifications -/

def specStep (F : TFlags) (P : Params) (now startup : Int) (s : NT) : TSpec → Option NT
  | .once d =>
    match onceCand F.startupByValue P d now startup with
    | none =>
      -- since b7a2f54 only the FIRST parse is inside `try … except ValueError: continue`; the re-parse with the day offset is not
      if !F.badDateRaises && (parseDT P.base d 0 now startup).isNone then some s else none
    | some none => some s
    | some (some t) => some (s.take t t)
  | .period st per stop => periodStep F P st per stop now startup s
  | .cron id =>
    match cronLoop P id now cronFuel now with
    | none => if F.cronDeadRaises then none else some s    -- `get_next()` raised (modelled: the iterator never advances)
    | some r => some (s.take r.1 (now + r.2))

def specsLoop (F : TFlags) (P : Params) (now startup : Int) : List TSpec → NT → Option NT
  | [], s => some s
  | sp :: rest, s =>
    match specStep F P now startup s sp with
    | none => none
    | some s' => specsLoop F P now startup rest s'

/-- `TrigTime.timer_trigger_next(specs, now, startup_time)` → `(next_time, next_time_adj)`; `none` = raises -/
def timerNext (F : TFlags) (P : Params) (specs : List TSpec) (now startup : Int) : Option NT :=
  specsLoop F P now startup specs ⟨none, none⟩

/-- The wait-and-fire loop of both subsystems (`trigger_watch` l.1127–1167, `TimeTriggerDecorator._cycle`): read the clock,
compute the next instant, sleep until it, run the function with `trigger_time` = that instant, read the clock again.
`lat i` is how far the clock has moved past the instant when it is read again (`dt_now()` is strictly increasing, the
legacy loop additionally re-checks `actual_now < time_next` after an early wake-up, so `lat i ≥ 1`).  The result is the
list of `trigger_time`s of the runs; the loop ends when no instant is left. -/
def timeLoop (F : TFlags) (P : Params) (specs : List TSpec) (startup : Int) (lat : Nat → Int) : Nat → Int → List Int
  | 0, _ => []
  | n + 1, now =>
    match timerNext F P specs now startup with
    | some ⟨some t, _⟩ => t :: timeLoop F P specs startup lat n (t + lat n)
    | _ => []

/-! ### the wait across a zone-offset change

`timeLoop` above abstracts from how long the loops sleep.  The following model keeps real (elapsed) time `r` apart from the
wall clock `dt_now()`: the wall clock shows `r + Z.offReal r` (naive local time of a zone with DST), asyncio sleeps for real
seconds.  Both loops sleep `next_time_adj - now` first and then re-check the wall clock:
* legacy `trigger_watch` (l.1154–1158): `actual_now = dt_now(); if actual_now < time_next: timeout = time_next - actual_now; continue`
* new `TimeTriggerDecorator._cycle` (l.132–139): `timeout = (time_next - dt_now()).total_seconds(); if timeout <= 1e-6: break;
  sleep(timeout)` – since fix 0421163 it compares with `time_next` too; before, it compared with `time_next_adj`
  (finding C06-F5, kept as `WFlags.newPreFix`). -/

structure Zone where
  /-- what the wall clock adds to the real time `r` (µs) at that moment -/
  offReal : Int → Int

def wallAt (Z : Zone) (r : Int) : Int := r + Z.offReal r

/-- which instant the early-wake-up re-check compares the wall clock with -/
structure WFlags where
  /-- `time_next_adj` (new subsystem before fix 0421163) instead of `time_next` (legacy; new subsystem now) -/
  recheckAdj : Bool
  /-- how far (µs) before the instant the re-check lets the function run: legacy `actual_now < time_next` → 0,
      new `if timeout <= 1e-6: break` → 1 -/
  slack : Int
  /-- new subsystem since the fix of C06-F8: `now = dt_now(); if time_last is not None and now < time_last: now = time_last` –
      the next computation never starts before the instant just dispatched -/
  nowFloor : Bool
deriving DecidableEq, Repr

/-- `trigger_watch` as it is -/
def WFlags.legacy : WFlags := ⟨false, 0, false⟩
/-- `TimeTriggerDecorator._cycle` as it is (since fix 0421163 and the fix of C06-F8) -/
def WFlags.new : WFlags := ⟨false, 1, true⟩
/-- `TimeTriggerDecorator._cycle` before the fix of C06-F8 (after 0421163) -/
def WFlags.newPreFloor : WFlags := ⟨false, 1, false⟩
/-- `TimeTriggerDecorator._cycle` before fix 0421163 -/
def WFlags.newPreFix : WFlags := ⟨true, 1, false⟩

/-- the `now` the next computation starts from: the wall clock, but (new subsystem) not before the instant just dispatched -/
def floorNow (W : WFlags) (last : Option Int) (w : Int) : Int :=
  match last with
  | some l => if W.nowFloor && w < l then l else w
  | none => w

/-- the re-check loop after the first sleep: real time at which the function is run -/
def waitFire (W : WFlags) (Z : Zone) (next adj : Int) : Nat → Int → Int
  | 0, r => r
  | n + 1, r =>
    if wallAt Z r + W.slack < (if W.recheckAdj then adj else next) then
      waitFire W Z next adj n (r + ((if W.recheckAdj then adj else next) - wallAt Z r))
    else r

/-- the loops over real time: `(trigger_time, wall clock when the function runs, real time of the run)` -/
def dstLoopL (W : WFlags) (F : TFlags) (P : Params) (specs : List TSpec) (startup : Int) (Z : Zone) :
    Nat → Int → Option Int → List (Int × Int × Int)
  | 0, _, _ => []
  | n + 1, r, last =>
    match timerNext F P specs (floorNow W last (wallAt Z r)) startup with
    | some ⟨some t, some adj⟩ =>
      (t, wallAt Z (waitFire W Z t adj 4 (r + max 0 (adj - floorNow W last (wallAt Z r)))),
          waitFire W Z t adj 4 (r + max 0 (adj - floorNow W last (wallAt Z r)))) ::
        dstLoopL W F P specs startup Z n (waitFire W Z t adj 4 (r + max 0 (adj - floorNow W last (wallAt Z r)))) (some t)
    | _ => []

def dstLoop (W : WFlags) (F : TFlags) (P : Params) (specs : List TSpec) (startup : Int) (Z : Zone) (n : Nat) (r : Int) :
    List (Int × Int × Int) :=
  dstLoopL W F P specs startup Z n r none

/-! ### the decorator's arguments: "startup" / "shutdown" entries

`@time_trigger` takes time specifications and the two words `"startup"` and `"shutdown"`.
* legacy `TrigInfo.__init__` (l.936–946): a decorator WITHOUT argument list (`args is None`) means "run at startup"; then every
  `"startup"` / `"shutdown"` string is removed from the list (`while "startup" in lst: … lst.remove("startup")`), setting
  `run_on_startup` / `run_on_shutdown`; an emptied list becomes `None` (no time trigger).
* new `TimeTriggerDecorator.validate`: an EMPTY list (bare decorator or `()`) means "run at startup", then the same stripping. -/

inductive TArg where
  | startup
  | shutdown
  | spec (s : TSpec)
deriving DecidableEq, Repr

/-- `while m in lst: flag = True; lst.remove(m)` – was it there, and what is left -/
def strip (m : TArg) : List TArg → Bool × List TArg
  | [] => (false, [])
  | a :: rest => if a = m then (true, (strip m rest).2) else ((strip m rest).1, a :: (strip m rest).2)

def specsOf : List TArg → List TSpec
  | [] => []
  | .spec s :: rest => s :: specsOf rest
  | _ :: rest => specsOf rest

structure TrigCfg where
  runOnStartup : Bool
  runOnShutdown : Bool
  specs : List TSpec
deriving DecidableEq, Repr

namespace Legacy
/-- `none` = bare `@time_trigger` -/
def normalize : Option (List TArg) → TrigCfg
  | none => ⟨true, false, []⟩
  | some args => ⟨(strip .startup args).1, (strip .shutdown (strip .startup args).2).1, specsOf (strip .shutdown (strip .startup args).2).2⟩
end Legacy

namespace New
def normalize (args : Option (List TArg)) : TrigCfg :=
  match args.getD [] with
  | [] => ⟨true, false, []⟩
  | a :: rest => ⟨(strip .startup (a :: rest)).1, (strip .shutdown (strip .startup (a :: rest)).2).1,
      specsOf (strip .shutdown (strip .startup (a :: rest)).2).2⟩
end New

/-- one run of the function: at definition, at an instant, at removal -/
inductive Run where
  | startup
  | at (t : Int)
  | shutdown
deriving DecidableEq, Repr

/-- all runs of a trigger function that lives from `startup` until it is removed: the startup entry, the instants of the
    wait-and-fire loop, the shutdown entry -/
def funcRuns (F : TFlags) (P : Params) (cfg : TrigCfg) (startup : Int) (lat : Nat → Int) (fuel : Nat) : List Run :=
  (if cfg.runOnStartup then [Run.startup] else []) ++ (timeLoop F P cfg.specs startup lat fuel startup).map Run.at ++
    (if cfg.runOnShutdown then [Run.shutdown] else [])

/-- one specification alone -/
def timerNext1 (F : TFlags) (P : Params) (sp : TSpec) (now startup : Int) : Option (Option Int) :=
  (specStep F P now startup ⟨none, none⟩ sp).map (·.next)

end PsModel.C06
